"""C08 - Sequence expressions and sequence/aggregate functions equal the F&O list model."""
from __future__ import annotations

import math
from decimal import Decimal
from fractions import Fraction

from hypothesis import strategies as st

from vp.core import Disc, Recorder, derive_seed, hyp_collect, hyp_shrink, escape_bucket, canon
from vp.ref import interp
from vp.ref.interp import XPError, Budget
from vp.gen import c08_gen

PROPERTY = 'C08'
LEVEL = 'exploration'
RULE = ('expressions are generated as JSON ASTs (vp/gen/c08_gen.py), rendered to XPath text for elementpath '
        '(XPath2Parser / XPath30Parser / XPath31Parser) and interpreted by the definitional list-model interpreter '
        'vp/ref/interp.py. direct: every C08 function and construct applied to one generated environment (item '
        'sequences S, T of integers / mixed numerics / strings / untypedAtomic / element nodes; position and length '
        'arguments from integers, .5 fractions, <= 0, beyond length, INF, -INF, NaN, untypedAtomic, nodes). nested: '
        'typed recursive programs (comma, to, filter with position()/last(), for/some/every with 1-3 dependent '
        'variables, let, !, if, the function list) of nesting depth <= 3, half of them with variable names drawn from '
        'a two-name pool so that nested binders shadow outer variables that are read again afterwards. grid: complete '
        'enumeration of the position/length boundary grid (see exhaustive_note). equiv: the named F&O equivalences, both '
        'sides evaluated by elementpath. non-trivial = expression with a boundary argument (non-integer, <= 0, '
        'huge, non-finite, untyped or node position) or >= 2 nested constructs; distinct by parser version + '
        'rendered expression.')
ASSUMPTIONS = [
    'an observed xs:integer is accepted where the model gives an equal xs:decimal (subtype substitution: every '
    'xs:integer is an xs:decimal); the converse and every integer/decimal vs float/double difference is reported',
    'when the strict reference raises an error below the root of the expression, or at a root whose operands XPath '
    'allows to skip (and/or/some/every/general comparison), an elementpath value is not judged (XPath 3.1 2.3.4 '
    'lets an implementation skip the erroneous operand); an error raised by the root operation itself is demanded',
    'error codes are compared only when the reference error is raised by the root operation on error-free operands; '
    'XPTY0004, FORG0006 and FORG0001 (type / invalid-cast family) are treated as one code',
    'fn:distinct-values / fn:unordered are judged up to order (and distinct-values up to the choice of representative); '
    'inside larger programs they only occur under count(), which makes the result order-independent',
    'decimal results whose expansion does not terminate (avg of integers) are compared with relative tolerance 1e-18',
    'double/float sums are compared exactly when every partial sum in every order is exact (all values multiples of '
    'one power of two within the mantissa range: the generated doubles are small dyadic rationals, INF, -INF, NaN); '
    'otherwise fn:sum/fn:avg at the root are compared with the recursive-summation error bound n*eps*sum|x| around the '
    'exact rational result (F&O allows any order) and programs using such a sum elsewhere are not judged',
    'the xs:float value space is generated only with values exact in binary32; a result equal to the expected value '
    'after rounding to binary32 is bucketed apart (float32-precision)',
    'element nodes come from one fixed 6-element document selected with /r/name paths (path evaluation itself is C01)',
]
FLOORS = {
    'direct:boundary-arg': (0.30, 'direct:case'),
    'nested:depth>=2': (0.40, 'nested:case'),
    'nested:value-verdict': (0.60, 'nested:case'),
    'nested:binding-construct': (0.20, 'nested:case'),
    'nested:focus-construct': (0.20, 'nested:case'),
    'equiv:both-values': (0.60, 'equiv:case'),
    'nested:shadowing': (0.10, 'nested:case'),
    'direct:shadowing': (0.10, 'direct:case'),
    'grid:value-verdict': (0.80, 'grid:case'),
    'direct:stored-sequence-lookup': (0.05, 'direct:case'),
}

_DOC = None
_PARSERS = {}


def _doc():
    global _DOC
    if _DOC is None:
        _DOC = interp.build_doc()
    return _DOC


def _parser(v):
    if not _PARSERS:
        from elementpath import XPath2Parser
        from elementpath.xpath30 import XPath30Parser
        from elementpath.xpath31 import XPath31Parser
        _PARSERS.update({'20': XPath2Parser, '30': XPath30Parser, '31': XPath31Parser})
    return _PARSERS[v]


# --------------------------------------------------------------------------
# observation
# --------------------------------------------------------------------------
def obs_item(x):
    from elementpath.datatypes import Float, UntypedAtomic, AnyURI
    from elementpath.xpath_tokens import XPathFunction
    if isinstance(x, bool):
        return ['b', x]
    if isinstance(x, int):
        return ['i', int(x)]
    if isinstance(x, Decimal):
        if not x.is_finite():
            return ['d', str(x)]
        f = Fraction(x)
        return ['d', f'{f.numerator}/{f.denominator}']
    if isinstance(x, Float):
        return ['f', 'NaN' if math.isnan(x) else repr(float(x))]
    if isinstance(x, float):
        return ['D', 'NaN' if math.isnan(x) else repr(x)]
    if isinstance(x, UntypedAtomic):
        return ['u', str(x.value)]
    if isinstance(x, AnyURI):
        return ['a', str(x.value)]
    if isinstance(x, str):
        return ['s', str(x)] if type(x) is str else ['?', type(x).__name__ + ':' + str(x)]
    if hasattr(x, 'tag'):
        kids = list(_doc())
        for i, e in enumerate(kids):
            if e is x:
                return ['n', i]
        return ['n', -1 if x is _doc() else '?']
    if isinstance(x, XPathFunction):
        return ['fn', x.arity if hasattr(x, 'arity') else -1]
    return ['?', type(x).__name__]


def run_ep(expr: str, v: str, use_doc: bool, **parser_kwargs):
    """-> ('val', [canonical items]) | ('err', code) | ('escape', exception);  parser_kwargs e.g. default_collation"""
    from elementpath import select, ElementPathError
    try:
        if use_doc:
            r = select(_doc(), expr, parser=_parser(v), **parser_kwargs)
        else:
            r = select(None, expr, parser=_parser(v), item=1, **parser_kwargs)
    except ElementPathError as e:
        code = (getattr(e, 'code', None) or '?').split(':')[-1]
        return ('err', code)
    except Exception as e:      # anything else escaping elementpath (RecursionError too) is itself a discrepancy
        return ('escape', e)
    if not isinstance(r, list):
        r = [r]
    return ('val', [obs_item(x) for x in r])


# --------------------------------------------------------------------------
# comparison of canonical values
# --------------------------------------------------------------------------
def _frac(s):
    n, d = s.split('/')
    return Fraction(int(n), int(d))


def _terminates(fr: Fraction) -> bool:
    d = fr.denominator
    for p in (2, 5):
        while d % p == 0:
            d //= p
    return d == 1


def _number(it):
    t, v = it[0], it[1]
    if t == 'i':
        return Fraction(v)
    if t == 'd':
        return _frac(v) if '/' in v else None
    if t in 'fD':
        if v == 'NaN':
            return 'NaN'
        x = float(v)
        return Fraction(x) if math.isfinite(x) else x
    return None


def _same_number(a, b) -> bool:
    x, y = _number(a), _number(b)
    return x is not None and y is not None and x == y


def item_mismatch(exp, obs):
    """None if obs is acceptable for exp, else a short failure kind"""
    te, to = exp[0], obs[0]
    if te != to and not (te == 'd' and to in 'id') and not _same_number(exp, obs):
        return 'value'          # a different item altogether, not the right value with the wrong type
    if te == 'd':
        if to == 'i':
            return None if _frac(exp[1]) == obs[1] else 'value'
        if to == 'd':
            if '/' not in obs[1]:
                return 'value'
            e, o = _frac(exp[1]), _frac(obs[1])
            if e == o:
                return None
            if not _terminates(e) and abs(e - o) <= Fraction(1, 10 ** 18) * max(1, abs(e)):
                return None
            return 'value'
        return f'type:{te}->{to}'
    if te != to:
        return f'type:{te}->{to}'
    if exp[1] == obs[1]:
        return None
    if te == 'f' and exp[1] not in ('NaN',) and obs[1] not in ('NaN',):
        if repr(interp.f32(float(obs[1]))) == exp[1]:
            return 'float32-precision'
    if te in 'fD' and exp[1] in ('0.0', '-0.0') and obs[1] in ('0.0', '-0.0'):
        return 'zero-sign'
    return 'value'


def seq_mismatch(exp, obs):
    if len(exp) != len(obs):
        return 'length'
    kinds = [m for m in (item_mismatch(e, o) for e, o in zip(exp, obs)) if m]
    if not kinds:
        return None
    for pref in ('value',):
        if pref in kinds:
            return pref
    return kinds[0]


# --------------------------------------------------------------------------
# classification helpers
# --------------------------------------------------------------------------
_CONSTRUCTS = {'for', 'let', 'some', 'every', 'map', 'filter', 'call', 'if', 'to'}
_BINDING = {'for', 'let', 'some', 'every'}
_FOCUS = {'map', 'filter'}
_LAZY_ROOTS = {'and', 'or', 'some', 'every', 'gcmp', 'for', 'let', 'map', 'seq'}


def walk(n):
    if isinstance(n, list):
        if n and isinstance(n[0], str) and n[0] in ('str', 'dec', 'dbl', 'flt', 'unt', 'nodes', 'var', 'int', 'bool'):
            yield n
            return
        if n and isinstance(n[0], str):
            yield n
        for c in (n[1:] if n and isinstance(n[0], str) else n):
            yield from walk(c)


def depth(n):
    if not isinstance(n, list) or not n:
        return 0
    if isinstance(n[0], str):
        if n[0] in ('str', 'dec', 'dbl', 'flt', 'unt', 'nodes', 'var', 'int', 'bool'):
            return 0
        inc = 1 if n[0] in _CONSTRUCTS else 0
        return inc + max([depth(c) for c in n[1:]] or [0])
    return max([depth(c) for c in n] or [0])


def has_boundary(ast) -> bool:
    for n in walk(ast):
        t = n[0]
        if t in ('dec', 'dbl', 'flt', 'unt'):
            return True
        if t == 'int' and (n[1] <= 0 or n[1] >= 2 ** 31):
            return True
    return False


def construct_name(n):
    return 'fn:' + n[1] if n[0] == 'call' else n[0]


def _free_names(n, bound=frozenset()):
    if not (isinstance(n, list) and n and isinstance(n[0], str)):
        return set()
    t = n[0]
    if t == 'var':
        return set() if n[1] in bound else {n[1]}
    if t in ('str', 'dec', 'dbl', 'flt', 'unt', 'nodes', 'int', 'bool', 'empty', 'ctx', 'pos', 'last'):
        return set()
    out = set()
    if t in ('for', 'let', 'some', 'every'):
        b = set(bound)
        for nm, e in n[1]:
            out |= _free_names(e, frozenset(b))
            b.add(nm)
        return out | _free_names(n[2], frozenset(b))
    for c in (n[2] if t == 'call' else n[1:]):
        if isinstance(c, list):
            out |= _free_names(c, bound)
    return out


def _mentions(n, name):
    """$name occurs anywhere in n, as a reference or as the variable of a nested binder"""
    if not (isinstance(n, list) and n and isinstance(n[0], str)):
        return False
    t = n[0]
    if t == 'var':
        return n[1] == name
    if t in ('str', 'dec', 'dbl', 'flt', 'unt', 'nodes', 'int', 'bool', 'empty', 'ctx', 'pos', 'last'):
        return False
    if t in ('for', 'let', 'some', 'every'):
        return any(nm == name or _mentions(e, name) for nm, e in n[1]) or _mentions(n[2], name)
    return any(_mentions(c, name) for c in (n[2] if t == 'call' else n[1:]) if isinstance(c, list))


def range_mentions_own_name(n):
    """some for/some/every clause `$x in E` where $x occurs syntactically in E (legal XPath: E is evaluated in
    the outer scope, and a binder nested in E has its own $x)"""
    if not (isinstance(n, list) and n and isinstance(n[0], str)):
        return False
    t = n[0]
    if t in ('str', 'dec', 'dbl', 'flt', 'unt', 'nodes', 'var', 'int', 'bool', 'empty', 'ctx', 'pos', 'last'):
        return False
    if t in ('for', 'let', 'some', 'every'):
        for nm, e in n[1]:
            if t != 'let' and _mentions(e, nm) or range_mentions_own_name(e):
                return True
        return range_mentions_own_name(n[2])
    return any(range_mentions_own_name(c) for c in (n[2] if t == 'call' else n[1:]) if isinstance(c, list))


def has_shadowing(n, bound=frozenset()):
    """a for/let/some/every clause binds a name that is already bound where the binder stands"""
    if not (isinstance(n, list) and n and isinstance(n[0], str)):
        return False
    t = n[0]
    if t in ('str', 'dec', 'dbl', 'flt', 'unt', 'nodes', 'var', 'int', 'bool', 'empty', 'ctx', 'pos', 'last'):
        return False
    if t in ('for', 'let', 'some', 'every'):
        b = set(bound)
        for nm, e in n[1]:
            if nm in b or has_shadowing(e, frozenset(b)):
                return True
            b.add(nm)
        return has_shadowing(n[2], frozenset(b))
    kids = n[2] if t == 'call' else n[1:]
    return any(has_shadowing(c, bound) for c in kids if isinstance(c, list))


_SIG_ARGS = {'fn:remove': (1,), 'fn:insert-before': (1,), 'fn:subsequence': (1, 2), 'fn:index-of': (0, 1),
             'to': (0, 1)}
_ERR_FAMILY = {'XPTY0004': 'type', 'FORG0006': 'type', 'FORG0001': 'type'}


def arg_signature(ast, v):
    """type tags of the (reference-evaluated) relevant operands of the root node, e.g. 'Di|i' - best effort"""
    name = construct_name(ast)
    if ast[0] == 'call':
        kids = ast[2]
    elif ast[0] == 'to':
        kids = ast[1:]
    else:
        return ''
    idx = _SIG_ARGS.get(name, (0,))
    sigs = []
    for i in idx:
        if i >= len(kids):
            continue
        c = kids[i]
        try:
            val, _ = interp.evaluate(c, v, budget=5000)
        except (XPError, Budget):
            sigs.append('?')
            continue
        tags = sorted({('F' if interp.is_fn(it) else it[0]) for it in val})
        sigs.append(''.join(tags) or '0')
    return '|'.join(sigs)


def _needs_doc(ast):
    return any(n[0] == 'nodes' for n in walk(ast))


# --------------------------------------------------------------------------
# judge: one expression against the reference
# --------------------------------------------------------------------------
def _closed_subexprs(ast):
    """proper subexpressions that can be evaluated on their own (no free variable, no outer focus)"""
    out = []

    def free(n, bound, infocus):
        """True if n has a free variable or uses an outer focus"""
        t = n[0]
        if t in ('str', 'dec', 'dbl', 'flt', 'unt', 'nodes', 'int', 'bool', 'empty', '?'):
            return False
        if t == 'var':
            return n[1] not in bound
        if t in ('ctx', 'pos', 'last'):
            return not infocus
        if t in ('for', 'let', 'some', 'every'):
            b = set(bound)
            fr = False
            for nm, e in n[1]:
                fr = free(e, b, infocus) or fr
                b.add(nm)
            return free(n[2], b, infocus) or fr
        if t in ('map', 'filter'):
            return free(n[1], bound, infocus) or free(n[2], bound, True)
        if t == 'inline':
            return free(n[2], set(bound) | {p if isinstance(p, str) else p[0] for p in n[1]}, False)
        kids = n[2] if t in ('call', 'dyn') and isinstance(n[2], list) else []
        if t == 'call':
            return any(free(a, bound, infocus) for a in n[2])
        if t == 'dyn':
            return free(n[1], bound, infocus) or any(free(a, bound, infocus) for a in n[2])
        if t == 'array':
            return any(free(a, bound, infocus) for a in n[1])
        if t == 'mapc':
            return any(free(e, bound, infocus) for kv in n[1] for e in kv)
        kids = [c for c in n[1:] if isinstance(c, list)]
        return any(free(c, bound, infocus) for c in kids)

    def rec(n, top):
        t = n[0]
        if t in ('str', 'dec', 'dbl', 'flt', 'unt', 'nodes', 'int', 'bool', 'empty', 'var', 'ctx', 'pos', 'last', '?'):
            return
        if not top and not free(n, set(), False):
            out.append(n)
        if t in ('for', 'let', 'some', 'every'):
            for nm, e in n[1]:
                rec(e, False)
            rec(n[2], False)
        elif t in ('call',):
            for a in n[2]:
                rec(a, False)
        elif t == 'dyn':
            rec(n[1], False)
            for a in n[2]:
                rec(a, False)
        elif t == 'array':
            for a in n[1]:
                rec(a, False)
        elif t == 'mapc':
            for kv in n[1]:
                for e in kv:
                    rec(e, False)
        elif t == 'inline':
            rec(n[2], False)
        else:
            for c in n[1:]:
                if isinstance(c, list):
                    rec(c, False)
    rec(ast, True)
    return out


def judge_one(ast, v, check, localize=True):
    """-> (discs, info) ; info: dict(status=..., classes=[...])"""
    info = {'status': 'value', 'skipped': None}
    expr = interp.render(ast)
    use_doc = _needs_doc(ast)
    root = ast[0]
    rootname = construct_name(ast)
    # ---- reference
    order_dep_root = root == 'call' and ast[1] in ('distinct-values', 'unordered')
    try:
        if order_dep_root:
            ip = interp.Interp(v)
            argval = ip.run(ast[2][0])
            if ip.order_dependent:
                info['status'] = 'skipped'
                info['skipped'] = 'order-dependent'
                return [], info
            if ast[1] == 'unordered':
                exp = ('perm', interp.canon_seq(argval))
            else:
                cl = interp.distinct_classes(argval)
                if cl is None:
                    info['status'] = 'skipped'
                    info['skipped'] = 'non-transitive-equality'
                    return [], info
                exp = ('classes', [interp.canon_seq(c) for c in cl])
        else:
            ip = interp.Interp(v)
            val = ip.run(ast)
            if ip.order_dependent:
                info['status'] = 'skipped'
                info['skipped'] = 'order-dependent'
                return [], info
            if ip.inexact_sum is not None:
                # a float sum whose value depends on the order of the additions (allowed by F&O)
                if not (root == 'call' and ast[1] in ('sum', 'avg') and len(val) == 1):
                    info['status'] = 'skipped'
                    info['skipped'] = 'inexact-float-sum'
                    return [], info
                exp = ('approx', interp.canon_seq(val), ip.inexact_sum)
            else:
                exp = ('val', interp.canon_seq(val))
    except Budget as e:
        info['status'] = 'skipped'
        info['skipped'] = 'budget:' + str(e).split(':')[0][:30]
        return [], info
    except XPError as e:
        at_root = getattr(e, 'node', None) is ast
        mandatory = at_root and root not in _LAZY_ROOTS
        exp = ('err', e.code, mandatory)
        info['status'] = 'error-root' if mandatory else 'error-nested'
    # ---- elementpath
    obs = run_ep(expr, v, use_doc)
    discs: list[Disc] = []

    def bucket(kind, node=ast):
        if kind == 'unexpected-error:XPST0008' and range_mentions_own_name(node):
            return 'C08/range-mentions-own-name/unexpected-error:XPST0008'
        if kind == 'float32-precision':      # one root cause (xs:float kept in binary64) whatever the construct
            return f'C08/float32-precision/{construct_name(node)}'
        sig = arg_signature(node, v)
        return f'C08/{construct_name(node)}/{kind}/{sig}' if sig else f'C08/{construct_name(node)}/{kind}'

    kind = None
    if obs[0] == 'escape':
        kind = 'escape'
    elif exp[0] == 'err':
        if obs[0] == 'err':
            if exp[2] and obs[1] != exp[1] and _ERR_FAMILY.get(exp[1], exp[1]) != _ERR_FAMILY.get(obs[1], obs[1]):
                kind = f'error-code:{exp[1]}->{obs[1]}'
        elif exp[2]:
            kind = f'no-error:{exp[1]}'
        else:
            info['status'] = 'error-nested-unjudged'
    elif obs[0] == 'err':
        kind = f'unexpected-error:{obs[1]}'
    elif exp[0] == 'val':
        kind = seq_mismatch(exp[1], obs[1])
    elif exp[0] == 'approx':
        tag = exp[1][0][0]
        exact, bound = exp[2]
        if len(obs[1]) != 1:
            kind = 'length'
        elif obs[1][0][0] != tag:
            kind = f'type:{tag}->{obs[1][0][0]}'
        else:
            o = float(obs[1][0][1])
            if not math.isfinite(o) or abs(Fraction(o) - exact) > bound:
                kind = 'value'
            elif tag == 'f' and interp.f32(o) != o:
                kind = 'float32-precision'
    elif exp[0] == 'perm':
        if sorted(map(canon, exp[1])) != sorted(map(canon, obs[1])):
            # tolerate integer-for-decimal etc. by pairing greedily
            rest = list(obs[1])
            ok = len(rest) == len(exp[1])
            for e in exp[1]:
                j = next((j for j, o in enumerate(rest) if item_mismatch(e, o) is None), None)
                if j is None:
                    ok = False
                    break
                rest.pop(j)
            if not ok:
                kind = 'not-a-permutation'
    elif exp[0] == 'classes':
        classes = exp[1]
        if len(obs[1]) != len(classes):
            kind = 'distinct-count'
        else:
            hit = set()
            for o in obs[1]:
                j = next((j for j, c in enumerate(classes) if j not in hit and
                          any(item_mismatch(m, o) is None or (m[0] == 's' and o[0] == 'u' and m[1] == o[1])
                              for m in c)), None)
                if j is None:
                    kind = 'distinct-member'
                    break
                hit.add(j)
    if kind is None:
        return [], info
    # ---- localise: the smallest closed subexpression that fails on its own names the bucket
    if localize:
        for sub in sorted(_closed_subexprs(ast), key=lambda s: len(canon(s))):
            if sub[0] in ('array', 'mapc'):      # map / array values are not observable through select()
                continue
            ds, _ = judge_one(sub, v, check, localize=False)
            if ds:
                d = ds[0]
                d.detail = f'{v}: inside {expr}: ' + d.detail
                return [d], info
    exp_show = exp[1] if exp[0] != 'err' else 'error ' + exp[1]
    if kind == 'escape':
        discs.append(Disc(escape_bucket('C08', obs[1]) + '/' + rootname, exp_show, repr(obs[1]), f'{v}: {expr}'))
        return discs, info
    obs_show = obs[1] if obs[0] != 'err' else 'error ' + obs[1]
    discs.append(Disc(bucket(kind), exp_show, obs_show, f'{v}: {expr}'))
    return discs, info


def judge_expr(case, rec: Recorder | None = None, check='nested') -> list[Disc]:
    ast, v = case['ast'], case['v']
    discs, info = judge_one(ast, v, check)
    if rec is not None:
        cls = [f'{check}:case', f'{check}:v{v}', f'{check}:{info["status"]}']
        if info['skipped']:
            cls.append(f'{check}:skipped:{info["skipped"]}')
        b = has_boundary(ast)
        dp = depth(ast)
        tags = {n[0] for n in walk(ast)}
        if b:
            cls.append(f'{check}:boundary-arg')
        if dp >= 2:
            cls.append(f'{check}:depth>=2')
        if info['status'] == 'value':
            cls.append(f'{check}:value-verdict')
        if tags & _BINDING:
            cls.append(f'{check}:binding-construct')
        if tags & _FOCUS:
            cls.append(f'{check}:focus-construct')
        if 'nodes' in tags:
            cls.append(f'{check}:nodes')
        if has_shadowing(ast):
            cls.append(f'{check}:shadowing')
        if 'mapc' in tags or 'array' in tags:
            cls.append(f'{check}:stored-sequence-lookup')
        if check == 'direct':
            cls.append('direct:' + construct_name(ast))
        rec.case([v, interp.render(ast)], nontrivial=(b or dp >= 2) and info['status'] != 'skipped',
                 sample={'check': check, 'v': v, 'expr': interp.render(ast)}, classes=cls)
    return discs


# --------------------------------------------------------------------------
# batches: one hypothesis example carries several expressions (amortises the per-example overhead)
# --------------------------------------------------------------------------
@st.composite
def nested_batch(draw):
    v = draw(st.sampled_from(['31', '31', '31', '30', '20']))
    n = 6
    return {'v': v, 'asts': [draw(c08_gen.nested_program(v)) for _ in range(n)]}


# --------------------------------------------------------------------------
# equiv sub-check: the named F&O equivalences, both sides evaluated by elementpath
# --------------------------------------------------------------------------
_STRICT_ERRORS = {'subseq3', 'subseq2', 'remove-filter', 'rev-rev', 'tail-subseq', 'exists-empty', 'comma-assoc'}


def build_relation(case):
    """-> (L, R, mode) with mode 'same' | 'close' | 'true'; None if the parts do not fit the relation"""
    rel, S = case['rel'], case['S']
    c = lambda name, *args: ['call', name, list(args)]     # noqa: E731
    X = ['var', 'x']
    if rel == 'every-some':
        P = case['P']
        return ['every', [['x', S]], P], c('not', ['some', [['x', S]], c('not', P)]), 'same'
    if rel == 'subseq3':
        a, b = case['a'], case['b']
        pred = ['and', ['vcmp', 'le', c('round', a), ['pos']],
                ['vcmp', 'lt', ['pos'], ['arith', '+', c('round', a), c('round', b)]]]
        return c('subsequence', S, a, b), ['filter', S, pred], 'same'
    if rel == 'subseq2':
        a = case['a']
        return c('subsequence', S, a), ['filter', S, ['vcmp', 'le', c('round', a), ['pos']]], 'same'
    if rel == 'rev-rev':
        return c('reverse', c('reverse', S)), S, 'same'
    if rel == 'insert-count':
        return (c('count', c('insert-before', S, case['i'], case['T'])),
                ['arith', '+', c('count', S), c('count', case['T'])], 'same')
    if rel == 'remove-filter':
        return c('remove', S, case['i']), ['filter', S, ['vcmp', 'ne', ['pos'], case['i']]], 'same'
    if rel == 'tail-subseq':
        return c('tail', S), c('subsequence', S, ['int', 2]), 'same'
    if rel == 'head-first':
        return c('head', S), ['filter', S, ['int', 1]], 'same'
    if rel == 'sum-avg':
        return (c('sum', S), ['if', c('empty', S), ['int', 0], ['arith', '*', c('avg', S), c('count', S)]], 'close')
    if rel == 'minmax-bound':
        out = None
        for fn, op in (('max', 'ge'), ('min', 'le')):
            m = c(fn, S)
            e = ['if', c('empty', S), c('empty', m),
                 ['and', ['every', [['x', S]], ['vcmp', op, m, X]], ['some', [['x', S]], ['vcmp', 'eq', X, m]]]]
            out = e if out is None else ['and', out, e]
        return out, ['bool', True], 'same'
    if rel == 'filter-for':
        P = case['P']
        if c08_gen.uses_var_under_focus(P, 'x'):
            return None
        return (['filter', S, c08_gen.subst_var_by_ctx(P, 'x')],
                ['for', [['x', S]], ['if', P, X, ['empty']]], 'same')
    if rel == 'for-map':
        F = case['F']
        if c08_gen.uses_var_under_focus(F, 'x'):
            return None
        return ['for', [['x', S]], F], ['map', S, c08_gen.subst_var_by_ctx(F, 'x')], 'same'
    if rel == 'exists-empty':
        return c('exists', S), c('not', c('empty', S)), 'same'
    if rel == 'some-filter':
        P = case['P']
        return (['some', [['x', S]], P], c('exists', ['for', [['x', S]], ['if', P, ['int', 1], ['empty']]]), 'same')
    if rel == 'comma-assoc':
        T, U = case['T'], case['U']
        return ['seq', ['seq', S, T], U], ['seq', S, ['seq', T, U]], 'same'
    if rel == 'index-of-def':
        x = case['x']
        return (c('index-of', S, x),
                ['for', [['i', ['to', ['int', 1], c('count', S)]]],
                 ['if', ['vcmp', 'eq', ['filter', S, ['var', 'i']], x], ['var', 'i'], ['empty']]], 'same')
    if rel == 'last-reverse':
        return ['filter', S, ['last']], ['filter', c('reverse', S), ['int', 1]], 'same'
    if rel == 'first-subseq':
        return ['filter', S, ['int', 1]], c('subsequence', S, ['int', 1], ['int', 1]), 'same'
    if rel == 'distinct-bound':
        d = c('distinct-values', S)
        return (['and', ['vcmp', 'le', c('count', d), c('count', S)],
                 ['and', ['vcmp', 'eq', c('count', c('distinct-values', d)), c('count', d)],
                  ['vcmp', 'eq', c('empty', d), c('empty', S)]]], ['bool', True], 'same')
    if rel == 'count-for':
        return c('count', S), c('sum', ['for', [['x', S]], ['int', 1]]), 'same'
    if rel == 'count-map':
        return c('count', S), c('count', ['map', S, ['int', 1]]), 'same'
    raise ValueError(rel)


def _close(a, b):
    """two canonical numeric singletons equal within 1e-18 relative"""
    if len(a) != 1 or len(b) != 1:
        return False

    def fr(it):
        if it[0] == 'i':
            return Fraction(it[1])
        if it[0] == 'd' and '/' in it[1]:
            return _frac(it[1])
        return None
    x, y = fr(a[0]), fr(b[0])
    if x is None or y is None:
        return False
    return abs(x - y) <= Fraction(1, 10 ** 18) * max(1, abs(x))


def judge_equiv(case, rec: Recorder | None = None) -> list[Disc]:
    v, rel = case['v'], case['rel']
    built = build_relation(case)
    status = 'both-values'
    discs: list[Disc] = []
    if built is not None:
        # guard only: a side the reference cannot finish within its step budget (huge ranges) is not run
        for side in built[:2]:
            try:
                interp.evaluate(side, v)
            except Budget:
                built = None
                status = 'budget'
                break
            except XPError:
                pass
    if built is None:
        status = 'not-applicable' if status == 'both-values' else status
    else:
        L, R, mode = built
        use_doc = _needs_doc(L) or _needs_doc(R)
        le, re_ = interp.render(L), interp.render(R)
        ol, orr = run_ep(le, v, use_doc), run_ep(re_, v, use_doc)
        kind = None
        if ol[0] == 'escape' or orr[0] == 'escape':
            bad = ol if ol[0] == 'escape' else orr
            discs.append(Disc(escape_bucket('C08', bad[1]) + '/equiv/' + rel, 'no escape', repr(bad[1]),
                              f'{v}: {le}  ==  {re_}'))
            status = 'escape'
        elif ol[0] == 'err' and orr[0] == 'err':
            status = 'both-errors'
        elif ol[0] == 'err' or orr[0] == 'err':
            status = 'asymmetric-error'
            if rel in _STRICT_ERRORS:
                kind = 'error-asymmetry'
        elif mode == 'close':
            if not (ol[1] == orr[1] or _close(ol[1], orr[1])):
                kind = 'value'
        elif ol[1] != orr[1]:
            kind = 'length' if len(ol[1]) != len(orr[1]) else 'value'
            if kind == 'value' and all(item_mismatch(x, y) is None or item_mismatch(y, x) is None
                                       for x, y in zip(ol[1], orr[1])):
                kind = None         # integer vs equal decimal
        if kind:
            discs.append(Disc(f'C08/equiv/{rel}/{kind}', ol[1], orr[1], f'{v}: {le}  ==  {re_}'))
    if rec is not None:
        cls = ['equiv:case', f'equiv:{rel}', f'equiv:{status}']
        parts = [case.get(k) for k in ('S', 'T', 'U', 'a', 'b', 'i', 'P', 'F', 'x') if case.get(k) is not None]
        b = any(has_boundary(p) for p in parts)
        dp = max(depth(p) for p in parts) + 1
        rec.case([v, rel, parts], nontrivial=(b or dp >= 2) and status in ('both-values', 'both-errors'),
                 sample={'check': 'equiv', 'v': v, 'rel': rel,
                         'left': interp.render(built[0]) if built else None,
                         'right': interp.render(built[1]) if built else None}, classes=cls)
    return discs


# --------------------------------------------------------------------------
# grid sub-check: COMPLETE enumeration of the boundary grid of position / length arguments
# --------------------------------------------------------------------------
_BIG = '1' + '0' * 300          # 1e300 written without exponent (the renderer appends e0 for doubles)
EXHAUSTIVE_NOTE = ('sub-check grid enumerates completely: fn:subsequence#3 over {-INF,-1e300,-1.5,-0.5,0,0.5,1,1.5,2.5,'
                   'size,size+0.5,1e300,INF,NaN}^2 with every value as xs:double and the finite ones as xs:decimal / '
                   'xs:integer, for sequences of 0,1,3,5 items, each as the function call AND as the filter '
                   'S[round(a) le position() and position() lt round(a)+round(b)]; fn:subsequence#2, E[n], '
                   'E[position() eq n] over the same set; fn:insert-before / fn:remove over the integer grid plus '
                   'untypedAtomic and (error) decimal/double positions')


def _grid_values(size):
    """[(AST, is_integer_typed)] of the boundary set, every value in all its numeric types"""
    fin = ['-' + _BIG, '-1.5', '-0.5', '0', '0.5', '1', '1.5', '2.5', str(size), str(size) + '.5', _BIG]
    out = []
    for s in fin:
        out.append(['dbl', s if '.' in s else s + '.0'])
        out.append(['dec', s if '.' in s else s + '.0'])
        if '.' not in s:
            out.append(['int', int(s)])
    out += [['dbl', 'INF'], ['dbl', '-INF'], ['dbl', 'NaN']]
    return out


def _int_grid(size):
    ints = [-10 ** 300, -2 ** 63, -1, 0, 1, 2, size - 1, size, size + 1, size + 2, 2 ** 63, 10 ** 300]
    out = [['int', i] for i in ints]
    out += [['unt', str(i)] for i in (-1, 0, 1, size, size + 1)] + [['unt', ' 2 ']]
    out += [['dec', '1.0'], ['dec', '1.5'], ['dbl', '1.0'], ['dbl', 'INF'], ['dbl', 'NaN'], ['empty'],
            ['seq', ['int', 1], ['int', 2]]]                       # type errors demanded at the root
    return out


def grid_cases():
    """the complete, deterministic list of {'v', 'ast'} cases of the grid"""
    c = lambda name, *args: ['call', name, list(args)]     # noqa: E731
    cases = []
    for size in (0, 1, 3, 5):
        S = ['empty'] if size == 0 else ['int', 11] if size == 1 else ['seq', *[['int', 10 + i] for i in range(1, size + 1)]]
        vals = _grid_values(size)
        for a in vals:
            ra = c('round', a)
            for v in ('31', '20'):
                cases.append({'v': v, 'ast': c('subsequence', S, a)})
                cases.append({'v': v, 'ast': ['filter', S, ['vcmp', 'le', ra, ['pos']]]})
                cases.append({'v': v, 'ast': ['filter', S, a]})
                cases.append({'v': v, 'ast': ['filter', S, ['vcmp', 'eq', ['pos'], a]]})
            for b in vals:
                for v in (('31', '20') if a[0] == 'dbl' and b[0] == 'dbl' else ('31',)):
                    cases.append({'v': v, 'ast': c('subsequence', S, a, b)})
                    cases.append({'v': v, 'ast': ['filter', S, ['and', ['vcmp', 'le', ra, ['pos']],
                                                                ['vcmp', 'lt', ['pos'], ['arith', '+', ra, c('round', b)]]]]})
        T = ['seq', ['int', 91], ['int', 92]]
        for i in _int_grid(size):
            for v in ('31', '20'):
                cases.append({'v': v, 'ast': c('remove', S, i)})
                cases.append({'v': v, 'ast': c('insert-before', S, i, T)})
                cases.append({'v': v, 'ast': c('insert-before', S, i, ['empty'])})
                if i[0] == 'int':
                    cases.append({'v': v, 'ast': ['filter', S, ['vcmp', 'ne', ['pos'], i]]})
    return cases


# --------------------------------------------------------------------------
# module interface
# --------------------------------------------------------------------------
def selftest():
    interp.self_test()
    assert item_mismatch(['d', '4/1'], ['i', 4]) is None
    assert item_mismatch(['i', 4], ['d', '4/1']) == 'type:i->d'
    assert item_mismatch(['D', '3.0'], ['i', 3]) == 'type:D->i'
    assert item_mismatch(['d', '4/3'], ['d', '1333333333333333333333333333/1000000000000000000000000000']) is None
    assert item_mismatch(['d', '5/2'], ['d', '2500000000000000001/1000000000000000000']) == 'value'
    assert seq_mismatch([['i', 1]], []) == 'length'
    assert item_mismatch(['D', '3.0'], ['s', 'a']) == 'value' and item_mismatch(['n', 1], ['i', 1]) == 'value'
    assert item_mismatch(['f', 'NaN'], ['D', 'NaN']) == 'type:f->D' and item_mismatch(['i', 2], ['D', '3.0']) == 'value'
    assert has_boundary(['call', 'subsequence', [['empty'], ['dec', '1.5']]])
    assert depth(['for', [['x', ['empty']]], ['filter', ['var', 'x'], ['int', 1]]]) == 2


def jobs(tier, seed):
    q = tier == 'quick'
    out = []
    # measured cpu per shard (idle core): direct 41 ms/example (about 45 expressions), nested 11 ms/example (6), equiv 2.8 ms
    # quick: longest shard about 23 s cpu (60 s target with margin); thorough: about 6 min
    plan = [('direct', 4, 450 if q else 10000), ('nested', 8, 1200 if q else 30000), ('equiv', 4, 5500 if q else 140000)]
    for name, shards, n in plan:
        for i in range(shards):
            out.append({'check': name, 'shard': i, 'n': n, 'seed': derive_seed(seed, 'C08', name, i)})
    for i in range(_GRID_PARTS):          # complete enumeration, identical in both tiers and for every seed
        out.append({'check': 'grid', 'part': i, 'of': _GRID_PARTS})
    return out


_BATCH = {'direct': c08_gen.direct_batch(), 'nested': nested_batch()}
_GRID_PARTS = 4


def run_job(job, rec: Recorder):
    chk = job['check']
    if chk == 'grid':
        for one in grid_cases()[job['part']::job['of']]:
            rec.discs_of('grid', one, judge_expr(one, rec, 'grid'))
        return
    if chk == 'equiv':
        hyp_collect(c08_gen.equiv_case(), lambda case: rec.discs_of('equiv', case, judge_equiv(case, rec)),
                    job['n'], job['seed'], rec)
        return

    def body(case):
        for ast in case['asts']:
            one = {'v': case['v'], 'ast': ast}
            rec.discs_of(chk, one, judge_expr(one, rec, chk))
    hyp_collect(_BATCH[chk], body, job['n'], job['seed'], rec)


def shrink_job(job, bucket, budget):
    chk = job['check']
    if chk == 'grid':           # nothing to shrink: report the smallest failing grid case
        best = None
        for one in grid_cases()[job['part']::job['of']]:
            for d in judge_expr(one, None, 'grid'):
                if d.bucket == bucket and (best is None or len(canon(one)) < len(canon(best[0]))):
                    best = (one, d)
        return best
    if chk == 'equiv':
        return hyp_shrink(c08_gen.equiv_case(), judge_equiv, bucket, job['n'], job['seed'], budget)
    got = hyp_shrink(_BATCH[chk], lambda case: judge(chk, case), bucket, job['n'], job['seed'], budget)
    if got is None:
        return None
    case, d = got
    # reduce the batch to the single failing expression
    for ast in case['asts']:
        one = {'v': case['v'], 'ast': ast}
        for dd in judge(chk, one):
            if dd.bucket == bucket:
                return one, dd
    return case, d


def judge(check, case):
    if check == 'equiv':
        return judge_equiv(case)
    if 'asts' in case:
        out = []
        for ast in case['asts']:
            out.extend(judge_expr({'v': case['v'], 'ast': ast}, None, check))
        return out
    return judge_expr(case, None, check)
