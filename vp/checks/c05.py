"""C05 - Evaluation is pure and repeatable; variable bindings are lexically scoped."""
from __future__ import annotations

import datetime

from hypothesis import strategies as st

from vp.core import Disc, Recorder, derive_seed, hyp_collect, hyp_shrink, escape_bucket
from vp.gen import xml as GX

PROPERTY = 'C05'
LEVEL = 'exploration'
RULE = ('hist: hypothesis-generated histories: a pool of 2-4 documents (shared TreeSpec generator, xml.etree and lxml, '
        'Element or ElementTree roots), 3-6 expressions from a template table (paths, for/let/some/every, date/time '
        'arithmetic on variables, inline functions, maps/arrays, lookups) each compiled ONCE as a Selector and as a parsed '
        'token, 2-3 caller-side variable maps holding mutable values (xs:dateTime/date/time objects without timezone, '
        'lists, Elements) and implicit-timezone settings; 10-40 steps (selector, mode select/iter_select/token.evaluate/'
        'token.select, document, variable map, timezone) in any order. oracle per step: canonical result == result of a '
        'freshly parsed expression on freshly built inputs; select == list(iter_select); own canonical dumps of every '
        'document, every caller variable (incl. tzinfo) and the namespaces dict are unchanged. non-trivial history = '
        'some selector evaluated on >= 2 different documents, or a variable map reused after an evaluation that '
        'received a timezone. scope: generated programs over for/let/some/every/inline-function binders with '
        'shadowing, judged by an own environment-passing interpreter (values, or XPST0008 for a free variable); '
        'non-trivial = a binder shadows a name that is also read outside it. distinct by canonical case. '
        'round 2: the template table also holds partial application and reuse of caller-owned function items (named '
        'reference, inline, partial, map, array passed as variable values, own dump of kind/name/arity/bound arguments), '
        'multi-clause for/some/every that rebind a name of an earlier clause, fn:serialize with every serialization '
        'parameter in map and element form (succeeding and failing values) on trees with tails, parse-xml, parse-json, '
        'json-to-xml, xml-to-json with options; scope programs contain multi-clause for/let/some/every binders in which '
        'a later clause rebinds the name of an earlier one and a range expression in between reads it. '
        'round 3: the variable maps of one history differ in SHAPE ($v bound to an item, a sequence, another type, a node; '
        '$w / $zz present in some maps only; $seq / $nodes sometimes a bare item) and all tokens of a history are parsed by '
        'one parser instance per version; mode "four" calls the module-level select() and iter_select() and '
        'Selector.select() / iter_select() with the same full set of keyword arguments (namespaces, parser, uri, fragment, '
        'item, position, size, axis, schema, variables, current_dt, timezone) and demands that the four agree. '
        'round 4: timezone-less date/time values inside caller-owned lists, maps and arrays reached through predicates, '
        'for, if, head(), !, inline-function parameters, map/array call, lookup and map:get/array:get as operands of '
        'date/time subtraction under an implicit timezone; named references to context-dependent functions of arity 0 '
        '(name#0, string#0, root#0, local-name#0, data#0, position#0, last#0, ...) called dynamically by a reused '
        'Selector/token on different documents and context items. '
        'round 5: literal map / array constructors whose entries depend on $variables or on the document, consumed '
        'directly by ?*, ?key, ?(expr), unary lookup in predicates, call syntax, map:for-each, map:keys, map:get, '
        'array:flatten, array:get and !, re-evaluated by the same Selector/token with other variables and documents.')
ASSUMPTIONS = [
    'repeatability compares elementpath with itself (pooled selector/token vs freshly parsed expression on freshly '
    'built inputs): the property names this relation; both sides failing in the same way is not a C05 discrepancy',
    'nodes are identified by (kind, structural address of the owner element, name/index, string value); '
    'purity is observed on the python objects handed in (tag, attrib order, text, tail, children, lxml nsmap), '
    'not on C-level lxml state; schema proxies are not used',
    'current_dt is fixed by the caller on both sides; templates avoid fn:random-number-generator, fn:doc and collations',
    'caller-owned function items are dumped as (class, kind, name, arity, nargs, instance-level evaluate/select overrides, '
    'bound argument tokens of a PARTIAL function with placeholders as "?"); the argument tokens that a plain function '
    'item keeps from its last call and the value parked in a placeholder are treated as scratch, not as state',
    'scope programs use integer/string literals, sequences, +, =, count() only, so that the reference interpreter '
    'is definitional; XPST0008 is accepted at parse time or at evaluation time',
]
FLOORS = {
    'hist:selector-on-2-docs': (0.60, 'hist'),
    'hist:vars-reused-after-tz': (0.40, 'hist'),
    'step:lxml': (0.20, 'step'),
    'step:token-mode': (0.20, 'step'),
    'hist:selector-with-2-variable-shapes': (0.50, 'hist'),
    'step:poly-variable': (0.04, 'step'),
    'step:indirect-date-time-operand': (0.03, 'step'),
    'step:indirect-date-time-operand-with-tz': (0.45, 'step:indirect-date-time-operand'),
    'step:context-function-reference': (0.03, 'step'),
    'step:literal-constructor-consumed': (0.04, 'step'),
    'step:regex-collation-picture-from-variables': (0.05, 'step'),
    'step:caller-map-array-multi-item': (0.05, 'step'),
    'hist:regex-same-pattern-other-flags': (0.15, 'hist'),
    'step:entry-points-compared': (0.20, 'step'),
    'step:entry-points-compared-with-tz': (0.40, 'step:entry-points-compared'),
    'step:function-item': (0.03, 'step'),
    'step:serialize': (0.04, 'step'),
    'step:serialize-doc-with-tails': (0.40, 'step:serialize'),
    'step:rebind': (0.015, 'step'),
    'scope:multi-clause-rebind': (0.10, 'scope'),
    'scope:shadowing': (0.40, 'scope'),
    'scope:free-variable': (0.05, 'scope'),
    'scope:inline-function': (0.12, 'scope'),
}

NS = {'p': 'urn:p', 'q': 'urn:q', 'xs': 'http://www.w3.org/2001/XMLSchema'}
FIXED_DT = datetime.datetime(2020, 5, 17, 10, 30, 0, tzinfo=datetime.timezone.utc)
TZS = [None, 'Z', '+05:00', '-03:30', None, '+05:00', '-05:00']

# --------------------------------------------------------------------------
# expression templates: (name, minimal parser version, xpath)
# --------------------------------------------------------------------------
TEMPLATES = [
    ('all-elements', 2, '//*'),
    ('first-children', 2, '/*/*[1]'),
    ('attributes', 2, '//@*'),
    ('texts', 2, '//text()'),
    ('count-nodes', 2, 'count(//node())'),
    ('parents-of-x', 2, '//*[@x]/..'),
    ('last-element', 2, '(//*)[last()]'),
    ('union', 2, '//a | //b'),
    ('leaves', 2, '//*[not(*)]'),
    ('names-joined', 2, "string-join(for $e in //* return local-name($e), '/')"),
    ('ns-path', 2, '//p:a | //q:b'),
    ('depths', 2, 'for $e in //* return count($e/ancestor::*)'),
    ('eq-string-var', 2, '//*[. = $s]'),
    ('misc-nodes', 2, '//comment() | //processing-instruction()'),
    ('root', 2, '/'),
    ('self', 2, '.'),
    ('root-fn', 2, 'root(.)'),
    ('position-var', 2, '//*[position() = $n]'),
    ('following', 2, '//*[1]/following::*'),
    ('reverse-axis', 2, '(//*)[last()]/preceding::*[1]'),
    ('in-scope-prefixes', 2, 'for $e in //* return count(in-scope-prefixes($e))'),
    ('arith-var', 2, '$n + 1'),
    ('filter-seq', 2, '$seq[. > $n]'),
    ('for-seq', 2, 'for $x in $seq return $x * $n'),
    ('for-shadow', 2, '(for $n in $seq return $n + 1, $n)'),
    ('some', 2, 'some $x in $seq satisfies $x = $n'),
    ('every-shadow', 2, '(every $n in $seq satisfies $n > 0, $n)'),
    ('seq-of-vars', 2, '($s, $n, $seq)'),
    ('var-element-attrs', 2, '$e/@*'),
    ('var-nodes-parent', 2, '$nodes/..'),
    ('var-node-identity', 2, '$e is $nodes[1]'),
    ('index-of', 2, 'index-of($seq, $n)'),
    ('reverse', 2, 'reverse($seq)'),
    ('insert-before', 2, 'insert-before($seq, 1, $n)'),
    ('remove', 2, 'remove($seq, 1)'),
    ('dt-lt', 2, '$d1 lt $d2'),
    ('dt-minus', 2, '$d1 - $d2'),
    ('dt-eq', 2, '$d1 eq $d2'),
    ('dt-general-eq', 2, '($d1, $d2) = $d1'),
    ('dt-max', 2, 'max(($d1, $d2))'),
    ('time-min', 2, 'min(($t1, $t1))'),
    ('dt-adjust', 2, 'adjust-dateTime-to-timezone($d1)'),
    ('implicit-timezone', 2, 'implicit-timezone()'),
    ('dt-plus-duration', 2, "$d1 + xs:dayTimeDuration('PT1H')"),
    ('date-eq', 2, "$dd = xs:date('2000-01-01')"),
    ('date-minus', 2, "$dd - xs:date('1999-12-31Z')"),
    ('dt-filter', 2, '($d1, $d2)[. gt $d1]'),
    ('dt-string', 2, 'xs:string($d1)'),
    ('dt-hours', 2, 'hours-from-dateTime($d1)'),
    ('dt-timezone', 2, 'timezone-from-dateTime($d1)'),
    ('dt-distinct', 2, 'distinct-values(($d1, $d2))'),
    ('dt-deep-equal', 2, 'deep-equal($d1, $d2)'),
    ('time-lt', 2, "$t1 lt xs:time('12:00:00Z')"),
    ('dt-current', 2, 'current-dateTime() gt $d1'),
    ('dt-index-of', 2, 'index-of(($d1, $d2), $d1)'),
    ('dt-seq-var', 2, '$dts[1] le $dts[2]'),
    ('let', 3, 'let $x := $seq return ($x, $n)'),
    ('let-shadow', 3, '(let $n := $s return ($n, $n), $n)'),
    ('inline-call', 3, 'function($x){$x + $n}(2)'),
    ('inline-shadow', 3, '(function($n){$n * 2}(21), $n)'),
    ('inline-param-leak', 3, '(function($zz){$zz}(1), count($seq))'),
    ('let-function', 3, 'let $f := function($a, $b){($b, $a)} return $f($n, $s)'),
    ('for-each', 3, 'for-each($seq, function($x){$x + $n})'),
    ('fold-left', 3, 'fold-left($seq, 0, function($a, $b){$a + $b})'),
    ('filter-fn', 3, 'filter($seq, function($x){$x > $n})'),
    ('bang', 3, '$seq ! (. + $n)'),
    ('string-join-bang', 3, 'string-join($seq ! string(.), $s)'),
    ('partial', 3, "concat('a', ?)($s)"),
    ('named-ref', 3, 'count#1($seq)'),
    ('dt-sort', 31, 'sort(($d2, $d1))'),
    ('map-lookup-nodes', 31, "map{'k': //*, 'n': $n}?k"),
    ('map-call', 31, "map{'a': $n}('a')"),
    ('array-call', 31, '[//@*, $n](2)'),
    ('array-star', 31, 'array{$seq}?*'),
    ('map-keys', 31, 'map:keys(map{$n: 1, $s: 2})'),
    ('map-merge', 31, 'map:merge((map{1: $n}, map{2: $s}))?*'),
    ('unary-lookup', 31, "(map{'k': $n}, map{'k': $s}) ! ?k"),
    ('arrow', 31, '$seq => count()'),
    ('let-map', 31, "let $m := map{'v': $n} return ($m?v, $n)"),
    ('array-for-each', 31, 'array:for-each([$n, $s], function($x){($x, $x)})?*'),
    ('map-value', 31, "map{'k': ($d1, //a)}"),
    ('array-value', 31, '[$d1, $seq, //b]'),
    ('map-for-each', 31, 'map:for-each(map{$s: $n}, function($k, $v){($k, $v + 1)})'),
    # caller-owned timezone-less date/time values reached by something other than a plain $var, as operands of
    # date/time arithmetic under an implicit timezone (round-4 hardening)
    ('dti-index', 2, '$dts[2] - $d2'),
    ('dti-index-right', 2, '$d2 - $dts[1]'),
    ('dti-paren', 2, '($d1) - $d2'),
    ('dti-for', 2, '(for $x in $dts return $x)[1] - $d2'),
    ('dti-if', 2, '(if ($n) then $d1 else $dts[2]) - $dts[1]'),
    ('dti-filter', 2, '$dts[. = .][last()] - ($d2, $d1)[1]'),
    ('dti-date', 2, "($dd, $dd)[2] - xs:date('1999-12-31Z')"),
    ('dti-time', 2, "$tms[1] - xs:time('10:00:00Z')"),
    ('dti-both-indirect', 2, '$dts[1] - $dts[2]'),
    ('dti-head', 3, 'head($dts) - $d2'),
    ('dti-let', 3, 'let $x := $dts return $x[2] - $x[1]'),
    ('dti-bang', 3, '($dts ! (. - $d2))'),
    ('dti-inline', 3, 'function($a, $b){$a - $b}($dts[1], $d2)'),
    ('dti-map-call', 31, "$dm('k') - $d2"),
    ('dti-map-lookup', 31, '$dm?k - $d2'),
    ('dti-map-get', 31, "map:get($dm, 'k') - $dm?j[1]"),
    ('dti-array-call', 31, '$da(1) - $d2'),
    ('dti-array-lookup', 31, '$da?2 - $da?1'),
    ('dti-array-get', 31, 'array:get($da, 1) - $d2'),
    # named references to context-dependent functions of arity 0, called dynamically by a reused Selector / token
    ('ctx-name', 3, 'let $f := fn:name#0 return $f()'),
    ('ctx-string', 3, 'let $f := fn:string#0 return $f()'),
    ('ctx-root', 3, 'let $f := fn:root#0 return $f()'),
    ('ctx-local-name', 3, 'let $f := local-name#0 return ($f(), $f())'),
    ('ctx-data', 3, 'let $f := data#0 return $f()'),
    ('ctx-position-last', 3, '(//*)[position#0() = last#0()]'),
    ('ctx-position-step', 3, 'for $f in position#0 return //*/$f()'),
    ('ctx-name-step', 3, '//*/name#0()'),
    ('ctx-string-bang', 3, 'let $f := string#0 return //* ! $f()'),
    ('ctx-namespace-uri', 3, 'let $f := namespace-uri#0 return (//*)[last()]/$f()'),
    ('ctx-number', 3, 'let $f := number#0, $g := string-length#0, $h := normalize-space#0 return ($f(), $g(), $h())'),
    ('ctx-base-uri', 3, 'let $f := base-uri#0, $g := document-uri#1 return ($f(), $g(/))'),
    ('ctx-generate-id', 3, 'let $f := path#0, $g := has-children#0 return ($f(), $g())'),
    ('ctx-apply', 31, 'apply(name#0, [])'),
    ('ctx-function-lookup', 3, "function-lookup(xs:QName('fn:name'), 0)()"),
    # regex / collation / picture arguments that come from $variables and change between evaluations of one token
    ('rx-matches-pred', 2, '$words[matches(., $p, $fl)]'),
    ('rx-matches', 2, 'matches($txt, $p, $fl)'),
    ('rx-matches-doc', 2, '//*[matches(string(.), $p, $fl)]'),
    ('rx-matches-flag-seq', 2, 'for $f in $flags return matches($txt, $p, $f)'),
    ('rx-matches-flag-seq-literal', 2, "for $f in $flags return matches($txt, '^hello', $f)"),
    ('rx-matches-item-flags', 2, "for $w in $words return matches($w, '^h', if (string-length($w) > 4) then $fl else '')"),
    ('rx-matches-2args', 2, 'matches($txt, $p)'),
    ('rx-replace', 2, 'replace($txt, $p, $rp, $fl)'),
    ('rx-replace-3args', 2, 'replace($txt, $p, $rp)'),
    ('rx-replace-flag-seq', 2, "for $f in $flags return replace($txt, 'L+', '-', $f)"),
    ('rx-tokenize', 2, 'tokenize($txt, $p, $fl)'),
    ('rx-tokenize-flag-seq', 2, "for $f in $flags return count(tokenize($txt, 'h', $f))"),
    ('rx-analyze-string', 3, 'analyze-string($txt, $p, $fl)//*/string()'),
    ('rx-analyze-string-flag-seq', 3, "for $f in $flags return count(analyze-string($txt, '^h', $f)/*)"),
    ('rx-contains-collation', 2, "(contains($txt, 'HELLO', $coll), starts-with($txt, 'hELLO', $coll), ends-with($txt, 'TALL', $coll))"),
    ('rx-compare-collation', 2, "(compare('a', 'A', $coll), index-of(('a', 'A'), 'a', $coll), distinct-values(('a', 'A', 'b'), $coll))"),
    ('rx-deep-equal-collation', 2, "(deep-equal(('a', 'B'), ('A', 'b'), $coll), substring-after($txt, 'HELLO', $coll))"),
    ('rx-format-number', 3, 'format-number(1234.5, $pic)'),
    ('rx-format-integer', 3, 'for $q in $ipics return format-integer(12, $q)'),
    # caller-owned maps / arrays with multi-item members consumed by the map:* / array:* functions
    ('mv-merge-combine', 31, "map:merge(($fm, map{'b': 9, 'a': (7, 8)}), map{'duplicates': 'combine'})?*"),
    ('mv-merge-combine-self', 31, "map:merge(($fm, $fm, $fm), map{'duplicates': 'combine'})?b"),
    ('mv-merge-combine-let', 31, "let $a := map{'k': (3, 2), 'j': $seq} return (map:merge(($a, map{'k': 1, 'j': $n}), map{'duplicates': 'combine'})?*, count($a?k), count($a?j))"),
    ('mv-merge-use-first', 31, "map:merge(($fm, map{'b': 9}), map{'duplicates': 'use-first'})?b"),
    ('mv-merge-use-last', 31, "map:merge((map{'b': 9}, $fm), map{'duplicates': 'use-last'})?b"),
    ('mv-merge-use-any', 31, "count(map:merge(($fm, $fm), map{'duplicates': 'use-any'})?b)"),
    ('mv-merge-reject', 31, "map:merge(($fm, map{'b': 9}), map{'duplicates': 'reject'})"),
    ('mv-merge-default', 31, "(map:merge(($fm, map{'b': 9, 'c': $seq}))?*, map:size($fm))"),
    ('mv-merge-dm', 31, "map:merge(($dm, map{'j': $d1}), map{'duplicates': 'combine'})?j"),
    ('mv-put', 31, "(map:put($fm, 'b', ($fm?b, $n))?b, $fm?b)"),
    ('mv-remove', 31, "(map:keys(map:remove($fm, 'b')), map:size($fm))"),
    ('mv-entry-find', 31, "(map:find(($fm, $fa), 'b'), map:entry('k', $fm?b)?k)"),
    ('mv-for-each', 31, 'map:for-each($fm, function($k, $v){count($v)})'),
    ('mv-array-append', 31, '(array:append($fa, $fa?2)?*, array:size($fa))'),
    ('mv-array-insert', 31, '(array:insert-before($fa, 2, ($n, $s))?*, array:size($fa))'),
    ('mv-array-remove', 31, '(array:remove($fa, 2)?*, $fa?2)'),
    ('mv-array-join', 31, '(array:join(($fa, $fa, [$seq]))?*, array:size($fa))'),
    ('mv-array-put', 31, '(array:put($fa, 2, ($fa?2, $n))?2, $fa?2)'),
    ('mv-array-subarray', 31, '(array:subarray($fa, 2)?*, array:subarray($fa, 1, 2)?*)'),
    ('mv-array-reverse', 31, '(array:reverse($fa)?*, $fa?1)'),
    ('mv-array-flatten', 31, 'array:flatten(($fa, [$fa, $fm?b]))'),
    ('mv-array-sort', 31, "(array:sort($fa, (), function($x){count($x)})?*, $fa?1)"),
    ('mv-array-tail-head', 31, '(array:tail($fa)?*, array:head($fa), array:filter($fa, function($x){count($x) > 1})?*)'),
    ('mv-array-fold', 31, 'array:fold-left($fa, (), function($a, $x){($a, $x)})'),
    # literal map / array constructors whose entries depend on $variables or on the document, consumed directly
    # by lookups, map:for-each, map:keys, array:flatten, '!' (the same parsed token is evaluated again and again)
    ('lit-map-star', 31, "map{'n': count(//*), 'v': $n}?*"),
    ('lit-map-star-nodes', 31, "map{'first': (//*)[1], 'last': (//*)[last()], 's': $s}?*"),
    ('lit-map-star-sum', 31, "sum(map{'a': count(//*), 'b': count(//@*), 'c': $n}?*)"),
    ('lit-map-key', 31, "map{'n': count(//node()), 'v': $s}?n"),
    ('lit-map-paren', 31, "map{'n': count(//*), 'v': ($n, $s), 1: //*[1]}?('v', 'n', 1)"),
    ('lit-map-varkey', 31, "map{$s: //*[1], $n: count(//*)}?*"),
    ('lit-map-call', 31, "map{'n': count(//*), 'v': $seq}('v')"),
    ('lit-map-unary-pred', 31, "(map{'k': $n, 'c': count(//*)}, map{'k': count(//*), 'c': $n})[?k = $n]?c"),
    ('lit-map-bang-unary', 31, "map{'d': count(//*), 'v': $s} ! (?d, ?v, ?*)"),
    ('lit-map-for-each', 31, "map:for-each(map{'n': count(//*), 'v': $n}, function($k, $v){($k, $v)})"),
    ('lit-map-keys', 31, "map:keys(map{$s: 1, string(count(//*)): 2, $n: 3})"),
    ('lit-map-size-get', 31, "(map:size(map{$s: 1, 'x': //*}), map:get(map{'x': //*, 'y': $seq}, 'x'), map:contains(map{$n: 1}, 2))"),
    ('lit-map-nested', 31, "map{'in': map{'n': count(//*), 'v': $n}}?in?*"),
    ('lit-map-in-for', 31, "for $i in (1, 2) return map{'i': $i, 'n': $n + $i, 'c': count(//*)}?*"),
    ('lit-array-star', 31, '[count(//*), $n, $s]?*'),
    ('lit-array-index', 31, '[count(//*), $seq, //*[1]]?2'),
    ('lit-array-paren', 31, '[count(//*), $n, (//*)[last()]]?(3, 1)'),
    ('lit-array-call', 31, '[$s, count(//*)](2)'),
    ('lit-array-curly-star', 31, 'array{//*, $seq}?*'),
    ('lit-array-flatten', 31, 'array:flatten([count(//*), [$n, [$s, //*[1]]]])'),
    ('lit-array-bang', 31, '[count(//*), $n] ! ?*'),
    ('lit-array-unary-pred', 31, '([$n, count(//*)], [count(//*), $n])[?1 = $n]?2'),
    ('lit-array-size-get', 31, '(array:size(array{//*}), array:get([$s, count(//*)], 2), array:head([//*[1], $n]))'),
    ('lit-array-for-each', 31, 'array:for-each([count(//*), $n], function($x){$x + 1})?*'),
    ('lit-array-of-maps', 31, "[map{'n': count(//*)}, map{'n': $n}]?*?n"),
    ('lit-map-of-arrays', 31, "map{'a': [count(//*), $n], 'b': [$s]}?*?*"),
    # one Selector / parser evaluated with variable maps of different SHAPES ($v: item, sequence, other type, node;
    # $w and $zz present in some maps only) (round-3 hardening)
    ('poly-count', 2, 'count($v) + count(//b)'),
    ('poly-seq', 2, '($v, 1)'),
    ('poly-first', 2, '$v[1]'),
    ('poly-for', 2, 'for $x in $v return string($x)'),
    ('poly-exists', 2, '(exists($v), empty($v), count($seq), count($nodes))'),
    ('poly-instance', 2, '($v instance of item(), $v instance of item()+, $v instance of xs:integer*, $v instance of node()*)'),
    ('poly-unused', 2, 'count(//*) + $n'),
    ('poly-optional', 2, '($w, count($v))'),
    ('poly-string-join', 2, "string-join(for $x in ($v, $seq) return string($x), ',')"),
    ('poly-let', 3, 'let $k := $v return ($k, count($k))'),
    ('poly-inline', 3, 'function($a){count($a)}($v)'),
    ('poly-map', 31, "map{'v': $v}?v"),
    ('poly-array', 31, '[$v, $seq]?*'),
    # timezone-sensitive expressions for the agreement of the four entry points
    ('tz-aware-lt', 2, "$d1 lt xs:dateTime('2000-01-01T12:00:00+02:00')"),
    ('tz-aware-minus', 2, "xs:dateTime('2000-01-01T12:00:00Z') - $d1"),
    ('tz-adjust-date', 2, 'adjust-date-to-timezone($dd)'),
    ('tz-adjust-time', 2, 'adjust-time-to-timezone($t1)'),
    ('tz-literal-eq', 2, "xs:dateTime('2000-01-01T12:00:00') eq xs:dateTime('2000-01-01T12:00:00Z')"),
    ('tz-implicit-current', 2, '(implicit-timezone(), timezone-from-dateTime(current-dateTime()))'),
    # caller-owned function items in variables, partial application and reuse (round-2 hardening)
    ('fn-var-partial', 3, "$f3('a', ?, 'c')('b')"),
    ('fn-var-partial-then-full', 3, "($f3('a', ?, 'c')('b'), $f3('x', 'y', 'z'))"),
    ('fn-var-full', 3, "$f3('x', 'y', 'z')"),
    ('fn-var-partial-twice', 3, "$f3(?, 'm', ?)('l', ?)('r')"),
    ('fn-let-named-ref', 3, "let $g := concat#3 return ($g('a', ?, 'c')('b'), $g('x', 'y', 'z'))"),
    ('fn-let-var', 3, "let $g := $f3 return ($g(?, 'm', ?)('l', 'r'), function-arity($g))"),
    ('fn-let-inline', 3, "let $h := function($a, $b, $c){concat($a, $b, $c)} return ($h('a', ?, 'c')('b'), $h('x', 'y', 'z'))"),
    ('fn-inline-var-partial', 3, '($fi(1, ?)(2), $fi(3, 4))'),
    ('fn-inline-var-full', 3, '$fi($n, $s)'),
    ('fn-partial-var', 3, "($fp('mid'), $fp(?)('z'))"),
    ('fn-arity-name', 3, '(function-arity($f3), function-name($f3), function-arity($fi), function-arity($fp))'),
    ('fn-for-each-partial', 3, "for-each(('p', 'q'), $f3('[', ?, ']'))"),
    ('fn-named-partial-literal', 3, "(string-length(?)('abc'), concat('a', ?, 'c')('b'))"),
    ('fn-var-returned', 3, "$f3('a', ?, 'c')"),
    ('fn-map-var', 31, "($fm('a'), $fm(?)('b'), $fm?a, map:size($fm))"),
    ('fn-array-var', 31, '($fa(2), $fa(?)(3), $fa?1, array:size($fa))'),
    ('fn-map-var-put', 31, "(map:put($fm, 'a', $n)?a, $fm?a)"),
    ('fn-array-var-append', 31, '(array:size(array:append($fa, $n)), array:size($fa), array:put($fa, 1, $s)?1, $fa?1)'),
    # multi-clause binders where a later clause rebinds the name of an earlier one
    ('for-rebind', 2, 'for $x in (1, 2), $y in ($x * 10), $x in ($y + 1) return $x'),
    ('for-rebind-outer', 2, 'for $n in (1, 2), $y in ($n * 10), $n in ($y + 1) return ($n, $y)'),
    ('for-rebind-outer-read', 2, '(for $q in (1, 2), $y in ($n + $q, 7), $q in ($y, $n) return ($q, $n), $n)'),
    ('some-rebind', 2, 'some $x in (1, 2), $y in ($x * 10), $x in ($y + 1) satisfies $x = 21'),
    ('every-rebind-outer', 2, 'every $n in (1, 2), $y in ($n * 10), $n in ($y + 1) satisfies $n = ($y + 1)'),
    ('for-rebind-let', 3, 'let $x := 100 return (for $x in (1, 2), $y in ($x, $x), $x in ($y + 1) return $x, $x)'),
    # serialization / parsing functions with parameters, on the caller's tree (elements with tails)
    ('ser-all', 3, 'serialize(//*)'),
    ('ser-first-child', 3, 'serialize(/*/*[1])'),
    ('ser-standalone', 31, "serialize(//*, map{'standalone': true()})"),
    ('ser-standalone-omit', 31, "serialize(/*/*, map{'standalone': 'omit', 'omit-xml-declaration': false()})"),
    ('ser-indent', 31, "serialize(//*, map{'indent': true()})"),
    ('ser-omit-decl', 31, "serialize(/*/*[1], map{'omit-xml-declaration': false()})"),
    ('ser-method-text', 31, "serialize(//*, map{'method': 'text'})"),
    ('ser-method-html', 31, "serialize(/*/*, map{'method': 'html', 'indent': false()})"),
    ('ser-method-xhtml', 31, "serialize(/*/*[last()], map{'method': 'xhtml'})"),
    ('ser-encoding', 31, "serialize(//*, map{'encoding': 'utf-16'})"),
    ('ser-item-separator', 31, "serialize((//*, $s, //text()), map{'item-separator': '|'})"),
    ('ser-cdata', 31, "serialize(//*, map{'cdata-section-elements': (fn:QName('', 'a'), fn:QName('urn:p', 'p:b'))})"),
    ('ser-character-map', 31, "serialize(//*, map{'use-character-maps': map{'t': 'T'}})"),
    ('ser-many-params', 31, "serialize(//*, map{'standalone': false(), 'indent': true(), 'encoding': 'utf-8', 'item-separator': ' ', 'method': 'xml'})"),
    ('ser-bad-indent', 31, "serialize(//*, map{'indent': $s})"),
    ('ser-bad-method', 31, "serialize(//*, map{'method': concat('bogus', $s)})"),
    ('ser-bad-standalone', 31, "serialize(//*, map{'standalone': $n})"),
    ('ser-bad-static', 31, "serialize(//*, map{'standalone': 7})"),
    ('ser-attribute', 3, 'serialize((//*, //@*))'),
    ('ser-json', 31, "serialize(map{'a': $n, 'b': [$s, true()]}, map{'method': 'json'})"),
    ('ser-json-seq', 31, "serialize(array{$seq}, map{'method': 'json', 'indent': true()})"),
    ('ser-json-node', 31, "serialize(map{'e': /*/*[1]}, map{'method': 'json'})"),
    ('ser-adaptive', 31, "serialize((//*[1], $n, $s), map{'method': 'adaptive'})"),
    ('ser-elem-params', 3, 'serialize(//*, $sp)'),
    ('ser-elem-params-child', 3, 'serialize(/*/*[1], $sp)'),
    ('ser-var-element', 3, 'serialize(($e, $nodes))'),
    ('ser-var-element-standalone', 31, "serialize($nodes, map{'standalone': true(), 'indent': true()})"),
    ('parse-xml', 3, "parse-xml('<a x=\"1\">t<b/>u</a>')//node()"),
    ('parse-xml-fragment', 3, "parse-xml-fragment('t<b/>u<c>v</c>')/node()"),
    ('parse-xml-roundtrip', 3, 'parse-xml(serialize(/*))//*'),
    ('parse-json', 31, "parse-json('{\"a\": [1, 2, {\"b\": null}], \"a2\": \"x\"}')?a?*"),
    ('parse-json-options', 31, "parse-json('{\"a\": 1, \"a\": 2}', map{'duplicates': 'use-last', 'liberal': false()})?a"),
    ('parse-json-reject', 31, "parse-json('{\"a\": 1, \"a\": 2}', map{'duplicates': 'reject'})"),
    ('json-to-xml', 31, "json-to-xml('{\"a\": [1, \"t\"]}')//*"),
    ('json-to-xml-options', 31, "json-to-xml('{\"a\": 1, \"a\": 2}', map{'duplicates': 'use-first', 'validate': false()})//*"),
    ('xml-to-json', 31, "xml-to-json(json-to-xml('{\"k\": [1, true, null]}'), map{'indent': false()})"),
]
T_BY_NAME = {t[0]: t for t in TEMPLATES}
MAY_FAIL_STATICALLY = {'ser-bad-static', 'parse-json-reject'}

DT_POOL = ['2000-01-01T12:00:00', '2000-01-01T12:00:00', '2000-01-01T13:30:00', '1999-12-31T23:59:59',
           '2000-01-01T12:00:00Z', '2000-01-01T12:00:00+05:00']
TIME_POOL = ['12:00:00', '08:15:00', '12:00:00Z', '23:59:59']
DATE_POOL = ['2000-01-01', '2000-01-02', '2000-01-01Z', '1999-12-31']
VDOC = {'root': {'k': 'e', 'ns': None, 'n': 'v', 'decl': [], 'a': [[None, 'x', '1'], [None, 'y', 't']], 't': 'w',
                 'c': [{'k': 'e', 'ns': None, 'n': 'a', 'decl': [], 'a': [], 't': '1', 'c': [], 'tl': None},
                       {'k': 'e', 'ns': None, 'n': 'b', 'decl': [], 'a': [[None, 'x', '2']], 't': None, 'c': [], 'tl': 'z'}],
                 'tl': None}, 'pre': [], 'post': []}

# --------------------------------------------------------------------------
# building inputs
# --------------------------------------------------------------------------
_EP = {}


def _ep():
    if not _EP:
        import elementpath
        from elementpath import datatypes as dt
        from elementpath.xpath30 import XPath30Parser
        from elementpath.xpath31 import XPath31Parser
        from elementpath.xpath_nodes import XPathNode
        from elementpath.xpath_tokens import XPathMap, XPathArray, XPathFunction
        _EP.update(ep=elementpath, dt=dt, XPathNode=XPathNode, XPathMap=XPathMap, XPathArray=XPathArray,
                   XPathFunction=XPathFunction,
                   parsers={2: elementpath.XPath2Parser, 3: XPath30Parser, 31: XPath31Parser})
    return _EP


class Doc:
    """one materialised document + address book"""
    def __init__(self, spec, backend, as_tree):
        self.built = GX.materialize(spec, backend)
        self.root = self.built.tree if as_tree else self.built.root
        self.backend = backend


SER_NS = 'http://www.w3.org/2010/xslt-xquery-serialization'
SER_PARAM_SETS = [
    [('indent', 'yes')], [('omit-xml-declaration', 'no')], [('standalone', 'yes')], [('method', 'text')],
    [('standalone', 'yes'), ('indent', 'yes'), ('omit-xml-declaration', 'no')], [('method', 'html')],
    [('indent', 'maybe')], [('method', 'bogus')], [('encoding', 'utf-16')], [('item-separator', '|')],
    [('cdata-section-elements', 'a')], [], [('indent', 'yes'), ('indent', 'no')],
]
_FN_SRC = {'f3': 'concat#3', 'fi': 'function($a, $b){($b, $a)}', 'fp': "concat('<', ?, '>')",
           'fm': "map{'a': 1, 'b': (2, 3)}", 'fa': '[10, (20, 21), 30]'}


def build_ser_params(i):
    import xml.etree.ElementTree as ET
    root = ET.Element('{%s}serialization-parameters' % SER_NS)
    for name, value in SER_PARAM_SETS[i % len(SER_PARAM_SETS)]:
        ET.SubElement(root, '{%s}%s' % (SER_NS, name)).set('value', value)
    return root


COLLATIONS = ['http://www.w3.org/2005/xpath-functions/collation/codepoint',
              'http://www.w3.org/2005/xpath-functions/collation/html-ascii-case-insensitive']     # no locale involved
P_POOL = ['^hello', '^hello', 'l+', 'H', '^t', 'o$']
FL_POOL = ['', 'i', 'm', 's', 'im', 'i', '']
FLAGS_POOL = [['i', '', 'm'], ['', 'i'], ['m', '', 'i', 's'], ['i', 'i', '']]
POLY_SHAPES = [['int', 1], ['ints', [1, 2, 3]], ['str', 'x'], ['int', 2], ['ints', [4, 5]], ['node'], ['nodes'], ['empty'],
               ['strs', ['a', 'b']], ['dt', '2000-01-01T12:00:00'], ['mixed'], ['ints', [9]], ['dec', '1.5'], ['bool', True]]


def build_poly(shape, e, dt):
    k = shape[0]
    if k in ('int', 'str', 'bool'):
        return shape[1]
    if k in ('ints', 'strs'):
        return list(shape[1])
    if k == 'node':
        return e[0]
    if k == 'nodes':
        return [e[1], e[0]]
    if k == 'empty':
        return []
    if k == 'dt':
        return dt.DateTime10.fromstring(shape[1])
    if k == 'dec':
        import decimal
        return decimal.Decimal(shape[1])
    if k == 'mixed':
        return [1, 'x', e]
    raise ValueError(shape)


def build_vars(vs, vdoc: Doc):
    o = _ep()
    dt = o['dt']
    e = vdoc.built.root
    vars_ = {
        'n': vs['n'], 's': vs['s'], 'seq': list(vs['seq']),
        'd1': dt.DateTime10.fromstring(vs['d1']), 'd2': dt.DateTime10.fromstring(vs['d2']),
        't1': dt.Time.fromstring(vs['t1']), 'dd': dt.Date10.fromstring(vs['dd']),
        'dts': [dt.DateTime10.fromstring(vs['d2']), dt.DateTime10.fromstring(vs['d1'])],
        'e': e, 'nodes': [e[0], e[1]],
        'sp': build_ser_params(vs.get('sp', 0)),
    }
    # regex / collation / picture arguments (vary one argument at a time between the maps of a history)
    vars_.update(p=vs.get('p', '^hello'), fl=vs.get('fl', ''), rp=vs.get('rp', '-'), txt='Hello\nhello tall',
                 words=['hello', 'Hello', 'HELLO', 'tall'], flags=list(vs.get('flags', ['i', '', 'm'])),
                 coll=COLLATIONS[vs.get('coll', 0) % len(COLLATIONS)], pic=vs.get('pic', '0'),
                 ipics=list(vs.get('ipics', ['1', 'w'])))
    # timezone-less date/time values inside caller-owned lists, maps and arrays
    XPathMap, XPathArray = o['XPathMap'], o['XPathArray']
    p31 = o['parsers'][31]()
    vars_['tms'] = [dt.Time.fromstring(vs['t1']), dt.Time.fromstring('09:30:00')]
    vars_['dm'] = XPathMap(p31, [('k', dt.DateTime10.fromstring(vs['d1'])),
                                 ('j', [dt.DateTime10.fromstring(vs['d2']), dt.DateTime10.fromstring(vs['d1'])])])
    vars_['da'] = XPathArray(p31, [dt.DateTime10.fromstring(vs['d1']), dt.DateTime10.fromstring('1999-12-31T23:59:59'),
                                   [dt.Date10.fromstring(vs['dd'])]])
    # variables whose shape differs between the maps of one history; 'w' / 'zz' exist in some maps only
    for name in ('v', 'w', 'zz'):
        if vs.get(name) is not None:
            vars_[name] = build_poly(vs[name], e, dt)
    if vs.get('seq1'):
        vars_['seq'] = vs['seq'][0] if vs['seq'] else 7          # a bare item instead of a list
    if vs.get('nodes1'):
        vars_['nodes'] = e[1]
    # caller-owned function items: obtained once by the caller and handed in as variable values
    parser = o['parsers'][31]()
    ctx = o['ep'].XPathContext(e)
    for name, src in _FN_SRC.items():
        vars_[name] = parser.parse(src).evaluate(ctx)
    return vars_


# --------------------------------------------------------------------------
# canonical dumps (own code)
# --------------------------------------------------------------------------

def dump_tree(obj):
    """canonical dump of an ElementTree / lxml tree or element: tag, attrib (in order), text, tail, children"""
    if hasattr(obj, 'getroot'):
        root = obj.getroot()
        pre = []
        if hasattr(root, 'itersiblings'):
            pre = [dump_tree(x) for x in root.itersiblings(preceding=True)] + ['|'] + \
                  [dump_tree(x) for x in root.itersiblings()]
        return ('tree', dump_tree(root), pre)
    tag = obj.tag if isinstance(obj.tag, str) else getattr(obj.tag, '__name__', repr(obj.tag))
    nsmap = tuple(sorted((k or '', v) for k, v in obj.nsmap.items())) if hasattr(obj, 'nsmap') and isinstance(obj.tag, str) else ()
    return (tag, tuple(obj.attrib.items()) if isinstance(obj.tag, str) else (), obj.text, obj.tail, nsmap,
            tuple(dump_tree(c) for c in obj))


def dump_value(v):
    dt = _ep()['dt']
    if isinstance(v, list):
        return ('list', tuple(dump_value(x) for x in v))
    if isinstance(v, dt.AbstractDateTime):
        return (type(v).__name__, str(v), repr(v.tzinfo))
    if hasattr(v, 'tag'):
        return ('elem', id(v), dump_tree(v))
    if isinstance(v, _ep()['XPathFunction']):
        return dump_function(v)
    return (type(v).__name__, repr(v))


def dump_token(tk, depth=0):
    """own dump of a token subtree: symbol, value, operands"""
    if depth > 6:
        return ('...',)
    val = tk.value
    if tk.symbol == '?' and not len(tk):
        val = '?'          # a placeholder: the argument of the last call is parked in its value (scratch, not state)
    elif isinstance(val, (list, tuple)):
        val = tuple(repr(x) for x in val)
    elif not isinstance(val, (str, int, float, bool, type(None))):
        val = repr(val) if not isinstance(val, _ep()['XPathFunction']) else 'function-item'
    return (tk.symbol, val, tuple(dump_token(x, depth + 1) for x in tk))


def dump_function(f):
    """caller-visible state of a function item: class, kind (label), name, arity, nargs, bound argument tokens,
    instance-level evaluate/select overrides (a function converted to a partial gets them), map/array content"""
    o = _ep()
    if isinstance(f, o['XPathMap']):
        return ('map-item', tuple((repr(k), dump_value(x)) for k, x in f.items()))
    if isinstance(f, o['XPathArray']):
        return ('array-item', tuple(dump_value(x) for x in f.items()))
    try:
        name = f.name.qname if f.name is not None else None
    except Exception as x:      # observation only
        name = 'name raises ' + type(x).__name__
    return ('function-item', type(f).__name__, str(f.label), f.symbol, name, f.arity, repr(f.nargs),
            # bound arguments are part of the value of a PARTIAL function only; a plain function item keeps the
            # argument tokens of its last call as scratch
            tuple(dump_token(x) for x in f) if str(f.label).endswith('partial function') else 'plain',
            tuple(sorted(k for k in f.__dict__ if k in (
                'evaluate', 'select', '_partial_evaluate', '_partial_select'))),
            tuple(sorted((k, repr(v)) for k, v in (getattr(f, 'variables', None) or {}).items()))
            if not callable(getattr(f, 'variables', None)) else ())


def dump_vars(vars_):
    return tuple((k, dump_value(v)) for k, v in vars_.items())


# --------------------------------------------------------------------------
# canonical results
# --------------------------------------------------------------------------

class Book:
    """id(python tree object) -> (document label, address) for pooled/fresh inputs"""
    def __init__(self):
        self.ids = {}

    def add(self, label, doc: Doc):
        for i, a in doc.built.obj_addr.items():
            self.ids[i] = (label, a)

    def addr(self, obj):
        return self.ids.get(id(obj), ('?', type(obj).__name__))


def canon_item(x, book: Book, depth=0):
    o = _ep()
    if depth > 8:
        return ('too-deep',)
    if isinstance(x, o['XPathNode']):
        kind = type(x).__name__
        owner = x
        while owner is not None and not hasattr(getattr(owner, 'value', None), 'tag') and \
                not hasattr(getattr(owner, 'value', None), 'getroot'):
            owner = owner.parent
        where = book.addr(owner.value) if owner is not None and hasattr(owner.value, 'tag') else \
            ('doc',) if owner is not None else ('orphan',)
        extra = ()
        if owner is not x:
            par = x.parent
            idx = None
            if par is not None and hasattr(par, 'children'):
                for j, c in enumerate(par.children):
                    if c is x:
                        idx = j
                        break
            extra = (getattr(x, 'name', None), idx)
        try:
            sv = x.string_value
        except Exception as e:      # observation only
            sv = 'string_value raises ' + type(e).__name__
        return ('node', kind, where, extra, sv)
    if hasattr(x, 'getroot'):          # select()/iter_select() hand out the python tree objects
        return ('raw-doc',)
    if hasattr(x, 'tag'):
        return ('raw-elem', book.addr(x), x.tag if isinstance(x.tag, str) else 'misc')
    if isinstance(x, o['XPathMap']):
        ents = [(canon_item(k, book, depth + 1), canon_value(v, book, depth + 1)) for k, v in x.items()]
        return ('map', tuple(sorted(ents, key=repr)))
    if isinstance(x, o['XPathArray']):
        return ('array', tuple(canon_value(v, book, depth + 1) for v in x.items()))
    if isinstance(x, o['XPathFunction']):
        return ('function', getattr(x, 'symbol', '?'), getattr(x, 'arity', None), str(x.label),
                tuple(dump_token(t) for t in x) if str(x.label).endswith('partial function') else 'plain')
    if isinstance(x, float) and x != x:
        return (type(x).__name__, 'NaN')
    if isinstance(x, o['dt'].AbstractDateTime):
        return (type(x).__name__, str(x))
    return (type(x).__name__, repr(x))


def canon_value(v, book, depth=0):
    if isinstance(v, list):
        return tuple(canon_item(x, book, depth) for x in v)
    if v is None:
        return ()
    return (canon_item(v, book, depth),)


# --------------------------------------------------------------------------
# hist judge
# --------------------------------------------------------------------------
MODES = ['select', 'iter', 'token', 'tselect', 'both', 'four', 'mselect', 'four', 'miter', 'token', 'tselect']
FRAGMENTS = [None, None, None, False, True]


def _context(root, vars_, tz, ns, item=None, uri=None, fragment=None):
    XPathContext = _ep()['ep'].XPathContext
    return XPathContext(root, namespaces=ns, uri=uri, fragment=fragment, item=item, position=1, size=1, axis=None,
                        schema=None, variables=vars_, current_dt=FIXED_DT, timezone=tz)


def _outcome(fn, book):
    """-> ('v', canonical) | ('e', code, exc) | ('x', exc)"""
    EPE = _ep()['ep'].ElementPathError
    try:
        r = fn()
    except EPE as x:
        return ('e', (x.code or type(x).__name__).split(':')[-1], x)
    except Exception as x:
        return ('x', x)
    return ('v', canon_value(r, book))


def _cmp_key(out):
    return out[:2] if out[0] != 'x' else ('x', type(out[1]).__name__)


def _run(sel, tok, mode, root, vars_, tz, ns, book, item=None, uri=None, fragment=None, path=None, cls=None):
    """one evaluation through the entry point(s) of `mode`; every keyword argument of the dynamic context is passed.
    'both': Selector.select and Selector.iter_select; 'four': the module-level select() and iter_select() and the two
    Selector methods with the same keyword arguments -> ('multi', [outcomes]) ; else one outcome"""
    ep = _ep()['ep']
    ctx_kw = dict(namespaces=ns, uri=uri, fragment=fragment, item=item, position=1, size=1, axis=None, schema=None,
                  variables=vars_, current_dt=FIXED_DT, timezone=tz)
    entries = {
        'select': lambda: sel.select(root, **ctx_kw),
        'iter': lambda: list(sel.iter_select(root, **ctx_kw)),
        'mselect': lambda: ep.select(root, path, parser=cls, **ctx_kw),
        'miter': lambda: list(ep.iter_select(root, path, parser=cls, **ctx_kw)),
        'token': lambda: tok.evaluate(_context(root, vars_, tz, ns, item, uri, fragment)),
        'tselect': lambda: list(tok.select(_context(root, vars_, tz, ns, item, uri, fragment))),
    }
    if mode == 'both':
        return ('multi', [('select', _outcome(entries['select'], book)), ('iter', _outcome(entries['iter'], book))])
    if mode == 'four':
        return ('multi', [(k, _outcome(entries[k], book)) for k in ('mselect', 'miter', 'select', 'iter')])
    return _outcome(entries[mode], book)


def judge_hist(case, rec: Recorder | None = None):
    o = _ep()
    discs = []
    ns = dict(NS)
    ns_snapshot = dict(ns)
    book = Book()
    docs = []
    for i, d in enumerate(case['docs']):
        doc = Doc(d['spec'], d['backend'], d['as_tree'])
        docs.append(doc)
        book.add(f'd{i}', doc)
    varmaps, vdocs = [], []
    for i, vs in enumerate(case['vars']):
        vd = Doc(VDOC, 'et', False)
        book.add(f'v{i}', vd)
        vdocs.append(vd)
        varmaps.append(build_vars(vs, vd))
    doc_snap = [dump_tree(d.root) for d in docs]
    var_snap = [dump_vars(v) for v in varmaps]
    sels, toks = [], []
    shared_parsers = {}          # ONE parser instance per version parses all the tokens of the history
    for name, ver in case['exprs']:
        _, minver, path = T_BY_NAME[name]
        cls = o['parsers'][max(ver, minver)]
        if cls not in shared_parsers:
            shared_parsers[cls] = cls(namespaces=ns)
        try:
            sels.append(o['ep'].Selector(path, namespaces=ns, parser=cls))
            toks.append(shared_parsers[cls].parse(path))
        except o['ep'].ElementPathError as x:
            if name not in MAY_FAIL_STATICALLY:      # any other template that does not compile is a harness error
                raise RuntimeError(f'template {name} does not compile: {x!r}')
            err = ('e', (x.code or type(x).__name__).split(':')[-1], x)      # static error: the result of every step
            del sels[len(toks):]
            sels.append(err)
            toks.append(err)
    used_docs = [set() for _ in sels]
    used_shapes = {}
    rx_seen = {}
    tz_seen = [False] * len(varmaps)
    hclasses = set()
    for si, step in enumerate(case['steps']):
        ei, mode, di, vi, ti = step[:5]
        with_item = len(step) > 5 and step[5]
        fragment = step[6] if len(step) > 6 else None
        uri = f'urn:c05:d{di % len(docs)}'
        ei %= len(sels)
        di %= len(docs)
        vi %= len(varmaps)
        tz = TZS[ti % len(TZS)]
        name, ver = case['exprs'][ei]
        _, minver, path = T_BY_NAME[name]
        doc = docs[di]
        def first_child(d):      # context item = first element child of the root element (when there is one)
            kids = [c for c in d.built.root if isinstance(c.tag, str)]
            return kids[0] if with_item and kids else None
        cls = o['parsers'][max(ver, minver)]
        got = sels[ei] if isinstance(sels[ei], tuple) else \
            _run(sels[ei], toks[ei], mode, doc.root, varmaps[vi], tz, ns, book, first_child(doc), uri, fragment, path, cls)
        # fresh: new parser, new parse, freshly built document and variables
        fbook = Book()
        fdoc = Doc(case['docs'][di]['spec'], case['docs'][di]['backend'], case['docs'][di]['as_tree'])
        fbook.add(f'd{di}', fdoc)
        fvd = Doc(VDOC, 'et', False)
        fbook.add(f'v{vi}', fvd)
        fvars = build_vars(case['vars'][vi], fvd)
        fns = dict(NS)
        try:
            fsel = o['ep'].Selector(path, namespaces=fns, parser=cls)
            ftok = cls(namespaces=fns).parse(path)
        except o['ep'].ElementPathError as x:
            fresh = ('e', (x.code or type(x).__name__).split(':')[-1], x)
        else:
            fresh = _run(fsel, ftok, {'both': 'select', 'four': 'mselect'}.get(mode, mode), fdoc.root, fvars, tz, fns, fbook,
                         first_child(fdoc), uri, fragment, path, cls)
        where = f'step {si}: {name} [{path}] mode={mode} doc=d{di}({doc.backend}) vars=v{vi} tz={tz} ' \
                f'item={bool(with_item)} fragment={fragment}'
        if rec is not None and first_child(doc) is not None:
            rec.cls('step:context-item')
        if rec is not None:
            rec.cls('step')
            rec.cls('tmpl:' + name)
            if name.startswith('ser-'):
                rec.cls('step:serialize')
                if any(c.tail for c in doc.built.root.iter() if c is not doc.built.root):
                    rec.cls('step:serialize-doc-with-tails')
            elif name.startswith('fn-'):
                rec.cls('step:function-item')
            elif '-rebind' in name:
                rec.cls('step:rebind')
            elif name.startswith('poly-'):
                rec.cls('step:poly-variable')
            elif name.startswith('dti-'):
                rec.cls('step:indirect-date-time-operand')
                if tz:
                    rec.cls('step:indirect-date-time-operand-with-tz')
            elif name.startswith('ctx-'):
                rec.cls('step:context-function-reference')
            elif name.startswith('lit-'):
                rec.cls('step:literal-constructor-consumed')
            elif name.startswith('rx-'):
                rec.cls('step:regex-collation-picture-from-variables')
            elif name.startswith('mv-'):
                rec.cls('step:caller-map-array-multi-item')
            if doc.backend == 'lxml':
                rec.cls('step:lxml')
            if mode in ('token', 'tselect'):
                rec.cls('step:token-mode')
        if got[0] == 'multi':
            # the entry points were called with the same keyword arguments: they must agree
            (k0, first), rest = got[1][0], got[1][1:]
            for k, out in rest:
                if _cmp_key(out) != _cmp_key(first):
                    cl = 'tz=set' if tz else 'tz=none'
                    discs.append(Disc(f'C05/hist/entry-points-disagree/{k0}-vs-{k}/{name}/{cl}', _cmp_key(first), _cmp_key(out), where))
            got = first
            if rec is not None:
                rec.cls('step:entry-points-compared')
                if tz:
                    rec.cls('step:entry-points-compared-with-tz')
        if got[0] == 'x' and fresh[0] == 'x' and type(got[1]) is type(fresh[1]):
            if rec is not None:
                rec.cls('step:same-escape-both-sides')
        elif got[0] == 'x':
            discs.append(Disc(escape_bucket('C05', got[1]) + f'/pooled-only/{name}', fresh[:2], repr(got[1]), where))
        elif fresh[0] == 'x':
            discs.append(Disc(escape_bucket('C05', fresh[1]) + f'/fresh-only/{name}', repr(fresh[1]), got[:2], where))
        elif got[0] != fresh[0] or got[1] != fresh[1]:
            kind = 'result' if got[0] == fresh[0] == 'v' else 'error'
            reuse = 'first-use' if not used_docs[ei] else 'same-doc' if used_docs[ei] == {di} else 'after-other-doc'
            discs.append(Disc(f'C05/hist/{kind}-differs-from-fresh/{name}/{reuse}', fresh[:2], got[:2], where))
        shape = repr((case['vars'][vi].get('v'), case['vars'][vi].get('w') is not None, case['vars'][vi].get('zz') is not None))
        used_shapes.setdefault(ei, set()).add(shape)
        if len(used_shapes[ei]) >= 2 and mode in ('select', 'iter', 'both', 'four'):
            hclasses.add('hist:selector-with-2-variable-shapes')
        if name.startswith('rx-'):
            seen = rx_seen.setdefault(ei, {})
            key, val = case['vars'][vi].get('p'), (case['vars'][vi].get('fl'), tuple(case['vars'][vi].get('flags', ())))
            if key in seen and seen[key] != val:
                hclasses.add('hist:regex-same-pattern-other-flags')
            seen.setdefault(key, val)
        used_docs[ei].add(di)
        if len(used_docs[ei]) >= 2:
            hclasses.add('hist:selector-on-2-docs')
        if tz_seen[vi]:
            hclasses.add('hist:vars-reused-after-tz')
        if tz is not None:
            tz_seen[vi] = True
        # purity invariants
        for j, d in enumerate(docs):
            now = dump_tree(d.root)
            if now != doc_snap[j]:
                discs.append(Disc(f'C05/hist/document-modified/{name}/{d.backend}', doc_snap[j], now, where + f' changed d{j}'))
                doc_snap[j] = now
        for j, v in enumerate(varmaps):
            now = dump_vars(v)
            if now != var_snap[j]:
                changed = [a[0] for a, b in zip(now, var_snap[j]) if a != b] or ['keys']
                what = 'date-time-value' if all(c in ('d1', 'd2', 't1', 'dd', 'dts', 'tms', 'dm', 'da') for c in changed) else \
                    'function-item' if all(c in _FN_SRC for c in changed) else '+'.join(changed)
                discs.append(Disc(f"C05/hist/variable-modified/{name}/{what}/tz={'set' if tz else 'none'}",
                                  [b for a, b in zip(now, var_snap[j]) if a != b][:2],
                                  [a for a, b in zip(now, var_snap[j]) if a != b][:2], where + f' changed v{j}'))
                # re-create the caller's values so that the history continues with clean inputs
                vd = Doc(VDOC, 'et', False)
                vdocs.append(vd)          # (the replaced document stays alive: its ids are in the address book)
                book.add(f'v{j}', vd)
                varmaps[j] = build_vars(case['vars'][j], vd)
                var_snap[j] = dump_vars(varmaps[j])
                if rec is not None:
                    rec.cls('hist:vars-rebuilt')
        if ns != ns_snapshot:
            discs.append(Disc(f'C05/hist/namespaces-modified/{name}', ns_snapshot, dict(ns), where))
            ns_snapshot = dict(ns)
    if rec is not None:
        rec.case(case, nontrivial=bool(hclasses), sample={'check': 'hist', 'case': case},
                 classes=['hist'] + sorted(hclasses), n=len(case['steps']))
    return discs


# --------------------------------------------------------------------------
# scope: programs over binders, judged by an own interpreter
# --------------------------------------------------------------------------
# AST: ['int', n] | ['str', s] | ['var', v] | ['seq', [e...]] | ['plus', e, e] | ['count', e]
#      | ['for', v, e_in, e_ret] | ['let', v, e, e_ret] | ['some'|'every', v, e_in, e_cond_lhs, e_cond_rhs]
#      | ['inline', [params], body, [args]] | ['letfn', f, [params], body, e_ret] | ['callvar', f, [args]]

class ScopeError(Exception):
    def __init__(self, code):
        self.code = code


class _Closure:
    def __init__(self, params, body, env):
        self.params, self.body, self.env = params, body, env


def interp(e, env):
    """-> python list of items (ints/strs/bools/_Closure); raises ScopeError('XPST0008') for a free variable,
    ScopeError('XPTY0004') for + on non-singleton-integers (the generator avoids it)"""
    k = e[0]
    if k == 'int' or k == 'str':
        return [e[1]]
    if k == 'var':
        if e[1] not in env:
            raise ScopeError('XPST0008')
        return list(env[e[1]])
    if k == 'seq':
        out = []
        for x in e[1]:
            out += interp(x, env)
        return out
    if k == 'plus':
        a, b = interp(e[1], env), interp(e[2], env)
        if len(a) != 1 or len(b) != 1 or not all(type(x) is int for x in a + b):
            raise ScopeError('XPTY0004')
        return [a[0] + b[0]]
    if k == 'count':
        return [len(interp(e[1], env))]
    if k == 'for':
        out = []
        for item in interp(e[2], env):
            out += interp(e[3], {**env, e[1]: [item]})
        return out
    if k == 'let':
        return interp(e[3], {**env, e[1]: interp(e[2], env)})
    if k in ('some', 'every'):
        res = k == 'every'
        for item in interp(e[2], env):
            env2 = {**env, e[1]: [item]}
            a, b = interp(e[3], env2), interp(e[4], env2)
            hit = any(type(x) is type(y) and x == y for x in a for y in b)       # general comparison =
            if any(type(x) is not type(y) for x in a for y in b):
                raise ScopeError('XPTY0004')
            if k == 'some' and hit:
                res = True
            if k == 'every' and not hit:
                res = False
        return [res]
    if k == 'mfor':          # for $a in E1, $b in E2, ... return R  ==  for $a in E1 return for $b in E2 return ... R
        def loop(i, env2):
            if i == len(e[1]):
                return interp(e[2], env2)
            out = []
            for item in interp(e[1][i][1], env2):
                out += loop(i + 1, {**env2, e[1][i][0]: [item]})
            return out
        return loop(0, env)
    if k == 'mlet':
        env2 = env
        for name, x in e[1]:
            env2 = {**env2, name: interp(x, env2)}
        return interp(e[2], env2)
    if k == 'mq':            # some/every with several clauses = nested quantifiers
        kind, clauses, lhs, rhs = e[1:]

        def holds(i, env2):
            if i == len(clauses):
                a, b = interp(lhs, env2), interp(rhs, env2)
                if any(type(x) is not type(y) for x in a for y in b):
                    raise ScopeError('XPTY0004')
                return any(x == y for x in a for y in b)
            res = kind == 'every'
            for item in interp(clauses[i][1], env2):      # no short cut: every combination is evaluated by the model
                h = holds(i + 1, {**env2, clauses[i][0]: [item]})
                if kind == 'some' and h:
                    res = True
                if kind == 'every' and not h:
                    res = False
            return res
        return [holds(0, env)]
    if k == 'inline':
        args = [interp(a, env) for a in e[3]]
        return interp(e[2], {**env, **dict(zip(e[1], args))})
    if k == 'letfn':
        return interp(e[4], {**env, e[1]: [_Closure(e[2], e[3], env)]})
    if k == 'callvar':
        if e[1] not in env:
            raise ScopeError('XPST0008')
        f = env[e[1]]
        if len(f) != 1 or not isinstance(f[0], _Closure) or len(f[0].params) != len(e[2]):
            raise ScopeError('XPTY0004')
        args = [interp(a, env) for a in e[2]]
        return interp(f[0].body, {**f[0].env, **dict(zip(f[0].params, args))})
    raise ValueError(k)


def render(e):
    k = e[0]
    if k == 'int':
        return str(e[1])
    if k == 'str':
        return "'" + e[1] + "'"
    if k == 'var':
        return '$' + e[1]
    if k == 'seq':
        return '(' + ', '.join(render(x) for x in e[1]) + ')'
    if k == 'plus':
        return f'({render(e[1])} + {render(e[2])})'
    if k == 'count':
        return f'count({render(e[1])})'
    if k == 'for':
        return f'(for ${e[1]} in {render(e[2])} return {render(e[3])})'
    if k == 'let':
        return f'(let ${e[1]} := {render(e[2])} return {render(e[3])})'
    if k in ('some', 'every'):
        return f'({k} ${e[1]} in {render(e[2])} satisfies {render(e[3])} = {render(e[4])})'
    if k == 'mfor':
        return '(for ' + ', '.join(f'${v} in {render(x)}' for v, x in e[1]) + f' return {render(e[2])})'
    if k == 'mlet':
        return '(let ' + ', '.join(f'${v} := {render(x)}' for v, x in e[1]) + f' return {render(e[2])})'
    if k == 'mq':
        return f'({e[1]} ' + ', '.join(f'${v} in {render(x)}' for v, x in e[2]) + \
            f' satisfies {render(e[3])} = {render(e[4])})'
    if k == 'inline':
        return 'function(' + ', '.join('$' + p for p in e[1]) + '){' + render(e[2]) + '}(' + \
            ', '.join(render(a) for a in e[3]) + ')'
    if k == 'letfn':
        return f"(let ${e[1]} := function(" + ', '.join('$' + p for p in e[2]) + '){' + render(e[3]) + \
            '} return ' + render(e[4]) + ')'
    if k == 'callvar':
        return f'${e[1]}(' + ', '.join(render(a) for a in e[2]) + ')'
    raise ValueError(k)


def _mentions(e, name):
    if e[0] == 'var':
        return e[1] == name
    return any(_mentions(x, name) for x in e[1:] if isinstance(x, list) and x and isinstance(x[0], str)) or \
        any(_mentions(y, name) for x in e[1:] if isinstance(x, list) and x and isinstance(x[0], list)
            for y in x if isinstance(y, list) and y and isinstance(y[0], str))


def _scan(e, bound, info):
    """classification: shadowing (a binder re-binds a visible name), binders used, free variables"""
    k = e[0]
    if k == 'var':
        if e[1] not in bound:
            info['free'] = True
        return
    if k in ('int', 'str'):
        return
    if k == 'seq':
        for x in e[1]:
            _scan(x, bound, info)
    elif k in ('plus',):
        _scan(e[1], bound, info)
        _scan(e[2], bound, info)
    elif k == 'count':
        _scan(e[1], bound, info)
    elif k in ('for', 'let'):
        info['binders'].add(k)
        _scan(e[2], bound, info)
        if e[1] in bound:
            info['shadow'] = True
        _scan(e[3], bound | {e[1]}, info)
    elif k in ('some', 'every'):
        info['binders'].add(k)
        _scan(e[2], bound, info)
        if e[1] in bound:
            info['shadow'] = True
        _scan(e[3], bound | {e[1]}, info)
        _scan(e[4], bound | {e[1]}, info)
    elif k in ('mfor', 'mlet', 'mq'):
        clauses = e[2] if k == 'mq' else e[1]
        info['binders'].add({'mfor': 'for', 'mlet': 'let'}.get(k) or e[1])
        own = set()
        b2 = set(bound)
        for name, x in clauses:
            _scan(x, b2, info)
            if _mentions(x, name):
                info['self-range'] = True     # the range/value expression reads the (outer) variable of the same name
            if name in own:
                info['rebind'] = True
            if name in b2:
                info['shadow'] = True
            own.add(name)
            b2 = b2 | {name}
        for x in (e[3:] if k == 'mq' else e[2:]):
            _scan(x, b2, info)
    elif k == 'inline':
        info['binders'].add('inline')
        for a in e[3]:
            _scan(a, bound, info)
        if set(e[1]) & bound:
            info['shadow'] = True
        _scan(e[2], bound | set(e[1]), info)
    elif k == 'letfn':
        info['binders'].add('inline')
        if set(e[2]) & bound or e[1] in bound:
            info['shadow'] = True
        _scan(e[3], bound | set(e[2]), info)
        _scan(e[4], bound | {e[1]}, info)
    elif k == 'callvar':
        if e[1] not in bound:
            info['free'] = True
        for a in e[2]:
            _scan(a, bound, info)


def judge_scope(case, rec: Recorder | None = None):
    o = _ep()
    prog = case['prog']
    outer = {k: [v] if not isinstance(v, list) else v for k, v in case['outer'].items()}
    text = render(prog)
    info = {'binders': set(), 'shadow': False, 'free': False, 'rebind': False, 'self-range': False}
    _scan(prog, set(outer), info)
    try:
        want = ('v', interp(prog, outer))
    except ScopeError as x:
        want = ('e', x.code)
    discs = []
    classes = ['scope'] + ['scope:' + b for b in sorted(info['binders'])]
    if info['shadow']:
        classes.append('scope:shadowing')
    if info['free']:
        classes.append('scope:free-variable')
    if 'inline' in info['binders']:
        classes.append('scope:inline-function')
    if info['rebind']:
        classes.append('scope:multi-clause-rebind')
    if info['self-range']:
        classes.append('scope:range-reads-own-name')
    verdict = not (want[0] == 'e' and want[1] != 'XPST0008')
    if not verdict:
        classes.append('scope:no-verdict')
    else:
        cls = o['parsers'][case['ver']]
        variables = {k: (v[0] if len(v) == 1 else list(v)) for k, v in outer.items()}
        snap = repr(variables)
        try:
            tok = cls().parse(text)
            r = tok.evaluate(o['ep'].XPathContext(GX.materialize(VDOC, 'et').root, variables=variables))
            got = ('v', r if isinstance(r, list) else [] if r is None else [r])
        except o['ep'].ElementPathError as x:
            got = ('e', (x.code or type(x).__name__).split(':')[-1], str(x))
        except Exception as x:
            got = ('x', x)
        bk = 'with-inline-function' if 'inline' in info['binders'] else 'multi-clause-rebind' if info['rebind'] else \
            'for-let-quantified' if info['binders'] else 'no-binder'
        if info['self-range']:
            bk = 'range-reads-own-name'
        sh = 'shadow' if info['shadow'] else 'noshadow'
        if got[0] == 'x':
            discs.append(Disc(escape_bucket('C05', got[1]) + f'/scope/{bk}', want, repr(got[1]), text))
        elif want[0] == 'e':
            if got[0] != 'e':
                discs.append(Disc(f'C05/scope/{bk}/free-variable-visible/{sh}', 'XPST0008', got[1], text))
            elif got[1] != 'XPST0008':
                classes.append('scope:other-error-first')      # another error of the program was raised first: allowed
        elif got[0] == 'e':
            discs.append(Disc(f'C05/scope/{bk}/error:{got[1]}/{sh}', want[1], got[1:], text))
        else:
            g = [(type(x).__name__, x) for x in got[1]]
            w = [(type(x).__name__, x) for x in want[1]]
            if g != w:
                discs.append(Disc(f'C05/scope/{bk}/value/{sh}', want[1], got[1], text))
        if repr(variables) != snap:
            discs.append(Disc(f'C05/scope/{bk}/caller-variables-modified', snap, repr(variables), text))
    if rec is not None:
        rec.case(case, nontrivial=info['shadow'] or info['free'], sample={'check': 'scope', 'xpath': text, 'case': case},
                 classes=classes)
    return discs


# --------------------------------------------------------------------------
# strategies (byte-block decoders, see c15 for the rationale)
# --------------------------------------------------------------------------

def _unzero(b: bytes) -> bytes:
    """hypothesis pads size-capped examples with zero bytes: an all-zero block becomes a fixed varied one"""
    return b if any(b) else bytes((i * 37 + 11) % 251 for i in range(len(b)))


class Src:
    def __init__(self, data: bytes):
        self.d, self.i = data, 0

    def n(self, k):
        if self.i >= len(self.d):
            return 0
        b = self.d[self.i]
        self.i += 1
        return b % k

    def pick(self, seq):
        return seq[self.n(len(seq))]

    def many(self, fn, lo, hi):
        return [fn() for _ in range(lo + self.n(hi - lo + 1))]


_T2 = [t[0] for t in TEMPLATES if t[1] == 2]
_TALL = [t[0] for t in TEMPLATES]
_DT_T = [t[0] for t in TEMPLATES if t[0].startswith(('dt-', 'time-', 'date-', 'tz-', 'implicit-'))]
_DTI_T = [t[0] for t in TEMPLATES if t[0].startswith('dti-')]
_CTX_T = [t[0] for t in TEMPLATES if t[0].startswith('ctx-')]
_LIT_T = [t[0] for t in TEMPLATES if t[0].startswith('lit-')]
_RX_T = [t[0] for t in TEMPLATES if t[0].startswith('rx-')]
_MV_T = [t[0] for t in TEMPLATES if t[0].startswith('mv-')]
_FN_T = [t[0] for t in TEMPLATES if t[1] >= 3]
_FNITEM_T = [t[0] for t in TEMPLATES if t[0].startswith('fn-')]
_SER_T = [t[0] for t in TEMPLATES if t[0].startswith(('ser-', 'parse-', 'json-', 'xml-to-json'))]
_REBIND_T = [t[0] for t in TEMPLATES if '-rebind' in t[0]]
_POLY_T = [t[0] for t in TEMPLATES if t[0].startswith('poly-')]


def decode_hist(parts):
    head, specs, step_bytes = parts
    s = Src(_unzero(head))
    docs = []
    for spec in specs:
        docs.append({'spec': spec, 'backend': s.pick(['et', 'lxml', 'et']), 'as_tree': bool(s.n(2))})
    nex = 3 + s.n(4)
    exprs = []
    for _ in range(nex):
        c = s.n(29)
        name = (s.pick(_RX_T) if c >= 25 else s.pick(_MV_T) if c >= 22 else s.pick(_LIT_T) if c >= 19 else s.pick(_DTI_T) if c >= 17 else s.pick(_CTX_T) if c >= 15 else s.pick(_DT_T) if c < 3 else s.pick(_FNITEM_T) if c < 5 else s.pick(_SER_T) if c < 8 else
                s.pick(_REBIND_T) if c < 9 else s.pick(_FN_T) if c < 10 else s.pick(_POLY_T) if c < 13 else s.pick(_TALL))
        exprs.append([name, s.pick([2, 3, 31, 31])])
    vars_ = []
    for _ in range(2 + s.n(2)):
        vars_.append({'n': s.pick([2, 1, 0, 3]), 's': s.pick(['t', '1', 'x y', '']), 'seq': s.many(lambda: s.pick([1, 2, 3, 5]), 0, 4),
                      'd1': s.pick(DT_POOL), 'd2': s.pick(DT_POOL), 't1': s.pick(TIME_POOL), 'dd': s.pick(DATE_POOL),
                      'sp': s.n(len(SER_PARAM_SETS)),
                      'p': s.pick(P_POOL), 'fl': s.pick(FL_POOL), 'rp': s.pick(['-', '-', '[$0]', '']),
                      'flags': s.pick(FLAGS_POOL), 'coll': s.n(2), 'pic': s.pick(['0', '#,##0.00', '#.#']),
                      'ipics': s.pick([['1', 'w'], ['I', '1', 'a'], ['w', 'W']]),
                      # shapes differ per map: $v item / sequence / other type / node; $w, $zz only in some maps
                      'v': s.pick(POLY_SHAPES), 'w': s.pick(POLY_SHAPES) if s.n(2) else None,
                      'zz': s.pick(POLY_SHAPES) if s.n(3) == 0 else None, 'seq1': s.n(5) == 0, 'nodes1': s.n(5) == 0})
    # vary ONE regex argument at a time: most histories share the pattern between their maps and differ in the flags
    if s.n(4):
        base = s.n(len(FL_POOL))
        for j, vm in enumerate(vars_):
            vm['p'], vm['rp'] = vars_[0]['p'], vars_[0]['rp']
            vm['fl'] = ['', 'i', 'm', 's'][(base + j) % 4]
    steps = []
    for i in range(0, len(step_bytes) - 5, 6):
        b = step_bytes[i:i + 6]
        if not any(b):
            # hypothesis pads size-capped examples with zero bytes: replace the degenerate step by a round-robin sweep
            k = i // 6
            b = bytes([k, k, k // 2, k, k, k])
        steps.append([b[0] % nex, MODES[b[1] % len(MODES)], b[2] % len(docs), b[3] % len(vars_), b[4] % len(TZS),
                      b[5] % 4 == 3, FRAGMENTS[(b[5] // 4) % len(FRAGMENTS)]])
    return {'docs': docs, 'exprs': exprs, 'vars': vars_, 'steps': steps}


hist_case = st.tuples(st.binary(min_size=192, max_size=192),
                      st.lists(GX.tree_specs(max_elems=8, max_depth=3), min_size=2, max_size=4),
                      st.integers(10, 40).flatmap(lambda n: st.binary(min_size=6 * n, max_size=6 * n))).map(decode_hist)

_VARS = ['v', 'w', 'v', 'f']


def g_expr(s: Src, depth, bound):
    """bound: names currently bound to plain values (to bias towards reading them)"""
    c = s.n(100)
    names = sorted(bound) or ['v']
    if depth <= 0 or c < 22:
        k = s.n(10)
        if k < 6:
            return ['var', s.pick(names) if s.n(8) else s.pick(['v', 'w', 'u'])]
        if k < 9:
            return ['int', s.pick([1, 2, 7, 10])]
        return ['str', s.pick(['a', 'b'])]
    sub = lambda b=None: g_expr(s, depth - 1, bound if b is None else b)
    v = s.pick(_VARS[:3])
    if c < 34:
        return ['seq', s.many(sub, 2, 3)]
    if c < 40:
        return ['plus', ['var', s.pick(names)] if s.n(2) else ['int', s.n(5)], ['int', s.pick([1, 10, 100])]]
    if c < 45:
        return ['count', sub()]
    if c < 55:
        return ['for', v, ['seq', [['int', s.pick([1, 2, 3])] for _ in range(1 + s.n(3))]], sub(bound | {v})]
    if c < 66:
        return ['let', v, sub(), sub(bound | {v})]
    if c < 72:
        return [s.pick(['some', 'every']), v, ['seq', [['int', s.pick([1, 2, 3])] for _ in range(1 + s.n(3))]],
                ['var', v], ['int', s.pick([1, 2, 3])]]
    if c < 82:
        params = [v] if s.n(3) else [v, s.pick(['w', 'u'])]
        params = list(dict.fromkeys(params))
        return ['inline', params, sub(bound | set(params)), [sub() for _ in params]]
    if c < 94:
        return g_multi(s, depth, bound)
    params = [v]
    return ['letfn', 'f', params, sub(bound | set(params)),
            ['seq', [['callvar', 'f', [sub()]], ['var', v]]] if s.n(2) else ['callvar', 'f', [sub()]]]


def g_range(s: Src, names):
    """a range / value expression of a clause: literal integers or something reading an earlier name"""
    c = s.n(10)
    nm = s.pick(names) if names else None
    if nm is None or c < 3:
        return ['seq', [['int', s.pick([1, 2, 3])] for _ in range(s.pick([2, 2, 3, 1]))]]
    if c < 6:
        return ['plus', ['var', nm], ['int', s.pick([10, 1, 100])]]
    if c < 8:
        return ['seq', [['var', nm], ['int', s.pick([7, 8])]]]
    if c < 9:
        return ['seq', [['plus', ['var', nm], ['int', 1]], ['plus', ['var', nm], ['int', 2]]]]
    return ['var', nm]


def g_multi(s: Src, depth, bound):
    """one binder with 2-4 clauses; a later clause often rebinds the name of an earlier one and a range
    expression in between reads that name (the earlier clause yields >= 2 items most of the time: restarts)"""
    kind = s.pick(['mfor', 'mfor', 'mq', 'mlet', 'mfor', 'mq'])
    n = 2 + s.n(3)
    pool = ['v', 'w', 'u']
    clauses, names = [], []
    for i in range(n):
        if i and s.n(3) != 0:
            name = s.pick(names)                # rebind an earlier name of this binder
        else:
            name = s.pick(pool)
        if i == 0:
            own = s.n(8) == 0 and name in bound
            x = ['seq', [['var', name], ['int', 5]]] if own else \
                ['seq', [['int', k] for k in ([1, 2], [1, 2, 3], [2, 1], [3])[s.n(4)]]]
        else:
            # (a range that reads the clause's own name is legal - it sees the earlier/outer binding - but elementpath
            #  rejects it statically, a known finding: keep it rare so that it does not eat the value verdicts)
            avail = names if s.n(6) else sorted(bound)
            if s.n(10):
                avail = [x for x in avail if x != name]
            x = g_range(s, avail)
        if kind == 'mlet' and x[0] == 'seq' and s.n(2):
            x = x[1][0]
        clauses.append([name, x])
        names.append(name)
    allnames = sorted(set(names))
    if kind == 'mq':
        return ['mq', s.pick(['some', 'every']), clauses, ['var', s.pick(allnames)],
                ['int', s.pick([1, 2, 3, 11, 21])] if s.n(3) else ['plus', ['var', s.pick(allnames)], ['int', s.n(2)]]]
    body = ['seq', [['var', x] for x in allnames]] if s.n(2) else \
        g_expr(s, min(depth - 1, 1), bound | set(names)) if depth > 0 and s.n(2) else ['var', s.pick(allnames)]
    return [kind, clauses, body]


def decode_scope(data):
    s = Src(_unzero(data))
    outer = {}
    c = s.n(10)
    if c < 8:
        outer['v'] = s.pick([5, 'x', [5, 6]])
    if c in (0, 1, 2, 3, 9):
        outer['w'] = s.pick(['y', 8])
    body = g_multi(s, 2, set(outer)) if s.n(3) == 0 else g_expr(s, 3, set(outer))
    # the statement's shape: (binder ..., $v) - read the name again OUTSIDE the binding expression
    tail = ['var', s.pick(['v', 'w', 'v'])]
    prog = ['seq', [body, tail]] if s.n(4) else ['seq', [tail, body, tail]]
    return {'prog': prog, 'outer': outer, 'ver': s.pick([31, 3, 31])}


scope_case = st.binary(min_size=80, max_size=80).map(decode_scope)

# --------------------------------------------------------------------------
# module interface
# --------------------------------------------------------------------------
_STRATS = {'hist': hist_case, 'scope': scope_case}
_JUDGES = {'hist': judge_hist, 'scope': judge_scope}


def selftest():
    # reference interpreter: lexical scoping examples (XPath 3.1 sections 3.9 for, 3.12 let, 3.13 quantified, 3.1.7 inline)
    I = lambda n: ['int', n]
    V = lambda v: ['var', v]
    assert interp(['seq', [['for', 'v', ['seq', [I(1), I(2)]], ['plus', V('v'), I(10)]], V('v')]], {'v': [5]}) == [11, 12, 5]
    assert interp(['seq', [['let', 'v', I(7), ['plus', V('v'), I(1)]], V('v')]], {'v': [5]}) == [8, 5]
    assert interp(['some', 'v', ['seq', [I(1), I(2)]], V('v'), I(2)], {}) == [True]
    assert interp(['every', 'v', ['seq', [I(1), I(2)]], V('v'), I(2)], {}) == [False]
    assert interp(['seq', [['inline', ['v'], ['plus', V('v'), I(1)], [I(99)]], V('v')]], {'v': [5]}) == [100, 5]
    assert interp(['let', 'v', I(1), ['seq', [['let', 'v', I(2), V('v')], V('v')]]], {}) == [2, 1]
    assert interp(['letfn', 'f', ['v'], ['plus', V('v'), I(1)], ['seq', [['callvar', 'f', [I(10)]], V('v')]]], {'v': [5]}) == [11, 5]
    # a closure sees the bindings of its definition, not those of its call site
    assert interp(['let', 'w', I(1), ['letfn', 'f', ['v'], V('w'), ['let', 'w', I(2), ['callvar', 'f', [I(0)]]]]], {}) == [1]
    for prog in (['seq', [['let', 'v', I(1), V('v')], V('v')]], ['seq', [['inline', ['p'], V('p'), [I(1)]], V('p')]],
                 ['seq', [['for', 'v', I(1), V('v')], V('v')]]):
        try:
            interp(prog, {})
            raise AssertionError('XPST0008 expected')
        except ScopeError as x:
            assert x.code == 'XPST0008'
    assert render(['seq', [['let', 'v', I(7), V('v')], V('v')]]) == '((let $v := 7 return $v), $v)'
    # several clauses in one binder: a later clause may rebind an earlier name, ranges see the bindings so far
    rebind = ['mfor', [['x', ['seq', [I(1), I(2)]]], ['y', ['plus', V('x'), I(10)]], ['x', ['plus', V('y'), I(1)]]], V('x')]
    assert interp(rebind, {}) == [12, 13] and interp(['seq', [rebind, V('x')]], {'x': [5]}) == [12, 13, 5]
    assert render(rebind) == '(for $x in (1, 2), $y in ($x + 10), $x in ($y + 1) return $x)'
    assert interp(['mq', 'some', rebind[1], V('x'), I(13)], {}) == [True]
    assert interp(['mq', 'every', rebind[1], V('x'), ['plus', V('y'), I(1)]], {'x': [0]}) == [True]
    assert interp(['mlet', [['x', I(1)], ['y', ['plus', V('x'), I(1)]], ['x', ['plus', V('y'), I(1)]]], ['seq', [V('x'), V('y')]]], {}) == [3, 2]
    assert interp(['mfor', [['x', ['seq', [V('x'), I(5)]]]], V('x')], {'x': [9]}) == [9, 5]     # the range reads the outer $x
    assert len(T_BY_NAME) == len(TEMPLATES)


def jobs(tier, seed):
    q = tier == 'quick'
    out = []
    nh, per_h = (12, 80) if q else (12, 900)
    nsc, per_s = (4, 3000) if q else (4, 60000)
    for i in range(nh):
        out.append({'check': 'hist', 'shard': i, 'n': per_h, 'seed': derive_seed(seed, 'C05', 'hist', i)})
    for i in range(nsc):
        out.append({'check': 'scope', 'shard': i, 'n': per_s, 'seed': derive_seed(seed, 'C05', 'scope', i)})
    return out


def run_job(job, rec: Recorder):
    chk = job['check']
    jd = _JUDGES[chk]
    hyp_collect(_STRATS[chk], lambda case: rec.discs_of(chk, case, jd(case, rec)), job['n'], job['seed'], rec)


def shrink_job(job, bucket, budget):
    chk = job['check']
    return hyp_shrink(_STRATS[chk], _JUDGES[chk], bucket, job['n'], job['seed'], budget)


def judge(check, case):
    return _JUDGES[check](case)
