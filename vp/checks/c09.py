"""C09 - String functions agree with their F&O definitions on all Unicode strings.

Sub-checks
  ref   : every listed function, XPath 1.0 / 2.0 / 3.0 / 3.1 parsers, arguments passed as variables or
          rendered as literals, against vp/ref/strings.py (own transcription of F&O 3.1 / XPath 1.0 4.2)
  lxml  : XPath 1.0 parser against libxml2 (lxml.etree.XPath with $variables) on the 1.0 string functions
  laws  : the round trips / relations named by the property, evaluated as nested expressions
  coll  : html-ascii-case-insensitive collation as 3rd argument or as the parser's default collation (two-argument
          forms) on strings dense in ASCII and non-ASCII cased letters: compare and the five substring-matching functions
          against the model, their mutual agreement and the partition law
  doc   : the focus on nodes of small ElementTree / lxml documents: zero-argument (context item) forms of
          normalize-space / string-length / string on element, text and attribute nodes (alone, as steps, in predicates);
          XPath 1.0 and compatibility-mode calls whose first argument is a node-set of >= 2 nodes (first node rule)
          and whose later arguments depend on the focus (@id, @key, name()); libxml2 differential for 1.0
  reuse : one parsed expression (literal / variable argument mixes) evaluated for 3-6 different argument tuples in a
          row, inside `for` over a sequence, and over several items of a document; every evaluation is judged
"""
from __future__ import annotations

import math
import unicodedata
from decimal import Decimal

from hypothesis import strategies as st

from vp.core import Disc, Recorder, derive_seed, hyp_collect, hyp_shrink, escape_bucket, canon
from vp.ref import strings as R
from vp.ref import xsdlex as X

PROPERTY = 'C09'
LEVEL = 'exploration'
RULE = ('one case = one function call (fn, parser version 1.0/2.0/3.0/3.1, argument list) derived in batches of 24 '
        'from one hypothesis-generated pool (4 strings, 3 doubles, one 62-bit integer expanded by splitmix64); strings '
        'of 0-12 code points over an alphabet of ASCII, XML and non-XML whitespace, combining '
        'marks, astral code points and case-mapping oddities (search strings are mostly slices of the subject string); '
        'numeric arguments: integers, .5 ties and their neighbours, negatives, zeros, huge, +-INF, NaN as double / '
        'integer / decimal; arguments passed as $variables (80%) or rendered as literals with quote doubling (20%). '
        'oracle = vp/ref/strings.py (F&O in code-point terms), libxml2 for the 1.0 parser, and the laws named by the '
        'property. non-trivial = a numeric argument that is fractional / non-finite / outside 1..len, or a string '
        'argument that is empty or contains a non-BMP, combining or non-XML-whitespace character, or an empty-sequence '
        'argument; distinct by canonical (version, fn, args, literal?)')
ASSUMPTIONS = [
    'strings are restricted to XML 1.0 Char code points (no C0 controls other than TAB/LF/CR, no surrogates, no FFFE/FFFF)',
    'fn:lower-case gives no verdict on strings containing GREEK CAPITAL SIGMA (context-sensitive Final_Sigma mapping: '
    'F&O does not say whether conditional SpecialCasing mappings apply); upper/lower otherwise = per-character '
    'str.upper()/str.lower() of the running interpreter\'s Unicode version',
    'double -> string inside fn:concat: exact string demanded only when the exact decimal expansion of the double has '
    '<= 15 significant digits, otherwise lexical shape + exact round trip (XSD 1.0 canonical form does not fix the digit count)',
    'libxml2 differential: where libxml2 and the reference model disagree no verdict is given and the case is counted '
    '(class lxml:oracles-disagree; seen: libxml2 rounds with floor(x + 0.5), so substring(s, 0.49999999999999994, ...) starts at 1)',
    'libxml2 differential: numbers inside fn:concat are limited to |x| < 1e9 with <= 6 fraction digits (libxml2 formats '
    'other numbers with an exponent, which XPath 1.0 forbids); string-length is compared by numeric value',
    'the html-ascii-case-insensitive collation is modelled as: fold A-Z to a-z, then code point order, one code point '
    '= one collation unit (F&O 3.1 5.3.4); the URI is accepted by every 2.0+ parser of the package and is judged with the '
    'same semantics there; parsers are only ever built with the codepoint or this collation as default (never UCA / locale)',
    'fn:index-of / distinct-values / deep-equal / min / max and the comparison operators under a collation are not judged '
    '(not in the statement of C09)',
    'decimal and integer arguments of fn:substring are converted to xs:double first (function conversion rules)',
    'a parsed expression with $variables is evaluated many times with fresh contexts; any discrepancy is re-judged '
    'on a freshly parsed expression before it is reported',
]
FLOORS = {
    'ref:nontrivial': (0.5, 'ref:call'),
    'ref:substring:tie': (0.15, 'ref:fn:substring'),
    'ref:substring:nonfinite': (0.08, 'ref:fn:substring'),
    'ref:search:hit': (0.3, 'ref:search'),
    'ref:translate:dup-map': (0.15, 'ref:fn:translate'),
    'ref:string:astral': (0.10, 'ref:call'),
    'ref:string:nonxml-ws': (0.08, 'ref:call'),
    'ref:literal': (0.10, 'ref:call'),
    'lxml:nontrivial': (0.5, 'lxml:call'),
    'laws:contains-true': (0.25, 'laws:split'),
    'reuse:mixed-literal-variable': (0.4, 'reuse:case'),
    'reuse:3+distinct-tuples': (0.6, 'reuse:case'),
    'reuse:wrap:for': (0.12, 'reuse:case'),
    'reuse:wrap:items': (0.15, 'reuse:case'),
    'doc:ctx': (0.28, 'doc:case'),
    'doc:ns': (0.28, 'doc:case'),
    'doc:atom': (0.15, 'doc:case'),
    'doc:atom:non-string-item': (0.7, 'doc:atom'),
    'doc:nonxml-ws': (0.3, 'doc:case'),
    'doc:backend:lxml': (0.25, 'doc:case'),
    'coll:codepoint-equal': (0.12, 'coll:case'),
    'coll:relative-uri': (0.2, 'coll:case'),
    'coll:non-ascii-case': (0.6, 'coll:case'),
    'coll:case-variant-needle': (0.12, 'coll:case'),
    'coll:html-default': (0.2, 'coll:case'),
    'coll:html-explicit': (0.2, 'coll:case'),
    'ref:search:default-collation-html': (0.1, 'ref:search'),
}

CP_URI = R.CODEPOINT_COLLATION
HTML_URI = R.HTML_ASCII_CI_COLLATION
_COLL = {'cp': CP_URI, 'html': HTML_URI}

# --------------------------------------------------------------------------
# alphabet and strategies (cases are plain JSON)
# --------------------------------------------------------------------------
_ASCII = list('abcABZxy125') + list("-./%&<'\"(:){}[#~+ ?=@,;!*$_|\\^`>")
_XML_WS = ['\t', '\n', '\r', ' ']
_NONXML_WS = ['\x85', '\xa0', '\u1680', '\u2003', '\u2028', '\u3000', '\u200b']   # the last one is whitespace nowhere
_COMBINING = ['\u0301', '\u0308', '\u20d0']
_ASTRAL = ['\U0001F600', '\U00010000', '\U0010FFFF', '\U0001D400']
_CASE = ['\xdf', '\u0130', '\u01c5', '\u0131', '\u017f', '\ufb01', '\u03a3', '\u03c3', '\u03c2', '\xe9', '\xc9', '\u0149', '\u0390', '\u01c4', '\u212a']
_BMP_EDGE = ['\ufffd', '\ue000', '\ud7ff', '\x7f', '\x80', '\u07ff', '\u0800']
_ALPHABET = (_ASCII * 2 + _XML_WS * 3 + _NONXML_WS * 2 + _COMBINING * 2 + _ASTRAL * 3 + _CASE + _BMP_EDGE)
_char = st.sampled_from(_ALPHABET)
_str = st.lists(_char, min_size=0, max_size=12).map(''.join)
_short = st.lists(_char, min_size=0, max_size=3).map(''.join)

_PY_WS_NOT_XML = {c for c in map(chr, range(0x3001)) if c.isspace() and c not in ' \t\n\r'} | {'\u200b'}

_TIES = [k + 0.5 for k in range(-4, 9)]
_NEAR = [2.4999999999999996, 2.5000000000000004, 0.49999999999999994, 0.5000000000000001, -0.5, -0.49999999999999994,
         1.4999999999999998, 3.5000000000000004, -1.5, -2.5]
_INTS = [float(k) for k in range(-4, 14)]
_ZERO = [0.0, -0.0, 5e-324, -5e-324, 1e-300]
_HUGE = [1e18, -1e18, 1e300, -1e300, 2.0 ** 53, -2.0 ** 53, 2.0 ** 63, 2.0 ** 31, 4294967296.0, 4294967297.0,
         1.7976931348623157e308, -1.7976931348623157e308, 9007199254740993.0]
_NONFIN = [math.inf, -math.inf, math.nan]


def _dj(x: float) -> list:
    return ['d', repr(float(x))]


_INT_POOL = list(range(-4, 15)) + [10 ** 18, -10 ** 18, 2 ** 63, 2 ** 53 + 1, 10 ** 30, -10 ** 30]
_DEC_POOL = [str(Decimal(k) / 2) for k in range(-9, 28)] + \
    ['2.50', '0.5', '-0.5', '1.4999999', '2.5000001', '1000000000000000000000.5', '0.0', '3.', '.5', '12345678901234567890']

_V1_FUNCS = ['substring', 'substring', 'substring', 'substring-before', 'substring-after', 'contains', 'starts-with',
             'translate', 'translate', 'normalize-space', 'normalize-space', 'string-length', 'concat']
_V2_FUNCS = _V1_FUNCS + ['ends-with', 'upper-case', 'lower-case', 'compare', 'compare', 'codepoint-equal',
                         'string-to-codepoints', 'codepoints-to-string', 'encode-for-uri', 'iri-to-uri',
                         'escape-html-uri']
_SEARCH = ('substring-before', 'substring-after', 'contains', 'starts-with', 'ends-with', 'compare', 'codepoint-equal')
_COLLATED = ('substring-before', 'substring-after', 'contains', 'starts-with', 'ends-with', 'compare')
_BAD_CPS = [0, 1, 8, 0xB, 0x1F, 0xD800, 0xDFFF, 0xFFFE, 0xFFFF, 0x110000, -1, 0x20, 0x10FFFF, 0xD7FF, 0xE000, 0xFFFD, 0x10000]
_LAWS = ['cp-roundtrip', 'split', 'concat-length', 'prefix', 'compare']
BATCH = 24

# One hypothesis example = a pool (4 strings, 3 arbitrary doubles) + a 62-bit integer.  The batch of BATCH calls is a
# pure function of that example (splitmix64 stream seeded by the integer picks functions, versions, slices and
# the tabulated numbers), which keeps the hypothesis overhead per call small.  The judged/recorded case is the
# expanded call, so replay files do not depend on this expansion.
pool_strategy = st.fixed_dictionaries({
    'strings': st.lists(_str, min_size=4, max_size=4),
    'floats': st.lists(st.floats(-6, 16, allow_nan=False), min_size=3, max_size=3),
    'mix': st.integers(0, 2 ** 62),
})


class _Mix:
    """splitmix64: deterministic stream of choices derived from one drawn integer"""

    def __init__(self, seed: int):
        self.x = seed & 0xFFFFFFFFFFFFFFFF

    def next(self) -> int:
        self.x = (self.x + 0x9E3779B97F4A7C15) & 0xFFFFFFFFFFFFFFFF
        z = self.x
        z = ((z ^ (z >> 30)) * 0xBF58476D1CE4E5B9) & 0xFFFFFFFFFFFFFFFF
        z = ((z ^ (z >> 27)) * 0x94D049BB133111EB) & 0xFFFFFFFFFFFFFFFF
        return z ^ (z >> 31)

    def below(self, n: int) -> int:
        return self.next() % n

    def pick(self, seq):
        return seq[self.next() % len(seq)]


def _mk_double(mx: _Mix, pool) -> list:
    k = mx.below(10)
    if k < 2:
        return _dj(mx.pick(_TIES))
    if k == 2:
        return _dj(mx.pick(_NEAR))
    if k == 3:
        return _dj(mx.pick(_INTS))
    if k == 4:
        return _dj(mx.pick(_ZERO))
    if k == 5:
        return _dj(mx.pick(_HUGE))
    if k < 8:
        return _dj(mx.pick(_NONFIN))
    if k == 8:
        return _dj(mx.pick(pool['floats']))
    return _dj((mx.below(81) - 24) / 4.0)


def _mk_num(mx: _Mix, pool) -> list:
    k = mx.below(5)
    if k < 3:
        return _mk_double(mx, pool)
    if k == 3:
        return ['i', mx.pick(_INT_POOL)]
    return ['c', mx.pick(_DEC_POOL)]


def _mk_str(mx: _Mix, pool) -> str:
    s = mx.pick(pool['strings'])
    k = mx.below(4)
    if k == 0 and s:
        i = mx.below(len(s))
        return s[i:] + s[:i]
    if k == 1:
        return s[:mx.below(len(s) + 1)]
    return s


def _mk_short(mx: _Mix, pool) -> str:
    s = mx.pick(pool['strings'])
    if not s:
        return s
    i = mx.below(len(s))
    return s[i:i + mx.below(4)]


def _mk_pair(mx: _Mix, pool):
    """(s, t): t is mostly a slice of s, so that searches hit"""
    s = _mk_str(mx, pool)
    k = mx.below(12)
    if k < 8 and s:
        i = mx.below(len(s))
        j = i + 1 + mx.below(min(len(s), i + 4) - i)
        t = s[i:j]
        if mx.below(8) == 0:
            t = t.swapcase()
    elif k < 9:
        t = ''
    elif k < 10:
        t = s
    else:
        t = _mk_short(mx, pool)
    return s, t


def _mk_call(mx: _Mix, pool, versions=('1.0', '2.0', '3.0', '3.1'), lit_ok=True) -> dict:
    ver = mx.pick(versions)
    fn = mx.pick(_V1_FUNCS if ver == '1.0' else _V2_FUNCS)
    args = _mk_args(mx, pool, ver, fn)
    lit = lit_ok and mx.below(5) == 0
    case = {'ver': ver, 'fn': fn, 'args': args, 'lit': lit}
    if ver != '1.0' and (fn in _COLLATED or fn in _IGNORE_DC) and mx.below(3) == 0:
        case['dc'] = 'html'          # parser built with default_collation = html-ascii-case-insensitive
    return case


def _mk_args(mx: _Mix, pool, ver, fn) -> list:
    v2 = ver != '1.0'

    def S(x):
        return ['s', x]

    def opt(arg):      # '?' arguments may be the empty sequence (2.0+)
        if v2 and mx.below(16) == 0:
            return ['e']
        return arg

    if fn == 'substring':
        args = [opt(S(_mk_str(mx, pool))), _mk_num(mx, pool)]
        if mx.below(2):
            args.append(_mk_num(mx, pool))
    elif fn in _SEARCH:
        s, t = _mk_pair(mx, pool)
        if mx.below(10) == 0:
            s, t = t, s
        args = [opt(S(s)), opt(S(t))]
        if v2 and fn in _COLLATED and mx.below(4) == 0:
            args.append(['coll', 'html' if mx.below(2) else 'cp'])
    elif fn == 'translate':
        s = _mk_str(mx, pool)
        chars = list(s) + ['a', 'b', '-']
        m = ''.join(mx.pick(chars) for _ in range(mx.below(7)))
        if mx.below(3) == 0 and m:
            m = m + m[0]
        k = mx.below(3)
        t = _mk_short(mx, pool) if k == 0 else _mk_str(mx, pool) if k == 1 else m[::-1]
        args = [opt(S(s)), S(m), S(t)]
    elif fn == 'concat':
        args = []
        for _ in range(2 + mx.below(3)):
            k = mx.below(5)
            if k < 2:
                args.append(S(_mk_short(mx, pool)))
            elif k == 2:
                args.append(_mk_num(mx, pool))
            elif k == 3:
                args.append(['e'] if v2 else S(_mk_short(mx, pool)))
            else:
                args.append(['b', bool(mx.below(2))])
    elif fn == 'codepoints-to-string':
        src = _mk_str(mx, pool)
        cps = []
        for _ in range(mx.below(7)):
            if mx.below(4) == 0 or not src:
                cps.append(mx.pick(_BAD_CPS))
            else:
                cps.append(ord(mx.pick(src)))
        args = [['cps', cps]]
    else:
        args = [opt(S(_mk_str(mx, pool)))]
    if not v2:      # XPath 1.0 numbers are doubles
        args = [_dj(_ref_double(a)) if a[0] in ('i', 'c') else a for a in args]
    return args


_IGNORE_DC = ('codepoint-equal', 'string-to-codepoints')     # must ignore the parser's default collation
_REUSE_WRAPS = ['plain', 'plain', 'for', 'items']
_NO_ITER = ('codepoints-to-string', 'string-to-codepoints')      # sequence valued: plain re-evaluation only
REUSE_BATCH = 8


def _mk_reuse(mx: _Mix, pool) -> dict:
    """one call shape (function + literal / variable mask) with 3-6 argument tuples that share the literal arguments"""
    ver = mx.pick(['1.0', '2.0', '3.0', '3.1'])
    fn = mx.pick(_V1_FUNCS if ver == '1.0' else _V2_FUNCS)
    wrap = mx.pick(_REUSE_WRAPS)
    if fn in _NO_ITER or (wrap == 'for' and ver == '1.0'):
        wrap = 'plain' if fn in _NO_ITER or mx.below(2) else 'items'

    def clean(args):
        out = []
        for a in args:
            if a[0] == 'e':
                a = ['s', '']                      # the empty sequence cannot be a literal / an item of a sequence
            if fn == 'concat' and a[0] in ('d', 'i', 'c'):
                a = ['s', _mk_short(mx, pool)]     # number formatting is judged by the ref sub-check
            out.append(a)
        return out

    row0 = clean(_mk_args(mx, pool, ver, fn))
    n = len(row0)
    rows = [row0]
    for _ in range(2 + mx.below(4)):
        row = None
        for _try in range(6):
            cand = clean(_mk_args(mx, pool, ver, fn))
            if len(cand) == n and all((a[0] == 'coll') == (b[0] == 'coll') for a, b in zip(cand, row0)):
                row = cand
                break
        if row is None:
            row = [list(a) for a in row0]
            row[0] = ['s', _mk_str(mx, pool)] if row[0][0] == 's' else row[0]
        rows.append(row)
    # literal / variable mask: collation URIs are always literal; at least one variable position
    lits = [a[0] == 'coll' or mx.below(2) == 0 for a in row0]
    free = [i for i, a in enumerate(row0) if a[0] != 'coll']
    if all(lits[i] for i in free):
        lits[mx.pick(free)] = False
    if fn == 'translate' and mx.below(3) == 0:
        lits = [mx.below(2) == 0, True, False]    # literal map string, computed replacement string
    for r in rows[1:]:
        for i in range(n):
            if lits[i]:
                r[i] = row0[i]
            elif wrap == 'items' and (r[i][0] != 's' or row0[i][0] != 's'):
                r[i] = row0[i]                     # only strings vary between items
    return {'ver': ver, 'fn': fn, 'wrap': wrap, 'lits': lits, 'rows': rows}


def _mk_law(mx: _Mix, pool) -> dict:
    law = mx.pick(_LAWS)
    ver = mx.pick(['2.0', '3.0', '3.1'] if law in ('cp-roundtrip', 'compare') else ['1.0', '2.0', '3.0', '3.1'])
    s, t = _mk_pair(mx, pool)
    case = {'law': law, 'ver': ver, 's': s, 't': t, 'n': _mk_num(mx, pool)}
    if ver != '1.0' and law in ('split', 'compare', 'cp-roundtrip') and mx.below(2) == 0:
        case['dc'] = 'html'
    return case


def expand(check: str, pool) -> list:
    """the batch of cases (plain JSON) determined by one generated pool"""
    mx = _Mix(pool['mix'])
    if check == 'ref':
        return [_mk_call(mx, pool) for _ in range(BATCH)]
    if check == 'lxml':
        return [_mk_call(mx, pool, versions=('1.0',)) for _ in range(BATCH)]
    if check == 'reuse':
        return [_mk_reuse(mx, pool) for _ in range(REUSE_BATCH)]
    if check == 'coll':
        return [_mk_coll(mx) for _ in range(COLL_BATCH)]
    if check == 'doc':
        return [_mk_doc(mx, pool) for _ in range(DOC_BATCH)]
    return [_mk_law(mx, pool) for _ in range(BATCH)]


# --------------------------------------------------------------------------
# argument conversion, rendering
# --------------------------------------------------------------------------


def _ref_double(a) -> float:
    """argument as xs:double (function conversion rules: integer/decimal are promoted)"""
    if a[0] == 'd':
        return float(a[1])
    if a[0] == 'i':
        return float(a[1])            # correctly rounded (nearest even) conversion, as xs:double(xs:integer)
    if a[0] == 'c':
        return float(Decimal(a[1]))
    raise ValueError(a)


def _py_value(a):
    """the python value handed to elementpath as a variable"""
    k = a[0]
    if k == 's':
        return a[1]
    if k == 'd':
        return float(a[1])
    if k == 'i':
        return a[1]
    if k == 'c':
        return Decimal(a[1])
    if k == 'b':
        return a[1]
    if k == 'cps':
        return list(a[1])
    raise ValueError(a)


def _quote(s: str, ver: str, which: int) -> str | None:
    q = '"' if which else "'"
    if q in s:
        if ver == '1.0':
            other = "'" if which else '"'
            if other in s:
                return None
            return other + s + other
        return q + s.replace(q, q + q) + q
    return q + s + q


def _lit_number(a, ver) -> str:
    k = a[0]
    if k == 'i':
        return str(a[1]) if a[1] >= 0 else '(' + str(a[1]) + ')'
    if k == 'c':
        return a[1] if not a[1].startswith('-') else '(' + a[1] + ')'
    x = float(a[1])
    if ver == '1.0':
        if math.isnan(x):
            return '(0 div 0)'
        if math.isinf(x):
            return '(1 div 0)' if x > 0 else '(-1 div 0)'
        if x == 0 and math.copysign(1, x) < 0:
            return '(-0)'
        if abs(x) >= 2.0 ** 53:
            # XPath 1.0 has no exponent notation; elementpath keeps such a literal as an exact Decimal (the
            # recorded 'XPath 1.0 exact arithmetic' finding of C06), so sums with doubles differ from IEEE
            # arithmetic beyond 2**53: such arguments are passed as variables instead (outside C09's domain)
            return None
        body = X.xpath1_number_to_string(abs(x))
        if '.' not in body:
            body += '.0'
        return body if x > 0 else '(-' + body + ')'
    if math.isnan(x):
        return "xs:double('NaN')"
    if math.isinf(x):
        return "xs:double('INF')" if x > 0 else "xs:double('-INF')"
    r = repr(abs(x))
    if 'e' not in r:
        r += 'e0'
    return r if math.copysign(1, x) > 0 else '(-' + r + ')'


def _render(case) -> tuple[str, dict] | None:
    """(expression, variables) for a call case; None if it cannot be rendered as asked (falls back to variables)"""
    ver, lit = case['ver'], case['lit']
    parts, variables = [], {}
    for i, a in enumerate(case['args']):
        k = a[0]
        if k == 'e':
            parts.append('()')
        elif k == 'coll':
            parts.append("'" + _COLL[a[1]] + "'")
        elif not lit:
            variables['v%d' % i] = _py_value(a)
            parts.append('$v%d' % i)
        elif k == 's':
            q = _quote(a[1], ver, (len(a[1]) + i) & 1)
            if q is None:
                variables['v%d' % i] = a[1]
                parts.append('$v%d' % i)
            else:
                parts.append(q)
        elif k == 'b':
            parts.append('true()' if a[1] else 'false()')
        elif k == 'cps':
            parts.append('(' + ', '.join(str(c) if c >= 0 else '(' + str(c) + ')' for c in a[1]) + ')')
        else:
            ln = _lit_number(a, ver)
            if ln is None:
                variables['v%d' % i] = _py_value(a)
                parts.append('$v%d' % i)
            else:
                parts.append(ln)
    return case['fn'] + '(' + ', '.join(parts) + ')', variables


# --------------------------------------------------------------------------
# expected values
# --------------------------------------------------------------------------
class NoVerdict(Exception):
    pass


def _sval(a):
    return None if a[0] == 'e' else a[1]


def _atomic_string(a, ver):
    """string form of a concat argument; returns (string, checker) where checker(observed_piece) is used for doubles
    whose digits are not forced"""
    k = a[0]
    if k == 'e':
        return ''
    if k == 's':
        return a[1]
    if k == 'b':
        return 'true' if a[1] else 'false'
    if ver == '1.0':
        return X.xpath1_number_to_string(_ref_double(a))
    if k == 'i':
        return X.integer_to_string(a[1])
    if k == 'c':
        return X.decimal_to_string(Decimal(a[1]))
    return X.double_to_string(float(a[1]))


def _expected(case):
    """('str'|'bool'|'int'|'seq'|'empty'|'error', value)"""
    fn, ver, args = case['fn'], case['ver'], case['args']
    coll = _COLL[case.get('dc', 'cp')]
    if args and args[-1][0] == 'coll':
        coll = _COLL[args[-1][1]]
        args = args[:-1]
    if fn == 'substring':
        s = _sval(args[0])
        if len(args) == 2:
            return 'str', R.substring(s, _ref_double(args[1]))
        return 'str', R.substring(s, _ref_double(args[1]), _ref_double(args[2]))
    if fn == 'substring-before':
        return 'str', R.substring_before(_sval(args[0]), _sval(args[1]), coll)
    if fn == 'substring-after':
        return 'str', R.substring_after(_sval(args[0]), _sval(args[1]), coll)
    if fn == 'contains':
        return 'bool', R.contains(_sval(args[0]), _sval(args[1]), coll)
    if fn == 'starts-with':
        return 'bool', R.starts_with(_sval(args[0]), _sval(args[1]), coll)
    if fn == 'ends-with':
        return 'bool', R.ends_with(_sval(args[0]), _sval(args[1]), coll)
    if fn == 'compare':
        v = R.compare(_sval(args[0]), _sval(args[1]), coll)
        return ('empty', None) if v is None else ('int', v)
    if fn == 'codepoint-equal':
        v = R.codepoint_equal(_sval(args[0]), _sval(args[1]))
        return ('empty', None) if v is None else ('bool', v)
    if fn == 'translate':
        return 'str', R.translate(_sval(args[0]), args[1][1], args[2][1])
    if fn == 'normalize-space':
        return 'str', R.normalize_space(_sval(args[0]))
    if fn == 'string-length':
        return 'int', R.string_length(_sval(args[0]))
    if fn == 'concat':
        return 'str', ''.join(_atomic_string(a, ver) for a in args)
    if fn == 'upper-case':
        return 'str', R.upper_case(_sval(args[0]))
    if fn == 'lower-case':
        v = R.lower_case(_sval(args[0]))
        if v is None:
            raise NoVerdict('final-sigma')
        return 'str', v
    if fn == 'string-to-codepoints':
        v = R.string_to_codepoints(_sval(args[0]))
        return ('seq', v) if v else ('empty', None)
    if fn == 'codepoints-to-string':
        try:
            return 'str', R.codepoints_to_string(args[0][1])
        except R.FnError as e:
            return 'error', e.code
    if fn == 'encode-for-uri':
        return 'str', R.encode_for_uri(_sval(args[0]))
    if fn == 'iri-to-uri':
        return 'str', R.iri_to_uri(_sval(args[0]))
    if fn == 'escape-html-uri':
        return 'str', R.escape_html_uri(_sval(args[0]))
    raise ValueError(fn)


# --------------------------------------------------------------------------
# classes (input class of a call: feeds buckets, histogram and the non-trivial rule)
# --------------------------------------------------------------------------

def _str_flags(s: str) -> set:
    f = set()
    if s == '':
        f.add('empty')
    for c in s:
        o = ord(c)
        if o > 0xFFFF:
            f.add('astral')
        elif unicodedata.combining(c):
            f.add('combining')
        if c in _PY_WS_NOT_XML:
            f.add('nonxml-ws')
        if c in ' \t\n\r':
            f.add('xml-ws')
        if o > 0x7F:
            f.add('non-ascii')
    return f


def _num_class(x: float, n: int) -> str:
    if math.isnan(x):
        return 'nan'
    if math.isinf(x):
        return 'neg-inf' if x < 0 else 'pos-inf'
    if abs(x) >= 2.0 ** 31:
        return 'huge'
    fl = math.floor(x)
    if x - fl == 0.5:
        return 'tie'
    if x != fl:
        return 'frac'
    if x == 0 and math.copysign(1, x) < 0:
        return 'neg-zero'
    return 'int' if 1 <= x <= max(n, 1) else 'int-out'


def _piece_kind(a) -> str:
    """kind of one fn:concat argument"""
    k = a[0]
    if k == 'd':
        x = float(a[1])
        if math.isnan(x) or math.isinf(x):
            return 'double-nonfinite'
        if x == 0:
            return 'double-zero'
        if 0.000001 <= abs(x) < 1000000:
            return 'double-finite/decimal-range'
        return 'double-finite/sci-range'
    return {'c': 'decimal', 'i': 'integer', 'b': 'boolean', 's': 'string', 'e': 'empty-seq'}[k]


def _concat_fail_kind(case, obs: str) -> str:
    """input class x failure kind of the fn:concat arguments whose string form is not found at its place in obs.
    For a finite double: form/<range> if the text in its place still denotes the same double (then the walk goes on
    behind it), else value/<range>.  The first value failure wins, else the first form failure."""
    pos = 0
    args = case['args']
    form = None
    for i, a in enumerate(args):
        piece = _atomic_string(a, case['ver'])
        if obs.startswith(piece, pos):
            pos += len(piece)
            continue
        kind = _piece_kind(a)
        if not kind.startswith('double-finite'):
            return kind + '/value'
        rng = kind.split('/')[1]
        x = float(a[1])
        end = None
        for e in range(min(len(obs), pos + 400), pos, -1):
            got = obs[pos:e]
            if got[-1] in '0123456789' and got[0] in '-0123456789' and '_' not in got:
                try:
                    if float(got) == x:
                        end = e
                        break
                except ValueError:
                    pass
        if end is None:
            return 'double-finite/value/' + rng
        form = form or 'double-finite/form/' + rng
        pos = end
    if form:
        return form
    return 'trailing-text/value'


def _classify(case):
    """(bucket class string, class tags, nontrivial)"""
    fn, args = case['fn'], case['args']
    flags = set()
    for a in args:
        if a[0] == 's':
            flags |= _str_flags(a[1])
        elif a[0] == 'e':
            flags.add('empty-seq')
    tags = ['string:' + f for f in sorted(flags)]
    nontrivial = bool(flags & {'empty', 'astral', 'combining', 'nonxml-ws', 'empty-seq'})
    cls = 'plain'
    if fn == 'substring':
        n = len(_sval(args[0]) or '')
        ncs = [_num_class(_ref_double(a), n) for a in args[1:]]
        kinds = [a[0] for a in args[1:]]
        if any(c == 'tie' for c in ncs):
            tags.append('substring:tie')
        if any(c in ('nan', 'neg-inf', 'pos-inf') for c in ncs):
            tags.append('substring:nonfinite')
        if any(c != 'int' for c in ncs):
            nontrivial = True
        if len(args) == 2 and ncs[0] == 'neg-inf':
            cls = 'neg-inf-start-2arg'
        else:
            for c in ('nan', 'tie', 'neg-inf', 'pos-inf', 'huge', 'neg-zero', 'frac', 'int-out', 'int'):
                if c in ncs:
                    cls = c
                    break
        if cls in ('frac', 'int-out', 'int', 'huge') and any(k != 'd' for k in kinds):
            cls += '-' + '-'.join(sorted({{'d': 'dbl', 'i': 'int', 'c': 'dec'}[k] for k in kinds}))
    elif fn in _SEARCH:
        s, t = _sval(args[0]) or '', _sval(args[1]) or ''
        coll = args[2][1] if len(args) > 2 else None
        if coll is None and case.get('dc', 'cp') == 'html' and fn == 'codepoint-equal':
            tags.append('search:codepoint-equal-under-html-default')
        if coll is None and case.get('dc', 'cp') == 'html' and fn in _COLLATED:
            coll = 'html'
            tags.append('search:default-collation-html')
        tags.append('search')
        hit = R.contains(s, t) and t != ''
        if hit:
            tags.append('search:hit')
        parts = []
        if coll:
            parts.append('coll-' + coll)
            tags.append('search:coll-' + coll)
        if coll == 'html':
            fold = lambda z: ''.join(chr(ord(c) + 32) if 'A' <= c <= 'Z' else c for c in z)
            if s.casefold() != fold(s) or t.casefold() != fold(t) or s.lower() != fold(s) or t.lower() != fold(t):
                parts.append('non-ascii-case')
        if t == '' or s == '':
            parts.append('empty-operand')
        elif flags & {'astral'}:
            parts.append('astral')
        cls = '+'.join(parts) or 'plain'
        if 'non-ascii-case' in parts:
            cls = 'coll-html+non-ascii-case'
    elif fn == 'translate':
        m, t = args[1][1], args[2][1]
        parts = []
        if len(set(m)) != len(m):
            parts.append('dup-map')
            tags.append('translate:dup-map')
        if len(t) < len(m):
            parts.append('short-trans')
        elif len(t) > len(m):
            parts.append('long-trans')
        if parts:
            nontrivial = True
        if 'astral' in flags:
            parts.append('astral')
        cls = parts[0] if parts else 'plain'
    elif fn == 'normalize-space':
        cls = 'nonxml-ws' if 'nonxml-ws' in flags else 'xml-ws' if 'xml-ws' in flags else 'plain'
    elif fn == 'concat':
        kinds = {_piece_kind(a) for a in args}
        if any(k.startswith('double') for k in kinds):
            nontrivial = True
        for k in sorted(kinds):
            tags.append('concat:' + k)
        cls = 'numeric' if kinds - {'string', 'empty-seq', 'boolean'} else 'strings'
    elif fn == 'codepoints-to-string':
        bad = [c for c in args[0][1] if not R.is_xml_char(c)]
        cls = 'non-xml-char' if bad else 'plain'
        nontrivial = nontrivial or bool(bad) or not args[0][1] or any(c > 0xFFFF for c in args[0][1])
        if any(c > 0xFFFF for c in args[0][1]):
            tags.append('string:astral')
    else:
        for f in ('astral', 'nonxml-ws', 'combining', 'non-ascii', 'empty'):
            if f in flags:
                cls = f
                break
    if 'empty-seq' in flags:
        cls += '+empty-seq'
    return cls, tags, nontrivial


# --------------------------------------------------------------------------
# evaluation through elementpath
# --------------------------------------------------------------------------
_ROOT = None
_PARSER: dict = {}
_TOKENS: dict = {}


def _root():
    global _ROOT
    if _ROOT is None:
        import xml.etree.ElementTree as ET
        _ROOT = ET.Element('r')
    return _ROOT


def _parser(ver, dc='cp'):
    """parser for an XPath version; dc = default collation ('cp' codepoint, 'html' html-ascii-case-insensitive).
    Never a UCA / locale collation in-process."""
    p = _PARSER.get((ver, dc))
    if p is None:
        from elementpath import XPath1Parser, XPath2Parser
        from elementpath.xpath30 import XPath30Parser
        from elementpath.xpath31 import XPath31Parser
        cls = {'1.0': XPath1Parser, '2.0': XPath2Parser, '3.0': XPath30Parser, '3.1': XPath31Parser}[ver]
        if ver == '1.0':
            p = cls()
        elif dc == 'html':
            p = cls(default_collation=HTML_URI)
        else:
            p = cls()
            if p.default_collation != CP_URI:       # locale dependent default: pin it
                p = cls(default_collation=CP_URI)
        _PARSER[(ver, dc)] = p
    return p


def _evaluate(ver, expr, variables, fresh=False, dc='cp'):
    """('ok', result) | ('error', code, message) ; other exceptions propagate"""
    from elementpath import XPathContext, ElementPathError
    try:
        if fresh:
            parser = type(_parser(ver))(**({} if ver == '1.0' else {'default_collation': _COLL[dc]}))
            token = parser.parse(expr)
        else:
            token = _TOKENS.get((ver, dc, expr))
            if token is None:
                token = _parser(ver, dc).parse(expr)
                if variables and len(_TOKENS) < 5000 and '"' not in expr and \
                        "'" not in expr.replace("'" + CP_URI + "'", '').replace("'" + HTML_URI + "'", ''):
                    _TOKENS[(ver, dc, expr)] = token
        ctx = XPathContext(_root(), variables=dict(variables))
        return ('ok', token.get_results(ctx))
    except ElementPathError as e:
        code = (e.code or '').split(':')[-1]
        return ('error', code, str(e))


def _same_number(obs, want: int) -> bool:
    return isinstance(obs, (int, float, Decimal)) and not isinstance(obs, bool) and obs == want


def _compare(case, kind, want, res):
    """-> (failure kind, observed) or None"""
    ver, fn = case['ver'], case['fn']
    if res[0] == 'error':
        if kind == 'error' and res[1] == want:
            return None
        return ('error/' + (res[1] or 'none'), res[1] + ': ' + res[2][:120])
    obs = res[1]
    if kind == 'error':
        return ('no-error', obs)
    if kind == 'empty':
        return None if obs == [] else ('value', obs)
    if kind == 'seq':
        if isinstance(obs, list) and obs == want and all(type(x) is int for x in obs):
            return None
        return ('value', obs)
    if kind == 'str':
        if not isinstance(obs, str):
            return ('type', obs)
        if obs == want:
            return None
        if fn == 'concat' and _concat_acceptable(case, obs):
            return None
        return ('value', obs)
    if kind == 'bool':
        if obs is want:
            return None
        return ('type' if not isinstance(obs, bool) else 'value', obs)
    if kind == 'int':
        if ver == '1.0':
            return None if _same_number(obs, want) else ('value', obs)
        if type(obs) is int and obs == want:
            return None
        return ('type' if _same_number(obs, want) else 'value', obs)
    raise ValueError(kind)


def _concat_acceptable(case, obs: str) -> bool:
    """concat with doubles whose digit string is not forced: accept any well-shaped round-tripping form.
    Decided only for the simple layout of exactly one such double (others compared exactly)."""
    if case['ver'] == '1.0':
        return False
    args = case['args']
    loose = [i for i, a in enumerate(args) if a[0] == 'd' and not X.double_is_short_exact(float(a[1]))]
    if len(loose) != 1:
        return False
    i = loose[0]
    pre = ''.join(_atomic_string(a, case['ver']) for a in args[:i])
    post = ''.join(_atomic_string(a, case['ver']) for a in args[i + 1:])
    if not (obs.startswith(pre) and obs.endswith(post) and len(obs) >= len(pre) + len(post)):
        return False
    piece = obs[len(pre):len(obs) - len(post)] if post else obs[len(pre):]
    return X.double_string_problem(float(args[i][1]), piece) is None


def _vgroup(ver):
    return 'v1' if ver == '1.0' else 'v2+'


def judge_call(case, rec: Recorder | None = None, prefix='ref') -> list[Disc]:
    discs: list[Disc] = []
    cls, tags, nontrivial = _classify(case)
    fn, ver = case['fn'], case['ver']
    expr, variables = _render(case)
    literal = case['lit'] and any(a[0] in ('s', 'd', 'i', 'c', 'b', 'cps') for a in case['args']) and \
        not any(k.startswith('v') for k in variables)
    verdict = True
    try:
        kind, want = _expected(case)
    except NoVerdict:
        verdict = False
    if rec is not None:
        classes = [prefix + ':call', prefix + ':fn:' + fn, prefix + ':ver:' + ver] + [prefix + ':' + t for t in tags]
        if nontrivial:
            classes.append(prefix + ':nontrivial')
        if literal:
            classes.append(prefix + ':literal')
        if not verdict:
            classes.append(prefix + ':no-verdict')
        rec.case([ver, fn, case['args'], case['lit']], nontrivial=nontrivial,
                 sample={'check': prefix, 'expr': expr, 'case': case}, classes=classes)
    if not verdict:
        return discs
    base = f'C09/{fn}/{_vgroup(ver)}/{cls}'
    if cls.startswith('coll-html+non-ascii-case'):
        base = f'C09/coll-html/non-ascii-case/{fn}'
    if case.get('dc', 'cp') == 'html' and (fn in _COLLATED or fn in _IGNORE_DC) and not (case['args'] and case['args'][-1][0] == 'coll'):
        base += '/default-collation'
    try:
        dc = case.get('dc', 'cp')
        res = _evaluate(ver, expr, variables, dc=dc)
        bad = _compare(case, kind, want, res)
        if bad is not None and (ver, dc, expr) in _TOKENS:
            res2 = _evaluate(ver, expr, variables, fresh=True, dc=dc)
            if _compare(case, kind, want, res2) is None:
                discs.append(Disc(f'C09/reuse/{fn}/{_vgroup(ver)}/parsed-expression-not-reusable', want, bad[1], expr))
                return discs
    except Exception as e:
        discs.append(Disc(escape_bucket('C09', e) + f'/{fn}/{_vgroup(ver)}', want, repr(e), expr))
        return discs
    if bad is not None:
        fk, obs = bad
        if fn == 'concat' and fk == 'value':
            fk = _concat_fail_kind(case, obs)
            base = f'C09/{fn}/{_vgroup(ver)}'
        if literal:
            # the same call with variables decides whether the literal rendering is the cause
            vcase = dict(case, lit=False)
            e2, v2 = _render(vcase)
            try:
                if _compare(vcase, kind, want, _evaluate(ver, e2, v2, dc=case.get('dc', 'cp'))) is None:
                    base = f'C09/literal/{_vgroup(ver)}/{fn}'
            except Exception:
                pass
        discs.append(Disc(f'{base}/{fk}', want, obs, f'{expr} with {variables!r}'[:500]))
    return discs


def _cases_of(check, case) -> list:
    """a generated pool, an explicit batch, or a single case"""
    if 'mix' in case:
        return expand(check, case)
    return case['batch'] if 'batch' in case else [case]


def judge_ref(case, rec=None):
    out = []
    for c in _cases_of('ref', case):
        ds = judge_call(c, rec, 'ref')
        if rec is not None:
            rec.discs_of('ref', c, ds)
        out += ds
    return out


# --------------------------------------------------------------------------
# libxml2 differential (XPath 1.0 parser)
# --------------------------------------------------------------------------
_LX: dict = {}
_LXDOC = None


def _lxml_eval(expr, variables):
    global _LXDOC
    from lxml import etree
    if _LXDOC is None:
        _LXDOC = etree.XML('<r/>')
    f = _LX.get(expr)
    if f is None:
        f = etree.XPath(expr)
        if len(_LX) < 5000:
            _LX[expr] = f
    return f(_LXDOC, **variables)


def _lxml_safe_number(x: float) -> bool:
    """numbers that libxml2 converts to a string the way XPath 1.0 says (no exponent)"""
    if math.isnan(x) or math.isinf(x):
        return True
    if x == 0:
        return True
    if abs(x) >= 1e9:
        return False
    return Decimal(repr(x)) == Decimal(repr(x)).quantize(Decimal('0.000001')) and abs(x) >= 1e-4


def judge_lxml_call(case, rec: Recorder | None = None) -> list[Disc]:
    discs: list[Disc] = []
    assert case['ver'] == '1.0'
    fn = case['fn']
    cls, tags, nontrivial = _classify(case)
    # arguments: doubles for both sides (lxml turns every python number into a double)
    args = []
    for a in case['args']:
        args.append(_dj(_ref_double(a)) if a[0] in ('i', 'c') else a)
    case = dict(case, args=args)
    skip = fn == 'concat' and any(a[0] == 'd' and not _lxml_safe_number(float(a[1])) for a in args)
    lit = case['lit'] and not any(a[0] == 's' and ("'" in a[1] and '"' in a[1]) for a in args) and \
        not any(a[0] == 'd' and float(a[1]) != 0 and abs(float(a[1])) < 1e-300 for a in args)
    case = dict(case, lit=lit)
    expr, variables = _render(case)
    if rec is not None:
        classes = ['lxml:call', 'lxml:fn:' + fn] + ['lxml:' + t for t in tags]
        if nontrivial:
            classes.append('lxml:nontrivial')
        if skip:
            classes.append('lxml:skipped-number-format')
        if lit:
            classes.append('lxml:literal')
        rec.case(['lxml', fn, args, lit], nontrivial=nontrivial and not skip,
                 sample={'check': 'lxml', 'expr': expr, 'case': case}, classes=classes)
    if skip:
        return discs
    lx_vars = {k: (float(v) if isinstance(v, (int, float)) and not isinstance(v, bool) else v) for k, v in variables.items()}
    want = _lxml_eval(expr, lx_vars)
    if isinstance(want, str):
        want = str(want)
    # second opinion: the reference model; where the two oracles disagree no verdict is given (counted)
    try:
        kind, refv = _expected(case)
        agree = (refv == want) if kind != 'int' else (float(refv) == want)
    except NoVerdict:
        agree = True
    if not agree:
        if rec is not None:
            rec.cls('lxml:oracles-disagree')
            if len(rec.notes) < 5:
                rec.notes.append(f'libxml2 and reference disagree on {expr} {variables!r}: {want!r} vs {refv!r}')
        return discs
    base = f'C09/lxml/{fn}/{cls}'
    try:
        res = _evaluate('1.0', expr, variables)
    except Exception as e:
        return [Disc(escape_bucket('C09', e) + f'/lxml/{fn}', want, repr(e), expr)]
    if res[0] == 'error':
        return [Disc(f'{base}/error/{res[1]}', want, res[2][:150], f'{expr} with {variables!r}'[:400])]
    obs = res[1]
    if isinstance(want, bool):
        ok = obs is want
    elif isinstance(want, float):
        ok = _same_number(obs, want)
    else:
        ok = isinstance(obs, str) and obs == want
    if not ok:
        fk = 'value'
        if fn == 'concat' and isinstance(obs, str):
            base, fk = f'C09/lxml/{fn}', _concat_fail_kind(case, obs)
        discs.append(Disc(f'{base}/{fk}', want, obs, f'{expr} with {variables!r}'[:400]))
    return discs


def judge_lxml(case, rec=None):
    out = []
    for c in _cases_of('lxml', case):
        ds = judge_lxml_call(c, rec)
        if rec is not None:
            rec.discs_of('lxml', c, ds)
        out += ds
    return out


# --------------------------------------------------------------------------
# laws named by the property (metamorphic, through nested expressions)
# --------------------------------------------------------------------------

class _LawDone(Exception):
    pass


def judge_law(case, rec: Recorder | None = None) -> list[Disc]:
    law, ver, s, t = case['law'], case['ver'], case['s'], case['t']
    discs: list[Disc] = []
    vg = _vgroup(ver)
    dc = case.get('dc', 'cp')
    if dc == 'html':
        vg += '/default-collation-html'
    classes = ['laws:case', 'laws:' + law]
    flags = _str_flags(s) | _str_flags(t)
    nontrivial = bool(flags & {'empty', 'astral', 'combining', 'nonxml-ws'})

    def ev(expr, variables):
        r = _evaluate(ver, expr, variables, dc=dc)
        if r[0] == 'error':
            discs.append(Disc(f'C09/laws/{law}/{vg}/error/{r[1]}', 'a value', r[2][:150], f'{expr} {variables!r}'[:400]))
            return None
        return r[1]

    try:
        if law == 'cp-roundtrip':
            got = ev('codepoints-to-string(string-to-codepoints($s))', {'s': s})
            if got is not None and got != s:
                discs.append(Disc(f'C09/laws/cp-roundtrip/{vg}/value', s, got))
        elif law == 'split':
            c = ev('contains($s, $t)', {'s': s, 't': t})
            want_c = R.contains(s, t, _COLL[dc])
            if dc == 'html':
                classes.append('laws:default-collation-html')
            if c is True:
                classes.append('laws:contains-true')
                if dc == 'html':       # the matched part of $s takes the place of $t (one collation unit per code point)
                    got = ev('concat(substring-before($s, $t), substring($s, string-length(substring-before($s, $t)) + 1, '
                             'string-length($t)), substring-after($s, $t))', {'s': s, 't': t})
                else:
                    got = ev('concat(substring-before($s, $t), $t, substring-after($s, $t))', {'s': s, 't': t})
                if got is not None and got != s:
                    discs.append(Disc(f'C09/laws/split/{vg}/value', s, got, f't={t!r}'))
            if c is not None and c is not want_c:
                discs.append(Disc(f'C09/laws/split/{vg}/contains', want_c, c, f's={s!r} t={t!r}'))
        elif law == 'concat-length':
            got = ev('string-length(concat($s, $t))', {'s': s, 't': t})
            want = len(s) + len(t)
            if got is not None and not _same_number(got, want):
                discs.append(Disc(f'C09/laws/concat-length/{vg}/value', want, got))
        elif law == 'prefix':
            n = case['n']
            nv = _py_value(n) if ver != '1.0' else _ref_double(n)
            got = ev('starts-with($s, substring($s, 1, $n))', {'s': s, 'n': nv})
            nontrivial = nontrivial or _num_class(_ref_double(n), len(s)) != 'int'
            if got is not None and got is not True:
                discs.append(Disc(f'C09/laws/prefix/{vg}/value', True, got, f's={s!r} n={nv!r}'))
        elif law == 'compare':
            if dc == 'html':      # codepoint-equal and the explicit codepoint collation ignore the default collation
                e = ev('codepoint-equal($s, $t)', {'s': s, 't': t})
                a = ev("compare($s, $t, '" + CP_URI + "')", {'s': s, 't': t})
                c = ev('compare($s, $t)', {'s': s, 't': t})
                if e is not None and e is not (s == t):
                    discs.append(Disc(f'C09/laws/compare/{vg}/codepoint-equal-uses-default-collation', s == t, e, f's={s!r} t={t!r}'))
                if a is not None and (a == 0) != (s == t):
                    discs.append(Disc(f'C09/laws/compare/{vg}/explicit-codepoint-collation', s == t, a, f's={s!r} t={t!r}'))
                if c is not None and c != R.compare(s, t, HTML_URI):
                    discs.append(Disc(f'C09/laws/compare/{vg}/default-collation-ignored', R.compare(s, t, HTML_URI), c, f's={s!r} t={t!r}'))
                raise _LawDone()
            a = ev('compare($s, $t)', {'s': s, 't': t})
            b = ev('compare($t, $s)', {'s': s, 't': t})
            e = ev('codepoint-equal($s, $t)', {'s': s, 't': t})
            if a is not None and b is not None and e is not None:
                if not (type(a) is int and type(b) is int and a == -b and a in (-1, 0, 1)):
                    discs.append(Disc(f'C09/laws/compare/{vg}/antisymmetry', 'compare(s,t) = -compare(t,s)', [a, b]))
                elif (a == 0) is not e:
                    discs.append(Disc(f'C09/laws/compare/{vg}/codepoint-equal', a == 0, e))
                elif (a == 0) != (s == t):
                    discs.append(Disc(f'C09/laws/compare/{vg}/zero-iff-identical', s == t, a))
    except _LawDone:
        pass
    except Exception as e:
        discs.append(Disc(escape_bucket('C09', e) + f'/laws/{law}/{vg}', 'a value', repr(e)))
    if rec is not None:
        rec.case(['laws', law, ver, s, t, case['n'] if law == 'prefix' else None], nontrivial=nontrivial,
                 sample={'check': 'laws', 'case': case}, classes=classes)
    return discs


def judge_laws(case, rec=None):
    out = []
    for c in _cases_of('laws', case):
        ds = judge_law(c, rec)
        if rec is not None:
            rec.discs_of('laws', c, ds)
        out += ds
    return out


# --------------------------------------------------------------------------
# reuse: ONE parsed expression, evaluated several times with different arguments / over several items
# --------------------------------------------------------------------------

def _render_arg_literal(a, ver, i):
    k = a[0]
    if k == 'coll':
        return "'" + _COLL[a[1]] + "'"
    if k == 's':
        return _quote(a[1], ver, (len(a[1]) + i) & 1)
    if k == 'b':
        return 'true()' if a[1] else 'false()'
    if k == 'cps':
        return '(' + ', '.join(str(c) if c >= 0 else '(' + str(c) + ')' for c in a[1]) + ')'
    return _lit_number(a, ver)


def judge_reuse_case(case, rec: Recorder | None = None) -> list[Disc]:
    from elementpath import XPathContext, ElementPathError
    import xml.etree.ElementTree as ET
    ver, fn, wrap, rows = case['ver'], case['fn'], case['wrap'], case['rows']
    lits = list(case['lits'])
    discs: list[Disc] = []
    vg = _vgroup(ver)
    n = len(rows[0])
    # literal rendering (a string with both quote kinds cannot be an XPath 1.0 literal: it becomes a variable)
    parts = []
    for i, a in enumerate(rows[0]):
        if lits[i]:
            lit = _render_arg_literal(a, ver, i)
            if lit is None:
                lits[i] = False
            parts.append(lit)
        else:
            parts.append(None)
    var_pos = [i for i in range(n) if not lits[i]]
    bool_fn = fn in ('contains', 'starts-with', 'ends-with', 'codepoint-equal')
    expected = []
    for r in rows:
        try:
            expected.append(_expected({'ver': ver, 'fn': fn, 'args': r}))
        except NoVerdict:
            expected.append(None)
    root = _root()
    if wrap == 'plain':
        expr = fn + '(' + ', '.join(parts[i] if lits[i] else '$v%d' % i for i in range(n)) + ')'
    elif wrap == 'for':
        expr = 'for $k in 1 to %d return %s(%s)' % (len(rows), fn, ', '.join(
            parts[i] if lits[i] else '$v%d[$k]' % i for i in range(n)))
    else:
        root = ET.Element('r')
        for r, e in zip(rows, expected):
            it = ET.SubElement(root, 'i')
            for i in var_pos:
                if r[i][0] == 's':
                    it.set('a%d' % i, r[i][1])
            if e is not None and e[0] in ('str', 'int'):
                it.set('e', str(e[1]))
        att = '@a%d' if ver == '1.0' else '$i/@a%d'
        call = fn + '(' + ', '.join(parts[i] if lits[i] else (att % i if rows[0][i][0] == 's' else '$v%d' % i)
                                   for i in range(n)) + ')'
        if ver == '1.0':
            expr = 'count(//i[%s])' % (call if bool_fn else call + ' = @e')
        else:
            expr = 'for $i in //i return ' + call
    mixed = any(lits[i] for i in range(n) if rows[0][i][0] != 'coll') and bool(var_pos)
    distinct = len({canon(r) for r in rows})
    classes = ['reuse:case', 'reuse:wrap:' + wrap, 'reuse:fn:' + fn, 'reuse:ver:' + ver]
    if mixed:
        classes.append('reuse:mixed-literal-variable')
    if distinct >= 3:
        classes.append('reuse:3+distinct-tuples')
    if rec is not None:
        rec.case(['reuse', ver, fn, wrap, lits, rows], nontrivial=distinct >= 2, n=len(rows),
                 sample={'check': 'reuse', 'expr': expr, 'case': case}, classes=classes)
        rec.cls('reuse:evaluations', len(rows))
    base = f'C09/reuse/{wrap}/{fn}/{vg}'

    def fresh_ok(r, e):
        """is the same call right when parsed and evaluated on its own?"""
        c = {'ver': ver, 'fn': fn, 'args': r, 'lit': False}
        ex, vs = _render(c)
        try:
            return _compare(c, e[0], e[1], _evaluate(ver, ex, vs, fresh=True)) is None
        except Exception:
            return False

    def report(k, r, e, res):
        c = {'ver': ver, 'fn': fn, 'args': r, 'lit': False}
        bad = _compare(c, e[0], e[1], res)
        if bad is None:
            return
        kind = 'state-kept-on-token' if fresh_ok(r, e) else bad[0]
        discs.append(Disc(f'{base}/{kind}', e[1], bad[1], f'evaluation #{k + 1} of {expr} with {r!r}'[:500]))

    try:
        token = _parser(ver).parse(expr)
        if wrap == 'plain':
            for k, (r, e) in enumerate(zip(rows, expected)):
                variables = {'v%d' % i: _py_value(r[i]) for i in var_pos}
                try:
                    res = ('ok', token.get_results(XPathContext(root, variables=variables)))
                except ElementPathError as err:
                    res = ('error', (err.code or '').split(':')[-1], str(err))
                if e is not None:
                    report(k, r, e, res)
        else:
            if wrap == 'for':
                variables = {'v%d' % i: [_py_value(r[i]) for r in rows] for i in var_pos}
            else:
                variables = {'v%d' % i: _py_value(rows[0][i]) for i in var_pos if rows[0][i][0] != 's'}
            try:
                got = token.get_results(XPathContext(root, variables=variables))
            except ElementPathError as err:
                got = None
                discs.append(Disc(f'{base}/error/{(err.code or "").split(":")[-1]}', 'values', str(err)[:150], expr))
            if got is not None and wrap == 'items' and ver == '1.0':
                if any(e is None for e in expected):
                    pass
                else:
                    want = sum(1 for e in expected if e[1] is True) if bool_fn else len(rows)
                    if not _same_number(got, want):
                        k = next((k for k, (r, e) in enumerate(zip(rows, expected)) if not fresh_ok(r, e)), None)
                        kind = 'state-kept-on-token' if k is None else 'value'
                        discs.append(Disc(f'{base}/{kind}', want, got, f'{expr} over {rows!r}'[:500]))
            elif got is not None:
                lst = got if isinstance(got, list) else [got]
                if len(lst) != len(rows):
                    discs.append(Disc(f'{base}/result-count', len(rows), lst, expr))
                else:
                    for k, (r, e, g) in enumerate(zip(rows, expected, lst)):
                        if e is not None:
                            report(k, r, e, ('ok', g))
    except Exception as e:
        discs.append(Disc(escape_bucket('C09', e) + f'/reuse/{wrap}/{fn}/{vg}', 'values', repr(e), expr))
    return discs


def judge_reuse(case, rec=None):
    out = []
    for c in _cases_of('reuse', case):
        ds = judge_reuse_case(c, rec)
        if rec is not None:
            rec.discs_of('reuse', c, ds)
        out += ds
    return out


# --------------------------------------------------------------------------
# coll: the html-ascii-case-insensitive collation (explicit 3rd argument or parser default) on strings dense in
# cased letters; compare and the five substring-matching functions must agree with the model and with each other
# --------------------------------------------------------------------------
_CASE_GROUPS = ['aA', 'bB', 'kK\u212a', 'sS\u017f', 'iI\u0130\u0131', '\xe4\xc4', '\xdf\u1e9e', '\u03c3\u03a3\u03c2', '\u0436\u0416',
                '\u01c6\u01c5\u01c4', '\xe9\xc9', '\U00010428\U00010400', 'zZ', 'cC', '\u03b2\u0392\u03d0']
_CASE_OTHER = ['-', '1', ' ', '\u0301', '\U0001F600', '.']
_GROUP_OF = {c: g for g in _CASE_GROUPS for c in g}
_COLL_FNS = ['contains', 'starts-with', 'ends-with', 'substring-before', 'substring-after', 'compare', 'agree', 'partition',
             'codepoint-equal', 'codepoint-equal']
COLL_BATCH = 24


_FO = 'http://www.w3.org/2005/xpath-functions/'
_REL_NAME = {'cp': 'codepoint', 'html': 'html-ascii-case-insensitive'}
#: (parser base_uri, relative form of the collation argument; None = the relative URI is given as default_collation)
_REL_CONFIGS = [(_FO + 'collation/', '{n}'), (_FO + 'collation/', './{n}'), (_FO + 'collation/', '../collation/{n}'),
                (_FO, 'collation/{n}'), (_FO + 'collation/file.xml', '{n}'), (_FO + 'x/y', '../collation/{n}'),
                (_FO + 'collation/', None), (_FO + 'collation/', '{n}')]
_REL_PARSERS: dict = {}
_REL_TOKENS: dict = {}


def _evaluate_rel(ver, dc, rel, expr, variables):
    """like _evaluate, on a parser with a static base URI (and, for the None form, a relative default collation)"""
    from elementpath import XPathContext, ElementPathError
    base, form = _REL_CONFIGS[rel]
    try:
        p = _REL_PARSERS.get((ver, dc, rel))
        if p is None:
            cls = type(_parser(ver))
            p = _REL_PARSERS[(ver, dc, rel)] = cls(base_uri=base, default_collation=_REL_NAME[dc] if form is None else _COLL[dc])
        tk = _REL_TOKENS.get((ver, dc, rel, expr))
        if tk is None:
            tk = _REL_TOKENS[(ver, dc, rel, expr)] = p.parse(expr)
        return ('ok', tk.get_results(XPathContext(_root(), variables=dict(variables))))
    except ElementPathError as e:
        return ('error', (e.code or '').split(':')[-1], str(e))


def _mk_coll(mx: _Mix) -> dict:
    n = 1 + mx.below(7)
    s = ''.join(mx.pick(mx.pick(_CASE_GROUPS)) if mx.below(6) else mx.pick(_CASE_OTHER) for _ in range(n))
    fn = mx.pick(_COLL_FNS)
    k = mx.below(10)
    if k < 7:
        if fn in ('compare', 'agree', 'codepoint-equal') and mx.below(2):
            i, j = 0, len(s)
        elif fn == 'starts-with' and mx.below(2):
            i, j = 0, 1 + mx.below(len(s))
        elif fn == 'ends-with' and mx.below(2):
            i, j = mx.below(len(s)), len(s)
        else:
            i = mx.below(len(s))
            j = i + 1 + mx.below(min(len(s), i + 3) - i)
        part = s[i:j]
        m = mx.below(6)
        if m == 0:
            t = part
        elif m == 1:
            t = part.lower()
        elif m == 2:
            t = part.upper()
        elif m == 3:
            t = part.casefold()
        else:                  # every cased letter replaced by a member of its case group
            t = ''.join(mx.pick(_GROUP_OF[c]) if c in _GROUP_OF and mx.below(3) else c for c in part)
    elif k < 8:
        t = ''
    else:
        t = ''.join(mx.pick(mx.pick(_CASE_GROUPS)) for _ in range(1 + mx.below(2)))
    dc = 'html' if mx.below(3) else 'cp'
    arg = mx.pick([None, None, None, 'html', 'html', 'cp'])
    if dc == 'cp' and arg is None and mx.below(2):
        arg = 'html'
    case = {'ver': mx.pick(['2.0', '3.0', '3.1']), 'dc': dc, 'arg': arg, 'fn': fn, 's': s, 't': t}
    if fn != 'codepoint-equal' and mx.below(3) == 0:
        # relative collation URI resolved against the parser's static base URI (F&O 5.3.1)
        rel = mx.below(len(_REL_CONFIGS))
        case['rel'] = rel
        if _REL_CONFIGS[rel][1] is None:
            case['arg'] = None            # the relative URI is the parser's default collation
            case['dc'] = dc if mx.below(2) else 'html'
        elif arg is None:
            case['arg'] = mx.pick(['html', 'html', 'cp'])
    return case


def _ascii_fold(z):
    return ''.join(chr(ord(c) + 32) if 'A' <= c <= 'Z' else c for c in z)


_EVALUATE = _evaluate


def judge_coll_case(case, rec: Recorder | None = None) -> list[Disc]:
    ver, dc, arg, fn, s, t = case['ver'], case['dc'], case['arg'], case['fn'], case['s'], case['t']
    discs: list[Disc] = []
    eff = arg or dc
    coll = _COLL[eff]
    rel = case.get('rel')
    tail = '' if arg is None else ", '" + _COLL[arg] + "'"
    how = eff + ('-default' if arg is None else '-explicit')
    if rel is not None:
        form = _REL_CONFIGS[rel][1]
        if arg is not None and form is not None:
            tail = ", '" + form.format(n=_REL_NAME[arg]) + "'"
        how += '-relative'

    def _evaluate(ver_, expr_, v_, dc=dc):           # shadows the module function: relative configurations use their own parser
        if rel is not None:
            return _evaluate_rel(ver_, dc, rel, expr_, v_)
        return _EVALUATE(ver_, expr_, v_, dc=dc)

    nonascii = any(z.lower() != _ascii_fold(z) or z.upper().lower() != _ascii_fold(z) or z.casefold() != _ascii_fold(z)
                   for z in (s, t))
    related = s != t and _ascii_fold(s) != _ascii_fold(t) and (t.casefold() in s.casefold() or t.lower() in s.lower())
    cls = 'non-ascii-case' if nonascii else 'ascii'
    classes = ['coll:case', 'coll:fn:' + fn, 'coll:' + how, 'coll:' + cls] + (['coll:relative-uri', 'coll:relative-uri:%d' % rel] if rel is not None else [])
    if nonascii and related:
        classes.append('coll:case-variant-needle')      # equal under some Unicode folding, different under A-Z folding
    if rec is not None:
        rec.case(['coll', ver, dc, arg, fn, s, t], nontrivial=eff == 'html' and nonascii,
                 sample={'check': 'coll', 'case': case}, classes=classes)
    v = {'s': s, 't': t}

    def ev(f):
        expr = f'{f}($s, $t{tail})'
        r = _evaluate(ver, expr, v, dc=dc)
        if r[0] == 'error':
            discs.append(Disc(f'C09/coll/{f}/{how}/{cls}/error/{r[1]}', 'a value', r[2][:150], f'{expr} s={s!r} t={t!r} default={dc}'))
            return None
        return r[1]

    def check(f, want):
        got = ev(f)
        if got is None:
            return None
        ok = (got is want) if isinstance(want, bool) else (type(got) is type(want) and got == want)
        if not ok:
            discs.append(Disc(f'C09/coll/{f}/{how}/{cls}/value', want, got, f'{f}($s, $t{tail}) s={s!r} t={t!r} default={dc}'))
        return got

    REF = {'contains': R.contains, 'starts-with': R.starts_with, 'ends-with': R.ends_with, 'substring-before': R.substring_before,
           'substring-after': R.substring_after, 'compare': R.compare}
    try:
        if fn == 'codepoint-equal':
            # never collation dependent: only identical code point sequences are equal, whatever the default collation
            if rec is not None:
                rec.cls('coll:codepoint-equal')
                rec.cls('coll:codepoint-equal-html-default' if dc == 'html' else 'coll:codepoint-equal-cp-default')
            for expr, want in (('codepoint-equal($s, $t)', s == t), ('codepoint-equal(lower-case($s), $s)', s.lower() == s),
                               ("compare($s, $t, '" + CP_URI + "') = 0", s == t),
                               ('deep-equal(string-to-codepoints($s), string-to-codepoints($t))', s == t)):
                r = _evaluate(ver, expr, v, dc=dc)
                f = expr.split('(')[0] if not expr.startswith('deep') else 'string-to-codepoints'
                if 'lower-case' in expr and any(ord(c) == 0x3A3 for c in s):
                    continue
                if r[0] == 'error':
                    discs.append(Disc(f'C09/coll/{f}/default-{dc}/error/{r[1]}', want, r[2][:150], f'{expr} s={s!r} t={t!r}'))
                elif r[1] is not want:
                    discs.append(Disc(f'C09/coll/{f}/default-{dc}/{cls}/value', want, r[1], f'{expr} s={s!r} t={t!r} default collation={dc}'))
        elif fn in REF:
            check(fn, REF[fn](s, t, coll))
        elif fn == 'agree':
            c = check('compare', R.compare(s, t, coll))
            sw = check('starts-with', R.starts_with(s, t, coll))
            ew = check('ends-with', R.ends_with(s, t, coll))
            ct = check('contains', R.contains(s, t, coll))
            if None not in (c, sw, ew, ct) and len(s) == len(t):
                if (c == 0) != (sw is True and ew is True) or (c == 0 and ct is not True):
                    discs.append(Disc(f'C09/coll/agree/{how}/{cls}/compare-vs-matching', 'compare = 0 <=> starts-with and ends-with',
                                      [c, sw, ew, ct], f's={s!r} t={t!r} default={dc} arg={arg}'))
        else:   # partition
            ct = check('contains', R.contains(s, t, coll))
            b = check('substring-before', R.substring_before(s, t, coll))
            a = check('substring-after', R.substring_after(s, t, coll))
            if ct is True and isinstance(a, str) and isinstance(b, str):
                classes.append('coll:partition-hit')
                if rec is not None:
                    rec.cls('coll:partition-hit')
                mid = s[len(b):len(s) - len(a)] if len(a) else s[len(b):]
                if not (s.startswith(b) and s.endswith(a) and len(b) + len(a) <= len(s) and len(mid) == len(t)
                        and R.compare(mid, t, coll) == 0):
                    discs.append(Disc(f'C09/coll/partition/{how}/{cls}/not-a-partition', 'before + matched + after = s',
                                      [b, mid, a], f's={s!r} t={t!r} default={dc} arg={arg}'))
    except Exception as e:
        discs.append(Disc(escape_bucket('C09', e) + f'/coll/{fn}/{how}', 'value', repr(e), f's={s!r} t={t!r}'))
    return discs


def judge_coll(case, rec=None):
    out = []
    for c in _cases_of('coll', case):
        ds = judge_coll_case(c, rec)
        if rec is not None:
            rec.discs_of('coll', c, ds)
        out += ds
    return out


# --------------------------------------------------------------------------
# doc: the functions with the focus on nodes of small documents (ElementTree and lxml trees)
#   ctx : zero-argument (context item) forms of normalize-space / string-length / string on element, text and
#         attribute nodes, alone, as path steps and in predicates
#   ns  : XPath 1.0 / compatibility mode calls whose earlier argument is a node-set of >= 2 nodes (first node counts)
#         and whose later arguments depend on the focus (@id, @key, name())
# --------------------------------------------------------------------------
DOC_BATCH = 6
_CTX_FNS = ['normalize-space', 'normalize-space', 'string-length', 'string']
_CTX_KINDS = ['item-elem', 'item-elem', 'step-text', 'step-attr', 'pred-elem', 'pred-text', 'pred-attr']
_NS_EXPRS = ["concat(a, '-', @id)", 'contains(a, @key)', 'substring-before(a, @sep)', 'substring-after(a, @sep)',
             'translate(a, @from, @to)', 'starts-with(a, name())', 'concat(substring-before(a, @sep), @sep, substring-after(a, @sep))',
             'count(//p[contains(a, @key)])', 'concat(@id, a, @key)', 'string-length(concat(a, @sep))']


def _nonempty(mx, pool):
    for _ in range(4):
        z = _mk_str(mx, pool)
        if z:
            return z
    return mx.pick(['a\xa0b', ' x ', '\u3000', 'q'])


#: (XPath expression, F&O string form) of atomic context items of every kind in the pool
_ATOMS = [('123', '123'), ('0', '0'), ('-45', '-45'), ('4.50', '4.5'), ('0.10', '0.1'), ('100.0', '100'), ('1e0', '1'), ('2.5e0', '2.5'),
          ('-0e0', '-0'), ("xs:double('NaN')", 'NaN'), ("xs:double('INF')", 'INF'), ("xs:double('-INF')", '-INF'), ('1.0e2', '100'),
          ("xs:float('1.5')", '1.5'), ("xs:float('-INF')", '-INF'), ('true()', 'true'), ('false()', 'false'),
          ("xs:date('2000-01-02')", '2000-01-02'), ("xs:time('03:04:05Z')", '03:04:05Z'), ("xs:dayTimeDuration('PT60M')", 'PT1H'),
          ("xs:hexBinary('0fb7')", '0FB7'), ("xs:gYear('1999')", '1999'), ("xs:integer('0012')", '12'), ("xs:byte('7')", '7')]
_ATOM_WRAPS = ["xs:untypedAtomic(%s)", "xs:anyURI(%s)", "xs:string(%s)", "%s", "xs:token(%s)"]


def _mk_atom_case(mx: _Mix, pool) -> dict:
    items = []
    for _ in range(2 + mx.below(4)):
        if mx.below(3):
            items.append(list(mx.pick(_ATOMS)))
        else:
            z = _mk_str(mx, pool)
            w = mx.pick(_ATOM_WRAPS)
            q = _quote(z, '2.0', mx.below(2))
            if w == "xs:anyURI(%s)" or w == "xs:token(%s)":
                z = mx.pick(['http://a/b c', 'ab', ' x  y ', 'urn:x'])
                q = _quote(z, '2.0', 0)
                if w == "xs:token(%s)":
                    items.append([w % q, R.normalize_space(z)])
                    continue
                z = R.normalize_space(z)          # xs:anyURI collapses whitespace
            items.append([w % q, z])
    return {'fam': 'atom', 'ver': mx.pick(['2.0', '3.0', '3.1', '3.1']), 'backend': 'et', 'items': items,
            'fn': mx.pick(_CTX_FNS), 'form': mx.pick(['bang', 'pred-literal', 'pred-mutual'])}


def _mk_doc(mx: _Mix, pool) -> dict:
    backend = mx.pick(['et', 'lxml'])
    if mx.below(4) == 0:
        return _mk_atom_case(mx, pool)
    if mx.below(2):
        bs = []
        for _ in range(1 + mx.below(3)):
            bs.append({'k': _mk_str(mx, pool), 'text': _nonempty(mx, pool),
                       'inner': _nonempty(mx, pool) if mx.below(2) else None, 'tail': _nonempty(mx, pool) if mx.below(2) else None})
        return {'fam': 'ctx', 'ver': mx.pick(['1.0', '1.0', '2.0', '3.0', '3.1', '2.0c']), 'backend': backend, 'b': bs,
                'fn': mx.pick(_CTX_FNS), 'kind': mx.pick(_CTX_KINDS)}
    ps = []
    for k in range(1 + mx.below(3)):
        a = [_nonempty(mx, pool) for _ in range(2 + mx.below(2))]
        src = a[0] if mx.below(3) else a[1]            # keys taken from the 2nd node must NOT be found in the 1st by accident only
        i = mx.below(len(src))
        part = src[i:i + 1 + mx.below(2)]
        chars = list(a[0]) + ['a', '-']
        frm = ''.join(mx.pick(chars) for _ in range(1 + mx.below(3)))
        ps.append({'a': a, 'attrs': {'id': 'I%d' % k + mx.pick(['', 'p', '\xa0']), 'key': part if mx.below(5) else _mk_short(mx, pool),
                                     'sep': part if mx.below(2) else src[mx.below(len(src))], 'from': frm,
                                     'to': _mk_short(mx, pool) if mx.below(2) else frm[::-1].upper()}})
    return {'fam': 'ns', 'ver': mx.pick(['1.0', '1.0', '2.0c']), 'backend': backend, 'p': ps, 'expr': mx.pick(_NS_EXPRS)}


def _build_doc(case, backend):
    """(root, focus elements) built by construction (no parsing) on xml.etree or lxml"""
    if backend == 'lxml':
        from lxml import etree as M
    else:
        import xml.etree.ElementTree as M
    root = M.Element('r')
    focus = []
    if case['fam'] == 'ctx':
        for spec in case['b']:
            b = M.SubElement(root, 'b')
            b.set('k', spec['k'])
            b.text = spec['text']
            if spec['inner'] is not None or spec['tail'] is not None:
                c = M.SubElement(b, 'c')
                c.text = spec['inner']
                c.tail = spec['tail']
            focus.append(b)
    else:
        for spec in case['p']:
            pe = M.SubElement(root, 'p')
            for k, v in spec['attrs'].items():
                pe.set(k, v)
            for t in spec['a']:
                M.SubElement(pe, 'a').text = t
            focus.append(pe)
    return root, focus


def _doc_parser(ver):
    if ver == '2.0c':
        p = _PARSER.get(('2.0c', 'cp'))
        if p is None:
            from elementpath import XPath2Parser
            p = _PARSER[('2.0c', 'cp')] = XPath2Parser(compatibility_mode=True, default_collation=CP_URI)
        return p
    return _parser(ver)


_DOC_TOKENS: dict = {}


def _doc_eval(ver, expr, root, item=None):
    from elementpath import XPathContext, ElementPathError
    try:
        tk = _DOC_TOKENS.get((ver, expr))
        if tk is None:
            tk = _DOC_TOKENS[(ver, expr)] = _doc_parser(ver).parse(expr)       # one parse, many documents / foci
        ctx = XPathContext(root, item=item) if item is not None else XPathContext(root)
        return ('ok', tk.get_results(ctx))
    except ElementPathError as e:
        return ('error', (e.code or '').split(':')[-1], str(e))


def _ctx_ref(fn, z):
    return R.normalize_space(z) if fn == 'normalize-space' else R.string_length(z) if fn == 'string-length' else z


def _same(obs, want):
    if isinstance(want, bool):
        return obs is want
    if isinstance(want, (int, float)):
        return _same_number(obs, want)
    return isinstance(obs, str) and obs == want


def _judge_atom_case(case, rec) -> list[Disc]:
    """zero-argument forms with an ATOMIC context item (sequence predicate, simple map operator): fn:string() is applied
    to the context item, whatever its type"""
    discs: list[Disc] = []
    ver, fn, form, items = case['ver'], case['fn'], case['form'], case['items']
    if form == 'bang' and ver == '2.0':
        form = 'pred-mutual'
    seq = '(' + ', '.join(e for e, _ in items) + ')'
    vals = [_ctx_ref(fn, z) for _, z in items]
    if form == 'bang':
        expr, want = f'{seq} ! {fn}()', vals
    elif form == 'pred-mutual':
        expr, want = f'count({seq}[{fn}() = {fn}(string(.))])', len(items)
    else:
        w = vals[0]
        lit = str(w) if fn == 'string-length' else _quote(w, ver, 0)
        expr, want = f'count({seq}[{fn}() = {lit}])', sum(1 for v in vals if v == w)
    kinds = sorted({'string' if e[:1] in '\'"' else e.split('(')[0] if '(' in e else 'number' for e, _ in items})
    classes = ['doc:case', 'doc:atom', 'doc:atom:' + form, 'doc:ver:' + ver, 'doc:backend:et']
    if any(k not in ('string', 'xs:string') for k in kinds):
        classes.append('doc:atom:non-string-item')
    if rec is not None:
        rec.case(['doc', case], nontrivial=True, sample={'check': 'doc', 'expr': expr, 'case': case}, classes=classes)
    base = f'C09/doc/atom/{fn}/{form}/v2+'
    try:
        res = _doc_eval(ver, expr, _root())
    except Exception as e:
        return [Disc(escape_bucket('C09', e) + f'/doc/atom/{fn}/{form}', want, repr(e), expr)]
    if res[0] == 'error':
        return [Disc(f'{base}/error/{res[1]}', want, res[2][:150], expr)]
    obs = res[1]
    if isinstance(want, list):
        obs = obs if isinstance(obs, list) else [obs]
        ok = len(obs) == len(want) and all(_same(o, w) for o, w in zip(obs, want))
    else:
        ok = _same(obs, want)
    if not ok:
        discs.append(Disc(f'{base}/value', want, obs, expr))
    return discs


def judge_doc_case(case, rec: Recorder | None = None) -> list[Disc]:
    discs: list[Disc] = []
    fam, ver, backend = case['fam'], case['ver'], case['backend']
    vg = 'v1' if ver == '1.0' else 'compat' if ver == '2.0c' else 'v2+'
    if fam == 'atom':
        return _judge_atom_case(case, rec)
    root, focus = _build_doc(case, backend)
    lroot, lfocus = (root, focus) if backend == 'lxml' else _build_doc(case, 'lxml')
    classes = ['doc:case', 'doc:' + fam, 'doc:backend:' + backend, 'doc:ver:' + ver]
    flags = set()
    nontrivial = True

    def lx(expr, node):
        from lxml import etree
        f = _LX.get(expr)
        if f is None:
            f = _LX[expr] = etree.XPath(expr)
        r = f(node)
        return str(r) if isinstance(r, str) else r

    def verdict(expr, res, want, tag, detail, lxml_want=None):
        base = f'C09/doc/{fam}/{tag}/{vg}'
        if res[0] == 'error':
            discs.append(Disc(f'{base}/error/{res[1]}', want, res[2][:150], detail))
            return
        obs = res[1]
        ok = (isinstance(obs, list) and len(obs) == len(want) and all(_same(o, w) for o, w in zip(obs, want))) \
            if isinstance(want, list) else _same(obs, want)
        if not ok:
            discs.append(Disc(f'{base}/value', want, obs, detail))
        if lxml_want is not None and ver == '1.0':
            if _same(lxml_want, want) or (isinstance(want, (int, float)) and lxml_want == want):
                if not _same(obs, lxml_want) and ok:
                    discs.append(Disc(f'{base}/libxml2', lxml_want, obs, detail))
            elif rec is not None:
                rec.cls('doc:oracles-disagree')

    try:
        if fam == 'ctx':
            fn, kind = case['fn'], case['kind']
            if kind.startswith('step') and ver in ('1.0',):
                kind = 'pred' + kind[4:]                 # no function steps in XPath 1.0
            classes.append('doc:ctx:' + kind)
            svals = [(b['text'] or '') + (b['inner'] or '') + (b['tail'] or '') for b in case['b']]
            texts = [[t for t in (b['text'], b['tail']) if t] for b in case['b']]
            for z in svals + [b['k'] for b in case['b']]:
                flags |= _str_flags(z)
            if kind == 'item-elem':
                for k, (node, z) in enumerate(zip(focus, svals)):
                    expr = fn + '()'
                    verdict(expr, _doc_eval(ver, expr, root, node), _ctx_ref(fn, z), f'{fn}/item-elem',
                            f'{expr} focus=b[{k + 1}] string-value={z!r} backend={backend}', lx(expr, lfocus[k]))
            elif kind in ('step-text', 'step-attr'):
                step = 'text()' if kind == 'step-text' else '@k'
                expr = f'//b/{step}/{fn}()'
                want = [_ctx_ref(fn, t) for ts in texts for t in ts] if kind == 'step-text' else [_ctx_ref(fn, b['k']) for b in case['b']]
                res = _doc_eval(ver, expr, root)
                if res[0] == 'ok' and not isinstance(res[1], list):
                    res = ('ok', [res[1]])
                verdict(expr, res, want, f'{fn}/{kind}', f'{expr} doc={case["b"]!r} backend={backend}')
            else:
                sel = {'pred-elem': '//b', 'pred-text': '//b/text()', 'pred-attr': '//b/@k'}[kind]
                n = {'pred-elem': len(svals), 'pred-text': sum(len(t) for t in texts), 'pred-attr': len(svals)}[kind]
                if fn == 'string':
                    expr = f'count({sel}[string() = string(.)])'
                else:
                    expr = f'count({sel}[{fn}() = {fn}(string(.))])'
                verdict(expr, _doc_eval(ver, expr, root), n, f'{fn}/{kind}', f'{expr} doc={case["b"]!r} backend={backend}', lx(expr, lroot))
                if fn == 'normalize-space':
                    # and against the reference, not only against the one-argument form
                    vals = svals if kind == 'pred-elem' else [t for ts in texts for t in ts] if kind == 'pred-text' else [b['k'] for b in case['b']]
                    w = R.normalize_space(vals[0])
                    q = _quote(w, '1.0', 0)
                    if q is not None:
                        expr2 = f'count({sel}[normalize-space() = {q}])'
                        want2 = sum(1 for z in vals if R.normalize_space(z) == w)
                        r2 = _doc_eval(ver, expr2, root)
                        verdict('count(...[normalize-space() = literal])', r2, want2, f'{fn}/{kind}',
                                f'{expr2} doc={case["b"]!r} backend={backend}')
        else:
            expr = case['expr']
            classes.append('doc:ns:' + expr.split('(')[0])
            for spec in case['p']:
                for z in spec['a'] + list(spec['attrs'].values()):
                    flags |= _str_flags(z)
            if expr.startswith('count(//p'):
                want = sum(1 for spec in case['p'] if R.contains(spec['a'][0], spec['attrs']['key']))
                verdict(expr, _doc_eval(ver, expr, root, focus[0]), want, 'predicate', f'{expr} doc={case["p"]!r} backend={backend}',
                        lx(expr, lfocus[0]))
            else:
                for k, (node, spec) in enumerate(zip(focus, case['p'])):
                    a1, at = spec['a'][0], spec['attrs']
                    want = {
                        "concat(a, '-', @id)": lambda: a1 + '-' + at['id'],
                        'contains(a, @key)': lambda: R.contains(a1, at['key']),
                        'substring-before(a, @sep)': lambda: R.substring_before(a1, at['sep']),
                        'substring-after(a, @sep)': lambda: R.substring_after(a1, at['sep']),
                        'translate(a, @from, @to)': lambda: R.translate(a1, at['from'], at['to']),
                        'starts-with(a, name())': lambda: R.starts_with(a1, 'p'),
                        'concat(substring-before(a, @sep), @sep, substring-after(a, @sep))':
                            lambda: R.substring_before(a1, at['sep']) + at['sep'] + R.substring_after(a1, at['sep']),
                        'concat(@id, a, @key)': lambda: at['id'] + a1 + at['key'],
                        'string-length(concat(a, @sep))': lambda: len(a1) + len(at['sep']),
                    }[expr]()
                    if expr.startswith('concat(substring-before') and R.contains(a1, at['sep']):
                        assert want == a1
                        classes.append('doc:ns:partition-hit')
                    verdict(expr, _doc_eval(ver, expr, root, node), want, expr.split('(')[0] + ('-partition' if 'substring-after(a, @sep))' in expr else ''),
                            f'{expr} focus=p[{k + 1}] a={spec["a"]!r} attrs={at!r} backend={backend}', lx(expr, lfocus[k]))
    except AssertionError:
        raise
    except Exception as e:
        discs.append(Disc(escape_bucket('C09', e) + f'/doc/{fam}/{vg}', 'value', repr(e), repr(case)[:300]))
    if flags & {'nonxml-ws'}:
        classes.append('doc:nonxml-ws')
    if flags & {'astral', 'combining'}:
        classes.append('doc:astral-or-combining')
    if rec is not None:
        rec.case(['doc', case], nontrivial=nontrivial, sample={'check': 'doc', 'case': case}, classes=classes)
    return discs


def judge_doc(case, rec=None):
    out = []
    for c in _cases_of('doc', case):
        ds = judge_doc_case(c, rec)
        if rec is not None:
            rec.discs_of('doc', c, ds)
        out += ds
    return out


# --------------------------------------------------------------------------
# module interface
# --------------------------------------------------------------------------
_STRATS = {'ref': pool_strategy, 'lxml': pool_strategy, 'laws': pool_strategy, 'reuse': pool_strategy, 'coll': pool_strategy, 'doc': pool_strategy}
_JUDGES = {'ref': judge_ref, 'lxml': judge_lxml, 'laws': judge_laws, 'reuse': judge_reuse, 'coll': judge_coll, 'doc': judge_doc}


def selftest():
    R.self_test()
    X.self_test_numeric()
    # rendering
    assert _quote("it's", '2.0', 0) == "'it''s'" and _quote('a"b', '2.0', 1) == '"a""b"'
    assert _quote("it's", '1.0', 0) == '"it\'s"' and _quote('\'"', '1.0', 0) is None
    assert _lit_number(['d', '2.5'], '2.0') == '2.5e0' and _lit_number(['d', '-inf'], '1.0') == '(-1 div 0)'
    assert _lit_number(['d', '1e+21'], '1.0') is None and _lit_number(['d', '4096'], '1.0') == '4096.0'
    assert _expected({'ver': '2.0', 'fn': 'substring', 'args': [['s', '12345'], ['d', '1.5'], ['d', '2.6']]}) == ('str', '234')
    assert _expected({'ver': '2.0', 'fn': 'concat', 'args': [['s', 'a'], ['d', '1e-07'], ['i', 5], ['c', '1.50'], ['b', True], ['e']]}) \
        == ('str', 'a1.0E-751.5true')
    assert _expected({'ver': '1.0', 'fn': 'concat', 'args': [['d', '1e+21'], ['d', '-0.0']]}) == ('str', '10000000000000000000000')
    # the libxml2 oracle on the XPath 1.0 worked examples
    assert _lxml_eval('substring($s,$a,$b)', {'s': '12345', 'a': 1.5, 'b': 2.6}) == '234'
    assert _lxml_eval('substring($s,$a,$b)', {'s': '12345', 'a': -math.inf, 'b': math.inf}) == ''
    assert _lxml_eval('translate($s,$m,$t)', {'s': '--aaa--', 'm': 'abc-', 't': 'ABC'}) == 'AAA'
    assert _lxml_eval('substring-after($s,$t)', {'s': '1999/04/01', 't': '19'}) == '99/04/01'


def jobs(tier, seed):
    q = tier == 'quick'
    plan = {'ref': (6, 1500 if q else 12000), 'lxml': (3, 1500 if q else 12000), 'laws': (1, 1600 if q else 12000),
            'reuse': (2, 1100 if q else 9000), 'coll': (2, 1200 if q else 9000), 'doc': (2, 1300 if q else 10000)}
    out = []
    for chk, (shards, n) in plan.items():
        for i in range(shards):
            out.append({'check': chk, 'shard': i, 'n': n, 'seed': derive_seed(seed, 'C09', chk, i)})
    return out


def run_job(job, rec: Recorder):
    chk = job['check']
    jd = _JUDGES[chk]
    hyp_collect(_STRATS[chk], lambda case: jd(case, rec), job['n'], job['seed'], rec)


def shrink_job(job, bucket, budget):
    chk = job['check']
    got = hyp_shrink(_STRATS[chk], _JUDGES[chk], bucket, job['n'], job['seed'], budget)
    if got is None:
        return None
    case, d = got
    # report the single offending call, not the pool
    for c in _cases_of(chk, case):
        for dd in _JUDGES[chk](c):
            if dd.bucket == bucket:
                return c, dd
    return case, d


def judge(check, case):
    return _JUDGES[check](case)
