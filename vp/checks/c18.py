"""C18 - Sequence-type judgements are sound: instance of, treat as, subtype relation, function signatures."""
from __future__ import annotations

import signal

from hypothesis import strategies as st

from vp.core import Disc, Recorder, derive_seed, hyp_collect, hyp_shrink, escape_bucket, HarnessError
from vp.ref import seqtype as rs

PROPERTY = 'C18'
LEVEL = 'exploration'
RULE = ('judge: hypothesis-generated (value V, sequence types T1..Tk) - V described as JSON (atoms of 45 built-in '
        'types, the 10 nodes of a fixed ElementTree/lxml document, inline/named/partial function items with known '
        'signature, maps, arrays, sequences of 0-4 items) and rendered through XPath constructors and $v; T from the '
        'SequenceType grammar (half of them derived from V: ancestors/siblings/children of its type, kind tests with '
        'right/wrong names and type arguments, mutated function signatures) rendered with random blanks; verdicts of '
        '`(V) instance of T`, `$v instance of T`, match_sequence_type(v, T) and `treat as` against the reference '
        'matcher. non-trivial = T is not item()/identical to V\'s own type, i.e. the verdict needs the hierarchy, an '
        'occurrence mismatch, a kind test with arguments or a parametrised function/map/array test; distinct by '
        '(V, T). subtype: is_sequence_type_restriction on a fixed pool (exhaustive pairs and triples) and on '
        'generated mutation chains: reflexive, transitive, sound against a pool of described witness values. '
        'signature: every entry of XPath31Parser.function_signatures, arguments generated from the declared '
        'parameter types, result of a successful call matched against the declared return type.')
ASSUMPTIONS = [
    'a value built with the constructor xs:T(lexical) has dynamic type T (F&O 3.1 §19); literals 1 / 1.5 / 1e0 / "s" '
    'have type xs:integer / xs:decimal / xs:double / xs:string',
    'nodes of an untyped (schema-less) document are annotated xs:untyped (elements) and xs:untypedAtomic (attributes)',
    'is_sequence_type_restriction is only required to be reflexive, transitive and sound; a False answer is never '
    'flagged on its own (incompleteness). `instance of function(...)` however is compared with the full §2.5.6 '
    'subtype judgement because the property demands equality for instance of; where elementpath and the reference '
    'differ the bucket names the component pair on which the relation is unsound or incomplete',
    'maps and arrays match typed function tests through their signatures function(xs:anyAtomicType) as item()* and '
    'function(xs:integer) as item()* (XPath 3.1 §2.5.5.8/9 examples), not through their entries',
    'element/attribute tests with type argument xs:anyType are not generated inside function signatures '
    '(literal subtype rules and extensional reading differ there)',
    'no verdict on statically invalid sequence types (unknown or non-atomic type names: XPST0051 / XPST0008): they are '
    'not generated; map keys of type xs:boolean and xs:untypedAtomic are not generated (same-key / constructor '
    'conversion rules belong to C15)',
    'a type that elementpath refuses to parse is reported once under C18/parse/... (minimal unparsable sub-type) and '
    'the expression-level observations are skipped for it; match_sequence_type is still judged',
    'the dynamic type of a python value returned by a function is read from its class through a literal table '
    '(int -> xs:integer, float -> xs:double, Decimal -> xs:decimal, str -> xs:string, datatypes.Int -> xs:int ...)',
    'functions needing external resources, the environment or a tracer, and locale/UCA collations are never called; '
    'collation parameters only receive the codepoint collation URI; exceptions other than ElementPathError raised by '
    'a built-in function count as "call did not succeed" (they are C03\'s subject)',
    'the declared return type is the one registered in XPath31Parser.function_signatures at judge time',
]
FLOORS = {
    'judge:evaluated': (0.70, 'judge'), 'pair:judged': (0.70, 'pair'),
    'pair:expect-true': (0.20, 'pair:judged'), 'pair:expect-false': (0.20, 'pair:judged'),
    'pair:nontrivial': (0.50, 'pair:judged'),
    'v:node': (0.10, 'judge:evaluated'), 'v:func': (0.08, 'judge:evaluated'), 'v:map-or-array': (0.08, 'judge:evaluated'),
    'v:seq': (0.15, 'judge:evaluated'),
    't:function-typed': (0.04, 'pair'), 't:kind-args': (0.08, 'pair'), 't:blanks': (0.15, 'pair'),
    'sig:success': (0.30, 'sig:call'),
    'sweep:duration:neg:success': (0.6, 'sweep:duration:neg:call'), 'sweep:duration:zero:success': (0.6, 'sweep:duration:zero:call'),
    'sweep:numeric:neg:success': (0.6, 'sweep:numeric:neg:call'), 'sweep:numeric:zero:success': (0.6, 'sweep:numeric:zero:call'),
    'sweep:numeric:huge:success': (0.6, 'sweep:numeric:huge:call'), 'sweep:numeric:boundary:success': (0.6, 'sweep:numeric:boundary:call'),
    'sweep:numeric:special:success': (0.6, 'sweep:numeric:special:call'),
    'sweep:datetime:bce:success': (0.6, 'sweep:datetime:bce:call'), 'sweep:datetime:year>9999:success': (0.6, 'sweep:datetime:year>9999:call'),
    'sweep:datetime:24h:success': (0.6, 'sweep:datetime:24h:call'), 'sweep:datetime:no-tz:success': (0.6, 'sweep:datetime:no-tz:call'),
    'sweep:string:empty:success': (0.6, 'sweep:string:empty:call'), 'sweep:string:astral:success': (0.6, 'sweep:string:astral:call'),
    'sweep:seq:empty:success': (0.6, 'sweep:seq:empty:call'), 'sweep:seq:long:success': (0.6, 'sweep:seq:long:call'),
    'sig:item-call': (0.95, 'sig:success'),
    'derive:evaluated': (0.8, 'derive'), 'derive:fixes-an-argument': (0.5, 'derive'),
    'schema:nilled-item': (0.25, 'schema:pair'), 'schema:type-argument': (0.6, 'schema:pair'),
    'schema:nillable-type-argument': (0.2, 'schema:pair'),
    'sig:cfg:compat20': (0.01, 'sig:call'), 'sig:cfg:compat30': (0.01, 'sig:call'), 'sig:cfg:compat31': (0.01, 'sig:call'),
    'sig:cfg:xsd11': (0.01, 'sig:call'), 'sig:cfg:nonstrict': (0.01, 'sig:call'), 'sig:cfg:defns': (0.01, 'sig:call'),
    'sweep:node:text:success': (0.6, 'sweep:node:text:call'), 'sweep:node:comment:success': (0.6, 'sweep:node:comment:call'),
    'sweep:node:document:success': (0.6, 'sweep:node:document:call'),
    'gen:premises-hold': (0.15, 'gen:triple'),
}

NS = {'p': 'urn:p', 'd': 'urn:d', 'e': 'urn:e'}
CODEPOINT = 'http://www.w3.org/2005/xpath-functions/collation/codepoint'
SIG_NS = dict(NS, fn='http://www.w3.org/2005/xpath-functions', output='http://www.w3.org/2010/xslt-xquery-serialization')

# --------------------------------------------------------------------------
# the fixed document and its nodes
# --------------------------------------------------------------------------
_XML = ('<a xmlns:p="urn:p" x="1" p:y="2">t0<b>tb</b><!--c--><?tgt d?><p:c/><b/></a>')


def _node(kind, name=None, annot=None, children=None):
    return ('node', kind, name, annot, False, children)


_EL_A = _node('element', 'a', 'xs:untyped')
_EL_B = _node('element', 'b', 'xs:untyped')
_EL_C = _node('element', '{urn:p}c', 'xs:untyped')
_COMMENT, _PI, _TEXT = _node('comment'), _node('processing-instruction', 'tgt'), _node('text')
# (xpath, description); the lxml flavour has a comment and a PI next to the root element
NODES = [
    ('(/)', None),                         # document: description depends on the flavour
    ('/a', _EL_A), ('/a/b[1]', _EL_B), ('/a/p:c', _EL_C),
    ('/a/@x', _node('attribute', 'x', 'xs:untypedAtomic')), ('/a/@p:y', _node('attribute', '{urn:p}y', 'xs:untypedAtomic')),
    ('/a/b[1]/text()', _TEXT), ('/a/comment()', _COMMENT), ('/a/processing-instruction()', _PI),
    ('/a/namespace::*[1]', _node('namespace', 'ns')),
]
_DOC_DESC = {'et': _node('document', children=[_EL_A]), 'lx': _node('document', children=[_COMMENT, _EL_A, _PI])}
ELEMENT_IDX, ATTR_IDX = (1, 2, 3), (4, 5)


N_PLAIN = len(NODES)        # NODES[0..9]: the untyped document; NODES[10..]: nodes of the schema-typed documents

_XSI = 'xmlns:xsi="http://www.w3.org/2001/XMLSchema-instance"'
_XSD1 = """<xs:schema xmlns:xs="http://www.w3.org/2001/XMLSchema">
 <xs:simpleType name="small"><xs:restriction base="xs:int"><xs:maxInclusive value="100"/></xs:restriction></xs:simpleType>
 <xs:element name="r"><xs:complexType><xs:sequence>
   <xs:element name="n" type="xs:int" nillable="true" maxOccurs="unbounded"/>
   <xs:element name="d" type="xs:date" nillable="true" maxOccurs="unbounded"/>
   <xs:element name="s" type="small" nillable="true" maxOccurs="unbounded"/>
   <xs:element name="t" type="xs:string" minOccurs="0"/>
 </xs:sequence><xs:attribute name="a" type="xs:int"/><xs:attribute name="b" type="xs:date"/></xs:complexType></xs:element>
</xs:schema>"""
_XML1 = ('<r %s a="5" b="2000-01-01"><n>1</n><n xsi:nil="true"/><n>3</n><d>2000-02-29</d><d xsi:nil="true"/>'
         '<s>7</s><s xsi:nil="true"/><t>x</t></r>' % _XSI)
_XSD2 = """<xs:schema xmlns:xs="http://www.w3.org/2001/XMLSchema">
 <xs:element name="doc"><xs:complexType><xs:sequence>
   <xs:element name="e" type="xs:decimal" nillable="true" maxOccurs="unbounded"/>
   <xs:element name="u" type="xs:duration" nillable="true" maxOccurs="unbounded"/>
   <xs:element name="k" type="xs:unsignedByte" nillable="true" maxOccurs="unbounded"/>
   <xs:element name="w" type="xs:NCName" nillable="true" maxOccurs="unbounded"/>
   <xs:element name="f" type="xs:boolean"/>
 </xs:sequence><xs:attribute name="id" type="xs:ID"/><xs:attribute name="q" type="xs:unsignedShort"/></xs:complexType></xs:element>
</xs:schema>"""
_XML2 = ('<doc %s id="i1" q="9"><e>1.5</e><e xsi:nil="true"/><u>PT1H</u><u xsi:nil="true"/><k>200</k><k xsi:nil="true"/>'
         '<w>nm</w><w xsi:nil="true"/><f>true</f></doc>' % _XSI)


def _tel(name, annot, nilled=False):
    return ('node', 'element', name, annot, nilled, None)


def _tat(name, annot):
    return ('node', 'attribute', name, annot, False, None)


# (xpath, description); a user-defined restriction is described by its nearest built-in base (only built-in type
# names are used as type arguments, for which derives-from gives the same answer)
SCHEMAS = {
    's1': (_XSD1, _XML1, [
        ('/r/n[1]', _tel('n', 'xs:int')), ('/r/n[2]', _tel('n', 'xs:int', True)), ('/r/n[3]', _tel('n', 'xs:int')),
        ('/r/d[1]', _tel('d', 'xs:date')), ('/r/d[2]', _tel('d', 'xs:date', True)),
        ('/r/s[1]', _tel('s', 'xs:int')), ('/r/s[2]', _tel('s', 'xs:int', True)), ('/r/t', _tel('t', 'xs:string')),
        ('/r/@a', _tat('a', 'xs:int')), ('/r/@b', _tat('b', 'xs:date')), ('/r', _tel('r', 'xs:anyType'))]),
    's2': (_XSD2, _XML2, [
        ('/doc/e[1]', _tel('e', 'xs:decimal')), ('/doc/e[2]', _tel('e', 'xs:decimal', True)),
        ('/doc/u[1]', _tel("u", "xs:duration")), ('/doc/u[2]', _tel("u", "xs:duration", True)),
        ('/doc/k[1]', _tel('k', 'xs:unsignedByte')), ('/doc/k[2]', _tel('k', 'xs:unsignedByte', True)),
        ('/doc/w[1]', _tel('w', 'xs:NCName')), ('/doc/w[2]', _tel('w', 'xs:NCName', True)), ('/doc/f', _tel('f', 'xs:boolean')),
        ('/doc/@id', _tat('id', 'xs:ID')), ('/doc/@q', _tat('q', 'xs:unsignedShort'))]),
}
SCHEMA_IDX = {}
for _fl, (_x, _y, _lst) in SCHEMAS.items():
    SCHEMA_IDX[_fl] = list(range(len(NODES), len(NODES) + len(_lst)))
    NODES.extend(_lst)


def node_desc(idx, flavour):
    return _DOC_DESC[flavour] if idx == 0 else NODES[idx][1]


_state: dict = {}


def _build_et():
    import xml.etree.ElementTree as ET
    a = ET.Element('a', {'x': '1', '{urn:p}y': '2'})
    a.text = 't0'
    b = ET.SubElement(a, 'b')
    b.text = 'tb'
    a.append(ET.Comment('c'))
    a.append(ET.ProcessingInstruction('tgt', 'd'))
    ET.SubElement(a, '{urn:p}c')
    ET.SubElement(a, 'b')
    return ET.ElementTree(a)


# documents with a default namespace, a nested re-declaration and an un-declaration (lxml: nsmap key None)
_XML_DEFNS = ('<a xmlns="urn:d" xmlns:p="urn:p" x="1" p:y="2">t0<b xmlns="urn:e">tb<c xmlns=""/></b><!--c--><?tgt d?>'
              '<p:c/></a>')
DEFNS_XPATHS = ['(/)', '/d:a', '/d:a/e:b', '/d:a/e:b/c', '/d:a/@x', '/d:a/@p:y', '/d:a/e:b/text()', '/d:a/comment()',
                '/d:a/processing-instruction()', '/d:a/namespace::*[1]']      # same kinds as NODES[0..9]


def _build_defns(backend):
    if backend == 'lxd':
        from lxml import etree
        return etree.fromstring(_XML_DEFNS).getroottree()
    import xml.etree.ElementTree as ET
    a = ET.Element('{urn:d}a', {'x': '1', '{urn:p}y': '2'})
    a.text = 't0'
    b = ET.SubElement(a, '{urn:e}b')
    b.text = 'tb'
    ET.SubElement(b, 'c')
    a.append(ET.Comment('c'))
    a.append(ET.ProcessingInstruction('tgt', 'd'))
    ET.SubElement(a, '{urn:p}c')
    return ET.ElementTree(a)


def _build_lx():
    from lxml import etree
    return etree.fromstring('<!--top-->' + _XML + '<?after x?>').getroottree()


def env(flavour='et', xsd='1.0'):
    """(parser, node tree root, [node objects]) built once per process and flavour."""
    key = (flavour, xsd)
    if key not in _state:
        from elementpath import XPathContext
        from elementpath.xpath31 import XPath31Parser
        from elementpath.tree_builders import get_node_tree
        if flavour in SCHEMAS:
            import xmlschema
            import xml.etree.ElementTree as ET
            xsd_text, xml_text, _ = SCHEMAS[flavour]
            proxy = xmlschema.XMLSchema(xsd_text).xpath_proxy
            parser = XPath31Parser(namespaces=dict(NS), default_collation=CODEPOINT, schema=proxy)
            root = get_node_tree(ET.XML(xml_text), namespaces=dict(NS))
            nodes = [None] * len(NODES)
            for i in SCHEMA_IDX[flavour]:
                r = parser.parse(NODES[i][0]).evaluate(XPathContext(root, namespaces=dict(NS), schema=proxy))
                if not isinstance(r, list) or len(r) != 1:
                    raise HarnessError(f'schema document {flavour}: {NODES[i][0]} selects {r!r}')
                nodes[i] = r[0]
            _state[key] = (parser, root, nodes)
            return _state[key]
        parser = XPath31Parser(namespaces=dict(NS), default_collation=CODEPOINT, xsd_version=xsd)
        if ('tree', flavour) not in _state:
            doc = _build_et() if flavour == 'et' else _build_lx() if flavour == 'lx' else _build_defns(flavour)
            _state[('tree', flavour)] = get_node_tree(doc, namespaces=dict(NS))
        root = _state[('tree', flavour)]
        nodes = []
        for xp in (DEFNS_XPATHS if flavour in ('lxd', 'etd') else [x for x, _ in NODES[:N_PLAIN]]):
            r = parser.parse(xp).evaluate(XPathContext(root, namespaces=dict(NS)))
            if isinstance(r, list):
                if len(r) != 1:
                    raise HarnessError(f'fixed document: {xp} selects {len(r)} nodes ({flavour})')
                r = r[0]
            nodes.append(r)
        _state[key] = (parser, root, nodes)
    return _state[key]


# --------------------------------------------------------------------------
# atomic values: ["A", type, xpath expression]
# --------------------------------------------------------------------------
_LEX = {
    'xs:string': ['', 'abc'], 'xs:boolean': ['true', '0'], 'xs:decimal': ['1.5', '3'], 'xs:float': ['1.5', 'NaN'],
    'xs:double': ['1e0', '-INF'], 'xs:duration': ['P1Y2M3DT4H', 'PT0S'], 'xs:yearMonthDuration': ['P1Y2M'],
    'xs:dayTimeDuration': ['P1DT2H', 'PT0S'], 'xs:dateTime': ['2000-01-01T12:00:00', '2000-01-01T12:00:00Z'],
    'xs:dateTimeStamp': ['2000-01-01T12:00:00Z'], 'xs:time': ['12:00:00', '12:00:00+01:00'],
    'xs:date': ['2000-02-29', '2001-01-01Z'], 'xs:gYearMonth': ['2000-02'], 'xs:gYear': ['2000'],
    'xs:gMonthDay': ['--02-29'], 'xs:gDay': ['---31'], 'xs:gMonth': ['--12'], 'xs:hexBinary': ['', '0AFF'],
    'xs:base64Binary': ['', 'AAAA'], 'xs:anyURI': ['', 'http://x/y'], 'xs:QName': ['n', 'p:n'],
    'xs:untypedAtomic': ['', '1', 'true', 'abc'],
    'xs:integer': ['0', '-7', '1000000000000000000000'], 'xs:nonPositiveInteger': ['0', '-5'],
    'xs:negativeInteger': ['-1'], 'xs:long': ['0', '-9223372036854775808'], 'xs:int': ['3', '-2147483648'],
    'xs:short': ['-32768', '7'], 'xs:byte': ['127', '-1'], 'xs:nonNegativeInteger': ['0', '5'],
    'xs:unsignedLong': ['18446744073709551615', '1'], 'xs:unsignedInt': ['4294967295', '0'],
    'xs:unsignedShort': ['65535', '2'], 'xs:unsignedByte': ['255', '0'], 'xs:positiveInteger': ['1', '99'],
    'xs:normalizedString': ['a  b', ''], 'xs:token': ['a b', 't'], 'xs:language': ['en', 'en-GB'],
    'xs:NMTOKEN': ['a:b', '1x'], 'xs:Name': ['a:b', 'n'], 'xs:NCName': ['n', '_x'], 'xs:ID': ['id1'],
    'xs:IDREF': ['id1'], 'xs:ENTITY': ['e'],
}
_LITERALS = [('xs:integer', '7'), ('xs:decimal', '1.5'), ('xs:double', '1e0'), ('xs:string', "'abc'"),
             ('xs:string', '""'), ('xs:boolean', 'true()'), ('xs:integer', '0')]
ATOMS = [['A', t, "%s('%s')" % (t, lex)] for t, lexs in _LEX.items() for lex in lexs] + \
        [['A', t, e] for t, e in _LITERALS]
ATOMS_10 = [a for a in ATOMS if a[1] != 'xs:dateTimeStamp']
# map keys: pairwise distinct under op:same-key
MAP_KEYS = [['A', 'xs:integer', '1'], ['A', 'xs:int', "xs:int('2')"], ['A', 'xs:string', "'a'"],
            ['A', 'xs:NCName', "xs:NCName('b')"], ['A', 'xs:date', "xs:date('2000-02-29')"],
            ['A', 'xs:anyURI', "xs:anyURI('urn:x')"], ['A', 'xs:double', '5e-1'], ['A', 'xs:decimal', '1.5'],
            ['A', 'xs:QName', "xs:QName('q')"], ['A', 'xs:token', "xs:token('t')"], ['A', 'xs:unsignedByte', "xs:unsignedByte('9')"]]

# named references / partial applications with their F&O 3.1 signatures
FN = {
    'abs#1': (['xs:numeric?'], 'xs:numeric?'),
    'string-length#1': (['xs:string?'], 'xs:integer'),
    'count#1': (['item()*'], 'xs:integer'),
    'true#0': ([], 'xs:boolean'),
    'upper-case#1': (['xs:string?'], 'xs:string'),
    'node-name#1': (['node()?'], 'xs:QName?'),
    'math:sqrt#1': (['xs:double?'], 'xs:double?'),
    'map:size#1': (['map(*)'], 'xs:integer'),
    'array:size#1': (['array(*)'], 'xs:integer'),
    'substring#2': (['xs:string?', 'xs:double'], 'xs:string'),
    'for-each#2': (['item()*', 'function(item()) as item()*'], 'item()*'),
    'substring(?, 2)': (['xs:string?'], 'xs:string'),
    'concat("a", ?, ?)': (['xs:anyAtomicType?'] * 2, 'xs:string'),
    'xs:integer#1': (['xs:anyAtomicType?'], 'xs:integer?'),
    'function($x as xs:integer, $y as xs:string) as xs:integer { $x }(?, "s")': (['xs:integer'], 'xs:integer'),
}
FN_NAMES = list(FN)

# --------------------------------------------------------------------------
# value rendering / description
# --------------------------------------------------------------------------


def render_value(v, top=True) -> str:
    k = v[0]
    if k == 'A':
        return v[2]
    if k == 'N':
        return NODES[v[1]][0]
    if k == 'F':
        params = ', '.join('$a%d as %s' % (i, t) for i, t in enumerate(v[1]))
        body = v[3] if len(v) > 3 else '()'
        return 'function(%s) as %s { %s }' % (params, v[2], body)
    if k == 'F0':
        return 'function(%s) { () }' % ', '.join('$a%d' % i for i in range(v[1]))
    if k == 'FN':
        return v[1]
    if k == 'M':
        return 'map { %s }' % ', '.join('%s : %s' % (render_value(kk), render_value(vv)) for kk, vv in v[1])
    if k == 'R':
        return '[%s]' % ', '.join(render_value(m) for m in v[1])
    if k == 'S':
        return '(%s)' % ', '.join(render_value(x) for x in v[1])
    raise ValueError(f'bad value {v!r}')


def describe(v, flavour='et'):
    """JSON value -> described sequence (list of items) of the reference model"""
    k = v[0]
    if k == 'S':
        return [describe(x, flavour)[0] for x in v[1]]
    if k == 'A':
        return [('atom', v[1])]
    if k == 'N':
        return [node_desc(v[1], flavour)]
    if k == 'F':
        return [('func', [rs.parse(t) for t in v[1]], rs.parse(v[2]))]
    if k == 'F0':
        return [('func', [[['item'], '*']] * v[1], [['item'], '*'])]
    if k == 'FN':
        ps, r = FN[v[1]]
        return [('func', [rs.parse(t) for t in ps], rs.parse(r))]
    if k == 'M':
        return [('map', [(describe(kk, flavour)[0], describe(vv, flavour)) for kk, vv in v[1]])]
    if k == 'R':
        return [('array', [describe(m, flavour) for m in v[1]])]
    raise ValueError(f'bad value {v!r}')


def item_class(d) -> str:
    if d[0] == 'atom':
        return 'atom'
    if d[0] == 'node':
        return d[1]
    return d[0]


def value_class(desc) -> str:
    if not desc:
        return 'empty'
    cls = sorted({item_class(d) for d in desc})
    if len(desc) == 1:
        return cls[0]
    return 'seq:' + '+'.join(cls[:3])


def type_class(ast) -> str:
    """coarse class of a sequence type for bucket names"""
    if ast[0] == 'empty':
        return 'empty-sequence()'
    return item_type_class(ast[0]) + ast[1]


def item_type_class(it) -> str:
    k = it[0]
    if k == 'paren':
        return '(' + item_type_class(it[1]) + ')'
    if k == 'atomic':
        return it[1]
    if k in ('item', 'node', 'text', 'comment'):
        return k + '()'
    if k == 'nsnode':
        return 'namespace-node()'
    if k == 'pi':
        return 'pi(N)' if it[1] else 'pi()'
    if k == 'doc':
        return 'doc(%s)' % item_type_class(it[1]) if it[1] else 'doc()'
    if k == 'element':
        _, n, t, nill = it
        if n is None and t is None:
            return 'element()'
        return 'element(%s%s)' % ('N' if n else '*', (',' + t + ('?' if nill else '')) if t else '')
    if k == 'attribute':
        _, n, t = it
        if n is None and t is None:
            return 'attribute()'
        return 'attribute(%s%s)' % ('N' if n else '*', (',' + t) if t else '')
    if k in ('function', 'map', 'array'):
        return k + ('(*)' if it[1] is None else '(typed)')
    raise ValueError(it)


# --------------------------------------------------------------------------
# strategies
# --------------------------------------------------------------------------
_OCC = st.sampled_from(['', '', '', '?', '*', '+'])
_ATOMIC_NAMES = [t for t in rs.ATOMIC_TYPES if t != 'xs:dateTimeStamp'] + ['xs:numeric']
_CHILDREN: dict = {}
for _t, _b in rs.BASE.items():
    _CHILDREN.setdefault(_b, []).append(_t)
_EL_NAMES, _AT_NAMES = ['a', 'b', 'p:c', 'zz', 'p:a', 'c'], ['x', 'p:y', 'y', 'p:x']
_EL_TYPES = ['xs:untyped', 'xs:anyType', 'xs:untypedAtomic', 'xs:string', 'xs:anySimpleType', 'xs:integer', 'xs:anyAtomicType']
_SIG_NODE_TYPES = ['xs:untyped', 'xs:string', 'xs:integer', 'xs:int', 'xs:anyAtomicType', 'xs:decimal']

atom_value = st.sampled_from(ATOMS_10)
node_value = st.integers(0, N_PLAIN - 1).map(lambda i: ['N', i])


@st.composite
def atomic_item_type(draw):
    return ['atomic', draw(st.sampled_from(_ATOMIC_NAMES))]


@st.composite
def kind_item_type(draw, in_sig=False):
    k = draw(st.integers(0, 11))
    if k == 0:
        return ['node']
    if k == 1:
        return ['text']
    if k == 2:
        return ['comment']
    if k == 3:
        return ['nsnode']
    if k == 4:
        return draw(st.sampled_from([['pi', None], ['pi', 'tgt'], ['pi', 'zz'], ['pi', 'tgt', '" tgt "'], ['pi', 'tgt', "'tgt'"],
                                     ['pi', 'zz', '"zz  "'], ['pi', 'tgt', "'  tgt '"]]))
    if k == 5:
        e = draw(st.sampled_from([None, ['element', None, None, False], ['element', 'a', None, False],
                                  ['element', 'b', None, False], ['element', 'a', 'xs:untyped', False]]))
        return ['doc', e]
    types = _SIG_NODE_TYPES if in_sig else _EL_TYPES
    if k <= 9:
        name = draw(st.sampled_from([None] + _EL_NAMES))
        t = draw(st.sampled_from([None, None] + types))
        nill = t is not None and draw(st.booleans())
        return ['element', name, t, nill]
    name = draw(st.sampled_from([None] + _AT_NAMES))
    return ['attribute', name, draw(st.sampled_from([None, None] + types))]


def seq_type(depth=2, in_sig=False):
    def fix(x):
        it, occ, keep = x
        if occ and it[0] == 'function' and it[1] is not None and not keep:
            occ = ''        # (function(..) as T)* needs a parenthesized item type: keep that rare
        return [it, occ]
    typed = st.tuples(item_type(depth, in_sig), _OCC, st.integers(0, 9).map(lambda k: k == 0)).map(fix)
    return st.one_of(st.just(['empty']) if depth < 2 else st.nothing(), typed, typed, typed, typed)


@st.composite
def item_type(draw, depth=2, in_sig=False):
    k = draw(st.integers(0, 19))
    if k == 19 and draw(st.integers(0, 2)):
        k = 0               # parenthesized item types: about 1.5 %
    if k < 7:
        return draw(atomic_item_type())
    if k < 12:
        return draw(kind_item_type(in_sig))
    if k == 12:
        return ['item']
    if depth <= 0:
        return draw(st.sampled_from([['function', None], ['map', None], ['array', None], ['item']]))
    if k in (13, 14, 15):
        if draw(st.integers(0, 4)) == 0:
            return ['function', None]
        args = draw(st.lists(seq_type(depth - 1, True), max_size=3))
        return ['function', args, draw(seq_type(depth - 1, True))]
    if k in (16, 17):
        if draw(st.integers(0, 3)) == 0:
            return ['map', None]
        return ['map', draw(atomic_item_type()), draw(seq_type(depth - 1, in_sig))]
    if k == 18:
        if draw(st.integers(0, 3)) == 0:
            return ['array', None]
        return ['array', draw(seq_type(depth - 1, in_sig))]
    return ['paren', draw(item_type(depth - 1, in_sig))]


def _atomic_neighbours(t):
    """ancestors, children and siblings of an atomic type + unions (all generalized atomic)"""
    out = [a for a in rs.ancestors(t) if a not in rs.NON_ATOMIC]
    out += _CHILDREN.get(t, []) + _CHILDREN.get(rs.BASE.get(t, ''), [])
    # cousins: every type derived from the same primitive type (xs:unsignedInt vs xs:int, xs:ID vs xs:NMTOKEN ...)
    prim = [a for a in rs.ancestors(t) if rs.BASE.get(a) == 'xs:anyAtomicType']
    if prim:
        out += [x for x in rs.ATOMIC_TYPES if prim[0] in rs.ancestors(x)]
    if rs.derives_from(t, 'xs:numeric') or t == 'xs:anyAtomicType':
        out.append('xs:numeric')
    return [x for x in out if x not in rs.NON_ATOMIC and x != 'xs:dateTimeStamp'] or [t]


@st.composite
def mutate_seq_type(draw, ast, depth=2):
    """a sequence type near `ast`: occurrence changed and/or item type moved along the hierarchy"""
    if ast[0] == 'empty':
        return draw(st.sampled_from([['empty'], [['item'], '?'], [['atomic', 'xs:integer'], '*']]))
    it, occ = ast
    if draw(st.integers(0, 2)) == 0:
        occ = draw(st.sampled_from(['', '?', '*', '+']))
    if draw(st.integers(0, 3)) > 0:
        it = draw(mutate_item_type(it, depth))
    return [it, occ]


@st.composite
def mutate_item_type(draw, it, depth=2):
    k = it[0]
    if draw(st.integers(0, 9)) == 0:
        return ['item']
    if k == 'atomic':
        return ['atomic', draw(st.sampled_from(_atomic_neighbours(it[1])))]
    if k in ('node', 'text', 'comment', 'nsnode', 'pi', 'doc', 'element', 'attribute'):
        c = draw(st.integers(0, 5))
        if c == 0:
            return ['node']
        if k == 'element':
            _, n, t, nill = it
            if c == 1:
                return ['element', None, t, nill]
            if c == 2:
                return ['element', n, None, False]
            if c == 3 and t:
                return ['element', n, draw(st.sampled_from(_atomic_neighbours(t) if t in rs.ATOMIC_TYPES else [t])),
                        draw(st.booleans())]
            if c == 4:
                return ['element', draw(st.sampled_from(_EL_NAMES)), t, nill]
        if k == 'attribute':
            _, n, t = it
            if c == 1:
                return ['attribute', None, t]
            if c == 2:
                return ['attribute', n, None]
            if c == 3 and t:
                return ['attribute', n, draw(st.sampled_from(_atomic_neighbours(t) if t in rs.ATOMIC_TYPES else [t]))]
        if k == 'pi' and c == 1:
            return ['pi', None]
        if k == 'doc' and c == 1:
            return ['doc', None]
        return it
    if k == 'function':
        if it[1] is None or draw(st.integers(0, 7)) == 0:
            return draw(st.sampled_from([['function', None], ['function', [[['item'], '*']], [['item'], '*']]]))
        args = [draw(mutate_seq_type(a, depth - 1)) if draw(st.integers(0, 1)) else a for a in it[1]]
        ret = draw(mutate_seq_type(it[2], depth - 1)) if draw(st.integers(0, 1)) else it[2]
        if draw(st.integers(0, 9)) == 0:
            args = args[:-1] if args else [[['item'], '*']]
        return ['function', args, ret]
    if k == 'map':
        c = draw(st.integers(0, 5))
        if it[1] is None or c == 0:
            return ['map', None]
        if c == 1:
            return ['function', [[['atomic', 'xs:anyAtomicType'], '']], draw(mutate_seq_type(rs._optional(it[2]), depth - 1))]
        return ['map', draw(mutate_item_type(it[1])) if draw(st.booleans()) else it[1],
                draw(mutate_seq_type(it[2], depth - 1))]
    if k == 'array':
        c = draw(st.integers(0, 5))
        if it[1] is None or c == 0:
            return ['array', None]
        if c == 1:
            return ['function', [[['atomic', 'xs:integer'], '']], draw(mutate_seq_type(it[1], depth - 1))]
        return ['array', draw(mutate_seq_type(it[1], depth - 1))]
    if k == 'paren':
        return draw(mutate_item_type(it[1], depth))
    return it


def _fix_map_key(it):
    """map key types must stay atomic after mutation"""
    if it[0] == 'map' and it[1] is not None and it[1][0] != 'atomic':
        return ['map', ['atomic', 'xs:anyAtomicType'], it[2]]
    return it


def sanitize(ast):
    """repair ASTs the mutators may have made ungrammatical (map key not atomic)"""
    if ast[0] == 'empty':
        return ast
    it = _sanitize_item(ast[0])
    if ast[1] and it[0] == 'function' and it[1] is not None:
        it = ['paren', it]
    return [it, ast[1]]


def _sanitize_item(it):
    k = it[0]
    if k == 'paren':
        return ['paren', _sanitize_item(it[1])]
    if k == 'function' and it[1] is not None:
        return ['function', [sanitize(a) for a in it[1]], sanitize(it[2])]
    if k == 'map' and it[1] is not None:
        key = it[1] if rs.strip_paren(it[1])[0] == 'atomic' else ['atomic', 'xs:anyAtomicType']
        return ['map', rs.strip_paren(key), sanitize(it[2])]
    if k == 'array' and it[1] is not None:
        return ['array', sanitize(it[1])]
    return it


@st.composite
def inline_function_value(draw):
    if draw(st.integers(0, 5)) == 0:
        return ['F0', draw(st.integers(0, 3))]
    args = draw(st.lists(seq_type(1, True), max_size=3))
    ret = draw(seq_type(1, True))
    return ['F', [rs.render(sanitize(a)) for a in args], rs.render(sanitize(ret))]


@st.composite
def _function_value(draw):
    if draw(st.integers(0, 2)) == 0:
        return ['FN', draw(st.sampled_from(FN_NAMES))]
    return draw(inline_function_value())


function_value = _function_value()


@st.composite
def simple_member(draw):
    """a map value / array member: a sequence of 0-2 atoms or nodes, now and then a nested map/array/function"""
    k = draw(st.integers(0, 11))
    if k < 6:
        return draw(atom_value)
    if k == 6:
        return draw(node_value)
    if k == 7:
        return ['S', []]
    if k in (8, 9):
        base = draw(atom_value)
        return ['S', [base, draw(st.sampled_from([a for a in ATOMS_10 if a[1] == base[1]] + [draw(atom_value)]))]]
    if k == 10:
        return ['R', [draw(atom_value)]]
    return ['FN', draw(st.sampled_from(FN_NAMES))]


@st.composite
def map_value(draw):
    idx = draw(st.lists(st.integers(0, len(MAP_KEYS) - 1), max_size=3, unique=True))
    if idx and draw(st.booleans()):
        # homogeneous map: same key type family and same value type
        val = draw(simple_member())
        return ['M', [[MAP_KEYS[i], val] for i in idx]]
    return ['M', [[MAP_KEYS[i], draw(simple_member())] for i in idx]]


@st.composite
def array_value(draw):
    if draw(st.booleans()):
        m = draw(simple_member())
        return ['R', [m] * draw(st.integers(0, 3))]
    return ['R', draw(st.lists(simple_member(), max_size=3))]


@st.composite
def _item_value(draw):
    # explicit weights (one_of would flatten and de-duplicate the alternatives)
    k = draw(st.integers(0, 15))
    if k < 7:
        return draw(atom_value)
    if k < 11:
        return draw(node_value)
    if k < 13:
        return draw(function_value)
    if k == 13:
        return draw(map_value())
    if k == 14:
        return draw(array_value())
    return draw(st.sampled_from(FN_NAMES).map(lambda n: ['FN', n]))


item_value = _item_value()


@st.composite
def value(draw):
    k = draw(st.integers(0, 9))
    if k < 5:
        return draw(item_value)
    if k == 5:
        return ['S', []]
    if k in (6, 7):
        # homogeneous: same class
        first = draw(item_value)
        n = draw(st.integers(1, 3))
        if first[0] == 'A':
            same = [a for a in ATOMS_10 if a[1] == first[1]]
            rest = [draw(st.sampled_from(same + [draw(atom_value)])) for _ in range(n)]
        elif first[0] == 'N':
            pool = ELEMENT_IDX if first[1] in ELEMENT_IDX else ATTR_IDX if first[1] in ATTR_IDX else range(N_PLAIN)
            rest = [['N', draw(st.sampled_from(list(pool)))] for _ in range(n)]
        else:
            rest = [first] * n
        return ['S', [first] + rest]
    return ['S', draw(st.lists(item_value, min_size=2, max_size=4))]


def near_typed_node_tests(d):
    """element()/attribute() tests with type arguments around the type annotation of a schema-typed node: the
    annotation itself, its base types, derived and cousin types, with and without '?', right/wrong/no name"""
    kind, name, annot = d[1], d[2], d[3]
    if annot == 'xs:anyType':
        types = ['xs:anyType', 'xs:anyAtomicType', 'xs:string']
    else:
        types = [a for a in rs.ancestors(annot) if a not in ('xs:anySimpleType',)]      # ... xs:anyAtomicType, xs:anyType
        types += _CHILDREN.get(annot, [])[:2] + [x for x in _atomic_neighbours(annot) if x not in types][:4] + ['xs:string']
    out = []
    for t in types:
        for n in (name, None, 'zz'):
            if kind == 'element':
                out.append(['element', n, t, False])
                out.append(['element', n, t, True])
            else:
                out.append(['attribute', n, t])
    out += [[kind, name, None] + ([False] if kind == 'element' else []), [kind, None, None] + ([False] if kind == 'element' else []),
            ['node'], ['item']]
    return out


def near_item_types(d):
    """item types whose verdict for the described item d needs the hierarchy / name / signature"""
    k = d[0]
    if k == 'atom':
        return [['atomic', t] for t in _atomic_neighbours(d[1])]
    if k == 'node' and d[1] in ('element', 'attribute') and d[3] not in ('xs:untyped', 'xs:untypedAtomic'):
        return near_typed_node_tests(d)
    if k == 'node':
        kind, name = d[1], d[2]
        if kind == 'element':
            q = {'a': 'a', 'b': 'b', '{urn:p}c': 'p:c'}[name]
            return [['element', None, None, False], ['element', q, None, False], ['element', q, 'xs:untyped', False],
                    ['element', None, 'xs:untyped', False], ['element', q, 'xs:anyType', True],
                    ['element', None, 'xs:anyType', False], ['element', q, 'xs:string', False],
                    ['element', q, 'xs:untypedAtomic', False], ['element', 'zz', None, False], ['node'], ['attribute', None, None]]
        if kind == 'attribute':
            q = {'x': 'x', '{urn:p}y': 'p:y'}[name]
            return [['attribute', None, None], ['attribute', q, None], ['attribute', q, 'xs:untypedAtomic'],
                    ['attribute', None, 'xs:untypedAtomic'], ['attribute', q, 'xs:anyAtomicType'],
                    ['attribute', q, 'xs:anySimpleType'], ['attribute', None, 'xs:anyType'], ['attribute', q, 'xs:string'],
                    ['attribute', q, 'xs:untyped'], ['attribute', 'y', None], ['node'], ['element', None, None, False]]
        if kind == 'document':
            return [['doc', None], ['doc', ['element', None, None, False]], ['doc', ['element', 'a', None, False]],
                    ['doc', ['element', 'b', None, False]], ['doc', ['element', 'a', 'xs:untyped', False]],
                    ['doc', ['element', None, 'xs:anyType', False]], ['node'], ['element', None, None, False]]
        if kind == 'processing-instruction':
            return [['pi', None], ['pi', 'tgt'], ['pi', 'zz'], ['node'], ['comment'], ['pi', 'tgt', '"tgt"'], ['pi', 'tgt', "'tgt'"],
                    ['pi', 'tgt', '" tgt "'], ['pi', 'tgt', '"tgt  "'], ['pi', 'tgt', "'  tgt'"], ['pi', 'zz', '" zz "'],
                    ['pi', 'tgt', '" tgt"'], ['pi', 'tgtx', '"tgt x"'.replace(' x', 'x')]]
        return [{'text': ['text'], 'comment': ['comment'], 'namespace': ['nsnode']}[kind], ['node'], ['text'],
                ['comment'], ['nsnode'], ['pi', None]]
    if k == 'func':
        return [['function', d[1], d[2]], ['function', None]]
    if k == 'map':
        if not d[1]:
            return [['map', None], ['map', ['atomic', 'xs:date'], [['element', None, None, False], '']], ['function', None]]
        key = d[1][0][0]
        kt = ['atomic', key[1] if key[0] == 'atom' else 'xs:anyAtomicType']
        v = d[1][0][1]
        vt = [['atomic', v[0][1]] if v and v[0][0] == 'atom' else ['item'], '' if len(v) == 1 else '*']
        return [['map', kt, vt], ['map', None], ['function', [[['atomic', 'xs:anyAtomicType'], '']], [['item'], '*']],
                ['function', [[kt, '']], vt]]
    if k == 'array':
        if not d[1]:
            return [['array', None], ['array', [['atomic', 'xs:string'], '']], ['function', None]]
        v = d[1][0]
        vt = [['atomic', v[0][1]] if v and v[0][0] == 'atom' else ['item'], '' if len(v) == 1 else '*']
        out = [['array', vt], ['array', None], ['function', [[['atomic', 'xs:integer'], '']], [['item'], '*']],
               ['function', [[['atomic', 'xs:integer'], '']], vt]]
        # return types around every member: its item type with each occurrence, array(T) for nested arrays
        idx = [[['atomic', 'xs:integer'], '']]
        for m in d[1][:3]:
            for x in m[:2] or [None]:
                if x is None:
                    base = ['atomic', 'xs:integer']
                elif x[0] == 'atom':
                    base = ['atomic', x[1]]
                elif x[0] == 'array':
                    inner = x[1][0][0] if x[1] and x[1][0] else None
                    base = ['array', [['atomic', inner[1]], '*']] if inner is not None and inner[0] == 'atom' else ['array', None]
                else:
                    base = ['item']
                for occ in ('', '?', '*', '+'):
                    out.append(['function', idx, [base, occ]])
                    out.append(['array', [base, occ]])
        return out
    raise ValueError(d)


def _lcg_ws(seed):
    """deterministic blank generator for the renderer (seed 0 = canonical spelling)"""
    if not seed:
        return lambda: ''
    state = [seed]
    table = ['', '', '', ' ', ' ', '  ', '\n', '\t']

    def ws():
        state[0] = (state[0] * 1103515245 + 12345) % (2 ** 31)
        return table[(state[0] >> 16) % len(table)]
    return ws


@st.composite
def type_string_for(draw, desc):
    """a rendered sequence type, half of the time derived from the described value"""
    c = draw(st.integers(0, 19))
    if c == 0:
        ast = ['empty']
    elif c < 11 and desc:
        d = desc[draw(st.integers(0, len(desc) - 1))]
        it = draw(st.sampled_from(near_item_types(d)))
        if draw(st.integers(0, 2)) == 0:
            it = draw(mutate_item_type(it))
        if len(desc) == 1:
            occ = draw(_OCC)
        else:
            occ = draw(st.sampled_from(['*', '+', '*', '+', '', '?']))
        ast = [it, occ]
    else:
        ast = draw(seq_type(2))
    if ast[0] != 'empty' and ast[1] and ast[0][0] == 'function' and ast[0][1] is not None and draw(st.integers(0, 7)):
        ast = [ast[0], '']      # (function(..) as T)* needs a parenthesized item type: keep that rare
    ast = sanitize(ast)
    seed = draw(st.integers(0, 3)) and draw(st.integers(1, 2 ** 20))
    s = rs.render(ast, _lcg_ws(seed))
    if ast[0] != 'empty' and ast[0][0] in ('element', 'attribute') and ast[0][1] is None and ast[0][2] is None \
            and draw(st.booleans()):
        s = rs.render_element_star(ast[0], _lcg_ws(seed)) + ast[1]
    return s


@st.composite
def schema_case(draw):
    """values: nodes of a schema-typed document (single, nilled + non-nilled occurrences of one element, all
    occurrences, mixed); types: element()/attribute() tests around their annotations, every occurrence form"""
    flavour = draw(st.sampled_from(sorted(SCHEMAS)))
    idx = SCHEMA_IDX[flavour]
    by_name = {}
    for i in idx:
        by_name.setdefault((NODES[i][1][1], NODES[i][1][2]), []).append(i)
    groups = [g for g in by_name.values()]
    k = draw(st.integers(0, 9))
    if k < 4:
        v = ['N', draw(st.sampled_from(idx))]
    elif k < 8:
        g = draw(st.sampled_from([g for g in groups if len(g) > 1]))
        sel = draw(st.lists(st.sampled_from(g), min_size=2, max_size=4))
        if draw(st.booleans()):
            sel = list(g)
        v = ['S', [['N', i] for i in sel]]
    elif k == 8:
        v = ['S', [['N', i] for i in draw(st.lists(st.sampled_from(idx), min_size=2, max_size=4))]]
    else:
        v = ['S', [['N', draw(st.sampled_from(idx))], draw(atom_value)]]
    desc = describe(v, flavour)
    ts = []
    for _ in range(draw(st.integers(5, 9))):
        d = desc[draw(st.integers(0, len(desc) - 1))]
        d = d if d[0] == 'node' else desc[0]
        it = draw(st.sampled_from(near_typed_node_tests(d)))
        occ = draw(st.sampled_from(['', '', '?', '+', '*'])) if len(desc) == 1 else draw(st.sampled_from(['+', '*', '+', '*', '', '?']))
        seed = draw(st.integers(0, 4)) == 0 and draw(st.integers(1, 2 ** 20))
        ts.append(rs.render([it, occ], _lcg_ws(seed or 0)))
    return {'doc': flavour, 'xsd': '1.0', 'ctx': None, 'v': v, 'ts': ts, 'route': draw(st.sampled_from(['var', 'inline'])),
            'count': True}


_XSD11_TYPES = ['xs:dateTimeStamp', 'xs:dateTimeStamp?', 'xs:dateTimeStamp*', 'xs:dateTimeStamp+', 'xs:dateTime', 'xs:dateTime+',
                'xs:error', 'xs:error?', 'xs:error*', 'xs:error+', 'xs:anyAtomicType+', 'map(xs:dateTimeStamp, xs:error?)',
                'array(xs:dateTimeStamp)', 'function(xs:dateTimeStamp) as xs:error?']


@st.composite
def judge_case(draw):
    flavour = draw(st.sampled_from(['et', 'et', 'lx']))
    xsd = '1.1' if draw(st.integers(0, 7)) == 0 else '1.0'
    v = draw(value())
    if xsd == '1.1' and draw(st.booleans()):
        dts = ['A', 'xs:dateTimeStamp', "xs:dateTimeStamp('2000-01-01T12:00:00Z')"]
        v = draw(st.sampled_from([dts, ['S', [dts, dts]], ['S', [dts, ['A', 'xs:dateTime', "xs:dateTime('2000-01-01T12:00:00Z')"]]],
                                  ['S', []]]))
    desc = describe(v, flavour)
    ts = draw(st.lists(type_string_for(desc), min_size=4, max_size=8))
    if xsd == '1.1':
        ts = ts[:5] + draw(st.lists(st.sampled_from(_XSD11_TYPES), min_size=2, max_size=3))
    ctx = draw(st.sampled_from([None, None, 1, 2, 4, 6, 7]))
    return {'doc': flavour, 'xsd': xsd, 'ctx': ctx, 'v': v, 'ts': ts,
            'route': draw(st.sampled_from(['var', 'inline']))}


# --------------------------------------------------------------------------
# observing elementpath
# --------------------------------------------------------------------------

def _err_code(e) -> str:
    code = getattr(e, 'code', None) or ''
    return code.split(':')[-1] if code else type(e).__name__


def ep_eval(parser, expr, root, item=None, variables=None):
    """('ok', value) | ('err', code, exc) for ElementPathError | ('esc', exc) for any other exception"""
    from elementpath import XPathContext, ElementPathError
    try:
        tk = parser.parse(expr)
        ctx = XPathContext(root, namespaces=dict(NS), item=item, variables=variables or {},
                           schema=getattr(parser, 'schema', None))
        return ('ok', tk.evaluate(ctx))
    except ElementPathError as e:
        return ('err', _err_code(e), e)
    except RecursionError:
        raise
    except Exception as e:   # noqa - reported as an escape, never swallowed
        return ('esc', e)


def _same_items(a, b) -> bool:
    """result of treat as `a` is the value `b` unchanged"""
    la = a if isinstance(a, list) else [a]
    lb = b if isinstance(b, list) else [b]
    if len(la) != len(lb):
        return False
    from elementpath.datatypes import AnyAtomicType
    for x, y in zip(la, lb):
        if x is y:
            continue
        if isinstance(x, AnyAtomicType) and type(x) is type(y) and (x == y or (x != x and y != y)):
            continue
        return False
    return True


def _nontrivial(desc, ast) -> bool:
    if ast[0] == 'empty':
        return bool(desc)
    it, occ = ast
    it = rs.strip_paren(it)
    if it[0] == 'item':
        return len(desc) != 1 and occ != '*'
    if it[0] == 'atomic':
        return not (len(desc) == 1 and desc[0][0] == 'atom' and desc[0][1] == it[1] and occ == '')
    return True


def _t_classes(ast):
    out = []
    if ast[0] == 'empty':
        return out
    it = rs.strip_paren(ast[0])
    if it[0] in ('function', 'map', 'array') and it[1] is not None:
        out.append('t:function-typed' if it[0] == 'function' else 't:map-array-typed')
    if it[0] in ('element', 'attribute', 'doc', 'pi') and any(x for x in it[1:]):
        out.append('t:kind-args')
    if it[0] == 'atomic':
        out.append('t:atomic')
    return out


def ep_parse(parser, expr):
    """None when elementpath parses expr, else ('err', code, exc) | ('esc', exc)"""
    from elementpath import ElementPathError
    try:
        parser.parse(expr)
        return None
    except ElementPathError as e:
        return ('err', _err_code(e), e)
    except RecursionError:
        raise
    except Exception as e:   # noqa - reported as an escape
        return ('esc', e)


def _slug(obs) -> str:
    """failure kind of a parse/evaluation failure: code + normalised message, or escape site"""
    if obs[0] == 'esc':
        return escape_bucket('C18', obs[1]).split('/', 2)[2]
    msg = getattr(obs[2], 'message', None) or str(obs[2])
    import re
    msg = re.sub(r"'[^']*'|\"[^\"]*\"", 'X', msg)
    msg = re.sub(r'[^A-Za-z0-9]+', '-', msg).strip('-').lower()[:48]
    return f'{obs[1]}:{msg}'


def type_children(ast):
    """proper sub-sequence-types of a sequence type"""
    if ast[0] == 'empty':
        return []
    it, occ = ast
    out = [[it, '']] if occ else []
    k = it[0]
    if occ:
        return out
    if k == 'paren':
        return [[it[1], '']]
    if k == 'doc' and it[1] is not None:
        return [[it[1], '']]
    if k == 'function' and it[1] is not None:
        return list(it[1]) + [it[2]]
    if k == 'map' and it[1] is not None:
        return [[it[1], ''], it[2]]
    if k == 'array' and it[1] is not None:
        return [it[1]]
    return []


_WRAP = {'instance': lambda t: f'() instance of {t}', 'signature': lambda t: 'function($a as %s) as %s { () }' % (t, t)}


def shallow_class(ast) -> str:
    """item kind with the kinds and occurrences of the direct children (for parse buckets)"""
    if ast[0] == 'empty':
        return 'empty-sequence()'
    it, occ = ast
    k = it[0]

    def ck(a):
        if a[0] == 'empty':
            return 'empty'
        x = rs.strip_paren(a[0])
        return ('atomic' if x[0] == 'atomic' else 'kindtest' if x[0] in
                ('node', 'text', 'comment', 'nsnode', 'pi', 'doc', 'element', 'attribute', 'item') else x[0]) + a[1]
    if k == 'paren':
        return '(' + ck([it[1], '']) + ')' + occ
    if k in ('function', 'map', 'array') and it[1] is not None:
        kids = type_children([it, ''])
        if k == 'map':
            kids = kids[1:]
        if k == 'function':
            inner = ','.join(sorted({ck(a) for a in it[1]})) + '->' + ck(it[2])
        else:
            inner = ','.join(ck(a) for a in kids)
        return f'{k}({inner}){occ}'
    return item_type_class(it) + occ


def _construct(ast) -> str:
    """syntactic construct of a sequence type for parse buckets: kind, presence of arguments, occurrence"""
    if ast[0] == 'empty':
        return 'empty-sequence()'
    it, occ = ast
    k = it[0]
    if k == 'paren':
        return '(...)'
    if k in ('function', 'map', 'array'):
        inner = '*' if it[1] is None else '...'
        kids = [] if it[1] is None else type_children([it, ''])
        if any(c[0] == 'empty' for c in kids):
            inner = '..empty-sequence()..'
        elif any(c[0] != 'empty' and c[1] for c in kids[(1 if k == 'map' else 0):]):
            inner = '..T+*?..'
        return f'{k}({inner})' + ('+*?' if occ else '')
    if k == 'element':
        return 'element(%s%s)' % ('N' if it[1] else '*' if it[2] else '', (',T?' if it[3] else ',T') if it[2] else '')
    if k == 'attribute':
        return 'attribute(%s%s)' % ('N' if it[1] else '*' if it[2] else '', ',T' if it[2] else '')
    if k == 'atomic':
        return 'atomic'
    return item_type_class(it)


def min_unparsable(parser, ast, wrap):
    """smallest sub-sequence-type that elementpath refuses on its own (canonical spelling)"""
    for ch in type_children(ast):
        try:
            rs.check_static(ch)
        except rs.SeqTypeError:
            continue
        f = ep_parse(parser, wrap(rs.render(ch)))
        if f is not None:
            return min_unparsable(parser, ch, wrap)
    return ast


def parse_disc(parser, t, ast, failure, where='instance'):
    """Disc for a sequence type that the grammar allows and elementpath does not parse"""
    wrap = _WRAP[where]
    canonical = rs.render(ast)
    if t != canonical and ep_parse(parser, wrap(canonical)) is None:
        return Disc(f'C18/parse/{where}/blanks/{_slug(failure)}/{_construct(ast)}', 'parses', repr(failure[-1])[:200], wrap(t))
    m = min_unparsable(parser, ast, wrap)
    if where == 'instance' and m[0] != 'empty' and m[0][0] == 'function' and m[0][1] is not None:
        # every parameter/return type parses on its own: which one does the signature validation refuse?
        for ch in type_children(m):
            f2 = ep_parse(parser, _WRAP['signature'](rs.render(ch)))
            if f2 is not None:
                return parse_disc(parser, rs.render(ch), ch, f2, 'signature')
    f = ep_parse(parser, wrap(rs.render(m))) or failure
    return Disc(f'C18/parse/{where}/{_slug(f)}/{_construct(m)}', 'parses', repr(f[-1])[:200],
                wrap(rs.render(m)) + ('   (inside %s)' % canonical if m != ast else ''))


def _sig_types(v):
    """all declared type strings of inline functions inside a JSON value"""
    out = []
    if v[0] == 'F':
        out += list(v[1]) + [v[2]]
    elif v[0] == 'S' or v[0] == 'R':
        for x in v[1]:
            out += _sig_types(x)
    elif v[0] == 'M':
        for kk, vv in v[1]:
            out += _sig_types(vv)
    return out


def _label(ast) -> str:
    """which evaluation path of instance of / treat as a type takes"""
    if ast[0] == 'empty':
        return 'empty-sequence'
    return 'atomic' if rs.strip_paren(ast[0])[0] == 'atomic' else 'kind-test'


def _ncls(n):
    return '0' if n == 0 else '1' if n == 1 else 'n'


def explain(desc, ast, nsmap):
    """(cardinality ok, index of the first item that does not match the item type or None)"""
    n = len(desc)
    if ast[0] == 'empty':
        return n == 0, (0 if n else None)
    it, occ = ast
    card = not (occ == '' and n != 1 or occ == '?' and n > 1 or occ == '+' and n < 1)
    bad = next((i for i, x in enumerate(desc) if not rs.item_matches(x, it, nsmap)), None)
    return card, bad


def judge_judgement(case, rec: Recorder | None = None) -> list[Disc]:
    from elementpath.sequence_types import match_sequence_type
    from elementpath import ElementPathError
    discs: list[Disc] = []
    flavour, xsd = case['doc'], case['xsd']
    parser, root, nodes = env(flavour, xsd)
    v = case['v']
    desc = describe(v, flavour)
    vcls = value_class(desc)
    vexpr = render_value(v)
    item = nodes[case['ctx']] if case.get('ctx') is not None else None
    if rec is not None:
        rec.cls('judge')
    got = ep_eval(parser, vexpr, root, item)
    if got[0] != 'ok':
        # a declared type of an inline function that elementpath does not parse?
        for ts in _sig_types(v):
            f = ep_parse(parser, _WRAP['signature'](ts))
            if f is not None:
                where = 'signature' if ep_parse(parser, _WRAP['instance'](ts)) is None else 'instance'
                if rec is not None:
                    rec.cls('judge:value-unparsable-signature')
                return [parse_disc(parser, ts, rs.parse(ts), f, where)]
        b = f'C18/setup/value-construction/{vcls}/' + _slug(got)
        return [Disc(b, 'a value', repr(got[-1]), vexpr)]
    pyval = got[1]
    n_items = len(pyval) if isinstance(pyval, list) else 1
    if n_items != len(desc):
        return [Disc(f'C18/setup/value-length/{vcls}', len(desc), n_items, vexpr)]

    if rec is not None:
        classes = ['judge:evaluated', 'v:' + ('seq' if len(desc) > 1 else vcls)]
        kinds = {d[0] for d in desc}
        if 'node' in kinds:
            classes.append('v:node')
        if 'func' in kinds:
            classes.append('v:func')
        if kinds & {'map', 'array'}:
            classes.append('v:map-or-array')
        if flavour == 'lx':
            classes.append('doc:lxml')
        if xsd == '1.1':
            classes.append('xsd:1.1')
        for c in classes:
            rec.cls(c)

    for t in case['ts']:
        ast = rs.parse(t)
        try:
            want = rs.matches(desc, ast, NS, xsd == '1.1')
        except rs.SeqTypeError as e:
            want = e.code
        static = isinstance(want, str)
        pclasses = ['pair'] + _t_classes(ast)
        if t != rs.render(ast):
            pclasses.append('t:blanks')

        itcls = 'empty-sequence()' if ast[0] == 'empty' else item_type_class(ast[0])
        occ = '' if ast[0] == 'empty' else ast[1]
        if static:
            card, bad = True, None
        else:
            card, bad = explain(desc, ast, NS)
        if bad is not None:
            offender = item_class(desc[bad])
        elif not card:
            offender = 'cardinality'
        else:
            offender = item_class(desc[0]) if desc else 'empty'
        shape = f'[{occ or "1"},n={_ncls(len(desc))}]'

        def verdict(obs):
            """failure kind of an instance-of style observation, or None"""
            if obs[0] == 'esc':
                return _slug(obs)
            if static:
                return None if obs[0] == 'err' else 'no-static-error'
            if obs[0] == 'err':
                return 'error:' + _slug(obs)
            if obs[1] is not True and obs[1] is not False:
                return 'not-boolean'
            if obs[1] != want:
                return ('false-positive' if obs[1] else 'false-negative') + shape
            return None

        def bucket(obsname, kind, obs):
            feats = {'obs': obsname, 'label': _label(ast), 'ast': ast, 'occ': occ, 'n': len(desc), 'card': card,
                     'bad': bad, 'desc': desc, 'kind': kind, 'want': want, 'got': obs, 'itcls': itcls,
                     'offender': offender}
            return model_bucket(feats) or f'C18/{obsname}/{itcls}/{offender}/{kind}'

        # 0. the API function (string driven, independent of the expression parser)
        try:
            o_api = ('ok', match_sequence_type(pyval, t, parser))
        except ElementPathError as e:
            o_api = ('err', _err_code(e), e)
        except Exception as e:   # noqa - reported
            o_api = ('esc', e)
        k_api = verdict(o_api)
        if k_api:
            discs.append(Disc(bucket('api', k_api, o_api), want, _show(o_api), f'match_sequence_type({vexpr}, {t!r})'))

        # 1. does the expression parser accept the type at all?
        pf = ep_parse(parser, _WRAP['instance'](t))
        if pf is not None:
            if static and pf[0] == 'err':
                pclasses.append('pair:static-error-raised')
            else:
                discs.append(parse_disc(parser, t, ast, pf))
                pclasses.append('pair:unparsable')
            if rec is not None:
                rec.case([flavour, v, rs.render(ast)], nontrivial=False, classes=pclasses)
            continue

        # 2. (V) instance of T, inline and through a variable
        o_inl = ep_eval(parser, f'({vexpr}) instance of {t}', root, item)
        o_var = ep_eval(parser, f'$v instance of {t}', root, item, {'v': pyval})
        k_inl, k_var = verdict(o_inl), verdict(o_var)
        if k_inl:
            discs.append(Disc(bucket('instance', k_inl, o_inl), want, _show(o_inl), f'({vexpr}) instance of {t}'))
        if k_var and k_var != k_inl:
            discs.append(Disc(bucket('instance-var', k_var, o_var), want, _show(o_var),
                              f'$v := {vexpr}; $v instance of {t}'))

        # 3. treat as: judged against the reference; a verdict that merely repeats elementpath's own
        #    (wrong) instance-of answer is the same root cause and already reported above
        inline = case.get('route') == 'inline'
        if inline:
            texpr, tvars, o_ins = f'({vexpr}) treat as {t}', None, o_inl
        else:
            texpr, tvars, o_ins = f'$v treat as {t}', {'v': pyval}, o_var
        o_tr = ep_eval(parser, texpr, root, item, tvars)
        k_tr = None
        if flavour in SCHEMAS and o_tr[0] == 'err' and o_tr[1] == 'XPDY0050':
            pf_t = ep_parse(parser, texpr)
            if pf_t is not None and pf_t[0] == 'err' and pf_t[1] == 'XPDY0050':
                # raised by parse(): the static evaluation against the schema context executes `treat as` on schema
                # components / unbound variables and lets its dynamic error escape
                if want is True:
                    discs.append(Disc('C18/treat/schema-bound-parser/static-phase-raises-XPDY0050', want, _show(o_tr),
                                      texpr + (f'   with $v := {vexpr}' if tvars else '')))
                o_tr = None
        if o_tr is None:
            pass
        elif o_tr[0] == 'esc':
            k_tr = _slug(o_tr)
        elif static:
            k_tr = None if o_tr[0] == 'err' else 'no-static-error'
        else:
            accepted = o_tr[0] == 'ok'
            same_as_instance = o_ins[0] == 'ok' and o_ins[1] is accepted and \
                (accepted or o_tr[1] == 'XPDY0050')
            # the very error that `instance of` raises for this pair (e.g. the type-argument lookup failure) is the
            # same root cause and already reported under C18/instance/...
            same_error = o_ins[0] == 'err' and o_tr[0] == 'err' and o_tr[1] != 'XPDY0050' and \
                _slug(o_ins) == _slug(o_tr)
            same_as_instance = same_as_instance or same_error
            if want and not accepted:
                k_tr = None if same_as_instance else 'rejects-matching:' + o_tr[1]
            elif not want and accepted:
                k_tr = None if same_as_instance else 'accepts-nonmatching'
            elif not want and o_tr[1] != 'XPDY0050':
                k_tr = None if same_error else 'wrong-code:' + _slug(o_tr)
            elif want:
                res = o_tr[1]
                if tvars is not None and not _same_items(res, pyval):
                    k_tr = 'value-changed'
                elif tvars is None and (len(res) if isinstance(res, list) else 1) != len(desc):
                    k_tr = 'value-changed'
        if k_tr:
            discs.append(Disc(f'C18/treat/{_label(ast)}/{k_tr}', 'XPDY0050' if want is False else want, _show(o_tr),
                              texpr + (f'   with $v := {vexpr}' if tvars else '')))

        # 4. count(V[. instance of ItemType]) = number of items that match the item type (node values only)
        if case.get('count') and not static and ast[0] != 'empty' and all(d[0] == 'node' for d in desc):
            it_text = rs.render([ast[0], ''])
            n_want = sum(1 for d in desc if rs.item_matches(d, ast[0], NS))
            o_cnt = ep_eval(parser, f'count($v[. instance of {it_text}])', root, item, {'v': pyval})
            if not (o_cnt[0] == 'ok' and o_cnt[1] == n_want) and not k_inl and not k_var:
                kind = _slug(o_cnt) if o_cnt[0] != 'ok' else ('count-too-high' if o_cnt[1] > n_want else 'count-too-low')
                discs.append(Disc(bucket('count', kind, o_cnt), n_want, _show(o_cnt),
                                  f'count($v[. instance of {it_text}])   with $v := {vexpr}'))

        if rec is not None:
            nt = _nontrivial(desc, ast)
            if flavour in SCHEMAS:
                pclasses.append('schema:pair')
                if any(d[0] == 'node' and d[4] for d in desc):
                    pclasses.append('schema:nilled-item')
                nt_ = _inner_node_test(ast)
                if nt_ is not None and nt_[2] is not None:
                    pclasses.append('schema:type-argument')
                    if nt_[0] == 'element' and nt_[3]:
                        pclasses.append('schema:nillable-type-argument')
            if nt:
                pclasses.append('pair:nontrivial')
            pclasses.append('pair:expect-' + ('static-error' if static else str(want).lower()))
            pclasses.append('pair:judged')
            rec.case([flavour, v, rs.render(ast)], nontrivial=nt, classes=pclasses,
                     sample={'check': 'judge', 'v': vexpr, 't': t, 'expected': want})
    return discs


def _inner_node_test(ast):
    """the element/attribute test of a sequence type (also inside document-node()), or None"""
    if ast[0] == 'empty':
        return None
    it = rs.strip_paren(ast[0])
    if it[0] == 'doc' and it[1] is not None:
        it = it[1]
    return it if it[0] in ('element', 'attribute') else None


def entry_level_array(x, it) -> bool:
    """elementpath's documented design for `array instance of function(I) as R` (deviates from XPath 3.1, recorded as
    known): one parameter whose type admits xs:integer, and every member - the whole sequence, nested arrays as single
    items - matches R.  A second-level oracle: an answer that differs from the specification must at least be this."""
    if len(it[1]) != 1 or it[1][0][0] == 'empty' or it[1][0][1] in ('+', '*'):
        return False
    if not rs.item_matches(('atom', 'xs:integer'), it[1][0][0], NS):
        return False
    return all(rs._matches(m, it[2], NS) for m in x[1])


def model_bucket(f):
    """root-cause models of defects known on the pinned tree: a discrepancy that a model explains gets the
    model's bucket (see proposed/C18/known.json); anything else keeps its fine-grained generic bucket"""
    obs, kind, ast = f['obs'], f['kind'], f['ast']
    fp, fn = kind.startswith('false-positive'), kind.startswith('false-negative')
    it = None if ast[0] == 'empty' else rs.strip_paren(ast[0])
    inst = obs in ('instance', 'instance-var')
    offender = f['desc'][f['bad']] if f['bad'] is not None else None
    nt = _inner_node_test(ast)
    # M17 (schema-typed documents) a nilled element matches element(N, T?) for EVERY T: the type annotation is not
    #     compared with T at all (XPath 3.1 2.5.5.3 demands derives-from(annotation, T) as well)
    if nt is not None and nt[0] == 'element' and nt[2] is not None and nt[3] and (fp or kind == 'count-too-high') and \
            any(d[0] == 'node' and d[4] and not rs.derives_from(d[3], nt[2]) for d in f['desc']):
        return f'C18/{obs}/nilled-element-nillable-type-argument/false-positive'
    # M20 (schema-typed documents) match_sequence_type judges element(N, T?) on the typed value, which is empty for a
    #     nilled element: never matches
    if obs == 'api' and nt is not None and nt[0] == 'element' and nt[2] is not None and nt[3] and fn and \
            any(d[0] == 'node' and d[4] and rs.derives_from(d[3], nt[2]) for d in f['desc']):
        return 'C18/api/nilled-element-nillable-type-argument/false-negative'
    # M18 (schema-typed documents) attribute(N, xs:anyType) on a typed attribute: the schema proxy is asked to
    #     validate the typed value against xs:anyType and a TypeError escapes
    if nt is not None and nt[0] == 'attribute' and nt[2] == 'xs:anyType' and 'TypeError' in kind:
        return f'C18/{obs}/typed-attribute-anyType-argument/TypeError'
    # M2 type argument of element()/attribute() that is not an atomic type: lookup fails instead of derives-from
    if nt is not None and nt[2] in rs.NON_ATOMIC and kind.startswith('error:'):
        return f'C18/{obs}/node-test-type-argument/{nt[2]}/{kind}'
    # M3 element(N, T): judged on the typed value of the element, not on its type annotation
    if nt is not None and nt[0] == 'element' and nt[2] is not None and (fp or fn):
        el = offender if fp else (f['desc'][0] if f['desc'] else None)
        if el is not None and el[0] == 'node' and el[1] in ('element', 'document') and el[3] in ('xs:untyped', None):
            return f'C18/{obs}/element-type-argument/{nt[2]}/' + ('false-positive' if fp else 'false-negative')
    # M4 maps and arrays against a typed function test: judged on their entries, not on their signature
    if it is not None and it[0] == 'function' and it[1] is not None and (fp or fn):
        x = offender if fp else (f['desc'][0] if f['desc'] else None)
        if x is not None and x[0] in ('map', 'array'):
            if x[0] == 'array' and len(f['desc']) == 1 and "['paren'," not in repr(ast) and entry_level_array(x, it) != fp:
                # not even elementpath's own entry-level reading (index type admits xs:integer, EVERY member - taken
                # as the sequence it is - matches the return type) explains the answer
                return f'C18/{obs}/typed-function-test-on-array-entries/' + ('false-positive' if fp else 'false-negative')
            return f'C18/{obs}/typed-function-test-on-{x[0]}/' + ('false-positive' if fp else 'false-negative')
    # M4b the same inside array(T) / map(K, T): a member that is itself a map or an array, T a typed function test
    if it is not None and it[0] in ('array', 'map') and it[1] is not None and (fp or fn) and \
            "['function', [" in repr(it) and any(m[0] in ('array', 'map') for d in f['desc'] if d[0] in ('array', 'map')
                                                 for mm in (d[1] if d[0] == 'array' else [v for _, v in d[1]]) for m in mm):
        return f'C18/{obs}/typed-function-test-on-array/nested-in-{it[0]}-test/' + ('false-positive' if fp else 'false-negative')
    # M8 attribute() / namespace-node() applied to an element select its attributes / namespace nodes (they double
    #    as abbreviated axis steps), so the element itself passes the test
    if inst and it is not None and it[0] in ('attribute', 'nsnode') and fp and offender is not None \
            and offender[0] == 'node' and offender[1] == 'element':
        return 'C18/instance/attribute-or-namespace-test-on-element/false-positive'
    # M9 attribute(p:name): the lexical QName is compared with the expanded attribute name
    if inst and it is not None and it[0] == 'attribute' and it[1] and ':' in it[1] and fn:
        return 'C18/instance/attribute-test-prefixed-name/false-negative'
    # M3b attribute(N, T): without a schema the type argument is ignored (pinned by tests/test_xpath2_parser.py
    #     test_attribute_accessor); match_sequence_type accepts xs:untyped for attributes
    if nt is not None and nt[0] == 'attribute' and nt[2] is not None and fp and offender is not None \
            and offender[0] == 'node' and offender[1] == 'attribute' and offender[3] == 'xs:untypedAtomic':
        return f'C18/{obs}/attribute-type-argument/{nt[2]}/false-positive'
    # M13 match_sequence_type does not know parenthesized item types
    if obs == 'api' and "['paren'," in repr(ast):
        return 'C18/api/parenthesized-item-type/' + ('false-positive' if fp else 'false-negative' if fn else kind)
    # M10/M11 match_sequence_type never matches namespace-node() and processing-instruction(N)
    if obs == 'api' and it is not None and fn and f['desc'] and f['desc'][0][0] == 'node':
        if it[0] == 'nsnode' and f['desc'][0][1] == 'namespace':
            return 'C18/api/namespace-node-test/false-negative'
        if it[0] == 'pi' and it[1] and f['desc'][0][1] == 'processing-instruction':
            return 'C18/api/pi-name-test/false-negative'
    # M6 match_sequence_type: an occurrence indicator behind a map/array test that contains a typed function
    #    test is not recognised (the string contains ") as ")
    if obs == 'api' and f['occ'] and it is not None and it[0] in ('map', 'array') and ') as ' in rs.render_item(it):
        return 'C18/api/occurrence-after-nested-function-test/' + ('false-positive' if fp else 'false-negative' if fn else kind)
    # M7 match_sequence_type splits a typed function test at ', ' and ') as ': parameters that contain either are cut
    if obs == 'api' and it is not None and it[0] == 'function' and it[1] is not None and (fp or fn) and \
            any(', ' in rs.render(a) or ') as ' in rs.render(a) for a in it[1]):
        return 'C18/api/typed-function-test/string-split-of-nested-parameters/' + ('false-positive' if fp else 'false-negative')
    # M5 typed function test on a function item: which component does elementpath's subtype relation judge
    #    differently from XPath 3.1 2.5.6?  (unsound = accepts a non-subtype, incomplete = refuses a subtype)
    if it is not None and it[0] == 'function' and it[1] is not None and (fp or fn):
        x = offender if fp else (f['desc'][0] if f['desc'] else None)
        if x is not None and x[0] == 'func' and len(x[1]) == len(it[1]):
            from elementpath.sequence_types import is_sequence_type_restriction as R
            comps = [(sp, ta) for sp, ta in zip(x[1], it[1])] + [(it[2], x[2])]      # (super, sub) pairs
            for sup, sub in comps:
                r_ep, r_ref = bool(R(rs.render(sup), rs.render(sub))), rs.subtype(sub, sup)
                if r_ep != r_ref:
                    how = 'unsound' if r_ep else 'incomplete'
                    if r_ep:
                        sup, sub = innermost_unsound(sup, sub)
                    return f'C18/{obs}/typed-function-test/subtype-{how}/{occ_class(sup, sub)}'
    return None


def _show(obs):
    if obs[0] == 'ok':
        return repr(obs[1])[:200]
    return repr(obs[-1])[:200]


# --------------------------------------------------------------------------
# subtype relation
# --------------------------------------------------------------------------
POOL_TYPES = [
    'empty-sequence()', 'item()', 'item()?', 'item()*', 'item()+',
    'xs:anyAtomicType', 'xs:anyAtomicType?', 'xs:anyAtomicType*', 'xs:anyAtomicType+',
    'xs:decimal', 'xs:decimal?', 'xs:integer', 'xs:integer?', 'xs:integer*', 'xs:integer+',
    'xs:long', 'xs:int', 'xs:int?', 'xs:int*', 'xs:int+', 'xs:short', 'xs:nonNegativeInteger', 'xs:positiveInteger',
    'xs:unsignedByte', 'xs:double', 'xs:double?', 'xs:float', 'xs:numeric', 'xs:numeric?', 'xs:numeric*',
    'xs:string', 'xs:string?', 'xs:string*', 'xs:string+', 'xs:normalizedString', 'xs:token', 'xs:NCName', 'xs:ID',
    'xs:untypedAtomic', 'xs:untypedAtomic*', 'xs:anyURI', 'xs:QName', 'xs:boolean', 'xs:boolean?',
    'xs:date', 'xs:dateTime', 'xs:duration', 'xs:dayTimeDuration', 'xs:dayTimeDuration?', 'xs:hexBinary',
    'node()', 'node()?', 'node()*', 'node()+', 'text()', 'text()?', 'comment()', 'namespace-node()',
    'processing-instruction()', 'processing-instruction(tgt)', 'processing-instruction(zz)',
    'document-node()', 'document-node()?', 'document-node(element(a))', 'document-node(element(*))', 'document-node(element(b))',
    'element()', 'element()?', 'element()*', 'element()+', 'element(*)', 'element(a)', 'element(a)?', 'element(a)*',
    'element(b)', 'element(p:c)', 'element(a, xs:untyped)', 'element(*, xs:untyped)', 'element(a, xs:anyType)',
    'element(a, xs:anyType?)', 'element(*, xs:anyType)', 'element(a, xs:string)', 'element(*, xs:integer)',
    'attribute()', 'attribute()*', 'attribute(*)', 'attribute(x)', 'attribute(x)?', 'attribute(p:y)',
    'attribute(x, xs:untypedAtomic)', 'attribute(*, xs:untypedAtomic)', 'attribute(x, xs:anyAtomicType)',
    'attribute(*, xs:anySimpleType)', 'attribute(x, xs:string)',
    'function(*)', 'function(*)?', 'function(*)*', 'function() as xs:boolean', 'function() as item()*',
    'function(item()*) as item()*', 'function(item()) as item()*', 'function(item()*) as xs:integer',
    'function(xs:integer) as xs:integer', 'function(xs:int) as xs:integer', 'function(xs:integer) as xs:int',
    'function(xs:decimal) as xs:int', 'function(xs:integer?) as xs:integer', 'function(xs:integer) as xs:integer?',
    'function(xs:integer) as item()*', 'function(xs:anyAtomicType) as item()*', 'function(xs:string) as item()*',
    'function(xs:anyAtomicType) as xs:string?', 'function(xs:anyAtomicType) as xs:string',
    'function(xs:string?) as xs:integer', 'function(xs:numeric?) as xs:numeric?', 'function(xs:integer) as xs:numeric?',
    'function(xs:string?, xs:double) as xs:string', 'function(item()*, item()*) as item()*',
    'function(node()?) as xs:QName?', 'function(element()) as xs:QName?', 'function(map(*)) as xs:integer',
    'function(function(item()) as item()*) as item()*',
    'map(*)', 'map(*)?', 'map(*)*', 'map(xs:integer, xs:string)', 'map(xs:decimal, xs:anyAtomicType)', 'map(xs:int, xs:string)',
    'map(xs:integer, xs:token)', 'map(xs:string, item()*)', 'map(xs:anyAtomicType, item()*)', 'map(xs:integer, xs:string?)',
    'map(xs:string, item())', 'map(xs:integer, item()*)',
    'array(*)', 'array(*)?', 'array(*)*', 'array(xs:integer)', 'array(xs:integer+)', 'array(xs:integer*)', 'array(xs:string)',
    'array(xs:int)', 'array(item())', 'array(item()*)', 'array(xs:anyAtomicType)', 'array(array(*))',
    ' xs:integer ?', 'element( a )', 'function( xs:integer )  as  xs:integer', 'map( xs:integer , xs:string )',
]


def _pool_values():
    """described witness values (reference side only)"""
    A = lambda t: ('atom', t)
    singles = [A(t) for t in ('xs:integer', 'xs:int', 'xs:byte', 'xs:positiveInteger', 'xs:unsignedByte', 'xs:long', 'xs:decimal',
                              'xs:double', 'xs:float', 'xs:string', 'xs:token', 'xs:NCName', 'xs:ID', 'xs:normalizedString',
                              'xs:untypedAtomic', 'xs:anyURI', 'xs:QName', 'xs:boolean', 'xs:date', 'xs:dateTime',
                              'xs:duration', 'xs:dayTimeDuration', 'xs:hexBinary', 'xs:nonNegativeInteger', 'xs:short')]
    singles += [node_desc(i, "et") for i in range(N_PLAIN)] + [node_desc(0, 'lx')]
    singles += [_node('document', children=[_EL_B]), _node('document', children=[_EL_A, _EL_B]), _node('document', children=[])]
    P = rs.parse
    singles += [('func', [P(a) for a in args], P(r)) for args, r in [
        ([], 'xs:boolean'), (['item()*'], 'item()*'), (['item()'], 'item()*'), (['xs:integer'], 'xs:integer'),
        (['xs:decimal'], 'xs:int'), (['xs:int'], 'xs:integer'), (['xs:integer?'], 'xs:integer'), (['xs:integer'], 'xs:integer?'),
        (['xs:string?'], 'xs:integer'), (['xs:numeric?'], 'xs:numeric?'), (['xs:string?', 'xs:double'], 'xs:string'),
        (['item()*', 'item()*'], 'item()*'), (['node()?'], 'xs:QName?'), (['xs:anyAtomicType'], 'item()*'),
        (['xs:anyAtomicType'], 'xs:string?'), (['xs:anyAtomicType'], 'xs:string'), (['map(*)'], 'xs:integer'),
        (['xs:integer'], 'item()*'), (['function(item()) as item()*'], 'item()*'), (['item()*'], 'xs:integer'),
        (['xs:string'], 'item()*'), (['element()'], 'xs:QName?')]]
    M = lambda *e: ('map', list(e))
    singles += [M(), M((A('xs:integer'), [A('xs:string')])), M((A('xs:int'), [A('xs:token')])),
                M((A('xs:string'), [])), M((A('xs:string'), [A('xs:integer'), A('xs:integer')])),
                M((A('xs:integer'), [A('xs:string')]), (A('xs:date'), [A('xs:string')])), M((A('xs:decimal'), [A('xs:boolean')])),
                M((A('xs:string'), [_EL_A]))]
    R = lambda *m: ('array', list(m))
    singles += [R(), R([A('xs:integer')]), R([A('xs:int')], [A('xs:int')]), R([A('xs:integer'), A('xs:integer')]), R([]),
                R([A('xs:string')]), R([R()]), R([_EL_A]), R([A('xs:string')], [A('xs:integer')])]
    seqs = [[]] + [[s] for s in singles]
    for s in singles:
        seqs.append([s, s])
    seqs += [[A('xs:integer'), A('xs:string')], [A('xs:int'), A('xs:integer')], [_EL_A, _EL_B], [_EL_A, _TEXT],
             [A('xs:integer'), _EL_A], [R(), M()], [singles[40], singles[41]]]
    return seqs


_pool_cache: dict = {}


def _pool():
    if not _pool_cache:
        vals = _pool_values()
        asts = [rs.parse(t) for t in POOL_TYPES]
        mm = [[rs.matches(v, a, NS) for v in vals] for a in asts]
        _pool_cache.update(vals=vals, asts=asts, mm=mm)
    return _pool_cache


def _occ_of(ast):
    return 'empty' if ast[0] == 'empty' else (ast[1] or '1')


def _kind_of(ast):
    if ast[0] == 'empty':
        return 'empty'
    it = rs.strip_paren(ast[0])
    if it[0] == 'atomic':
        return 'atomic'
    if it[0] in ('function', 'map', 'array'):
        return it[0] + ('*' if it[1] is None else '')
    return it[0]


def pair_class(a, b):
    """bucket component for R(a, b): kind and occurrence of both"""
    return f'{_kind_of(a)}[{_occ_of(a)}]~{_kind_of(b)}[{_occ_of(b)}]'


def _typed_fn(ast):
    if ast[0] == 'empty':
        return False
    it = rs.strip_paren(ast[0])
    return it[0] == 'function' and it[1] is not None


def occ_class(a, b):
    """bucket component for the subtype relation R(a, b): occurrence pattern; typed function tests are marked
    (their parameter and return types recurse into the relation, and the string ends with the return type's
    indicator); the item kinds are added only when both sides have the same occurrence and no function test is
    involved (then the item-type part of the relation decided)"""
    oa, ob = _occ_of(a), _occ_of(b)
    if _typed_fn(a) or _typed_fn(b):
        return f'{oa}<-{ob}/typed-function-test'
    if oa == ob:
        return f'{oa}<-{ob}/{_kind_of(a)}~{_kind_of(b)}'
    return f'{oa}<-{ob}'


def innermost_unsound(sup, sub):
    """for R(sup, sub) True without sub being a subtype of sup: descend into typed function tests to the
    parameter/return pair on which the relation itself gives the unsound answer"""
    from elementpath.sequence_types import is_sequence_type_restriction as R
    if _typed_fn(sup) and _typed_fn(sub):
        a, b = rs.strip_paren(sup[0]), rs.strip_paren(sub[0])
        if len(a[1]) == len(b[1]):
            comps = [(pb, pa) for pa, pb in zip(a[1], b[1])] + [(a[2], b[2])]     # (super, sub) as R recurses
            for c_sup, c_sub in comps:
                if R(rs.render(c_sup), rs.render(c_sub)) and not rs.subtype(c_sub, c_sup):
                    return innermost_unsound(c_sup, c_sub)
    return sup, sub


def witness(sup_ast, sub_ast, vals=None, mm_sup=None, mm_sub=None):
    """a described value matching sub but not sup (or None)"""
    p = _pool()
    for i, v in enumerate(p['vals']):
        ms = mm_sub[i] if mm_sub is not None else rs.matches(v, sub_ast, NS)
        if ms:
            mt = mm_sup[i] if mm_sup is not None else rs.matches(v, sup_ast, NS)
            if not mt:
                return v
    return None


def judge_subtype_pool(case, rec: Recorder | None = None) -> list[Disc]:
    """exhaustive on the fixed pool, for first index in case['rows']"""
    from elementpath.sequence_types import is_sequence_type_restriction as R
    discs: list[Disc] = []
    p = _pool()
    types, asts, mm = POOL_TYPES, p['asts'], p['mm']
    n = len(types)
    rel = {}

    def r(i, j):
        if (i, j) not in rel:
            try:
                rel[i, j] = bool(R(types[i], types[j]))
            except Exception as e:   # noqa - reported
                discs.append(Disc(escape_bucket('C18', e) + '/subtype', 'bool', repr(e), f'R({types[i]!r}, {types[j]!r})'))
                rel[i, j] = False
        return rel[i, j]

    for i in case['rows']:
        if not r(i, i):
            discs.append(Disc(f'C18/subtype/not-reflexive/{_kind_of(asts[i])}[{_occ_of(asts[i])}]', True, False,
                              f'R({types[i]!r}, {types[i]!r})'))
        for j in range(n):
            if not r(i, j):
                if rec is not None:
                    rec.case(['R', i, j], nontrivial=False, classes=['pool:pair'])
                continue
            # sound: S = types[j] restricts T = types[i]
            w = witness(asts[i], asts[j], mm_sup=mm[i], mm_sub=mm[j])
            if w is not None:
                discs.append(Disc(f'C18/subtype/unsound/{occ_class(*innermost_unsound(asts[i], asts[j]))}', False, True,
                                  f'R({types[i]!r}, {types[j]!r}) is True but {w!r} matches only the second'))
            # transitive: R(i, j) and R(j, k) => R(i, k)
            for k in range(n):
                if r(j, k) and not r(i, k):
                    discs.append(Disc(f'C18/subtype/not-transitive/{occ_class(asts[i], asts[k])}', True, False,
                                      f'R({types[i]!r}, {types[j]!r}) and R({types[j]!r}, {types[k]!r}) but not '
                                      f'R({types[i]!r}, {types[k]!r})'))
            if rec is not None:
                rec.case(['R', i, j], nontrivial=i != j, classes=['pool:pair', 'pool:related'],
                         sample={'check': 'subtype-pool', 'R': [types[i], types[j]]})
    return discs


@st.composite
def subtype_gen_case(draw):
    """chain C <- B <- A of mutated types, rendered canonically or with blanks"""
    base = sanitize(draw(seq_type(2, True)))
    b = sanitize(draw(mutate_seq_type(base)))
    c = sanitize(draw(mutate_seq_type(b)))
    order = draw(st.sampled_from([[0, 1, 2], [2, 1, 0], [0, 1, 2], [2, 1, 0], [1, 0, 2], [0, 2, 1]]))
    trio = [base, b, c]
    seed = draw(st.integers(0, 4)) == 0 and draw(st.integers(1, 2 ** 20))
    return {'types': [rs.render(trio[i], _lcg_ws(seed or 0)) for i in order]}


def judge_subtype_gen(case, rec: Recorder | None = None) -> list[Disc]:
    from elementpath.sequence_types import is_sequence_type_restriction as R
    discs: list[Disc] = []
    ts = case['types']
    asts = [rs.parse(t) for t in ts]
    for a in asts:
        rs.check_static(a)
    rel = {}
    for i in range(3):
        for j in range(3):
            try:
                rel[i, j] = bool(R(ts[i], ts[j]))
            except Exception as e:   # noqa - reported
                discs.append(Disc(escape_bucket('C18', e) + '/subtype', 'bool', repr(e), f'R({ts[i]!r}, {ts[j]!r})'))
                rel[i, j] = False
    held = False
    for i in range(3):
        if not rel[i, i]:
            discs.append(Disc(f'C18/subtype/not-reflexive/{_kind_of(asts[i])}[{_occ_of(asts[i])}]', True, False,
                              f'R({ts[i]!r}, {ts[i]!r})'))
        for j in range(3):
            if i == j or not rel[i, j]:
                continue
            w = witness(asts[i], asts[j])
            if w is not None:
                discs.append(Disc(f'C18/subtype/unsound/{occ_class(*innermost_unsound(asts[i], asts[j]))}', False, True,
                                  f'R({ts[i]!r}, {ts[j]!r}) is True but {w!r} matches only the second'))
            for k in range(3):
                if k != j and k != i and rel[j, k]:
                    held = True
                    if not rel[i, k]:
                        discs.append(Disc(f'C18/subtype/not-transitive/{occ_class(asts[i], asts[k])}', True, False,
                                          f'R({ts[i]!r}, {ts[j]!r}) and R({ts[j]!r}, {ts[k]!r}) but not R({ts[i]!r}, {ts[k]!r})'))
    if rec is not None:
        related = sum(1 for (i, j), x in rel.items() if x and i != j)
        rec.case(sorted(rs.render(a) for a in asts), nontrivial=related > 0,
                 classes=['gen:triple'] + (['gen:premises-hold'] if held else []) + (['gen:related'] if related else []),
                 sample={'check': 'subtype-gen', 'types': ts}, n=9)
    return discs


# --------------------------------------------------------------------------
# signature conformance
# --------------------------------------------------------------------------
EXCLUDED_FUNCTIONS = {
    'doc', 'doc-available', 'collection', 'uri-collection', 'unparsed-text', 'unparsed-text-lines',
    'unparsed-text-available', 'environment-variable', 'available-environment-variables', 'json-doc',
    'transform', 'load-xquery-module', 'trace', 'put', 'error',
}
# index of the collation parameter: only the codepoint collation is ever passed there
COLLATION_ARG = {
    ('compare', 3): 2, ('contains', 3): 2, ('starts-with', 3): 2, ('ends-with', 3): 2, ('substring-before', 3): 2,
    ('substring-after', 3): 2, ('contains-token', 3): 2, ('deep-equal', 3): 2, ('distinct-values', 2): 1,
    ('index-of', 3): 2, ('max', 2): 1, ('min', 2): 1, ('sort', 2): 1, ('sort', 3): 1, ('array:sort', 2): 1,
    ('array:sort', 3): 1, ('collation-key', 2): 1,
}
# strings that make string-driven functions succeed (JSON, XML, pictures, regex, dates, NF forms ...)
_STRINGS = ["''", "'abc'", "'a b'", "'{\"a\": 1}'", "'[1, 2]'", "'<r><s/></r>'", "'[Y0001]-[M01]-[D01]'", "'[H01]:[m01]'",
            "'#0.0'", "'1'", "'a'", "'NFC'", "'en'", "'Wed, 06 Jun 1994 07:29:35 GMT'", "'x'", "'http://x/y'", "'p:n'", "'id1'",
            "'i'", "'$0'"]
STRING_ATOMS = [['A', 'xs:string', s] for s in _STRINGS]
# per function / argument position: preferred argument expressions (drawn half of the time)
ARG_HINTS = {
    ('parse-json', 0): ["'{\"a\": 1}'", "'[1, 2]'", "'1'"], ('json-to-xml', 0): ["'{\"a\": 1}'", "'[1, 2]'"],
    ('parse-xml', 0): ["'<r><s/></r>'"], ('parse-xml-fragment', 0): ["'<r/>x'", "'abc'"],
    ('parse-ietf-date', 0): ["'Wed, 06 Jun 1994 07:29:35 GMT'"],
    ('format-date', 1): ["'[Y0001]-[M01]-[D01]'"], ('format-dateTime', 1): ["'[Y0001]-[M01]-[D01] [H01]:[m01]'"],
    ('format-time', 1): ["'[H01]:[m01]'"], ('format-integer', 1): ["'1'", "'a'", "'w'"], ('format-number', 1): ["'#0.0'"],
    ('format-date', 2): ["'en'", '()'], ('format-dateTime', 2): ["'en'", '()'], ('format-time', 2): ["'en'", '()'],
    ('format-date', 3): ['()'], ('format-dateTime', 3): ['()'], ('format-time', 3): ['()'],
    ('format-date', 4): ['()'], ('format-dateTime', 4): ['()'], ('format-time', 4): ['()'],
    ('format-integer', 2): ["'en'", '()'], ('format-number', 2): ['()'],
    ('matches', 1): ["'a'", "'b+'"], ('replace', 1): ["'a'"], ('tokenize', 1): ["' '", "'b'"], ('analyze-string', 1): ["'a'", "'b+'"],
    ('matches', 2): ["'i'", "''"], ('replace', 3): ["'i'", "''"], ('tokenize', 2): ["''"], ('analyze-string', 2): ["'i'", "''"],
    ('replace', 2): ["'x'", "'$0'"],
    ('normalize-unicode', 1): ["'NFC'", "'NFKD'", "''"], ('resolve-QName', 0): ["'p:n'", "'n'"],
    ('namespace-uri-for-prefix', 0): ["'p'", "'xml'", "''", '()'], ('prefix-from-QName', 0): ['node-name($N1)', 'node-name($N2)', 'node-name($N3)', 'node-name($N5)'],
    ('namespace-uri-from-QName', 0): ['node-name($N1)', 'node-name($N3)'], ('local-name-from-QName', 0): ['node-name($N2)'], ('function-lookup', 0): ["xs:QName('fn:abs')", "xs:QName('fn:count')"],
    ('function-lookup', 1): ['1'], ('xml-to-json', 0): ["json-to-xml('{\"a\": 1}')", "json-to-xml('[1, 2]')"],
    ('apply', 0): ['abs#1', 'count#1'], ('apply', 1): ['[1]', '[-2.5]'],
    ('array:get', 1): ['1'], ('array:put', 1): ['1'], ('array:insert-before', 1): ['1'], ('array:remove', 1): ['1', '()'],
    ('array:subarray', 1): ['1'], ('array:subarray', 2): ['0', '1'], ('array:join', 0): ['([1], [2, 3])'],
    ('resolve-uri', 1): ["'http://x/y/'"], ('codepoints-to-string', 0): ['(97, 98)', '()'], ('remove', 1): ['1', '2'],
    ('insert-before', 1): ['1', '2'], ('round', 1): ['1', '-1'], ('round-half-to-even', 1): ['1', '-1'],
    ('random-number-generator', 0): ['1', "'seed'", '()'], ('serialize', 1): ['()'],
    ('lang', 0): ["'en'"], ('id', 0): ["'id1'"], ('idref', 0): ["'id1'"], ('element-with-id', 0): ["'id1'"],
}


# --------------------------------------------------------------------------
# argument classes of the signature sweep: (type, class, XPath expression), written from the XSD value spaces
# --------------------------------------------------------------------------
_INT_BOUNDS = {   # XSD Part 2 §3.4: (min, max) of the bounded integer types
    'xs:long': (-2 ** 63, 2 ** 63 - 1), 'xs:int': (-2 ** 31, 2 ** 31 - 1), 'xs:short': (-2 ** 15, 2 ** 15 - 1),
    'xs:byte': (-128, 127), 'xs:unsignedLong': (0, 2 ** 64 - 1), 'xs:unsignedInt': (0, 2 ** 32 - 1),
    'xs:unsignedShort': (0, 65535), 'xs:unsignedByte': (0, 255),
}


def _build_sig_values():
    out = []

    def add(t, cls, lex, expr=None):
        out.append((t, cls, expr if expr is not None else "%s('%s')" % (t, lex)))
    # durations: every non-empty combination of components, both signs, plus the zero spellings
    comps = [('1Y', 'Y'), ('2M', 'Y'), ('3D', 'D'), ('4H', 'T'), ('5M', 'T'), ('6.5S', 'T')]

    def dur(sel):
        date = ''.join(c for c, k in sel if k in 'YD')
        time_ = ''.join(c for c, k in sel if k == 'T')
        return 'P' + date + ('T' + time_ if time_ else '')
    import itertools
    for typ, pool in (('xs:duration', comps), ('xs:dayTimeDuration', comps[2:]), ('xs:yearMonthDuration', comps[:2])):
        for r in range(1, len(pool) + 1):
            for sel in itertools.combinations(pool, r):
                add(typ, 'duration:pos', dur(sel))
                add(typ, 'duration:neg', '-' + dur(sel))
    for lex in ('PT0S', 'P0D', '-PT0S'):
        add('xs:duration', 'duration:zero', lex)
        add('xs:dayTimeDuration', 'duration:zero', lex)
    for lex in ('P0M', 'P0Y', '-P0M'):
        add('xs:duration', 'duration:zero', lex)
        add('xs:yearMonthDuration', 'duration:zero', lex)
    # negative durations whose single components are zero or carry over (-PT30M: hours 0; -PT36H: days -1)
    for lex in ('-PT30M', '-PT36H', '-PT90S', '-P400D', '-PT0.5S', '-PT86400S', 'PT36H', 'PT86400S', 'P400D'):
        cls = 'duration:neg' if lex[0] == '-' else 'duration:pos'
        add('xs:duration', cls, lex)
        add('xs:dayTimeDuration', cls, lex)
    for lex in ('-P13M', 'P13M', '-P11M', 'P100Y'):
        cls = 'duration:neg' if lex[0] == '-' else 'duration:pos'
        add('xs:duration', cls, lex)
        add('xs:yearMonthDuration', cls, lex)
    # integers
    for lex, cls in (('0', 'numeric:zero'), ('-7', 'numeric:neg'), ('7', 'numeric:pos'), ('-1', 'numeric:neg'),
                     ('1' + '0' * 30, 'numeric:huge'), ('-1' + '0' * 30, 'numeric:huge')):
        add('xs:integer', cls, lex)
    out.append(('xs:integer', 'numeric:pos', '7'))
    out.append(('xs:integer', 'numeric:zero', '0'))
    for t, (lo, hi) in _INT_BOUNDS.items():
        add(t, 'numeric:boundary', str(lo))
        add(t, 'numeric:boundary', str(hi))
        add(t, 'numeric:zero', '0')
        add(t, 'numeric:pos', '5')
        if lo < 0:
            add(t, 'numeric:neg', '-5')
    for t, vals in (('xs:nonPositiveInteger', ['0', '-5', '-1' + '0' * 30]), ('xs:negativeInteger', ['-1', '-5', '-1' + '0' * 30]),
                    ('xs:nonNegativeInteger', ['0', '5', '1' + '0' * 30]), ('xs:positiveInteger', ['1', '5', '1' + '0' * 30])):
        for v in vals:
            add(t, 'numeric:huge' if len(v) > 20 else 'numeric:zero' if v == '0' else 'numeric:neg' if v[0] == '-' else 'numeric:pos', v)
    for lex, cls in (('0', 'numeric:zero'), ('-0.0', 'numeric:zero'), ('-1.5', 'numeric:neg'), ('1.5', 'numeric:pos'), ('2.5', 'numeric:pos'),
                     ('-2.5', 'numeric:neg'), ('0.000000000000000001', 'numeric:boundary'),
                     ('123456789012345678901234567890.5', 'numeric:huge'), ('-123456789012345678901234567890.5', 'numeric:huge')):
        add('xs:decimal', cls, lex)
    out.append(('xs:decimal', 'numeric:pos', '1.5'))
    for t, big, tiny in (('xs:double', '1.7976931348623157E308', '4.9E-324'), ('xs:float', '3.4028235E38', '1.4E-45')):
        for lex, cls in (('0', 'numeric:zero'), ('-0', 'numeric:zero'), ('-1.5', 'numeric:neg'), ('1.5', 'numeric:pos'), ('2.5', 'numeric:pos'),
                         (big, 'numeric:huge'), ('-' + big, 'numeric:huge'), (tiny, 'numeric:boundary'), ('1E21', 'numeric:huge'),
                         ('1E-7', 'numeric:boundary'), ('INF', 'numeric:special'), ('-INF', 'numeric:special'), ('NaN', 'numeric:special')):
            add(t, cls, lex)
    out.append(('xs:double', 'numeric:pos', '1e0'))
    # date/time family: BCE, year > 9999, with/without timezone, extreme timezones, 24:00:00, leap day, fractions
    for lex, cls in (('2000-01-01T12:00:00', 'datetime:no-tz'), ('2000-01-01T12:00:00Z', 'datetime:tz'),
                     ('2000-02-29T23:59:59.999+14:00', 'datetime:tz'), ('2000-01-01T00:00:00-14:00', 'datetime:tz'),
                     ('-0044-03-15T12:00:00', 'datetime:bce'), ('-0044-03-15T12:00:00Z', 'datetime:bce'),
                     ('12000-01-01T00:00:00Z', 'datetime:year>9999'), ('12000-12-31T23:59:59', 'datetime:year>9999'),
                     ('2000-12-31T24:00:00', 'datetime:24h'), ('1999-12-31T24:00:00Z', 'datetime:24h'), ('0001-01-01T00:00:00', 'datetime:no-tz')):
        add('xs:dateTime', cls, lex)
    for lex, cls in (('2000-02-29', 'datetime:no-tz'), ('2001-01-01Z', 'datetime:tz'), ('2000-01-01+14:00', 'datetime:tz'),
                     ('2000-01-01-14:00', 'datetime:tz'), ('-0044-03-15', 'datetime:bce'), ('-0044-03-15Z', 'datetime:bce'),
                     ('12000-01-01', 'datetime:year>9999'), ('12000-12-31Z', 'datetime:year>9999'), ('0001-01-01', 'datetime:no-tz')):
        add('xs:date', cls, lex)
    for lex, cls in (('12:00:00', 'datetime:no-tz'), ('00:00:00', 'datetime:no-tz'), ('23:59:59.999', 'datetime:no-tz'),
                     ('12:00:00Z', 'datetime:tz'), ('12:00:00+14:00', 'datetime:tz'), ('12:00:00-14:00', 'datetime:tz'),
                     ('24:00:00', 'datetime:24h'), ('24:00:00Z', 'datetime:24h')):
        add('xs:time', cls, lex)
    for t, vals in (('xs:gYear', ['2000', '-0044', '12000', '2000Z']), ('xs:gYearMonth', ['2000-02', '-0044-03', '12000-01', '2000-02Z']),
                    ('xs:gMonthDay', ['--02-29', '--12-31Z']), ('xs:gDay', ['---31', '---01Z']), ('xs:gMonth', ['--12', '--01Z'])):
        for v in vals:
            add(t, 'datetime:bce' if v.startswith('-0') else 'datetime:year>9999' if v.startswith('12000') else
                'datetime:tz' if v.endswith('Z') else 'datetime:no-tz', v)
    # strings
    for expr, cls in (("''", 'string:empty'), ("'abc'", 'string:plain'), ("'a b'", 'string:plain'), ("' '", 'string:blank'),
                      ("'\U0001D11Ex'", 'string:astral'), ("'\U0001F600'", 'string:astral'), ("'é'", 'string:combining'),
                      ("'%s'" % ('ab ' * 70), 'string:long'), ("'1'", 'string:digits'), ("'-5'", 'string:digits')):
        out.append(('xs:string', cls, expr))
    for t, vals in (('xs:normalizedString', ['', 'a  b']), ('xs:token', ['', 'a b']), ('xs:language', ['en']), ('xs:NMTOKEN', ['1x']),
                    ('xs:Name', ['a:b']), ('xs:NCName', ['n']), ('xs:ID', ['id1']), ('xs:IDREF', ['id1']), ('xs:ENTITY', ['e'])):
        for v in vals:
            add(t, 'string:empty' if v == '' else 'string:plain', v)
    for lex, cls in (('', 'string:empty'), ('abc', 'string:plain'), ('-5', 'string:digits'), ('1.5', 'string:digits'), ('true', 'string:plain'),
                     ('2000-01-01', 'string:plain'), ('\U0001D11E', 'string:astral')):
        add('xs:untypedAtomic', cls, lex)
    for lex in ('', 'http://x/y', 'a b', 'urn:x'):
        add('xs:anyURI', 'string:empty' if lex == '' else 'string:plain', lex)
    for t, vals in (('xs:boolean', ['true', 'false']), ('xs:hexBinary', ['', '0AFF']), ('xs:base64Binary', ['', 'AAAA']), ('xs:QName', ['n', 'p:n'])):
        for v in vals:
            add(t, 'other', v)
    return out


SIG_VALUES = _build_sig_values()
import re as _re
_BIG = _re.compile(r'\d{6,}|E\+?\d{2,}|INF')
_SIG_DEFAULT_ATOM = {   # benign companion argument for the other parameters
    'xs:string': "'abc'", 'xs:integer': '1', 'xs:double': '1e0', 'xs:decimal': '1.5', 'xs:numeric': '1', 'xs:boolean': 'true()',
    'xs:anyAtomicType': "'abc'", 'xs:duration': "xs:duration('P1D')", 'xs:dayTimeDuration': "xs:dayTimeDuration('PT1H')",
    'xs:yearMonthDuration': "xs:yearMonthDuration('P1Y')", 'xs:dateTime': "xs:dateTime('2000-01-01T12:00:00Z')",
    'xs:date': "xs:date('2000-02-29')", 'xs:time': "xs:time('12:00:00')", 'xs:QName': "xs:QName('fn:abs')", 'xs:anyURI': "xs:anyURI('urn:x')",
    'xs:float': "xs:float('1.5')", 'xs:NCName': "xs:NCName('n')", 'xs:language': "xs:language('en')",
}


def default_arg(ast, depth=2):
    """deterministic benign argument expression for a declared parameter type, or None"""
    if ast[0] == 'empty':
        return '()'
    it, occ = ast
    it = rs.strip_paren(it)
    k = it[0]
    if k == 'atomic':
        return _SIG_DEFAULT_ATOM.get(it[1])
    if k == 'item':
        return "'abc'"
    if k in ('node', 'element'):
        if k == 'element' and (it[2] is not None or it[1] not in (None, 'a')):
            return '()' if occ in ('?', '*') else None
        return '/a'
    if k == 'doc':
        return '(/)'
    if k == 'attribute':
        return '/a/@x' if it[1] is None and it[2] is None else ('()' if occ in ('?', '*') else None)
    if k == 'map':
        return 'map { 1 : "a" }' if it[1] is None else None
    if k == 'array':
        return '[1, 2]' if it[1] is None else None
    if k == 'function':
        if it[1] is None:
            return 'abs#1'
        if depth <= 0:
            return None
        body = default_arg(it[2], depth - 1)
        if body is None:
            return None
        if it[2][0] != 'empty' and rs.strip_paren(it[2][0])[0] == 'item' and it[1]:
            body = '$a0'
        return 'function(%s) as %s { %s }' % (', '.join('$a%d as %s' % (i, rs.render(a)) for i, a in enumerate(it[1])),
                                              rs.render(it[2]), body)
    return None


_NODE_KIND_OF = ['document', 'element', 'element', 'element', 'attribute', 'attribute', 'text', 'comment',
                 'processing-instruction', 'namespace']      # kinds of NODES[0..9], passed as $N0..$N9


def sweep_cases(sig, stride=1, mode='full', cfg='default', doc='et'):
    """deterministic cases: every parameter of an atomic, item() or node type receives every value of its classes -
    SIG_VALUES whose type derives from the parameter type, and the ten nodes of the fixed document (every kind, also the
    nameless ones) as $N0..$N9 - alone and, for * / + parameters, inside sequences; the other parameters get a benign
    default; plus the empty sequence for ? / * parameters.
    stride > 1 thins the values of xs:anyAtomicType / item() parameters; mode 'nodes' = node values and () only,
    mode 'thin' = nodes, () and one value per (primitive family, class)."""
    name, arity, params, ret, variadic = sig
    asts = [rs.parse(p) for p in params]
    n = arity
    defaults = []
    for i in range(n):
        a = asts[min(i, len(asts) - 1)]
        if COLLATION_ARG.get((_local(name), arity)) == i:
            defaults.append("'%s'" % CODEPOINT)
            continue
        hint = ARG_HINTS.get((_local(name), i))
        d = hint[0] if hint else default_arg(a)
        defaults.append({'/a': '$N1', '(/)': '$N0', '/a/@x': '$N4'}.get(d, d))
    if any(d is None for d in defaults):
        return
    for i in range(n):
        a = asts[min(i, len(asts) - 1)]
        if a[0] == 'empty' or COLLATION_ARG.get((_local(name), arity)) == i:
            continue
        it, occ = a
        it = rs.strip_paren(it)
        node_idx = []
        ptype = None
        if it[0] == 'atomic':
            ptype = it[1]
        elif it[0] == 'item':
            ptype = 'xs:anyAtomicType'
            node_idx = list(range(10))
        elif it[0] == 'node':
            node_idx = list(range(10))
        elif it[0] == 'element' and it[1] is None and it[2] is None:
            node_idx = [1, 2, 3]
        elif it[0] == 'doc' and it[1] is None:
            node_idx = [0]
        else:
            continue
        cands = []
        if ptype is not None and mode != 'nodes':
            wide = ptype in ('xs:anyAtomicType',)
            cands = [v for v in SIG_VALUES if rs.derives_from(v[0], ptype)]
            if i > 0:
                # magnitudes >= 10^6 / infinities only in the first parameter: as precision or exponent they make
                # elementpath compute 10 ** 10**30 (round-half-to-even(1, -10**30) does not return) - not C18's subject
                cands = [v for v in cands if not (v[1].startswith('numeric:') and _BIG.search(v[2]))]
            if mode == 'thin':
                seen, thin = set(), []
                for v in cands:
                    fam = [x for x in rs.ancestors(v[0]) if rs.BASE.get(x) == 'xs:anyAtomicType'] or [v[0]]
                    if (fam[0], v[1]) not in seen:
                        seen.add((fam[0], v[1]))
                        thin.append(v)
                cands = thin
            elif wide and stride > 1:
                seen, thin = {}, []
                for v in cands:
                    k = seen.get((v[0], v[1]), 0)
                    if k % stride == 0:
                        thin.append(v)
                    seen[v[0], v[1]] = k + 1
                cands = thin

        def mk(expr, cls, shape):
            args = [['X', d] for d in defaults]
            args[i] = ['X', expr]
            c = {'fn': name, 'arity': arity, 'args': args, 'doc': doc, 'ctx': 1, 'cls': cls, 'pos': i, 'shape': shape}
            if cfg != 'default':
                c['cfg'] = cfg
            return c
        if occ in ('?', '*'):
            yield mk('()', 'seq:empty', 'empty')
        for j in node_idx:
            yield mk('$N%d' % j, 'node:' + _NODE_KIND_OF[j], 'single')
        if node_idx and occ in ('*', '+'):
            yield mk('(%s)' % ', '.join('$N%d' % j for j in node_idx), 'node:all-kinds', 'long')
        for t, cls, expr in cands:
            yield mk(expr, cls, 'single')
        if occ in ('*', '+') and mode == 'full':
            by_type = {}
            for t, cls, expr in cands:
                by_type.setdefault(t, []).append((cls, expr))
            for t, lst in by_type.items():
                exprs = [e for _, e in lst]
                long_ = (exprs * 12)[:12]
                yield mk('(%s)' % ', '.join(long_), 'seq:long', 'long')
                for cls in sorted({c for c, _ in lst}):
                    sel = [e for c, e in lst if c == cls][:3]
                    yield mk('(%s)' % ', '.join(sel + sel), cls, 'seq')


def hint_cases(sig, doc='et'):
    """one call per ARG_HINTS entry of the signature (other parameters: first hint / default), context item = each
    element of the document in turn"""
    name, arity, params, ret, variadic = sig
    asts = [rs.parse(p) for p in params]
    defaults = []
    for i in range(arity):
        a = asts[min(i, len(asts) - 1)]
        if COLLATION_ARG.get((_local(name), arity)) == i:
            defaults.append("'%s'" % CODEPOINT)
            continue
        hint = ARG_HINTS.get((_local(name), i))
        d = hint[0] if hint else default_arg(a)
        defaults.append({'/a': '$N1', '(/)': '$N0', '/a/@x': '$N4'}.get(d, d))
    if any(d is None for d in defaults):
        return
    for i in range(arity):
        for h in ARG_HINTS.get((_local(name), i), []):
            for el in ([1, 2, 3] if any('$N1' == d for d in defaults) else [1]):
                args = [['X', d.replace('$N1', '$N%d' % el) if d == '$N1' else d] for d in defaults]
                args[i] = ['X', h]
                yield {'fn': name, 'arity': arity, 'args': args, 'doc': doc, 'ctx': el, 'cls': 'hint', 'pos': i,
                       'shape': 'single'}


# parser configurations under which the declared return types must hold as well
CONFIGS = {
    'default': ('31', {}),
    'compat31': ('31', {'compatibility_mode': True}),
    'compat30': ('30', {'compatibility_mode': True}),
    'compat20': ('20', {'compatibility_mode': True}),
    'xsd11': ('31', {'xsd_version': '1.1'}),
    'nonstrict': ('31', {'strict': False}),
    'defns': ('31', {'default_namespace': 'urn:d'}),
}
ALT_CONFIGS = [c for c in CONFIGS if c != 'default']


def cfg_env(cfg='default'):
    """(parser built with the configuration, node tree root of the ElementTree document, its ten nodes)"""
    if cfg == 'default':
        return env('et', '1.0')
    key = ('cfg', cfg)
    if key not in _state:
        from elementpath import XPath2Parser
        from elementpath.xpath30 import XPath30Parser
        from elementpath.xpath31 import XPath31Parser
        ver, opts = CONFIGS[cfg]
        cls = {'20': XPath2Parser, '30': XPath30Parser, '31': XPath31Parser}[ver]
        _, root, nodes = env('et', '1.0')
        _state[key] = (cls(namespaces=dict(NS), default_collation=CODEPOINT, **opts), root, nodes)
    return _state[key]


def signatures(cfg='default'):
    """[(prefixed name, arity, [param type strings], return type string, variadic)] of the parser class of `cfg`"""
    out = []
    for (qn, arity), sig in type(cfg_env(cfg)[0]).function_signatures.items():
        if qn.qname.startswith('math:') and 'math' not in cfg_env(cfg)[0].namespaces:
            continue
        variadic = ', ...)' in sig
        body = sig.replace(', ...)', ')')
        ast = rs.parse(body)
        it = ast[0]
        out.append((qn.qname, arity, [rs.render(a) for a in it[1]], rs.render(it[2]), variadic))
    out.sort()
    return out


def _local(name):
    return name[3:] if name.startswith('fn:') else name


def sig_excluded(name) -> bool:
    return _local(name) in EXCLUDED_FUNCTIONS


@st.composite
def inhabit(draw, ast, depth=2, strings=False):
    """a JSON value matching the sequence type `ast` by construction"""
    if ast[0] == 'empty':
        return ['S', []]
    it, occ = ast
    if occ == '':
        n = 1
    elif occ == '?':
        n = draw(st.integers(0, 1))
    elif occ == '+':
        n = draw(st.sampled_from([1, 1, 2, 3]))
    else:
        n = draw(st.sampled_from([0, 1, 2, 3]))
    items = [draw(inhabit_item(it, depth, strings)) for _ in range(n)]
    items = [x for x in items if x is not None]
    if len(items) != n:
        return None
    if n == 1:
        return items[0]
    return ['S', items]


@st.composite
def inhabit_item(draw, it, depth=2, strings=False):
    it = rs.strip_paren(it)
    k = it[0]
    if k == 'item':
        c = draw(st.integers(0, 9))
        if c < 5 or depth <= 0:
            return draw(st.sampled_from(ATOMS_10 + STRING_ATOMS))
        if c < 7:
            return draw(node_value)
        if c == 7:
            return draw(map_value())
        if c == 8:
            return draw(array_value())
        return ['FN', draw(st.sampled_from(FN_NAMES))]
    if k == 'atomic':
        pool = [a for a in ATOMS_10 if rs.derives_from(a[1], it[1])]
        if it[1] in ('xs:string', 'xs:anyAtomicType'):
            pool = pool + STRING_ATOMS * (3 if it[1] == 'xs:string' else 1)
        if not pool:
            return None
        return draw(st.sampled_from(pool))
    if k == 'node':
        return draw(node_value)
    if k == 'element':
        if it[2] is not None:
            return None
        idx = [i for i in ELEMENT_IDX if it[1] is None or rs.expand(it[1], SIG_NS) == NODES[i][1][2]]
        return ['N', draw(st.sampled_from(idx))] if idx else None
    if k == 'attribute':
        return ['N', draw(st.sampled_from(ATTR_IDX))] if it[1] is None and it[2] is None else None
    if k == 'doc':
        return ['N', 0]
    if k in ('text', 'comment', 'pi', 'nsnode'):
        return ['N', {'text': 6, 'comment': 7, 'pi': 8, 'nsnode': 9}[k]]
    if k == 'map':
        if it[1] is None:
            return draw(map_value())
        return None
    if k == 'array':
        if it[1] is None:
            return draw(array_value())
        return None
    if k == 'function':
        if it[1] is None:
            return draw(st.one_of(st.sampled_from(FN_NAMES).map(lambda n: ['FN', n]), map_value(), array_value()))
        # inline function with exactly the declared signature; body: a constant of the return type or a parameter
        params = [rs.render(a) for a in it[1]]
        cands = ['$a%d' % i for i, a in enumerate(it[1]) if rs.subtype(a, it[2])]
        body = None
        if cands and draw(st.booleans()):
            body = draw(st.sampled_from(cands))
        else:
            bv = draw(inhabit(it[2], depth - 1)) if depth > 0 else None
            if bv is None:
                if not cands:
                    return None
                body = cands[0]
            else:
                body = render_value(bv)
        return ['F', params, rs.render(it[2]), body]
    return None


@st.composite
def signature_case(draw, sig):
    name, arity, params, ret, variadic = sig
    n = arity if not variadic else draw(st.integers(arity, arity + 2))
    args = []
    for i in range(n):
        ptype = params[min(i, len(params) - 1)]
        if COLLATION_ARG.get((_local(name), arity)) == i:
            args.append(['X', "'%s'" % CODEPOINT] if not ptype.endswith('?') or draw(st.booleans()) else ['S', []])
            continue
        hint = ARG_HINTS.get((_local(name), i))
        if hint and draw(st.integers(0, 3)) > 0:
            args.append(['X', draw(st.sampled_from(hint))])
            continue
        v = draw(inhabit(rs.parse(ptype)))
        if v is None:
            return None
        args.append(v)
    return {'fn': name, 'arity': arity, 'args': args, 'doc': draw(st.sampled_from(['et', 'lx'])),
            'ctx': draw(st.sampled_from([None, 1, 2, 4, 6]))}


def _render_arg(a):
    return a[1] if a[0] == 'X' else render_value(a)


_PY_TYPES = {
    'bool': 'xs:boolean', 'int': 'xs:integer', 'float': 'xs:double', 'Decimal': 'xs:decimal', 'str': 'xs:string',
    'Integer': 'xs:integer', 'NonPositiveInteger': 'xs:nonPositiveInteger', 'NegativeInteger': 'xs:negativeInteger',
    'Long': 'xs:long', 'Int': 'xs:int', 'Short': 'xs:short', 'Byte': 'xs:byte',
    'NonNegativeInteger': 'xs:nonNegativeInteger', 'PositiveInteger': 'xs:positiveInteger',
    'UnsignedLong': 'xs:unsignedLong', 'UnsignedInt': 'xs:unsignedInt', 'UnsignedShort': 'xs:unsignedShort',
    'UnsignedByte': 'xs:unsignedByte', 'Float': 'xs:float', 'Float10': 'xs:float', 'UntypedAtomic': 'xs:untypedAtomic',
    'QName': 'xs:QName', 'Notation': 'xs:NOTATION', 'NormalizedString': 'xs:normalizedString', 'XsdToken': 'xs:token',
    'Language': 'xs:language', 'Name': 'xs:Name', 'NCName': 'xs:NCName', 'Id': 'xs:ID', 'Idref': 'xs:IDREF',
    'Entity': 'xs:ENTITY', 'NMToken': 'xs:NMTOKEN', 'AnyURI': 'xs:anyURI', 'Base64Binary': 'xs:base64Binary',
    'HexBinary': 'xs:hexBinary', 'DateTime': 'xs:dateTime', 'DateTime10': 'xs:dateTime',
    'DateTimeStamp': 'xs:dateTimeStamp', 'Date': 'xs:date', 'Date10': 'xs:date', 'Time': 'xs:time',
    'GregorianDay': 'xs:gDay', 'GregorianMonth': 'xs:gMonth', 'GregorianMonthDay': 'xs:gMonthDay',
    'GregorianYear': 'xs:gYear', 'GregorianYear10': 'xs:gYear', 'GregorianYearMonth': 'xs:gYearMonth',
    'GregorianYearMonth10': 'xs:gYearMonth', 'Duration': 'xs:duration', 'YearMonthDuration': 'xs:yearMonthDuration',
    'DayTimeDuration': 'xs:dayTimeDuration',
}
_NODE_KINDS = {'DocumentNode': 'document', 'ElementNode': 'element', 'AttributeNode': 'attribute', 'TextNode': 'text',
               'CommentNode': 'comment', 'ProcessingInstructionNode': 'processing-instruction', 'NamespaceNode': 'namespace'}


def describe_result(x, depth=0):
    """python result item of elementpath -> described item (reads classes only through literal tables)"""
    from elementpath.xpath_nodes import XPathNode
    from elementpath.xpath_tokens import XPathFunction, XPathMap, XPathArray
    if isinstance(x, XPathNode):
        kind = None
        for cls in type(x).__mro__:
            if cls.__name__ in _NODE_KINDS:
                kind = _NODE_KINDS[cls.__name__]
                break
        if kind is None:
            raise HarnessError(f'unknown node class {type(x).__name__}')
        name = getattr(x, 'name', None)
        annot = {'element': 'xs:untyped', 'attribute': 'xs:untypedAtomic'}.get(kind)
        children = None
        if kind == 'document':
            children = [describe_result(c, depth + 1) for c in x.children]
        return ('node', kind, name, annot, False, children)
    if isinstance(x, XPathMap):
        return ('map', [(describe_result(k, depth + 1), describe_result_seq(v, depth + 1)) for k, v in x.items()])
    if isinstance(x, XPathArray):
        return ('array', [describe_result_seq(m, depth + 1) for m in x.items()])
    if isinstance(x, XPathFunction):
        sts = list(x.sequence_types)
        try:
            if sts and len(sts) >= x.arity + 1:
                return ('func', [rs.parse(s) for s in sts[:x.arity]], rs.parse(sts[-1]))
        except rs.SeqTypeError:
            pass
        return ('func', [[['item'], '*']] * x.arity, [['item'], '*'])
    name = type(x).__name__
    if x is None:
        return ('pynone',)
    if name not in _PY_TYPES:
        raise HarnessError(f'no XSD type known for python class {type(x).__module__}.{name}')
    return ('atom', _PY_TYPES[name])


def describe_result_seq(v, depth=0):
    if v is None:       # elementpath's evaluate() spells the empty sequence [] or None
        return []
    if isinstance(v, (list, tuple)):
        return [describe_result(x, depth) for x in v]
    return [describe_result(v, depth)]


def declared_return_type(name, arity, cfg='default') -> str:
    """the return type registered in elementpath for name#arity, read at judge time (a replayed case must be
    judged against the declaration of the tree under test)"""
    if ('sigs', cfg) not in _state:
        _state['sigs', cfg] = {(s[0], s[1]): s[3] for s in signatures(cfg)}
    return _state['sigs', cfg][name, arity]


def _type_mismatch(res, declared):
    """bucket suffix when the described result does not match the declared return type, else None"""
    if "('pynone',)" in repr(res):
        return 'returns-python-None-as-item'
    if not rs.matches(res, rs.parse(declared), SIG_NS):
        rc = value_class(res)
        if len(res) == 1 and res[0][0] == 'atom':
            rc = res[0][1]
        elif res and all(x[0] == 'atom' for x in res):
            bad = [x[1] for x in res if not rs.matches([x], [rs.parse(declared)[0], ''], SIG_NS)] \
                if rs.parse(declared)[0] != 'empty' else []
            rc = 'seq-with-' + (bad[0] if bad else 'wrong-cardinality')
        return f'returns-{rc}'
    return None


def judge_signature(case, rec: Recorder | None = None) -> list[Disc]:
    discs: list[Disc] = []
    cfg = case.get('cfg', 'default')
    if cfg == 'default':
        parser, root, nodes = env(case['doc'], '1.0')
    else:
        parser, root, nodes = cfg_env(cfg)
    name, arity = case['fn'], case['arity']
    argx = [_render_arg(a) for a in case['args']]
    expr = '%s(%s)' % (name, ', '.join(argx))
    item = nodes[case['ctx']] if case.get('ctx') is not None else None
    nvars = {'N%d' % i: x for i, x in enumerate(nodes)}
    got = ep_eval(parser, expr, root, item, nvars)
    tag = f'{name}#{arity}' + ('' if cfg == 'default' else f'[{cfg}]')
    classes = ['sig:call'] + ([] if cfg == 'default' else ['sig:cfg:' + cfg])
    declared = declared_return_type(name, arity, cfg)
    if got[0] == 'esc':
        classes.append('sig:escape')      # not a successful call; escaping exceptions belong to C03
    elif got[0] == 'err':
        classes.append('sig:error')
    else:
        classes.append('sig:success')
        res = describe_result_seq(got[1])
        k = _type_mismatch(res, declared)
        if k:
            discs.append(Disc(f'C18/signature/{tag}/{k}', declared, repr(got[1])[:200], expr))
        # the same call through the function item and through the arrow operator: there elementpath itself checks
        # the result against the registered signature; a direct success must not turn into an error
        routes = []
        if parser.version >= '3.0':
            routes.append(('item-call', '%s#%d(%s)' % (name, len(argx), ', '.join(argx))))
        if argx and parser.version >= '3.1':
            routes.append(('arrow-call', '(%s) => %s(%s)' % (argx[0], name, ', '.join(argx[1:]))))
        for rname, rexpr in routes:
            g2 = ep_eval(parser, rexpr, root, item, nvars)
            classes.append(f'sig:{rname}')
            if g2[0] == 'ok':
                res2 = describe_result_seq(g2[1])
                k2 = _type_mismatch(res2, declared)
                if k2 and k2 != k:
                    discs.append(Disc(f'C18/signature/{tag}/{rname}-{k2}', declared, repr(g2[1])[:200], rexpr))
                elif not k2 and not k and [x[:2] for x in res2] != [x[:2] for x in res]:
                    discs.append(Disc(f'C18/signature/{tag}/{rname}-differs-from-direct-call', repr(got[1])[:120],
                                      repr(g2[1])[:120], rexpr))
            elif g2[0] == 'err':
                discs.append(Disc(f'C18/signature/{tag}/{rname}-error:{g2[1]}', repr(got[1])[:120], repr(g2[2])[:200], rexpr))
            else:
                discs.append(Disc(f'C18/signature/{tag}/{rname}-escape:{type(g2[1]).__name__}', repr(got[1])[:120],
                                  repr(g2[1])[:200], rexpr))
    if rec is not None:
        cls = case.get('cls')
        if cls:
            classes.append(f'sweep:{cls}:call')
            if got[0] == 'ok':
                classes.append(f'sweep:{cls}:success')
            cells = rec.extra.setdefault('_sweep', {})
            key = f"{name}#{arity}|{case['pos']}|{cls}"
            c = cells.setdefault(key, [0, 0])
            c[0] += 1
            c[1] += got[0] == 'ok'
        rec.case([name, arity, case['args'], case['ctx']], nontrivial=got[0] == 'ok', classes=classes,
                 sample={'check': 'signature', 'call': expr, 'declared': declared})
        if got[0] == 'ok' and cfg == 'default':
            ok = rec.extra.setdefault('_sig_ok', {})
            ok[tag] = ok.get(tag, 0) + 1
    return discs


# --------------------------------------------------------------------------
# module interface
# --------------------------------------------------------------------------

def _ints(*xs):
    return [['A', 'xs:integer', str(x)] for x in xs]


_I = lambda x: ['A', 'xs:integer', str(x)]      # noqa: E731
GRID_VALUES = [
    ['R', [_I(1)]], ['R', [['S', _ints(1, 2)]]], ['R', [_I(1), ['S', []]]], ['R', [['R', _ints(1, 2)]]],
    ['R', [_I(1), ['R', [_I(2), ['S', _ints(3, 4)]]]]], ['R', []], ['R', [['S', []]]], ['R', [_I(1), ['A', 'xs:string', "'a'"]]],
    ['R', [['S', [_I(1), ['A', 'xs:string', "'a'"]]]]], ['R', [['R', [['R', _ints(1)]]]]], ['R', _ints(1, 2, 3)],
    ['M', [[_I(1), _I(2)]]], ['M', [[_I(1), ['S', _ints(2, 3)]]]], ['M', [[_I(1), ['S', []]]]], ['M', [[_I(1), ['R', _ints(2, 3)]]]],
    ['M', [[_I(1), _I(2)], [['A', 'xs:string', "'a'"], ['S', _ints(2, 3)]]]], ['M', []],
]
GRID_TYPES = [
    'function(xs:integer) as xs:integer', 'function(xs:integer) as xs:integer?', 'function(xs:integer) as xs:integer*',
    'function(xs:integer) as xs:integer+', 'function(xs:integer) as array(xs:integer)', 'function(xs:integer) as array(*)',
    'function(xs:integer) as array(xs:integer*)', 'function(xs:integer) as item()*', 'function(xs:integer) as item()',
    'function(xs:integer) as item()+', 'function(xs:integer) as empty-sequence()', 'function(xs:integer) as xs:anyAtomicType*',
    'function(xs:anyAtomicType) as xs:integer', 'function(xs:anyAtomicType) as xs:integer*', 'function(xs:anyAtomicType) as xs:integer?',
    'function(xs:anyAtomicType) as array(xs:integer)', 'function(xs:anyAtomicType) as array(xs:integer)?',
    'function(xs:anyAtomicType) as item()*', 'function(xs:anyAtomicType) as empty-sequence()', 'function(xs:int) as xs:integer*',
    'array(xs:integer)', 'array(xs:integer*)', 'array(array(xs:integer))', 'array(item())', 'array(array(*))',
    'map(xs:integer, xs:integer)', 'map(xs:integer, xs:integer*)', 'map(xs:anyAtomicType, array(xs:integer))',
]


def grid_cases():
    for v in GRID_VALUES:
        for route in ('var', 'inline'):
            yield {'doc': 'et', 'xsd': '1.0', 'ctx': None, 'v': v, 'ts': list(GRID_TYPES), 'route': route}
    yield from kind_grid_cases()


# kind tests WITH an occurrence indicator nested as array member type, map value type, function-test parameter type
# and function-test return type; values whose cardinality matters (members of 0, 1, 2 nodes of the kind; inline
# functions declared with the singleton / the occurrence form)
KIND_GRID = [     # (kind test text, node indices of that kind in the fixed document, a node of another kind)
    ('attribute()', [4, 5], 1), ('attribute(*)', [4, 5], 1), ('attribute(x)', [4, 4], 5), ('element()', [1, 2], 4),
    ('element(*)', [2, 3], 6), ('element(b)', [2, 2], 1), ('node()', [1, 6], None), ('text()', [6, 6], 7),
    ('comment()', [7, 7], 6), ('processing-instruction()', [8, 8], 7), ('processing-instruction(tgt)', [8, 8], 7),
    ('document-node()', [0, 0], 1), ('document-node(element(a))', [0, 0], 1), ('namespace-node()', [9, 9], 1), ('item()', [1, 4], None),
]


def kind_grid_cases():
    key = ['A', 'xs:string', "'k'"]
    for kt, idx, other in KIND_GRID:
        two = ['S', [['N', idx[0]], ['N', idx[1]]]]
        members = [['N', idx[0]], two, ['S', []]] + ([['N', other], ['S', [['N', idx[0]], ['N', other]]]] if other is not None else [])
        occs = ['', '?', '*', '+']
        arr_ts = ['array(%s%s)' % (kt, o) for o in occs]
        map_ts = ['map(xs:string, %s%s)' % (kt, o) for o in occs]
        fun_ts = ['function(%s%s) as xs:integer' % (kt, o) for o in occs] + ['function() as %s%s' % (kt, o) for o in occs] + \
                 ['function(xs:integer, %s%s) as %s%s' % (kt, o, kt, o2) for o, o2 in (('*', '+'), ('+', '*'), ('?', ''))]
        for i, m in enumerate(members):
            route = 'var' if i % 2 == 0 else 'inline'
            yield {'doc': 'et', 'xsd': '1.0', 'ctx': None, 'v': ['R', [m]], 'ts': arr_ts, 'route': route}
            yield {'doc': 'lx', 'xsd': '1.0', 'ctx': None, 'v': ['R', [m, ['N', idx[0]]]], 'ts': arr_ts, 'route': route}
            yield {'doc': 'et', 'xsd': '1.0', 'ctx': None, 'v': ['M', [[key, m]]], 'ts': map_ts, 'route': route}
        for o in occs:
            for f in (['F', [kt + o], 'xs:integer', '1'], ['F', [], kt + o], ['F', ['xs:integer', kt + o], kt + o]):
                yield {'doc': 'et', 'xsd': '1.0', 'ctx': None, 'v': f, 'ts': fun_ts, 'route': 'var'}


# --------------------------------------------------------------------------
# judgements on a function item after other items were derived from it
# --------------------------------------------------------------------------
DERIVE_BASES = {     # expression -> (parameter types, return type), F&O 3.1 / declared
    'substring#3': (['xs:string?', 'xs:double', 'xs:double'], 'xs:string'),
    'substring#2': (['xs:string?', 'xs:double'], 'xs:string'),
    'contains#2': (['xs:string?', 'xs:string?'], 'xs:boolean'),
    'string-join#2': (['xs:anyAtomicType*', 'xs:string'], 'xs:string'),
    'subsequence#3': (['item()*', 'xs:double', 'xs:double'], 'item()*'),
    'math:pow#2': (['xs:double?', 'xs:numeric'], 'xs:double?'),
    'map:put#3': (['map(*)', 'xs:anyAtomicType', 'item()*'], 'map(*)'),
    'abs#1': (['xs:numeric?'], 'xs:numeric?'),
    'function($x as xs:integer, $y as xs:string, $z as item()*) as xs:integer { $x }':
        (['xs:integer', 'xs:string', 'item()*'], 'xs:integer'),
    'function($x as xs:string?, $y as xs:double) as xs:string { substring($x, $y) }': (['xs:string?', 'xs:double'], 'xs:string'),
    'function($a, $b, $c, $d) { $a }': (['item()*'] * 4, 'item()*'),
    'function($n as node()?, $f as function(item()) as item()*) as item()* { $f($n) }':
        (['node()?', 'function(item()) as item()*'], 'item()*'),
}
DERIVE_BASE_NAMES = list(DERIVE_BASES)


@st.composite
def derive_case(draw):
    """base function item -> (optional) first partial application = $g -> one or two further items derived from $g by
    partial application (at least one argument fixed whenever $g has two or more parameters) -> judge $g again"""
    base = draw(st.sampled_from(DERIVE_BASE_NAMES))
    params, ret = DERIVE_BASES[base]
    n = len(params)
    if n >= 2 and draw(st.integers(0, 3)) > 0:
        p1 = draw(st.lists(st.booleans(), min_size=n, max_size=n))
        if sum(p1) < 1:
            p1[draw(st.integers(0, n - 1))] = True
        if sum(p1) < 2 and draw(st.booleans()):
            p1[(p1.index(True) + 1) % n] = True
    else:
        p1 = None                               # $g is the base item itself
    g_params = [p for p, k in zip(params, p1) if k] if p1 else list(params)
    m = len(g_params)
    steps = []
    for _ in range(draw(st.integers(1, 2))):
        mask = draw(st.lists(st.booleans(), min_size=m, max_size=m))
        if m >= 2 and (all(mask) or not any(mask)):
            mask = [i == 0 for i in range(m)] if draw(st.booleans()) else [i != 0 for i in range(m)]
        if m == 1:
            mask = [True]
        steps.append(mask)
    sig = ['function', [rs.parse(t) for t in g_params], rs.parse(ret)]
    ts = [rs.render([sig, ''])]
    for _ in range(draw(st.integers(2, 4))):
        ts.append(rs.render(sanitize([draw(mutate_item_type(sig)), ''])))
    ts += ['function(*)', 'function(%s) as item()*' % ', '.join(['item()*'] * max(m - 1, 0))]
    return {'base': base, 'via': draw(st.sampled_from(['direct', 'var'])), 'p1': p1, 'steps': steps, 'ts': ts}


def _papply(fexpr, params, mask):
    """partial application text: placeholders where mask is True, a benign argument of the parameter type elsewhere"""
    args = []
    for p, keep in zip(params, mask):
        if keep:
            args.append('?')
        else:
            d = default_arg(rs.parse(p))
            args.append({'/a': '/a', '(/)': '(/)'}.get(d, d) if d is not None else '()')
    return '%s(%s)' % (fexpr, ', '.join(args))


def judge_derive(case, rec: Recorder | None = None) -> list[Disc]:
    discs: list[Disc] = []
    parser, root, nodes = env('et', '1.0')
    base = case['base']
    params, ret = DERIVE_BASES[base]
    fexpr = base if base[0] != 'f' or not base.startswith('function(') else '(%s)' % base
    lets = []
    if case['via'] == 'var':
        lets.append(f'$f := {base}')
        fexpr = '$f'
    if case['p1']:
        lets.append('$g := ' + _papply(fexpr, params, case['p1']))
        g_params = [p for p, k in zip(params, case['p1']) if k]
    else:
        lets.append(f'$g := {fexpr if case["via"] == "var" else base}')
        g_params = list(params)
    ts = case['ts']
    judged = ', '.join(f'$g instance of {t}' for t in ts)
    prefix = 'let ' + ', '.join(lets)
    fresh = ep_eval(parser, f'{prefix} return ({judged}, function-arity($g))', root)
    # every step derives a new item from the ORIGINAL $g (partial application with the step's placeholder mask)
    dlets = [f'$h{i} := ' + _papply('$g', g_params, mask) for i, mask in enumerate(case['steps'])
             if len(mask) == len(g_params)]
    n_h = sum(case['steps'][0]) if case['steps'] and len(case['steps'][0]) == len(g_params) else None
    full = (f'{prefix}, $before := ({judged}, function-arity($g)), ' + ', '.join(dlets) +
            f' return ($before, {judged}, function-arity($g), function-arity($h0))')
    after = ep_eval(parser, full, root)
    kind_f = ('partial-of-' if case['p1'] else '') + ('inline' if base.startswith('function(') else 'named')
    k = len(ts) + 1
    nt = False
    if fresh[0] != 'ok' or after[0] != 'ok':
        if fresh[0] == 'ok' or after[0] == 'ok' or _slug(fresh) != _slug(after):
            bad = after if after[0] != 'ok' else fresh
            discs.append(Disc(f'C18/derive/{kind_f}/' + ('error-only-with-derivation:' if fresh[0] == 'ok' else 'error:') + _slug(bad),
                              _show(fresh), _show(after), full))
    else:
        fr, af = list(fresh[1]), list(after[1])
        nt = True
        if len(fr) != k or len(af) != 2 * k + 1:
            discs.append(Disc(f'C18/derive/{kind_f}/result-shape', k, (len(fr), len(af)), full))
        else:
            before, again, ar_h = af[:k], af[k:2 * k], af[2 * k]
            if before != fr:
                discs.append(Disc(f'C18/derive/{kind_f}/judgement-differs-from-fresh-evaluation', fr, before, full))
            if again[:-1] != before[:-1]:
                j = next(i for i in range(k - 1) if again[i] != before[i])
                discs.append(Disc(f'C18/derive/{kind_f}/instance-of-changed-after-derivation', before[j], again[j],
                                  f'$g instance of {ts[j]}  in  {full}'))
            if again[-1] != before[-1] or before[-1] != len(g_params):
                discs.append(Disc(f'C18/derive/{kind_f}/arity-changed-after-derivation' if again[-1] != before[-1] else
                                  f'C18/derive/{kind_f}/arity', len(g_params), (before[-1], again[-1]), full))
            if n_h is not None and ar_h != n_h:
                discs.append(Disc(f'C18/derive/{kind_f}/arity-of-derived-item', n_h, ar_h, full))
            # treat as on the original item: same outcome as the instance-of verdict taken before the derivation
            t0 = ts[0]
            tr = ep_eval(parser, f'{prefix}, ' + ', '.join(dlets) + f' return count($g treat as {t0})', root)
            tr0 = ep_eval(parser, f'{prefix} return count($g treat as {t0})', root)
            if (tr[0] == 'ok') != (tr0[0] == 'ok') or (tr[0] == 'ok' and tr[1] != tr0[1]):
                discs.append(Disc(f'C18/derive/{kind_f}/treat-as-changed-after-derivation', _show(tr0), _show(tr),
                                  f'$g treat as {t0}  after  {", ".join(dlets)}'))
    if rec is not None:
        rec.case([case['base'], case['via'], case['p1'], case['steps'], ts], nontrivial=nt,
                 classes=['derive', 'derive:' + kind_f] + (['derive:evaluated'] if nt else []) +
                 (['derive:fixes-an-argument'] if any(not all(m) for m in case['steps']) else []),
                 sample={'check': 'derive', 'expr': full}, n=3)
    return discs


def selftest():
    rs.self_test()
    # generator / renderer / describer coherence on literal values
    v = ['S', [['A', 'xs:int', "xs:int('3')"], ['N', 2]]]
    assert render_value(v) == "(xs:int('3'), /a/b[1])"
    assert describe(v) == [('atom', 'xs:int'), _EL_B]
    assert rs.matches(describe(['M', [[MAP_KEYS[0], ['A', 'xs:string', "'x'"]]]]), rs.parse('map(xs:decimal, xs:string)'))
    assert rs.matches(describe(['FN', 'abs#1']), rs.parse('function(xs:integer) as xs:numeric?'))
    assert not rs.matches(describe(['F', ['xs:integer'], 'xs:integer']), rs.parse('function(xs:decimal) as xs:integer'))
    assert type_class(rs.parse('element(a, xs:untyped?)*')) == 'element(N,xs:untyped?)*'
    for t in POOL_TYPES:
        rs.check_static(rs.parse(t))
    p = _pool()
    assert witness(rs.parse('xs:integer'), rs.parse('xs:integer?')) == []
    assert witness(rs.parse('xs:integer?'), rs.parse('xs:integer')) is None
    assert len(p['vals']) > 150


def jobs(tier, seed):
    q = tier == 'quick'
    out = []
    nj, per = (7, 1800) if q else (10, 18000)
    for i in range(nj):
        out.append({'check': 'judge', 'shard': i, 'n': per, 'seed': derive_seed(seed, 'C18', 'judge', i)})
    out.append({'check': 'subtype-pool', 'rows': list(range(len(POOL_TYPES)))})
    out.append({'check': 'schema', 'shard': 0, 'n': 700 if q else 12000, 'seed': derive_seed(seed, 'C18', 'schema', 0)})
    out.append({'check': 'derive', 'shard': 0, 'n': 1500 if q else 20000, 'grid': True, 'seed': derive_seed(seed, 'C18', 'derive', 0)})
    ng, perg = (2, 3000) if q else (2, 40000)
    for i in range(ng):
        out.append({'check': 'subtype-gen', 'shard': i, 'n': perg, 'seed': derive_seed(seed, 'C18', 'subtype-gen', i)})
    ks, pers = (4, 40) if q else (2, 400)
    for i in range(ks):
        out.append({'check': 'signature', 'shard': i, 'of': ks, 'n': pers, 'stride': 4 if q else 1, 'cfg_all': not q,
                    'seed': derive_seed(seed, 'C18', 'signature', i)})
    return out


_STRATS = {'derive': derive_case(), 'judge': judge_case(), 'subtype-gen': subtype_gen_case(), 'schema': schema_case()}
_JUDGES = {'derive': judge_derive, 'judge': judge_judgement, 'schema': judge_judgement, 'subtype-gen': judge_subtype_gen, 'subtype-pool': judge_subtype_pool,
           'signature': judge_signature}


def _sig_jobs(job):
    sigs = signatures()
    return [s for i, s in enumerate(sigs) if i % job['of'] == job['shard']]


def _judge_sig_opt(case, rec=None):
    return [] if case is None else judge_signature(case, rec)


def run_job(job, rec: Recorder):
    chk = job['check']
    if chk == 'subtype-pool':
        case = {'rows': job['rows']}
        rec.discs_of(chk, case, judge_subtype_pool(case, rec))
        return
    if chk == 'signature':
        signal.signal(signal.SIGALRM, lambda *a: (_ for _ in ()).throw(HarnessError('signature shard hung (lock?)')))
        signal.alarm(1500)
        total = excluded = uninhabitable = 0
        for sig in _sig_jobs(job):
            total += 1
            tag = f'{sig[0]}#{sig[1]}'
            if sig_excluded(sig[0]):
                excluded += 1
                continue
            strat = signature_case(sig)
            before = rec.evaluations

            def body(case):
                if case is None:
                    return
                rec.discs_of(chk, case, judge_signature(case, rec))
            hyp_collect(strat, body, job['n'], derive_seed(job['seed'], tag), rec)
            for case in sweep_cases(sig, job.get('stride', 1)):
                rec.discs_of(chk, case, judge_signature(case, rec))
            if rec.evaluations == before:
                uninhabitable += 1
                rec.notes.append(f'signature {tag}: parameter types not inhabitable by the generator')
        # node arguments taken from documents with default-namespace declarations, on both tree backends
        for doc in ('lxd', 'etd'):
            for sig in _sig_jobs(job):
                if not sig_excluded(sig[0]):
                    for case in sweep_cases(sig, 1, 'nodes', 'default', doc):
                        rec.discs_of(chk, case, judge_signature(case, rec))
                    for case in hint_cases(sig, doc):
                        rec.discs_of(chk, case, judge_signature(case, rec))
        # the same declarations under the other parser configurations: node arguments of every kind for every
        # signature, and (one configuration per signature in turn; all of them in the thorough tier) one value per
        # (primitive family, class) for the atomic parameters
        for ci, cfg in enumerate(ALT_CONFIGS):
            csigs = [x for i, x in enumerate(signatures(cfg)) if i % job['of'] == job['shard'] and not sig_excluded(x[0])]
            for k, sig in enumerate(csigs):
                mode = 'thin' if job.get('cfg_all') or k % len(ALT_CONFIGS) == ci else 'nodes'
                for case in sweep_cases(sig, 1, mode, cfg):
                    rec.discs_of(chk, case, judge_signature(case, rec))
        signal.alarm(0)
        ok = rec.extra.pop('_sig_ok', {})
        cells = rec.extra.pop('_sweep', {})
        rec.extra['sweep_cells'] = len(cells)                       # (signature, parameter, argument class)
        rec.extra['sweep_cells_with_successful_call'] = sum(1 for c in cells.values() if c[1])
        rec.extra['sweep_cells_with_3_successful_calls'] = sum(1 for c in cells.values() if c[1] >= 3)
        dead = sorted(k for k, c in cells.items() if not c[1])
        if dead:
            rec.notes.append('sweep cells without a successful call (every value of the class is rejected): ' + ' '.join(dead)[:3000])
        rec.extra['signatures_total'] = total
        rec.extra['signatures_excluded_external'] = excluded
        rec.extra['signatures_uninhabitable'] = uninhabitable
        rec.extra['signatures_with_successful_call'] = len(ok)
        never = [f'{s[0]}#{s[1]}' for s in _sig_jobs(job) if not sig_excluded(s[0]) and f'{s[0]}#{s[1]}' not in ok]
        if never:
            rec.notes.append('no successful call: ' + ' '.join(never))
        return
    if job.get('grid'):
        for case in grid_cases():
            rec.discs_of('judge', case, judge_judgement(case, rec))
    jd = _JUDGES[chk]
    hyp_collect(_STRATS[chk], lambda case: rec.discs_of(chk, case, jd(case, rec)), job['n'], job['seed'], rec)


def shrink_job(job, bucket, budget):
    chk = job['check']
    if chk == 'subtype-pool':
        case = {'rows': job['rows']}
        for d in judge_subtype_pool(case):
            if d.bucket == bucket:
                return case, d
        return None
    if chk == 'signature':
        import re
        m = re.search(r'#\d+\[(\w+)\]/', bucket)
        cfg = m.group(1) if m else 'default'
        sigs = _sig_jobs(job) if cfg == 'default' else \
            [x for i, x in enumerate(signatures(cfg)) if i % job['of'] == job['shard']]
        for sig in sigs:
            tag = f'{sig[0]}#{sig[1]}' + ('' if cfg == 'default' else f'[{cfg}]')
            if ('/' + tag + '/') in bucket + '/' and not sig_excluded(sig[0]):
                for case in sweep_cases(sig, job.get('stride', 1), 'full' if cfg == 'default' else 'thin', cfg):
                    for d in judge_signature(case):
                        if d.bucket == bucket:
                            return case, d
                if cfg == 'default':
                    return hyp_shrink(signature_case(sig), _judge_sig_opt, bucket, job['n'],
                                      derive_seed(job['seed'], tag), budget)
        return None
    if job.get('grid') and not bucket.startswith('C18/derive/'):
        for case in grid_cases():
            for d in judge_judgement(case):
                if d.bucket == bucket:
                    return case, d
        return None
    return hyp_shrink(_STRATS[chk], _JUDGES[chk], bucket, job['n'], job['seed'], budget)


def judge(check, case):
    return _JUDGES[check](case)
