"""C01 - Path expressions select exactly the XDM-defined nodes, once, in document order."""
from __future__ import annotations

from hypothesis import strategies as st

from vp.core import Disc, Recorder, derive_seed, hyp_collect, escape_bucket
from vp.gen import xml as gx
from vp.gen.c01_paths import path_asts
from vp.ref import xdm
from vp.ref.xdm import render

PROPERTY = 'C01'
LEVEL = 'exploration'
RULE = ('one hypothesis example = one TreeSpec (<= 12 elements quick / 30 thorough; names a b c with optional namespaces - '
        'among them urn:p and urn:pp, one URI a proper string prefix of the other - '
        'attributes, text/tail, comments, PIs, lxml document-level siblings) in one configuration (ElementTree|lxml x '
        'Element|ElementTree root x fragment None|True|False) plus a batch of 16 path ASTs (1-4 steps joined by / or //, all 13 '
        'axes, name/kind tests, 0-2 predicates: number, position() op n, last(), path, path = literal, count(path) op n, '
        'not/and/or; (P)[n]/step, unions, and parenthesised single steps of every axis with 2-3 predicates (STEP)[p][p] - also as '
        'predicate operands; namespace wildcards p:* r:* @p:* frequent on every axis) each with a context item (root or any node of any kind). ref: the XPath 1.0 parser '
        'result (token-level node list mapped to structural addresses) must equal the definitional evaluator on the RefTree as a '
        'LIST; versions: 2.0/3.0/3.1 must equal 1.0; lxml: 1.0 must equal libxml2 (root.xpath) on lxml documents; api: select/'
        'iter_select/Selector must equal the formatted token-level result. non-trivial = path with >= 2 steps whose reference '
        'result has >= 2 nodes, or with a reverse axis / positional predicate / non-element context node. distinct by '
        '(spec, configuration, rendered path, context address).')
ASSUMPTIONS = [
    'order among the attributes / namespace nodes of one element is implementation-dependent: the order exposed by the node '
    'tree is adopted by the reference (consistency is demanded, not a particular order)',
    'Element root with fragment=None: evaluated with an implicit document node that never appears in results (documented); no '
    'verdict when an explicit step has that document on its axis (.., ancestor::, /self::node() ...: the implementation hides '
    'it from node tests) - counted as ref:skip-dummy-doc-upward',
    'fragment=True (element-topped tree): an absolute path with steps starts at the top element (fn:root()); XPDY0050 is accepted as well; the bare expression "/" gets no verdict there, nor as a sub-expression on an Element root with fragment=None where it denotes the hidden implicit document (counted)',
    'libxml2 differential excludes, by construction and counted: following/preceding evaluated from an attribute or namespace '
    'context node (libxml2 starts from the parent element), positional predicates over >= 2 attributes/namespace nodes of one '
    'element (order is implementation-dependent), positional predicates numbering a list that contains namespace nodes (libxml2 '
    'materialises namespace nodes per element and orders them differently against other nodes), preceding:: evaluated from a child of the document node (libxml2 stops '
    'at the first child of the document and so omits it: xmlXPathNextPrecedingInternal); results containing namespace nodes are compared as multisets of (prefix, uri); '
    'document nodes are not representable in lxml results and are dropped on both sides',
    'for ElementTree trees the in-scope namespaces are xml plus the namespaces argument (p, q)',
    'unprefixed element name tests select no-namespace names (no default element namespace is configured)',
]
FLOORS = {'ref:reverse-axis': (0.05, 'ref:path'), 'ref:positional': (0.10, 'ref:path'), 'ref:multi-result': (0.08, 'ref:path'),
          'ref:nonelement-context': (0.10, 'ref:path'), 'ref:verdict': (0.80, 'ref:path'),
          'lxml:verdict': (0.60, 'lxml:path'), 'ref:nonempty': (0.20, 'ref:path'),
          'ref:paren-reverse-step-multi-pred': (0.03, 'ref:path'), 'lxml:paren-reverse-step-multi-pred': (0.03, 'lxml:path'),
          'ref:ns-wildcard': (0.12, 'ref:path'), 'lxml:ns-wildcard': (0.12, 'lxml:path'),
          'ref:ns-wildcard-hit-in-prefix-uri-doc': (0.015, 'ref:path'), 'hist:result-changed-by-edit': (0.04, 'hist:path'),
          'lxml:elem-root/doc-siblings-after': (0.08, 'lxml:path'), 'lxml:doc-root/doc-siblings-after': (0.08, 'lxml:path'),
          'ref:et-xml-in-namespaces': (0.10, 'ref:path'), 'ref:namespace-axis': (0.08, 'ref:path'),
          'ref:raw-context-item': (0.12, 'ref:path'), 'ref:leaves-comment-or-pi-context-raw': (0.008, 'ref:path'),
          'lxml:leaves-comment-or-pi-context-raw': (0.008, 'lxml:path'), 'ref:non-integer-numeric-predicate': (0.08, 'ref:path'),
          'lxml:non-integer-numeric-predicate': (0.08, 'lxml:path'), 'ref:abs|rel-union-from-inner-context': (0.015, 'ref:path'), 'ref:paren-reverse-step-2+candidates-at-positional': (0.008, 'ref:path')}

# r -> urn:pp: urn:p (prefix p) is a proper string prefix of it, so p:* / @p:* must not match names in urn:pp
NS = dict(gx.PATH_NAMESPACES, r='urn:pp')
VERSIONS = ('1.0', '2.0', '3.0', '3.1')

_CFGS = ([('et', 'elem', None)] * 4 + [('lxml', 'elem', None)] * 4 + [('et', 'doc', None)] * 3 + [('lxml', 'doc', None)] * 4 +
         [('et', 'elem', True), ('lxml', 'elem', True), ('et', 'doc', True), ('lxml', 'doc', True),
          ('et', 'elem', False), ('lxml', 'elem', False), ('et', 'doc', False), ('lxml', 'doc', False)])
# nsxml: where the key 'xml' sits in the namespaces argument (dict(parser.namespaces) and Selector.namespaces always have it)
_cfg = st.tuples(st.sampled_from(_CFGS), st.sampled_from([None, None, 'first', 'middle', 'last'])).map(
    lambda t: {'backend': t[0][0], 'rootkind': t[0][1], 'fragment': t[0][2], 'nsxml': t[1]})


def ns_arg(cfg):
    """the namespaces argument of a configuration (prefix map for the paths, optionally with the key 'xml')"""
    items = list(NS.items())
    pos = {'first': 0, 'middle': 1, 'last': len(items)}.get(cfg.get('nsxml'))
    if pos is not None:
        items.insert(pos, ('xml', gx.XML_NS))
    return dict(items)


def _misc_class(spec):
    return {(0, 0): 'no-doc-siblings', (1, 0): 'doc-siblings-before', (0, 1): 'doc-siblings-after',
            (1, 1): 'doc-siblings-both'}[(bool(spec['pre']), bool(spec['post']))]
_item = st.one_of(st.none(), st.integers(0, 400))


@st.composite
def _path_case(draw, max_steps):
    ast = draw(path_asts(max_steps))
    item = draw(_item)
    prefer = None
    # a parenthesised reverse-axis step evaluated from the root selects nothing: give it a context inside the tree
    if item is None and ast[0] == 'fpath' and ast[1][0] == 'path' and ast[1][1] == 0 and len(ast[1][2]) == 1 \
            and ast[1][2][0][1] in xdm.REVERSE and draw(st.integers(0, 7)) > 0:
        item = draw(st.integers(0, 400))
    # a relative path that leaves its context node: context items of every kind, comments and PIs in particular
    if ast[0] == 'path' and ast[1] == 0 and ast[2] and ast[2][0][1] in _LEAVING_AXES:
        prefer = draw(st.sampled_from([None, 'misc', 'misc', 'misc', 'element', 'text', 'attr']))
        if prefer and item is None:
            item = draw(st.integers(0, 400))
    elif _abs_rel_union(ast) and draw(st.integers(0, 4)) > 0:
        prefer = 'element'
        item = draw(st.integers(0, 400)) if item is None else item
    # raw: the context item is passed as the tree's own etree object where one exists
    return {'ast': ast, 'item': item, 'prefer': prefer, 'raw': draw(st.booleans())}


def _cases(max_elems, n_paths, max_steps, cfg=_cfg):
    return st.fixed_dictionaries({
        'spec': gx.tree_specs(max_elems=max_elems, max_depth=4, max_attrs=3, min_elems=5, prefix_uris=True,
                              doc_misc='balanced'),
        'cfg': cfg,
        'paths': st.lists(_path_case(max_steps), min_size=n_paths, max_size=n_paths),
    })


_lxml_cfg = st.sampled_from(['elem', 'doc']).map(lambda rk: {'backend': 'lxml', 'rootkind': rk, 'fragment': None, 'nsxml': None})

# --------------------------------------------------------------------------
# implementation side
# --------------------------------------------------------------------------
_P = {}


def parser(version):
    if version not in _P:
        from elementpath import XPath1Parser, XPath2Parser
        from elementpath.xpath30 import XPath30Parser
        from elementpath.xpath31 import XPath31Parser
        cls = {'1.0': XPath1Parser, '2.0': XPath2Parser, '3.0': XPath30Parser, '3.1': XPath31Parser}[version]
        _P[version] = cls(namespaces=dict(NS))
    return _P[version]


class Impl:
    """node tree of one configuration + evaluation of rendered paths to address lists"""

    def __init__(self, spec, cfg):
        from elementpath import get_node_tree
        self.cfg = cfg
        self.nsarg = ns_arg(cfg)
        self.tc = xdm.tree_config(spec, cfg['backend'], cfg['rootkind'], cfg['fragment'], self.nsarg)
        self.dummy = self.tc['ctx_dummy']
        self.ref = xdm.ref_tree(spec, self.tc, for_context=True)
        self.b = gx.materialize(spec, cfg['backend'])
        self.root_obj = self.b.tree if cfg['rootkind'] == 'doc' else self.b.root
        self.top = get_node_tree(self.root_obj, namespaces=dict(self.nsarg), fragment=cfg['fragment'])
        self.why = None
        self.ok = self._adopt()
        self.where = f"{cfg['backend']}/{cfg['rootkind']}-root/fragment-{cfg['fragment']}/{_misc_class(spec)}" + \
            ('/xml-in-namespaces' if cfg.get('nsxml') else '')
        self.ev = xdm.Evaluator(self.ref, {'xml': gx.XML_NS, **NS})

    def conv(self, raddr):
        return raddr[1:] if self.dummy else raddr

    def _adopt(self):
        ref, ok = self.ref, True
        try:
            for rn in [r for r in ref.nodes if r.kind in ('element', 'document')]:
                if self.dummy and rn.kind == 'document':
                    continue
                n = xdm.ep_find(self.top, self.conv(rn.addr))
                if n.node_kind != xdm.EP_KIND[rn.kind] or \
                        [c.node_kind for c in n.children] != [xdm.EP_KIND[c.kind] for c in rn.children]:
                    self.why = 'children-of-' + rn.kind
                    return False
                if rn.kind == 'element':
                    nsn, att = n.namespace_nodes, n.attributes
                    if not ref.adopt_order(rn.addr, [x.name or '' for x in nsn], [x.name for x in att]):
                        self.why = 'namespace-nodes' if sorted(x.name or '' for x in nsn) != sorted(x.name for x in rn.nss) \
                            else 'attribute-nodes'
                        return False
                    pos = [n.position] + [x.position for x in nsn] + [x.position for x in att]
                    if any(not a < b for a, b in zip(pos, pos[1:])):
                        self.why = 'positions-element<namespaces<attributes'
                        return False
        except (IndexError, StopIteration, AttributeError, TypeError):
            self.why = 'shape'
            return False
        ref.renumber()
        return ok

    _PREFER = {'misc': ('comment', 'pi'), 'element': ('element',), 'text': ('text',), 'attr': ('attribute', 'namespace')}

    def ref_ctx(self, item, prefer=None):
        ref = self.ref
        if item is None:
            return ref.root if self.dummy else ref.top
        if prefer:
            cands = [n for n in ref.nodes if n.kind in self._PREFER[prefer] and not (prefer == 'element' and n is ref.root)]
            if cands:
                return cands[item % len(cands)]
        n = ref.nodes[item % len(ref.nodes)]
        if self.dummy and n.kind == 'document':
            return ref.root
        return n

    def raw_object(self, rctx):
        """the caller's own etree object for a reference node, where one exists (element, comment, PI, the ElementTree)"""
        if rctx.kind == 'document':
            return self.b.tree if self.cfg['rootkind'] == 'doc' and not self.dummy else None
        if rctx.kind not in ('element', 'comment', 'pi'):
            return None
        a = rctx.addr if self.ref.top.kind == 'document' else (self.b.n_pre,) + rctx.addr
        return self.b.by_addr.get(a)

    def expected(self, ast, rctx):
        nodes, info = self.ev.evaluate(ast, rctx)
        return [self.conv(n.addr) for n in nodes if not (self.dummy and n.kind == 'document')], info, nodes

    def run(self, version, text, rctx, raw=False):
        """-> list of addresses | ('error', code) | ('escape', bucket, repr).  raw: the context item is given as the
        tree's own etree object (as callers of select(root, path, item=...) do) instead of an XPath node."""
        from elementpath import XPathContext, ElementPathError
        try:
            tok = parser(version).parse(text)
            item = self.raw_object(rctx) if raw else None
            if item is None:
                item = xdm.ep_find(self.top, self.conv(rctx.addr))
            ctx = XPathContext(self.top, namespaces=dict(self.nsarg), item=item, fragment=self.cfg['fragment'])
            res = list(tok.select(ctx))
        except ElementPathError as e:
            return ('error', getattr(e, 'code', None) or type(e).__name__)
        except Exception as e:
            return ('escape', escape_bucket('C01', e), repr(e))
        out = []
        for x in res:
            if not hasattr(x, 'node_kind'):
                out.append(('?', 'non-node:' + type(x).__name__))
            elif x is ctx.document and x is not self.top:
                continue        # implicit document: never part of a result
            else:
                out.append(xdm.ep_address(x, self.top))
        return out


def diff_kind(exp, got):
    """failure kind of two address lists"""
    se, sg = sorted(map(repr, exp)), sorted(map(repr, got))
    if se == sg:
        return 'order'
    if len(set(sg)) < len(sg) and sorted(set(sg)) == sorted(set(se)):
        return 'duplicates'
    miss, extra = set(se) - set(sg), set(sg) - set(se)
    if any(a.startswith("('?'") for a in extra):
        return 'foreign-item'
    return 'missing+extra' if miss and extra else 'missing' if miss else 'extra' if extra else 'multiplicity'


def prefixes(ast):
    """growing sub-expressions of ast with a label of the component added last"""
    k = ast[0]
    if k == 'union':
        for i, sub in enumerate(ast[1]):
            for p in prefixes(sub):
                yield p
        yield ast, ('union', None)
    elif k == 'path':
        ab, steps = ast[1], ast[2]
        if not steps:
            yield ast, ('root', None)
        for i in range(1, len(steps) + 1):
            yield ['path', ab, steps[:i]], ('step', i - 1)
    else:
        for p in prefixes(ast[1]):
            yield p
        yield ['fpath', ast[1], [], []], ('paren', None)
        if ast[2]:
            yield ['fpath', ast[1], ast[2], []], ('filter', None)
        for i in range(1, len(ast[3]) + 1):
            yield ['fpath', ast[1], ast[2], ast[3][:i]], ('step', i - 1)


def _steps_of(ast):
    return ast[2] if ast[0] == 'path' else ast[3]


def _pred_kinds(preds):
    ks = set()

    def walk(p):
        if p[0] in ('num', 'pos', 'last', 'lastminus'):
            ks.add('positional')
        elif p[0] in ('dec', 'div', 'lastdiv', 'lastminusdec'):
            ks.add('positional-non-integer-number')
        elif p[0] in ('exists', 'cmp', 'count'):
            ks.add(p[0])
        elif p[0] == 'not':
            walk(p[1])
        else:
            walk(p[1])
            walk(p[2])
    for p in preds:
        walk(p)
    return '+'.join(sorted(ks))


def culprit(ast, rctx, exp_fn, obs_fn, ref, ctx_ok=lambda n: True, depth=0):
    """Name the first component at which observed and expected diverge, and for a step the kinds of the
    context nodes from which that step ALONE already diverges ('combine' when no single context node does).
    exp_fn(ast, ctx) -> (comparable, ref nodes); obs_fn(ast, ctx) -> comparable; ctx_ok(n): n usable as context.
    -> 'kind/component/context-class[/detail]' (root cause first, incidental detail last)"""
    for sub, (what, idx) in prefixes(ast):
        exp, _nodes = exp_fn(sub, rctx)
        got = obs_fn(sub, rctx)
        if got == exp:
            continue
        kind = _kind(exp, got)
        if what == 'filter':
            inner = _pred_culprit(sub[2], exp_fn(['fpath', sub[1], [], []], rctx)[1], exp_fn, obs_fn, ref, ctx_ok, depth)
            if inner is not None:
                return inner + '/in-filter-predicate'
            return f'{kind}/filter/-/{_pred_kinds(sub[2])}'
        if what != 'step':
            return f'{kind}/{what}/-'
        steps = _steps_of(sub)
        st_ = steps[idx]
        if sub[0] == 'path':
            first = idx == 0
            base_nodes = ([rctx] if sub[1] == 0 else [ref.top]) if first else exp_fn(['path', sub[1], steps[:idx]], rctx)[1]
            dslash = (sub[1] == 2) if first else st_[0] == '//'
        else:
            base_nodes = exp_fn(['fpath', sub[1], sub[2], steps[:idx]], rctx)[1]
            dslash = st_[0] == '//'
        if dslash:
            seen = {}
            for n in base_nodes:
                for m in ref.axis(n, 'descendant-or-self'):
                    seen[id(m)] = m
            base_nodes = sorted(seen.values(), key=lambda m: m.order)
        label = ('//' if dslash else '') + st_[1]
        single = ['path', 0, [['/', st_[1], st_[2], st_[3], 0]]]
        bare = ['path', 0, [['/', st_[1], st_[2], [], 0]]]
        bad_kinds, bad_diffs, pred_only = set(), set(), True
        for n in base_nodes[:60]:
            if not ctx_ok(n):
                continue
            e1, g1 = exp_fn(single, n)[0], obs_fn(single, n)
            if e1 != g1:
                bad_kinds.add(n.kind)
                bad_diffs.add(_kind(e1, g1))
                if st_[3] and exp_fn(bare, n)[0] != obs_fn(bare, n):
                    pred_only = False
        psuffix = '/' + _pred_kinds(st_[3]) if st_[3] else ''
        if bad_kinds:
            if st_[3] and pred_only:
                inner = _pred_culprit(st_[3], [c for n in base_nodes[:60] if ctx_ok(n) for c in exp_fn(bare, n)[1]],
                                      exp_fn, obs_fn, ref, ctx_ok, depth)
                if inner is not None:
                    return inner + '/in-predicate'
                psuffix = '/predicate-only:' + _pred_kinds(st_[3])
            kind = bad_diffs.pop() if len(bad_diffs) == 1 else 'mixed'
            return f'{kind}/{label}/ctx-' + '+'.join(sorted(bad_kinds)) + psuffix
        if st_[3]:
            # no single usable context node reproduces it (e.g. the context is the hidden implicit document): look into the
            # predicates from the nodes that the bare step selects according to the reference
            cands = {}
            for n in base_nodes[:60]:
                for c in exp_fn(bare, n)[1]:
                    cands[id(c)] = c
            inner = _pred_culprit(st_[3], sorted(cands.values(), key=lambda m: m.order), exp_fn, obs_fn, ref, ctx_ok, depth)
            if inner is not None:
                return inner + '/in-predicate'
        usable = [n for n in base_nodes if ctx_ok(n)]
        return f'{kind}/{label}/combine-%s' % ('multi' if len(base_nodes) > 1 else 'single') + \
            ('' if len(usable) == len(base_nodes) else '-from-' + '+'.join(sorted({n.kind for n in base_nodes if not ctx_ok(n)}))) + psuffix
    return 'unstable/whole/-'


def _pred_paths(p):
    if p[0] in ('exists', 'cmp', 'count'):
        yield p[1]
    elif p[0] == 'not':
        yield from _pred_paths(p[1])
    elif p[0] in ('and', 'or'):
        yield from _pred_paths(p[1])
        yield from _pred_paths(p[2])


def _pred_culprit(preds, cands, exp_fn, obs_fn, ref, ctx_ok, depth):
    """a path inside the predicates that already diverges when evaluated alone from a candidate node"""
    if depth >= 3:
        return None
    seen = set()
    for p in preds:
        for inner in _pred_paths(p):
            for c in cands[:40]:
                if id(c) in seen and False:
                    continue
                if ctx_ok(c) and exp_fn(inner, c)[0] != obs_fn(inner, c):
                    return culprit(inner, c, exp_fn, obs_fn, ref, ctx_ok, depth + 1)
    return None


def error_class(ast, version):
    """which component makes the implementation refuse the path: steps that do not parse on their own,
    else the composition form"""
    from elementpath import ElementPathError
    feats = set()
    for st_ in xdm.iter_steps(ast):
        text = xdm.render_step([st_[0], st_[1], st_[2], [], st_[4]])
        try:
            parser(version).parse(text)
        except ElementPathError:
            if st_[4] and st_[1] == 'attribute' and st_[2][0] not in ('name', 'any', 'nsany'):
                feats.add('@kindtest')
            else:
                feats.add(f'step:{text}' if st_[2][0] != 'name' else f'step:{st_[1]}::name')
    if feats:
        return '+'.join(sorted(feats))
    forms = set()

    def walk(e):
        if e[0] == 'union':
            for x in e[1]:
                walk(x)
        elif e[0] == 'fpath':
            walk(e[1])
            forms.add('(E)' + ('[p]' if e[2] else '') + (e[3][0][0] + 'step' if e[3] else ''))
    walk(ast)
    return 'form:' + ('+'.join(sorted(forms)) or 'plain')


# --------------------------------------------------------------------------
# ref + versions
# --------------------------------------------------------------------------

def judge_ref(case, rec: Recorder | None = None) -> list[Disc]:
    discs: list[Disc] = []
    spec, cfg = case['spec'], case['cfg']
    try:
        im = Impl(spec, cfg)
    except Exception as e:
        return [Disc(escape_bucket('C01', e) + '/build', 'node tree', repr(e), f'cfg={cfg}')]
    if not im.ok:
        # the node tree is not the image of the input (C02's subject): no path verdict is possible, which must not pass silently
        if rec is not None:
            rec.cls('ref:skip-structure-differs(C02)', len(case['paths']))
            # generator-health classes describe the generated case, whatever the implementation did with it
            if cfg['backend'] == 'et' and cfg.get('nsxml'):
                rec.cls('ref:et-xml-in-namespaces', len(case['paths']))
            if cfg['backend'] == 'lxml':
                rec.cls(f'ref:lxml-{cfg["rootkind"]}-root/{_misc_class(spec)}', len(case['paths']))
        return [Disc(f'C01/tree-structure-differs/{im.why}/{im.where}', 'node tree = reference tree of the input', im.why,
                     f'cfg={cfg} xml={gx.to_xml(spec)}')]
    be = cfg['backend']
    topkind = 'dummy-doc' if im.dummy else im.tc['top']
    xml = None

    def exp_fn(a, ctx):
        nodes = im.ev.evaluate(a, ctx)[0]
        return [im.conv(n.addr) for n in nodes if not (im.dummy and n.kind == 'document')], nodes

    def ctx_ok(n):
        return not (im.dummy and n.kind == 'document')

    for pc in case['paths']:
        ast = pc['ast']
        text = render(ast)
        rctx = im.ref_ctx(pc['item'], pc.get('prefer'))
        raw = bool(pc.get('raw')) and im.raw_object(rctx) is not None
        exp, info, nodes = im.expected(ast, rctx)
        classes = ['ref:path', f'ref:{be}', f'ref:top-{topkind}']
        if be == 'lxml':
            classes.append(f'ref:lxml-{cfg["rootkind"]}-root/{_misc_class(spec)}')
        elif cfg.get('nsxml'):
            classes.append('ref:et-xml-in-namespaces')
        if raw:
            classes.append('ref:raw-context-item')
        if rctx.kind in ('comment', 'pi') and ast[0] == 'path' and ast[1] == 0 and ast[2] and ast[2][0][1] in _LEAVING_AXES:
            classes.append('ref:leaves-comment-or-pi-context' + ('-raw' if raw else ''))
        if any(p_[0] in ('dec', 'div', 'lastdiv', 'lastminusdec') for p_ in _all_preds(ast)):
            classes.append('ref:non-integer-numeric-predicate')
        if _abs_rel_union(ast) and rctx is not im.ref.top and rctx is not im.ref.root:
            classes.append('ref:abs|rel-union-from-inner-context')
        if any(st_[1] == 'namespace' for st_ in xdm.iter_steps(ast)):
            classes.append('ref:namespace-axis')
            if be == 'et' and cfg.get('nsxml'):
                classes.append('ref:namespace-axis-with-xml-in-et-namespaces')
        verdict = True
        if im.dummy and info.doc_upward:
            verdict = False
            classes.append('ref:skip-dummy-doc-upward')
        elif im.tc['top'] == 'element' and _has_bare_root(ast) and not (im.dummy and ast == ['path', 1, []]):
            # element-topped tree: "/" alone is undefined (fragment) or the hidden implicit document (Element root)
            verdict = False
            classes.append('ref:skip-bare-root-in-fragment')
        got = {v: im.run(v, text, rctx, raw) for v in VERSIONS}
        g1 = got['1.0']
        absolute_in_fragment = im.tc['top'] == 'element' and not im.dummy and _has_absolute(ast)

        def detail():
            nonlocal xml
            xml = xml or gx.to_xml(spec)
            return f'path={text} ctx={im.conv(rctx.addr)} cfg={cfg} xml={xml}'

        if verdict:
            classes.append('ref:verdict')
            if g1 != exp:
                if isinstance(g1, tuple) and g1[0] == 'error' and g1[1].endswith('XPDY0050') and absolute_in_fragment:
                    classes.append('ref:xpdy0050-accepted')
                elif isinstance(g1, tuple) and g1[0] == 'escape':
                    discs.append(Disc(g1[1] + '/1.0', exp, g1[2], detail()))
                elif isinstance(g1, tuple) and _parse_fails('1.0', text):
                    discs.append(Disc(f'C01/ref/parse-error/1.0/{g1[1]}/{error_class(ast, "1.0")}', exp, g1, detail()))
                else:
                    # (the raw-object form of the context item only where the sub-expression starts from that very node)
                    cu = culprit(ast, rctx, exp_fn, lambda a, c: im.run('1.0', render(a), c, raw and c is rctx), im.ref, ctx_ok)
                    discs.append(Disc(f'C01/ref/{cu}', exp, g1, detail()))
        # versions metamorphic (independent of the reference)
        for v in VERSIONS[1:]:
            gv = got[v]
            if gv != g1:
                if isinstance(gv, tuple) and gv[0] == 'error' and gv[1].endswith('XPDY0050') and absolute_in_fragment:
                    continue
                if isinstance(gv, tuple) and gv[0] == 'escape':
                    discs.append(Disc(gv[1] + '/' + v, g1, gv[2], detail()))
                elif isinstance(g1, tuple) and g1[0] == 'error' and _parse_fails('1.0', text):
                    if _parse_fails(v, text):
                        continue
                    discs.append(Disc(f'C01/versions/{v}/parses-what-1.0-refuses/{error_class(ast, "1.0")}', g1, _tag(gv), detail()))
                elif isinstance(gv, tuple) and gv[0] == 'error' and _parse_fails(v, text):
                    discs.append(Disc(f'C01/versions/{v}/parse-error/{gv[1]}/{error_class(ast, v)}', _tag(g1), gv, detail()))
                else:
                    cu = culprit(ast, rctx, lambda a, c: (im.run('1.0', render(a), c), im.ev.evaluate(a, c)[0]),
                                 lambda a, c: im.run(v, render(a), c), im.ref, ctx_ok)
                    discs.append(Disc(f'C01/versions/{v}/{cu}', g1, gv, detail()))
        if rec is not None:
            if info.reverse:
                classes.append('ref:reverse-axis')
            if info.positional:
                classes.append('ref:positional')
            if info.nonelem_ctx:
                classes.append('ref:nonelement-context')
            classes.extend('ref:' + c for c in shape_classes(ast, im.ref, exp))
            if info.paren_reverse_bite:
                classes.append('ref:paren-reverse-step-2+candidates-at-positional')
            if exp:
                classes.append('ref:nonempty')
            if len(exp) >= 2:
                classes.append('ref:multi-result')
            nsteps = sum(1 for _ in xdm.iter_steps(ast))
            nontrivial = (nsteps >= 2 and len(exp) >= 2) or info.reverse or info.positional or info.nonelem_ctx
            rec.case([spec, cfg, text, list(map(repr, rctx.addr))], nontrivial=nontrivial, classes=classes,
                     sample={'check': 'ref', 'xml': gx.to_xml(spec), 'cfg': cfg, 'path': text,
                             'context': repr(im.conv(rctx.addr)), 'expected': repr(exp)[:200]})
    return discs


def _kind(exp, got):
    """failure kind of two comparables: address lists, ('ns', [(prefix, uri)...]) multisets, ('error'|'escape', ...)"""
    e_ns, g_ns = isinstance(exp, tuple) and exp[0] == 'ns', isinstance(got, tuple) and got[0] == 'ns'
    if e_ns and g_ns:
        return 'ns-' + diff_kind(exp[1], got[1])
    if e_ns or g_ns:
        other = got if e_ns else exp
        return 'ns-vs-' + ('nodes' if not isinstance(other, tuple) else _tag(other))
    if isinstance(got, tuple):
        return _tag(got)
    if isinstance(exp, tuple):
        return _tag(exp) + '-expected'
    return diff_kind(exp, got)


_LEAVING_AXES = ('parent', 'ancestor', 'ancestor-or-self', 'following-sibling', 'preceding-sibling', 'following', 'preceding')


def _all_preds(ast):
    """every predicate (also nested ones) of an expression"""
    k = ast[0]
    if k == 'union':
        for x in ast[1]:
            yield from _all_preds(x)
        return
    preds = []
    if k == 'path':
        steps = ast[2]
    else:
        yield from _all_preds(ast[1])
        preds, steps = list(ast[2]), ast[3]
    for st_ in steps:
        preds.extend(st_[3])
    stack = list(preds)
    while stack:
        p = stack.pop()
        yield p
        if p[0] == 'not':
            stack.append(p[1])
        elif p[0] in ('and', 'or'):
            stack.extend([p[1], p[2]])
        elif p[0] in ('exists', 'cmp', 'count'):
            yield from _all_preds(p[1])


def _abs_rel_union(ast):
    """contains a union with an absolute and a relative operand"""
    if ast[0] == 'union':
        kinds = {bool(x[1]) for x in ast[1] if x[0] == 'path'}
        return kinds == {True, False}
    if ast[0] == 'fpath':
        return _abs_rel_union(ast[1])
    return False


def _paren_forms(ast):
    """all ('fpath' of a single predicate-free-or-not step, [>= 2 predicates]) sub-expressions, also inside predicates"""
    k = ast[0]
    if k == 'union':
        for x in ast[1]:
            yield from _paren_forms(x)
        return
    preds = []
    if k == 'path':
        steps = ast[2]
    else:
        inner = ast[1]
        if inner[0] == 'path' and inner[1] == 0 and len(inner[2]) == 1 and len(ast[2]) >= 2:
            yield inner[2][0], ast[2]
        yield from _paren_forms(inner)
        preds, steps = list(ast[2]), ast[3]
    for st_ in steps:
        preds.extend(st_[3])
    for p in preds:
        for x in _pred_paths(p):
            yield from _paren_forms(x)


def shape_classes(ast, ref, exp):
    """generator-health classes of the two input classes that adversarial changes once slipped through"""
    out = []
    forms = list(_paren_forms(ast))
    if forms:
        out.append('paren-step-multi-pred')
        if any(st_[1] in xdm.REVERSE and any(xdm.Evaluator.is_positional(p) for p in preds[1:]) for st_, preds in forms):
            out.append('paren-reverse-step-multi-pred')
        if exp:
            out.append('paren-multi-pred-nonempty')
    wild = [st_ for st_ in xdm.iter_steps(ast) if st_[2][0] == 'nsany' and st_[2][1] in ('p', 'r')]
    if wild:
        out.append('ns-wildcard')
        if exp and getattr(ref, '_has_p_and_pp', None) is None:
            names = [n.name for n in ref.nodes if n.kind in ('element', 'attribute') and n.name.startswith('{')]
            ref._has_p_and_pp = any(x.startswith('{urn:p}') for x in names) and any(x.startswith('{urn:pp}') for x in names)
        if exp and ref._has_p_and_pp:
            out.append('ns-wildcard-hit-in-prefix-uri-doc')
    return out


def _tag(g):
    if not isinstance(g, tuple):
        return 'nodes'
    return 'ns' if g[0] == 'ns' else f'{g[0]}:{str(g[1]).rsplit("/", 1)[-1]}'


def _parse_fails(version, text):
    from elementpath import ElementPathError
    try:
        parser(version).parse(text)
        return False
    except ElementPathError:
        return True


def _has_absolute(ast):
    k = ast[0]
    if k == 'union':
        return any(_has_absolute(x) for x in ast[1])
    if k == 'path':
        if ast[1]:
            return True
        return any(_pred_abs(p) for st_ in ast[2] for p in st_[3])
    return _has_absolute(ast[1]) or any(_pred_abs(p) for p in ast[2]) or any(_pred_abs(p) for st_ in ast[3] for p in st_[3])


def _has_bare_root(ast):
    """contains the expression '/' with no step (undefined for an element-topped tree)"""
    k = ast[0]
    if k == 'union':
        return any(_has_bare_root(x) for x in ast[1])
    preds = []
    if k == 'path':
        if ast[1] == 1 and not ast[2]:
            return True
        steps = ast[2]
    else:
        if _has_bare_root(ast[1]):
            return True
        preds, steps = list(ast[2]), ast[3]
    for st_ in steps:
        preds.extend(st_[3])
    return any(_has_bare_root(x) for p in preds for x in _pred_paths(p))


def _pred_abs(p):
    if p[0] in ('exists', 'cmp', 'count'):
        return _has_absolute(p[1])
    if p[0] == 'not':
        return _pred_abs(p[1])
    if p[0] in ('and', 'or'):
        return _pred_abs(p[1]) or _pred_abs(p[2])
    return False


# --------------------------------------------------------------------------
# libxml2 differential (XPath 1.0 parser on lxml documents)
# --------------------------------------------------------------------------

def judge_lxml(case, rec: Recorder | None = None) -> list[Disc]:
    from lxml import etree as L
    discs: list[Disc] = []
    spec, cfg = case['spec'], case['cfg']
    try:
        # root kind as drawn: the Element itself (its document-level siblings must still be part of the tree) or the ElementTree
        im = Impl(spec, {'backend': 'lxml', 'rootkind': cfg.get('rootkind', 'doc'), 'fragment': None, 'nsxml': None})
    except Exception as e:
        return [Disc(escape_bucket('C01', e) + '/build', 'node tree', repr(e), f'cfg={cfg}')]
    if not im.ok:
        if rec is not None:
            rec.cls('lxml:skip-structure-differs(C02)', len(case['paths']))
            rec.cls(f'lxml:{cfg.get("rootkind", "doc")}-root/{_misc_class(spec)}', len(case['paths']))
        return [Disc(f'C01/tree-structure-differs/{im.why}/{im.where}', 'node tree = reference tree of the input', im.why,
                     f'cfg={cfg} xml={gx.to_xml(spec)}')]
    b, ref = im.b, im.ref
    # Element root without document-level siblings: elementpath works with a hidden implicit document; addresses of the
    # reference and of libxml2 are document-topped (root element = (0,)), those of elementpath element-topped
    up = (lambda a: (0,) + a) if im.dummy else (lambda a: a)
    ctx_objs = [ref.by_addr[a] for a in sorted(b.by_addr)]       # element/comment/PI reference nodes
    xml = None

    def ctx_ok(n):
        return n.kind in ('element', 'comment', 'pi')

    def lx(a, ctx):
        try:
            res = b.by_addr[ctx.addr].xpath(render(a), namespaces=NS)
        except L.XPathError as e:
            return ('error', type(e).__name__)
        if not isinstance(res, list):
            return ('error', 'non-nodeset:' + type(res).__name__)
        if any(isinstance(x, tuple) for x in res):
            return ('ns', sorted((x[0] or '', x[1]) if isinstance(x, tuple) else ('?', '?') for x in res))
        return [xdm.lxml_result_address(b, x, True) for x in res]

    def norm_ref(a, ctx):
        ns_ = im.ev.evaluate(a, ctx)[0]
        if any(n.kind == 'namespace' for n in ns_):
            return ('ns', sorted((n.name, n.value) if n.kind == 'namespace' else ('?', '?') for n in ns_
                                 if n.kind != 'document'))
        return [n.addr for n in ns_ if n.kind != 'document']

    def norm_ep(a, ctx):
        r = im.run('1.0', render(a), ctx, raw)
        if isinstance(r, tuple):
            return r
        if any(len(x) and isinstance(x[-1], tuple) and x[-1][0] == 'ns' for x in r):
            out = []
            for x in r:
                if x == () and not im.dummy:
                    continue
                n = ref.by_addr.get(up(x))
                out.append((n.name, n.value) if n is not None and n.kind == 'namespace' else ('?', '?'))
            return ('ns', sorted(out))
        return [up(x) for x in r if im.dummy or x != ()]

    for pc in case['paths']:
        ast = pc['ast']
        text = render(ast)
        rctx = ctx_objs[pc['item'] % len(ctx_objs)] if pc['item'] is not None else ref.root
        if pc['item'] is not None and pc.get('prefer') == 'misc':
            miscs = [n for n in ctx_objs if n.kind in ('comment', 'pi')]
            rctx = miscs[pc['item'] % len(miscs)] if miscs else rctx
        elif pc['item'] is not None and pc.get('prefer') == 'element':
            inner = [n for n in ctx_objs if n.kind == 'element' and n is not ref.root]
            rctx = inner[pc['item'] % len(inner)] if inner else rctx
        raw = bool(pc.get('raw'))
        nodes, info = im.ev.evaluate(ast, rctx)
        classes = ['lxml:path', f'lxml:{cfg.get("rootkind", "doc")}-root/{_misc_class(spec)}'] + \
            ['lxml:' + c for c in shape_classes(ast, ref, None)]
        if rctx.kind in ('comment', 'pi') and ast[0] == 'path' and ast[1] == 0 and ast[2] and ast[2][0][1] in _LEAVING_AXES:
            classes.append('lxml:leaves-comment-or-pi-context' + ('-raw' if raw else ''))
        if any(p_[0] in ('dec', 'div', 'lastdiv', 'lastminusdec') for p_ in _all_preds(ast)):
            classes.append('lxml:non-integer-numeric-predicate')
        if _abs_rel_union(ast) and rctx is not ref.root:
            classes.append('lxml:abs|rel-union-from-inner-context')
        hidden_doc = im.dummy and (info.doc_upward or (_has_bare_root(ast) and ast != ['path', 1, []]))
        if info.fp_from_attr_ns:
            classes.append('lxml:excluded-following/preceding-from-attr-or-ns')
        elif info.order_dep:
            classes.append('lxml:excluded-positional-over-attrs-or-ns')
        elif info.preceding_from_doc_child:
            classes.append('lxml:excluded-preceding-from-document-child')
        elif info.ns_positional:
            classes.append('lxml:excluded-positional-over-namespace-nodes')
        else:
            classes.append('lxml:verdict')
            want = lx(ast, rctx)
            g1 = norm_ep(ast, rctx)
            r1 = norm_ref(ast, rctx)

            def detail():
                nonlocal xml
                xml = xml or gx.to_xml(spec)
                return f'path={text} ctx={rctx.addr} xml={xml}'
            lx_fn = lambda a, c: (lx(a, c), im.ev.evaluate(a, c)[0])
            if r1 != want:
                # the two oracles disagree: no verdict on the implementation; must be resolved in the harness
                cu = culprit(ast, rctx, lx_fn, norm_ref, ref, ctx_ok)
                discs.append(Disc(f'C01/ORACLES-DISAGREE/libxml2-vs-reference/{cu}', want, r1, detail()))
                classes.append('lxml:oracles-disagree')
            elif hidden_doc:
                classes.append('lxml:no-verdict-hidden-implicit-document')
            elif g1 != want:
                if isinstance(g1, tuple) and g1[0] == 'escape':
                    discs.append(Disc(g1[1] + '/lxml', want, g1[2], detail()))
                elif isinstance(g1, tuple) and g1[0] == 'error' and _parse_fails('1.0', text):
                    discs.append(Disc(f'C01/lxml/parse-error/1.0/{g1[1]}/{error_class(ast, "1.0")}', _tag(want), g1, detail()))
                else:
                    # libxml2 and the reference agree on this path: attribute the divergence with the reference, which
                    # unlike libxml2 can be evaluated from every kind of context node
                    cu = culprit(ast, rctx, lambda a, c: (norm_ref(a, c), im.ev.evaluate(a, c)[0]), norm_ep, ref,
                                 lambda n: not (im.dummy and n.kind == 'document'))
                    discs.append(Disc(f'C01/lxml/{cu}', want, g1, detail()))
        if rec is not None:
            nsteps = sum(1 for _ in xdm.iter_steps(ast))
            rec.case([spec, 'lxml', text, list(map(repr, rctx.addr))],
                     nontrivial=(nsteps >= 2 and len(nodes) >= 2) or info.reverse or info.positional or info.nonelem_ctx,
                     classes=classes, sample={'check': 'lxml', 'xml': gx.to_xml(spec), 'path': text, 'context': repr(rctx.addr)})
    return discs


# --------------------------------------------------------------------------
# API forms
# --------------------------------------------------------------------------

def judge_api(case, rec: Recorder | None = None) -> list[Disc]:
    import elementpath
    from elementpath import XPathContext, ElementPathError
    discs: list[Disc] = []
    spec, cfg = case['spec'], case['cfg']
    b = gx.materialize(spec, cfg['backend'])
    root_obj = b.tree if cfg['rootkind'] == 'doc' else b.root
    fr = cfg['fragment']
    nsarg = ns_arg(cfg)
    elems = [b.by_addr[a] for a in sorted(b.by_addr) if not callable(b.by_addr[a].tag)]
    xml = None
    for pc in case['paths']:
        text = render(pc['ast'])
        version = VERSIONS[(pc['item'] or 0) % 4]
        P = type(parser(version))
        item = None if pc['item'] is None else elems[pc['item'] % len(elems)]

        def fmt(ctx, x):
            if not hasattr(x, 'node_kind'):
                return ('atomic', repr(x))
            k = x.node_kind
            if k == 'namespace':
                return ('val', (x.name, x.value) if version == '1.0' else x.value)
            if k == 'document':
                return ('doc', None)
            if k in ('attribute', 'text'):
                return ('val', x.value)
            return ('obj', id(x.value))

        def fmt_api(x):
            if hasattr(x, 'node_kind') or hasattr(x, 'getroot'):
                return ('doc', None)
            if hasattr(x, 'tag'):
                return ('obj', id(x))
            if isinstance(x, (str, tuple)):
                return ('val', tuple(x) if isinstance(x, tuple) else str(x))
            return ('atomic', repr(x))

        def call(fn):
            try:
                r = fn()
                return [fmt_api(x) for x in r] if isinstance(r, list) else ('non-list', repr(r))
            except ElementPathError as e:
                return ('error', getattr(e, 'code', None) or type(e).__name__)
            except Exception as e:
                return ('escape', escape_bucket('C01', e), repr(e))

        try:
            tok = P(namespaces=dict(nsarg)).parse(text)
            ctx = XPathContext(root_obj, namespaces=dict(nsarg), item=item, fragment=fr)
            base = []
            for x in tok.select(ctx):
                if hasattr(x, 'node_kind') and x.node_kind == 'document' and x is ctx.document and x is not ctx.root:
                    continue
                f = fmt(ctx, x)
                base.append(('val', tuple(f[1])) if f[0] == 'val' and isinstance(f[1], tuple) else f)
        except ElementPathError as e:
            base = ('error', getattr(e, 'code', None) or type(e).__name__)
        except Exception:
            base = None         # reported by ref
        if base is not None:
            forms = {
                'select': lambda: elementpath.select(root_obj, text, dict(nsarg), parser=P, fragment=fr, item=item),
                'iter_select': lambda: list(elementpath.iter_select(root_obj, text, dict(nsarg), parser=P, fragment=fr, item=item)),
                'Selector.select': lambda: elementpath.Selector(text, dict(nsarg), parser=P).select(
                    root_obj, namespaces=dict(nsarg), fragment=fr, item=item),
                'Selector.iter_select': lambda: list(elementpath.Selector(text, dict(nsarg), parser=P).iter_select(
                    root_obj, namespaces=dict(nsarg), fragment=fr, item=item)),
            }
            for name, fn in forms.items():
                got = call(fn)
                if got != base:
                    xml = xml or gx.to_xml(spec)
                    if isinstance(got, list) and isinstance(base, list):
                        kind = 'length' if len(got) != len(base) else 'items'
                    elif isinstance(base, list) and got[0] == 'non-list':
                        kind = 'single-value-unwrapped/' + pc['ast'][0]
                    else:
                        kind = f'{_tag2(base)}->{_tag2(got)}'
                    discs.append(Disc(f'C01/api/{name}/{kind}', base, got, f'path={text} parser={version} cfg={cfg} xml={xml}'))
        if rec is not None:
            rec.case([spec, cfg, text, version, pc['item']], nontrivial=isinstance(base, list) and len(base) >= 1,
                     classes=['api:path'], sample={'check': 'api', 'path': text, 'parser': version, 'cfg': cfg})
    return discs


# --------------------------------------------------------------------------
# history: one Selector, the tree edited in place, the same Selector again
# --------------------------------------------------------------------------
_hist_cfg = st.tuples(st.sampled_from(['et', 'lxml']), st.sampled_from(['elem', 'doc']),
                      st.sampled_from([None, 'first', 'last'])).map(
    lambda t: {'backend': t[0], 'rootkind': t[1], 'fragment': None, 'nsxml': t[2]})


def _hist_cases(max_elems, n_paths, max_steps):
    return st.fixed_dictionaries({
        'spec': gx.tree_specs(max_elems=max_elems, max_depth=4, max_attrs=3, min_elems=4, prefix_uris=True, doc_misc=False),
        'cfg': _hist_cfg,
        'paths': st.lists(_path_case(max_steps), min_size=n_paths, max_size=n_paths),
        'edit': gx.edits(),
    })


def _fmt_api(x):
    if hasattr(x, 'node_kind') or hasattr(x, 'getroot'):
        return ('doc', None)
    if hasattr(x, 'tag'):
        return ('obj', id(x))
    if isinstance(x, tuple):
        return ('val', tuple(x))
    if isinstance(x, str):
        return ('val', str(x))
    return ('atomic', repr(x))


def _api_call(fn):
    from elementpath import ElementPathError
    try:
        r = fn()
        return [_fmt_api(x) for x in r] if isinstance(r, list) else ('non-list', repr(r))
    except ElementPathError as e:
        return ('error', getattr(e, 'code', None) or type(e).__name__)
    except Exception as e:
        return ('escape', escape_bucket('C01', e), repr(e))


def _expected_api(spec, cfg, b, ast):
    """formatted result the reference predicts for the tree as it is now (None: no independent expectation)"""
    nsarg = ns_arg(cfg)
    tc = xdm.tree_config(spec, cfg['backend'], cfg['rootkind'], None, nsarg)
    ref = xdm.ref_tree(spec, tc, for_context=True)
    nodes, info = xdm.Evaluator(ref, {'xml': gx.XML_NS, **NS}).evaluate(ast, ref.root if tc['ctx_dummy'] else ref.top)
    if info.order_dep or (tc['ctx_dummy'] and (info.doc_upward or _has_bare_root(ast))):
        return None
    out = []
    for n in nodes:
        if n.kind == 'namespace':
            return None
        if n.kind == 'document':
            if not tc['ctx_dummy']:
                out.append(('doc', None))
        elif n.kind in ('attribute', 'text'):
            out.append(('val', n.value))
        else:
            out.append(('obj', id(b.by_addr[n.addr])))
    return out


def judge_history(case, rec: Recorder | None = None) -> list[Disc]:
    import elementpath
    discs: list[Disc] = []
    spec, cfg, edit = case['spec'], case['cfg'], case['edit']
    b = gx.materialize(spec, cfg['backend'])
    root_obj = b.tree if cfg['rootkind'] == 'doc' else b.root
    nsarg = ns_arg(cfg)
    spec2 = gx.apply_edit(spec, edit)
    changed = spec2 != spec
    sels = []
    for pc in case['paths']:
        text = render(pc['ast'])
        version = VERSIONS[(pc['item'] or 0) % 4]
        P = type(parser(version))
        try:
            sel = elementpath.Selector(text, dict(nsarg), parser=P)
        except elementpath.ElementPathError:
            sel = None
        if sel is not None:
            sels.append((pc['ast'], text, version, P, sel, _api_call(lambda: sel.select(root_obj, namespaces=dict(nsarg))),
                         _expected_api(spec, cfg, b, pc['ast'])))
    # the caller edits the tree in place ...
    gx.apply_edit_objs(b, edit)
    gx.reindex(b)
    xml = None
    for ast, text, version, P, sel, before, exp_before in sels:
        # ... and applies the same selectors to the same root object
        again = _api_call(lambda: sel.select(root_obj, namespaces=dict(nsarg)))
        again_iter = _api_call(lambda: list(sel.iter_select(root_obj, namespaces=dict(nsarg))))
        fresh = _api_call(lambda: elementpath.select(root_obj, text, dict(nsarg), parser=P))
        exp_after = _expected_api(spec2, cfg, b, ast)

        def detail():
            nonlocal xml
            xml = xml or gx.to_xml(spec)
            return f'path={text} parser={version} edit={edit} cfg={cfg} xml-before-edit={xml}'
        for name, got in (('Selector.select', again), ('Selector.iter_select', again_iter)):
            if got != fresh:
                discs.append(Disc(f'C01/history/reused-{name}-differs-from-fresh-select/{edit["op"]}', fresh, got, detail()))
        # independent expectation, only where the first application agreed with the reference (known defects stay in C01/ref)
        # (not for an Element root - '/child::' on the hidden implicit document - nor for paths through following:: or two
        # attribute steps: those are the recorded findings of the ref sub-check and would only be repeated here)
        axes = [st_[1] for st_ in xdm.iter_steps(ast)]
        clean = cfg['rootkind'] == 'doc' and 'following' not in axes and axes.count('attribute') < 2
        if clean and exp_before is not None and exp_after is not None and before == exp_before:
            for name, got in (('Selector.select', again), ('select', fresh)):
                if got != exp_after:
                    discs.append(Disc(f'C01/history/{name}-after-edit-differs-from-reference/{edit["op"]}', exp_after, got, detail()))
            if cfg['backend'] == 'lxml' and cfg['rootkind'] == 'elem':     # libxml2 can only start from the root element
                try:
                    lx = [_fmt_api(x) for x in b.root.xpath(text, namespaces=NS)]
                except Exception:
                    lx = None
                if lx is not None and version == '1.0' and not any(k == 'doc' for k, _ in exp_after) and lx != again:
                    discs.append(Disc(f'C01/history/Selector.select-after-edit-differs-from-libxml2/{edit["op"]}', lx, again, detail()))
        if rec is not None:
            visible = exp_before is not None and exp_after is not None and exp_before != exp_after
            classes = ['hist:path', f'hist:{edit["op"]}']
            if changed:
                classes.append('hist:tree-changed')
            if visible:
                classes.append('hist:result-changed-by-edit')
            rec.case([spec, cfg, text, version, edit], nontrivial=visible, classes=classes,
                     sample={'check': 'history', 'path': text, 'edit': edit, 'cfg': cfg})
    return discs


def _tag2(g):
    return 'list' if isinstance(g, list) else f'{g[0]}:{str(g[1]).rsplit("/", 1)[-1]}'


# --------------------------------------------------------------------------
# module interface
# --------------------------------------------------------------------------
_JUDGES = {'ref': judge_ref, 'lxml': judge_lxml, 'api': judge_api, 'history': judge_history}


def _strategy(job):
    if job['check'] == 'lxml':
        return _cases(job['max_elems'], job['n_paths'], job['max_steps'], _lxml_cfg)
    if job['check'] == 'history':
        return _hist_cases(job['max_elems'], job['n_paths'], job['max_steps'])
    return _cases(job['max_elems'], job['n_paths'], job['max_steps'])


def selftest():
    xdm.self_test()
    assert diff_kind([(0,), (1,)], [(1,), (0,)]) == 'order'
    assert diff_kind([(0,), (1,)], [(0,), (1,), (1,)]) == 'duplicates'
    assert diff_kind([(0,), (1,)], [(0,)]) == 'missing'
    assert diff_kind([(0,)], [(0,), (2,)]) == 'extra'
    ast = ['fpath', ['path', 2, [['/', 'child', ['name', None, 'a'], [], 1]]], [['last']],
           [['/', 'ancestor', ['any'], [['num', 1]], 0]]]
    assert render(ast) == '(//a)[last()]/ancestor::*[1]'
    assert [w for _a, w in prefixes(ast)] == [('step', 0), ('paren', None), ('filter', None), ('step', 0)]


def jobs(tier, seed):
    q = tier == 'quick'
    out = []
    nr, nl, na = (9, 4, 2) if q else (9, 5, 2)
    per_r, per_l, per_a = (420, 520, 380) if q else (3000, 4000, 3000)
    me, ms = (12, 4) if q else (30, 5)
    for i in range(nr):
        out.append({'check': 'ref', 'shard': i, 'n': per_r, 'max_elems': me, 'n_paths': 16, 'max_steps': ms,
                    'seed': derive_seed(seed, 'C01', 'ref', i)})
    for i in range(nl):
        out.append({'check': 'lxml', 'shard': i, 'n': per_l, 'max_elems': me, 'n_paths': 16, 'max_steps': ms,
                    'seed': derive_seed(seed, 'C01', 'lxml', i)})
    for i in range(na):
        out.append({'check': 'api', 'shard': i, 'n': per_a, 'max_elems': me, 'n_paths': 16, 'max_steps': ms,
                    'seed': derive_seed(seed, 'C01', 'api', i)})
    out.append({'check': 'history', 'shard': 0, 'n': 700 if q else 6000, 'max_elems': me, 'n_paths': 8, 'max_steps': 3,
                'seed': derive_seed(seed, 'C01', 'history', 0)})
    return out


def run_job(job, rec: Recorder):
    chk = job['check']
    jd = _JUDGES[chk]
    hyp_collect(_strategy(job), lambda case: rec.discs_of(chk, case, jd(case, rec)), job['n'], job['seed'], rec)


def shrink_job(job, bucket, budget):
    chk = job['check']
    return gx.find_and_minimize(_strategy(job), _JUDGES[chk], bucket, job['n'], job['seed'], min(budget, 250))


def judge(check, case):
    return _JUDGES[check](case)
