"""C06 - Numeric operators and rounding functions follow XPath F&O arithmetic exactly."""
from __future__ import annotations

import itertools
import math
from decimal import Decimal
from fractions import Fraction

from hypothesis import strategies as st

from vp.core import Disc, Recorder, derive_seed, hyp_collect, hyp_shrink, escape_bucket
from vp.gen import atoms as A
from vp.ref import numeric as N

PROPERTY = 'C06'
LEVEL = 'exploration'
EXHAUSTIVE = False
EXHAUSTIVE_NOTE = ('sub-checks grid2/grid1 enumerate (itertools.product) every ordered pair of the ~175 hand-chosen boundary '
                   'values (40-47 per numeric type, incl. underflow operands of both signs), the minimum/maximum of every bounded '
                   'integer subtype against all of them (both operand orders) x 6 binary operators and every boundary value x 9 unary forms x precisions '
                   '-4..6; the random sub-checks are a sample')
RULE = ('binary: operand pair (a, b) over integer/decimal/float/double/untypedAtomic rendered as literals, xs: constructor '
        'calls or $variables, XPath version 1.0/2.0/3.0/3.1; every case evaluates + - * div idiv mod and the identity '
        '(a idiv b)*b + (a mod b) against the F&O reference tower (value AND type; XPath 1.0: value of the all-double '
        'semantics). unary: unary - +, abs, floor, ceiling, round[,p], round-half-to-even[,p], p in -4..6. grid2/grid1: '
        'complete enumeration of the boundary grid. non-trivial = mixed operand signs, mixed operand types, a .5 tie, a '
        'zero divisor or a non-finite / negative-zero operand; distinct by (mode, form, type and lexical of each operand, p): one distinct '
        'case stands for all operators / functions evaluated on it (evaluations counts each of them).')
ASSUMPTIONS = [
    'xs:decimal results must be exact when the exact result has <= 18 significant digits; beyond that (and for '
    'non-terminating quotients) a relative error of 1e-17 is accepted (F&O: implementation-defined precision >= 18 digits)',
    'float/double overflow may give +-INF or FOAR0002, underflow may give 0, +-2**Emin, the denormal or FOAR0002 (F&O 4.2); '
    'the sign of a zero float/double remainder of a non-zero dividend is not judged',
    'idiv on float/double operands: exact truncated quotient or trunc(IEEE quotient); beyond 2**53 (2**24 for float) '
    'only to the relative precision of the operand type',
    'XPath 1.0 is judged on the numeric value of the all-double semantics only (python class of the result ignored); '
    'libxml2 agrees with the reference on the boundary grid (oracle self-test)',
    'round / round-half-to-even on float/double follow the F&O 3.1 rule (cast to exact decimal, round, cast back; a zero '
    'result takes the sign of the argument) for XPath 2.0 as well',
    'lexical -> value of operands trusts python float() (correct rounding); xs:float operands are always exactly '
    'representable in binary32 so that the reading precision does not matter',
    'observed XPath type = python class of the result: int -> xs:integer, Decimal -> xs:decimal, '
    'elementpath.datatypes.Float -> xs:float, float -> xs:double',
]
FLOORS = {
    'bin:mixed-sign': (0.15, 'bin:pair'), 'bin:mixed-type': (0.30, 'bin:pair'), 'bin:exact-quotient': (0.08, 'bin:pair'),
    'bin:zero-divisor': (0.02, 'bin:pair'), 'bin:nonfinite': (0.03, 'bin:pair'),
    'un:tie': (0.05, 'un:arg'), 'un:negative': (0.25, 'un:arg'), 'bin:fp-underflow-negative': (0.004, 'bin:pair'),
    'bin:subint-operand': (0.08, 'bin:pair'), 'bin:float-result-outside-binary32-range': (0.01, 'bin:pair'), 'un:subint-operand': (0.05, 'un:arg'), 'un:huge-with-fraction': (0.03, 'un:arg'),
}

BIN_OPS = ('+', '-', '*', 'div', 'idiv', 'mod')
BIN_OPS_10 = ('+', '-', '*', 'div', 'mod')
MODES = ('1.0', '2.0', '3.0', '3.1')
PRECISIONS = tuple(range(-4, 7))

_PARSERS: dict = {}
_TOKENS: dict = {}


def _parser(mode):
    p = _PARSERS.get(mode)
    if p is None:
        from elementpath import XPath1Parser, XPath2Parser
        from elementpath.xpath30 import XPath30Parser
        from elementpath.xpath31 import XPath31Parser
        cls = {'1.0': XPath1Parser, '2.0': XPath2Parser, '3.0': XPath30Parser, '3.1': XPath31Parser}[mode]
        p = _PARSERS[mode] = cls()
    return p


# --------------------------------------------------------------------------
# observation
# --------------------------------------------------------------------------

def observe(mode: str, expr: str, variables: dict, cache: bool = False):
    """-> ('value', xpath_type, refvalue) | ('error', code) | ('escape', exc) | ('other', repr)"""
    from elementpath import XPathContext, ElementPathError
    from elementpath.datatypes import Float
    try:
        if cache:
            # operands passed as variables only: the expression text repeats, parse it once per mode
            tok = _TOKENS.get((mode, expr))
            if tok is None:
                tok = _TOKENS[(mode, expr)] = _parser(mode).parse(expr)
        else:
            tok = _parser(mode).parse(expr)
        res = tok.get_results(XPathContext(root=None, item=1, variables=variables))
    except ElementPathError as e:
        code = (e.code or '').split(':')[-1]
        return ('error', code or 'no-code')
    except RecursionError:
        raise
    except Exception as e:    # an exception that is not an ElementPathError escaped
        return ('escape', e)
    if isinstance(res, list) and len(res) == 1:
        res = res[0]
    if isinstance(res, bool):
        return ('other', repr(res))
    if isinstance(res, int):
        return ('value', 'integer', int(res))
    if isinstance(res, Decimal):
        if not res.is_finite():
            return ('other', repr(res))
        return ('value', 'decimal', Fraction(res))
    if isinstance(res, Float):
        return ('value', 'float', float(res))
    if isinstance(res, float):
        return ('value', 'double', float(res))
    return ('other', repr(res)[:80])


def _render(mode, form, atom, name, variables):
    """operand text for `atom`; may add a variable binding"""
    x1 = mode == '1.0'
    if form == 'lit':
        s = A.literal(atom, xpath1=x1)
        if s is not None:
            return s
        form = 'var' if x1 else 'ctor'
    if form == 'ctor' and not x1:
        return A.constructor(atom)
    variables[name] = A.pyvalue(atom)
    return '$' + name


def _sign_letter(v) -> str:
    if isinstance(v, float):
        if math.isnan(v):
            return 'N'
        if v == 0:
            return 'm' if math.copysign(1, v) < 0 else 'z'
    return 'z' if v == 0 else 'n' if v < 0 else 'p'


def _bin_class(op, x, y):
    """input class of a promoted operand pair (reference values)"""
    fx, fy = isinstance(x, float), isinstance(y, float)
    if (fx and math.isnan(x)) or (fy and math.isnan(y)):
        return 'nan'
    if (fx and math.isinf(x)) or (fy and math.isinf(y)):
        return 'inf-' + _sign_letter(x) + _sign_letter(y)
    cls = _sign_letter(x) + _sign_letter(y)
    if op in ('div', 'idiv', 'mod'):
        if y == 0:
            return 'zero-divisor-' + cls
        q = Fraction(x) / Fraction(y)
        cls += '-exact' if q.denominator == 1 else '-inexact'
        if abs(q) >= 2 ** 53:
            cls += '-bigq'
    big = max(abs(Fraction(x)), abs(Fraction(y)))
    if big >= 2 ** 53:
        cls += '-big'
    return cls


def _compare(exp: N.Exp, obs, prefix: str, suffix: str, value_only: bool, discs: list, detail: str, as_double=None):
    """append discrepancies between expectation and observation; bucket = prefix/<kind>/suffix"""
    def add(kind, observed):
        discs.append(Disc(f'{prefix}/{kind}/{suffix}', repr(exp), observed, detail))

    if obs[0] == 'escape':
        e = obs[1]
        discs.append(Disc(escape_bucket('C06', e) + '/' + prefix.split('/', 1)[1], repr(exp), repr(e), detail))
        return
    if obs[0] == 'other':
        add('not-a-number', obs[1])
        return
    if exp.is_error:
        if obs[0] == 'error':
            if obs[1] not in exp.codes:
                add('error-code:' + obs[1], obs[1])
        else:
            add('no-error', f'{obs[1]}({N.fmt(obs[2])})')
        return
    if obs[0] == 'error':
        if obs[1] not in exp.or_codes:
            add('unexpected-error:' + obs[1], obs[1])
        return
    _, ot, ov = obs
    shown = f'{ot}({N.fmt(ov)})'
    # value
    ev = exp.value
    e_fl, o_fl = isinstance(ev, float), isinstance(ov, float)
    if e_fl == o_fl:
        ok = exp.accepts_value(ov)
        # the recorded defect is about PRECISION inside the binary32 range: an xs:float result that lies outside
        # the range (finite but rounding to INF, or non-zero but rounding to zero) is never excused by it
        in_range = not o_fl or ot != 'float' or math.isnan(ov) or math.isinf(ov) or ov == 0 or \
            (not math.isinf(N.f32(ov)) and N.f32(ov) != 0)
        if not ok and in_range and as_double is not None and not as_double.is_error and \
                ((o_fl and ot == 'float' and exp.accepts_value(N.f32(ov))) or
                 (ot == exp.type and as_double.accepts_value(ov))):
            # xs:float carried in double precision: right after rounding to binary32, or equal to the same
            # operation carried out on doubles (integer/decimal operands promoted to double instead of float)
            discs.append(Disc('C06/float-carried-as-double/' + prefix.split('/', 1)[1].split('/')[0], repr(exp), shown, detail))
            ok = True
    elif e_fl:     # expected float/double, observed integer/decimal: compare numerically (zero sign not representable)
        ok = any(not (math.isnan(w) or math.isinf(w)) and Fraction(w) == ov for w in (ev,) + exp.alts)
    else:          # expected integer/decimal, observed float/double
        ok = not (math.isnan(ov) or math.isinf(ov)) and exp.accepts_value(Fraction(ov))
    if not ok:
        add('value', shown)
    if not value_only and ot != exp.type:
        add(f'type:{exp.type}>{ot}', shown)


# --------------------------------------------------------------------------
# binary operators
# --------------------------------------------------------------------------

def _widen(val):
    t, v = val
    return ('double', v) if t == 'float' else N.convert(val, 'double')


def _norm_types(mode, atom):
    if mode == '1.0' and (atom[0] in ('float', 'untypedAtomic') or atom[0] in A.INT_SUBTYPES):
        raise ValueError('XPath 1.0 case with a typed operand: ' + repr(atom))


def _read10(atom, rendered):
    """How an XPath 1.0 operand is held by elementpath (the known 'numbers kept as int/Decimal' defect model):
    a literal without '.' is an int, with '.' a Decimal; a variable keeps its python class."""
    if rendered.startswith('$'):
        return A.refvalue(atom)
    txt = rendered.strip('()')
    q = N.rational_of_lexical(txt)
    return ('decimal', q) if '.' in txt else ('integer', int(q))


def _dec_negzero(atom) -> bool:
    return atom[0] == 'decimal' and atom[1].strip().startswith('-') and N.parse('decimal', atom[1]) == 0


def _rebucket(discs, start, opname, exp, obs, negzero):
    """narrow root-cause buckets for classes of inputs / results with a recorded cause"""
    for i in range(start, len(discs)):
        d = discs[i]
        kind = d.bucket.split('/')[-2]
        if negzero and not d.bucket.startswith('C06/float-carried'):
            # an xs:decimal negative zero (python Decimal('-0.0')) leaks its sign into float/double arithmetic
            d.bucket = f'C06/decimal-negative-zero/{opname}/{kind}'
        elif kind == 'value' and exp.type == 'float' and obs[0] == 'value' and isinstance(obs[2], float) and obs[2] == 0 \
                and isinstance(exp.value, float) and 0 < abs(exp.value) < 1e-37:
            # Float() flushes every |x| < 1e-37 to zero although binary32 is normal down to 1.17549435e-38
            d.bucket = f'C06/float-flush-below-1e-37/{opname}'


def judge_binary(case, rec: Recorder | None = None) -> list[Disc]:
    mode, form, a, b = case['mode'], case['form'], case['a'], case['b']
    x1 = mode == '1.0'
    _norm_types(mode, a), _norm_types(mode, b)
    ra, rb = A.refvalue(a), A.refvalue(b)
    if x1:
        ra, rb = N.as_number(ra), N.as_number(rb)
    variables: dict = {}
    sa = _render(mode, form, a, 'a', variables)
    sb = _render(mode, form, b, 'b', variables)
    ptype, px, py = N.promote(ra, rb)
    allvar = sa.startswith('$') and sb.startswith('$')
    types = f'{a[0]},{b[0]}'
    discs: list[Disc] = []
    ops = case.get('ops') or (BIN_OPS_10 if x1 else BIN_OPS)
    negzero = (_dec_negzero(a) and not sa.startswith('(')) or (_dec_negzero(b) and not sb.startswith('('))
    pre = 'C06/xp1/' if x1 else 'C06/'
    underflow = f32_range = False
    for op in ops:
        exp = N.binop(op, ra, rb)
        underflow = underflow or 'underflow' in exp.note
        f32_range = f32_range or (exp.type == 'float' and ('underflow' in exp.note or 'overflow' in exp.note))
        expr = f'{sa} {op} {sb}'
        obs = observe(mode, expr, variables, allvar)
        cls = _bin_class(op, px, py)
        before = len(discs)
        dbl = None
        if ptype == 'float':      # the same operation with every operand widened to double (known-defect model)
            dbl = N.binop(op, _widen(ra), _widen(rb))
        _compare(exp, obs, f'{pre}{op}/{cls}', types, x1, discs, f'{mode} {expr}', dbl)
        if x1 and len(discs) > before and (obs[0] == 'error' or (obs[0] == 'value' and obs[1] in ('integer', 'decimal'))):
            # XPath 1.0 numbers kept as int/Decimal: the result is the exact (2.0-style) one instead of the double one
            e2 = N.binop(op, _read10(a, sa), _read10(b, sb))
            if (e2.is_error and obs[0] == 'error' and obs[1] in e2.codes) or \
                    (not e2.is_error and e2.type in ('integer', 'decimal') and
                     (obs[1] in e2.or_codes if obs[0] == 'error' else e2.accepts_value(obs[2]))):
                del discs[before:]
                discs.append(Disc(f'C06/xp1/exact-arithmetic-kept/{op}', repr(exp), repr(obs[1:]), f'{mode} {expr}'))
        _rebucket(discs, before, op, exp, obs, negzero)
    # the identity of the property statement, evaluated as one expression (integer / decimal operands)
    ident = False
    if not x1 and ra[0] in ('integer', 'decimal') and rb[0] in ('integer', 'decimal') and rb[1] != 0 \
            and 'idiv' in ops and 'mod' in ops:
        qa, qb = Fraction(ra[1]), Fraction(rb[1])
        q = int(qa / qb)
        r = qa - qb * q
        if all((N.sig_digits(z) or 99) <= N.DEC_DIGITS for z in (qa, qb, qb * q, r)) and len(str(abs(q))) <= N.DEC_DIGITS:
            ident = True
            t = 'integer' if ra[0] == rb[0] == 'integer' else 'decimal'
            exp = N.Exp(t, int(qa) if t == 'integer' else qa, note='a = (a idiv b)*b + (a mod b)')
            expr = f'({sa} idiv {sb}) * {sb} + ({sa} mod {sb})'
            obs = observe(mode, expr, variables, allvar)
            before = len(discs)
            _compare(exp, obs, f'C06/identity/{_bin_class("idiv", px, py)}', types, False, discs, f'{mode} {expr}')
            _rebucket(discs, before, 'identity', exp, obs, negzero)
    if rec is not None:
        fa, fb = N.finite((ra[0], px)), N.finite((rb[0], py))
        la, lb = _sign_letter(ra[1]), _sign_letter(rb[1])
        mixed_sign = fa and fb and {la, lb} in ({'p', 'n'},)
        mixed_type = a[0] != b[0]
        zero_div = fb and rb[1] == 0
        nonfin = not (fa and fb) or 'm' in (la, lb)
        exact_q = fa and fb and rb[1] != 0 and ra[1] != 0 and (Fraction(px) / Fraction(py)).denominator == 1
        classes = ['bin:pair', f'bin:mode-{mode}', f'bin:form-{form}', f'bin:types-{types}']
        for flag, name in ((mixed_sign, 'mixed-sign'), (mixed_type, 'mixed-type'), (zero_div, 'zero-divisor'),
                           (nonfin, 'nonfinite'), (exact_q, 'exact-quotient'), (ident, 'identity-evaluated'),
                           (exact_q and mixed_sign, 'exact-negative-quotient'), (underflow, 'fp-underflow'), (f32_range, 'float-result-outside-binary32-range'),
                           (underflow and mixed_sign, 'fp-underflow-negative'),
                           (a[0] in A.INT_SUBTYPES or b[0] in A.INT_SUBTYPES, 'subint-operand')):
            if flag:
                classes.append('bin:' + name)
        nt = mixed_sign or mixed_type or zero_div or nonfin
        rec.case([mode, form, a, b], nontrivial=nt, classes=classes, n=len(ops) + ident,
                 sample={'check': 'binary', 'mode': mode, 'exprs': [f'{sa} {op} {sb}' for op in ops]})
    return discs


# --------------------------------------------------------------------------
# unary operators and rounding functions
# --------------------------------------------------------------------------
_UN_FORMS = (('neg', '-{x}', False), ('plus', '+{x}', False), ('abs', 'abs({x})', False), ('floor', 'floor({x})', False),
             ('ceiling', 'ceiling({x})', False), ('round', 'round({x})', False), ('round', 'round({x}, {p})', True),
             ('rhe', 'round-half-to-even({x})', False), ('rhe', 'round-half-to-even({x}, {p})', True))


def _un_available(mode, fn, with_p):
    if mode == '1.0':
        return fn in ('neg', 'floor', 'ceiling', 'round') and not with_p     # XPath 1.0: no unary plus, abs, rhe
    if fn == 'round' and with_p:
        return mode in ('3.0', '3.1')
    return True


def _un_class(fn, x, p):
    if isinstance(x, float) and (math.isnan(x) or math.isinf(x)):
        return 'nan' if math.isnan(x) else 'inf-' + _sign_letter(x)
    cls = _sign_letter(x)
    q = Fraction(x)
    if fn in ('round', 'rhe'):
        z = q * Fraction(10) ** p
        if z.denominator == 2:
            cls += '-tie'
        elif z.denominator == 1:
            cls += '-int'
        cls += '-p0' if p == 0 else '-ppos' if p > 0 else '-pneg'
    elif q.denominator == 1:
        cls += '-int'
    if q != 0 and abs(q) < 1:
        cls += '-frac'
    if abs(q) >= 2 ** 53:
        cls += '-big'
    return cls


def judge_unary(case, rec: Recorder | None = None) -> list[Disc]:
    mode, form, a, p = case['mode'], case['form'], case['a'], case['p']
    x1 = mode == '1.0'
    _norm_types(mode, a)
    ra = A.refvalue(a)
    if x1:
        ra = N.as_number(ra)
    variables: dict = {}
    sa = _render(mode, form, a, 'a', variables)
    discs: list[Disc] = []
    pre = 'C06/xp1/' if x1 else 'C06/'
    done = []
    for fn, tmpl, with_p in _UN_FORMS:
        if not _un_available(mode, fn, with_p) or (case.get('fns') and fn not in case['fns']):
            continue
        pp = p if with_p else 0
        exp = N.unop(fn, ra, pp)
        expr = tmpl.format(x=sa, p=pp)
        obs = observe(mode, expr, variables, sa.startswith('$'))
        name = fn + ('2' if with_p else '')
        before = len(discs)
        dbl = N.unop(fn, _widen(ra), pp) if ra[0] == 'float' else None
        _compare(exp, obs, f'{pre}{name}/{_un_class(fn, ra[1], pp)}', a[0], x1, discs, f'{mode} {expr}', dbl)
        if x1 and len(discs) > before and obs[0] == 'value' and obs[1] in ('integer', 'decimal'):
            e2 = N.unop(fn, _read10(a, sa), pp)
            if e2.type in ('integer', 'decimal') and e2.accepts_value(obs[2]):
                del discs[before:]
                discs.append(Disc(f'C06/xp1/exact-arithmetic-kept/{name}', repr(exp), f'{obs[1]}({N.fmt(obs[2])})', f'{mode} {expr}'))
        if fn == 'rhe' and ra[0] == 'decimal' and len(discs) > before and \
                len(str(abs(int(ra[1])))) + max(pp, 0) > 28 and discs[before].bucket.split('/')[-2] == 'value':
            # the quantized result needs more than the 28 digits of the default decimal context: elementpath falls
            # back to binary floating point (pinned by tests/test_xpath2_functions.py::test_round_half_to_even_function)
            discs[before].bucket = f'C06/rhe-decimal-beyond-28-digits/{name}'
        _rebucket(discs, before, name, exp, obs, _dec_negzero(a) and not sa.startswith('('))
        done.append((name, pp, expr))
    if rec is not None:
        fin = N.finite(ra)
        neg = _sign_letter(ra[1]) in ('n', 'm')
        tie = fin and any((Fraction(ra[1]) * Fraction(10) ** q).denominator == 2 for q in (0, p))
        classes = ['un:arg', f'un:mode-{mode}', f'un:form-{form}', f'un:type-{a[0]}']
        for flag, name in ((neg, 'negative'), (tie, 'tie'), (not fin, 'nonfinite'), (p < 0, 'negative-precision'),
                           (a[0] in A.INT_SUBTYPES, 'subint-operand'),
                           (fin and a[0] in ('double', 'float') and Fraction(ra[1]).denominator > 1 and
                            abs(ra[1]) >= (1e15 if a[0] == 'double' else 2 ** 21), 'huge-with-fraction')):
            if flag:
                classes.append('un:' + name)
        rec.case([mode, form, a, p, case.get('fns')], nontrivial=neg or tie or not fin, classes=classes, n=len(done),
                 sample={'check': 'unary', 'mode': mode, 'exprs': [e for _, _, e in done]})
    return discs


# --------------------------------------------------------------------------
# strategies
# --------------------------------------------------------------------------
_mode = st.sampled_from(['3.1', '3.1', '3.1', '2.0', '2.0', '3.0', '1.0', '1.0'])
_form = st.sampled_from(['lit', 'ctor', 'var'])
_TYPES_10 = ('integer', 'decimal', 'double')


_ALL_TYPES = A.NUMERIC_TYPES + ('untypedAtomic', 'subint')
_PAIR_10, _PAIR_ALL = A.numeric_pair(_TYPES_10), A.numeric_pair(_ALL_TYPES)
_NUM_10, _NUM_ALL = A.numeric(_TYPES_10), A.numeric(A.NUMERIC_TYPES + ('subint',))


@st.composite
def binary_case(draw):
    mode = draw(_mode)
    pair = draw(_PAIR_10 if mode == '1.0' else _PAIR_ALL)
    return {'mode': mode, 'form': draw(_form), 'a': pair[0], 'b': pair[1]}


@st.composite
def unary_case(draw):
    mode = draw(_mode)
    a = draw(_NUM_10 if mode == '1.0' else _NUM_ALL)
    return {'mode': mode, 'form': draw(_form), 'a': a, 'p': draw(st.sampled_from(PRECISIONS))}


# --------------------------------------------------------------------------
# grids
# --------------------------------------------------------------------------

def _grid_atoms(mode):
    return A.boundary_atoms(_TYPES_10 if mode == '1.0' else A.NUMERIC_TYPES)


def grid2_cases(mode, form, lo, hi, sub=False):
    atoms = _grid_atoms(mode)
    if sub:      # bounded integer subtypes against everything, both operand orders
        subs = A.subint_boundary_atoms()
        pairs = itertools.chain(itertools.product(subs, atoms + subs), itertools.product(atoms, subs))
    else:
        pairs = itertools.product(atoms, atoms)
    for i, (a, b) in enumerate(pairs):
        if lo <= i < hi:
            yield {'mode': mode, 'form': form, 'a': a, 'b': b}


def grid1_cases(mode, form):
    extra = A.unary_boundary_atoms(('double',)) if mode == '1.0' else A.subint_boundary_atoms() + A.unary_boundary_atoms()
    for a in _grid_atoms(mode) + extra:
        for p in PRECISIONS:
            c = {'mode': mode, 'form': form, 'a': a, 'p': p}
            if p != 0:
                c['fns'] = ['round', 'rhe']     # the one-argument forms are evaluated once (p = 0)
            yield c


# --------------------------------------------------------------------------
# module interface
# --------------------------------------------------------------------------
_STRATS = {'binary': binary_case(), 'unary': unary_case()}
_JUDGES = {'binary': judge_binary, 'unary': judge_unary, 'grid2': judge_binary, 'grid1': judge_unary}


def selftest():
    N.self_test()
    vals = [v for t, v in (A.refvalue(a) for a in A.boundary_atoms(('double',)))]
    N.self_test_libxml2(vals)
    for t in A.NUMERIC_TYPES:
        assert len(A.BOUNDARY[t]) >= 40 and len(set(A.BOUNDARY[t])) == len(A.BOUNDARY[t]), t
        for lex in A.BOUNDARY[t]:
            v = N.parse(t, lex)
            if t == 'float':
                # float lexicals must denote binary32 values exactly
                assert math.isnan(v) or math.isinf(v) or Fraction(v) == N.rational_of_lexical(lex), lex
    for t, lexs in A.UNARY_BOUNDARY.items():
        for lex in lexs:     # exactly representable, fractional, below 2**52 / 2**23
            v = N.parse(t, lex)
            assert Fraction(v) == N.rational_of_lexical(lex) and v != int(v) and abs(v) < (2 ** 52 if t == 'double' else 2 ** 23), lex
    assert A.literal(['double', '-2.5']) == '(-2.5e0)' and A.literal(['decimal', '5']) == '5.0'
    assert A.literal(['double', '1.0E21'], xpath1=True) == '1000000000000000000000' and A.literal(['float', '1']) is None
    assert A.lexical_for('float', Fraction(1, 3)) is None and A.lexical_for('integer', Fraction(6, 2)) == '3'
    assert A.lexical_for('float', Fraction(16777217)) is None and A.lexical_for('double', Fraction(16777217)) == '16777217'


def jobs(tier, seed):
    q = tier == 'quick'
    out = []
    n_atoms = len(_grid_atoms('3.1'))
    total = n_atoms * n_atoms
    k = 6
    for i in range(k):
        out.append({'check': 'grid2', 'mode': '3.1', 'form': 'var', 'lo': total * i // k, 'hi': total * (i + 1) // k})
    n10 = len(_grid_atoms('1.0')) ** 2
    for i in range(3):
        out.append({'check': 'grid2', 'mode': '1.0', 'form': 'var', 'lo': n10 * i // 3, 'hi': n10 * (i + 1) // 3})
    nsub = len(A.subint_boundary_atoms())
    tsub = nsub * (n_atoms + nsub) + n_atoms * nsub
    out.append({'check': 'grid2', 'mode': '3.1', 'form': 'var', 'sub': True, 'lo': 0, 'hi': tsub // 2})
    out.append({'check': 'grid2', 'mode': '2.0', 'form': 'ctor', 'sub': True, 'lo': tsub // 2, 'hi': tsub})
    if not q:
        out.append({'check': 'grid2', 'mode': '3.1', 'form': 'var', 'sub': True, 'lo': tsub // 2, 'hi': tsub})
        out.append({'check': 'grid2', 'mode': '2.0', 'form': 'ctor', 'sub': True, 'lo': 0, 'hi': tsub // 2})
    out.append({'check': 'grid1', 'modes': [['3.1', 'var'], ['2.0', 'ctor'], ['1.0', 'var'], ['3.0', 'ctor']]})
    if not q:
        for i in range(k):
            out.append({'check': 'grid2', 'mode': '2.0', 'form': 'ctor', 'lo': total * i // k, 'hi': total * (i + 1) // k})
        for i in range(3):
            out.append({'check': 'grid2', 'mode': '1.0', 'form': 'lit', 'lo': n10 * i // 3, 'hi': n10 * (i + 1) // 3})
    nb, nu = (8, 3) if q else (12, 4)
    per_b, per_u = (5000, 5000) if q else (60000, 50000)
    for i in range(nb):
        out.append({'check': 'binary', 'shard': i, 'n': per_b, 'seed': derive_seed(seed, 'C06', 'binary', i)})
    for i in range(nu):
        out.append({'check': 'unary', 'shard': i, 'n': per_u, 'seed': derive_seed(seed, 'C06', 'unary', i)})
    return out


def _job_cases(job):
    if job['check'] == 'grid2':
        return grid2_cases(job['mode'], job['form'], job['lo'], job['hi'], job.get('sub', False))
    return itertools.chain.from_iterable(grid1_cases(m, f) for m, f in job['modes'])


def run_job(job, rec: Recorder):
    chk = job['check']
    jd = _JUDGES[chk]
    if chk in ('grid2', 'grid1'):
        for case in _job_cases(job):
            rec.discs_of(chk, case, jd(case, rec))
        return
    hyp_collect(_STRATS[chk], lambda case: rec.discs_of(chk, case, jd(case, rec)), job['n'], job['seed'], rec)


def shrink_job(job, bucket, budget):
    chk = job['check']
    jd = _JUDGES[chk]
    if chk in ('grid2', 'grid1'):
        for case in _job_cases(job):
            for d in jd(case):
                if d.bucket == bucket:
                    # narrow to the failing operator / function
                    return case, d
        return None
    return hyp_shrink(_STRATS[chk], jd, bucket, job['n'], job['seed'], budget)


def judge(check, case):
    return _JUDGES[check](case)
