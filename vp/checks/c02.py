"""C02 - Node trees are faithful, strictly document-ordered images of the input XML."""
from __future__ import annotations

from hypothesis import strategies as st

from vp.core import Disc, Recorder, derive_seed, hyp_collect, escape_bucket
from vp.gen import xml as gx
from vp.ref import xdm

PROPERTY = 'C02'
LEVEL = 'exploration'
RULE = ('one hypothesis example = one generated TreeSpec (<= 10 elements quick, <= 24 thorough; 0-4 namespace '
        'declarations at any depth, 0-4 attributes, text/tail None/""/non-empty, comments/PIs as children and - lxml - as '
        'document siblings) materialised by construction as xml.etree and lxml trees, judged in 6 drawn configurations '
        '(backend x Element/ElementTree root x fragment None/True/False x builder get_node_tree/build_*_node_tree/'
        'XPathContext x namespaces argument x forced lazy parts). tree: node-by-node comparison with the RefTree built '
        'from the spec (kinds, names, values, string values, parent/children links, wrapped object, elements map, '
        'iter() order, strictly increasing unique positions). ops: is/<</>>/union/|/intersect/except/root/innermost/'
        'outermost on drawn node sequences bound to variables against set definitions over the reference order. '
        'non-trivial = configuration whose tree has an element with >= 2 namespace nodes besides xml and >= 1 attribute, or a '
        'comment/PI, or an empty-string text chunk (tree); operand sets with >= 2 distinct nodes (ops). distinct by '
        'canonical (spec, configuration[, operands]).')
ASSUMPTIONS = [
    'in-scope namespaces of an lxml element are what its nsmap reports (plus xml); of an ElementTree element: xml plus '
    'the namespaces argument (ElementTree keeps no declarations)',
    'the relative order of the namespace nodes / attributes of one element is implementation-dependent (XDM 2.4): the '
    'order exposed by node.namespace_nodes / node.attributes is adopted, and iter(), positions, <<, union must be '
    'consistent with it',
    'a text/tail chunk "" counts as a text node because the property says "non-None text/tail chunk"',
    'fragment=None keeps the root kind, except that an lxml root element with comment/PI siblings gets its document '
    '(the only way to have one node per comment/PI of the input); fragment=True drops the document and its siblings',
    'the tail of the root element is not generated',
    'schema node trees are out of the statement',
]
FLOORS = {'tree:2ns+attr': (0.10, 'tree:config'), 'tree:comment-or-pi': (0.30, 'tree:config'),
          'tree:empty-text': (0.10, 'tree:config'), 'tree:doc-misc': (0.10, 'tree:config'),
          'ops:attr-or-ns-operand': (0.10, 'ops:case'), 'tree:et-xml-in-namespaces': (0.08, 'tree:config'),
          'tree:et-namespaces-dict-extended-after-build': (0.06, 'tree:config'),
          'tree:lxml-elem-root/fragment-None/post': (0.01, 'tree:config'), 'ops:raw-objects': (0.30, 'ops:case'),
          'ops:raw-comment-or-pi-operand': (0.06, 'ops:case'),
          'ops:path-operands-from-inner-context': (0.06, 'ops:case')}

NS_ARGS = [None, {}, {'p': 'urn:p'}, {'': 'urn:d'}, {'': 'urn:d', 'p': 'urn:p', 'q': 'urn:q'}, {'xml': gx.XML_NS},
           {'xml': gx.XML_NS, 'p': 'urn:p', 'q': 'urn:q', 's': 'urn:p'},
           {'p': 'urn:p', 'q': 'urn:q', 's': 'urn:p', '': 'urn:d'},
           # the key 'xml' in the middle / at the end (dict(parser.namespaces), Selector.namespaces always contain it)
           {'p': 'urn:p', 'xml': gx.XML_NS, 'q': 'urn:q'}, {'': 'urn:d', 'q': 'urn:q', 'xml': gx.XML_NS}]

_cfg = st.fixed_dictionaries({
    'backend': st.sampled_from(['et', 'lxml']),
    'rootkind': st.sampled_from(['elem', 'doc']),
    'fragment': st.sampled_from([None, True, False]),
    # context-mutate: the caller's namespaces dict is extended after XPathContext() and before the lazy parts are requested
    'builder': st.sampled_from(['get_node_tree', 'build', 'context', 'context-mutate']),
    'namespaces': st.sampled_from(NS_ARGS),
    'force': st.lists(st.tuples(st.integers(0, 30), st.sampled_from(['n', 'a'])).map(list), max_size=3),
})


def _tree_cases(max_elems):
    return st.fixed_dictionaries({
        'spec': gx.tree_specs(max_elems=max_elems, max_depth=4, max_attrs=4, misc_weight=3, doc_misc='balanced'),
        'cfgs': st.lists(_cfg, min_size=6, max_size=6),
    })


_idx = st.integers(0, 400)
_OPS = ['is', '<<', '>>', 'union', '|', 'intersect', 'except', 'root', 'innermost', 'outermost', 'var-parent', 'item-parent',
        # (ABSOLUTE-PATH op RELATIVE-PATH) evaluated with a context item inside the tree: operands are independent
        'path-union', 'path-|', 'path-union', 'path-intersect', 'path-except']


def _ops_cases(max_elems):
    return st.fixed_dictionaries({
        'spec': gx.tree_specs(max_elems=max_elems, max_depth=4, max_attrs=3, misc_weight=3),
        'cfg': _cfg,
        'ops': st.lists(st.fixed_dictionaries({
            'op': st.sampled_from(_OPS),
            'A': st.lists(_idx, min_size=0, max_size=6),
            'B': st.lists(_idx, min_size=0, max_size=6),
            # raw: operands / context item given as the tree's own etree objects (elements, comments, PIs, the ElementTree)
            'raw': st.booleans(),
        }), min_size=8, max_size=8),
    })


_KIND = {'document': 'document', 'element': 'element', 'attribute': 'attribute', 'namespace': 'namespace',
         'text': 'text', 'comment': 'comment', 'pi': 'processing-instruction'}


# --------------------------------------------------------------------------
# building the implementation's node tree
# --------------------------------------------------------------------------

def build_impl(spec, cfg):
    """-> (Built, top node). Exceptions escape to the caller.  Built.ns_passed is the very dict given to elementpath,
    Built.ns_orig a copy taken before the call."""
    from elementpath import get_node_tree, build_node_tree, build_lxml_node_tree, XPathContext
    b = gx.materialize(spec, cfg['backend'])
    root_obj = b.tree if cfg['rootkind'] == 'doc' else b.root
    ns, fr = cfg['namespaces'], cfg['fragment']
    D = None if ns is None else dict(ns)
    b.ns_passed, b.ns_orig, b.ns_added = D, None if ns is None else dict(ns), {}
    if cfg['builder'] == 'get_node_tree':
        top = get_node_tree(root_obj, namespaces=D, fragment=fr)
    elif cfg['builder'] == 'build':
        if cfg['backend'] == 'lxml':
            top = build_lxml_node_tree(root_obj, fragment=fr)
        else:
            top = build_node_tree(root_obj, D, fragment=fr)
    else:
        ctx = XPathContext(root_obj, namespaces=D, fragment=fr)
        top = ctx.root
        if cfg['builder'] == 'context-mutate' and D is not None:
            # XPathContext documents no aliasing of its argument: the caller goes on using (and extending) its own dict
            b.ns_orig_after_build = dict(D)
            b.ns_added = {'zz': 'urn:zz', 'yy': 'urn:yy', 'xml': gx.XML_NS}
            D.update(b.ns_added)
    return b, top


def _sv_emulate(rn, flat, drop_misc_tail, misc_content):
    """string value as computed by a traversal with the named defects (used only to name the bucket):
    flat: each element contributes text then tail at once (tail before the descendants' text);
    drop_misc_tail: the tail chunk after a comment/PI is lost; misc_content: comment/PI content of
    document children is included."""
    out = []

    def walk(n):
        ch = n.children
        i = 0
        if ch and ch[0].kind == 'text' and n.kind == 'element':
            out.append(ch[0].value)
            i = 1
        while i < len(ch):
            c = ch[i]
            tail = ch[i + 1] if i + 1 < len(ch) and ch[i + 1].kind == 'text' else None
            i += 2 if tail is not None else 1
            if c.kind == 'element':
                if flat:
                    # text, tail, then the descendants
                    sub = len(out)
                    walk(c)
                    first = 1 if c.children and c.children[0].kind == 'text' else 0
                    if tail is not None:
                        out.insert(sub + first, tail.value)
                else:
                    walk(c)
                    if tail is not None:
                        out.append(tail.value)
            else:
                if misc_content and n.kind == 'document':
                    out.append(c.value)
                if tail is not None and not drop_misc_tail:
                    out.append(tail.value)
    walk(rn)
    return ''.join(out)


def _sv_class(kind, exp, obs, rn):
    """narrow class of a string-value mismatch."""
    if kind in ('document', 'element'):
        for name, args in (('tail-before-descendant-text', (True, False, False)),
                           ('tail-of-comment-or-pi-dropped', (False, True, False)),
                           ('tail-misplaced-and-misc-tail-dropped', (True, True, False)),
                           ('comment-or-pi-content-included', (False, False, True)),
                           ('misc-content+tail-before-descendant-text', (True, False, True)),
                           ('misc-content+tail-of-comment-or-pi-dropped', (False, True, True)),
                           ('misc-content+tail-misplaced-and-misc-tail-dropped', (True, True, True))):
            if obs == _sv_emulate(rn, *args):
                return name
    return 'other'


def compare_tree(spec, cfg, b, top, ref: xdm.RefTree, discs: list, rec=None):
    """parallel walk implementation tree / RefTree through the implementation's own links."""
    be = cfg['backend']
    pre = f'C02/tree/{be}'

    def D(kind, exp, obs, detail=''):
        discs.append(Disc(f'{pre}/{kind}', exp, obs, f'{detail} cfg={ {k: v for k, v in cfg.items() if k != "force"} }'))

    shift = 0 if ref.top.kind == 'document' else 1
    # forced lazy parts
    elems = [n for n in top.iter_descendants() if n.node_kind == 'element']
    for i, which in cfg['force']:
        if elems:
            e = elems[i % len(elems)]
            _ = e.namespace_nodes if which == 'n' else e.attributes

    ok_struct = [True]

    def walk(rn, n, addr):
        kind = n.node_kind
        if kind != _KIND[rn.kind]:
            D(f'node-kind/{rn.kind}', rn.kind, kind, f'at {addr}')
            ok_struct[0] = False
            return
        if rn.kind in ('element', 'pi') and n.name != rn.name:
            D(f'name/{rn.kind}', rn.name, n.name, f'at {addr}')
        if rn.kind in ('text', 'comment', 'pi'):
            val = n.value if rn.kind == 'text' else n.string_value
            if val != rn.value:
                D(f'value/{rn.kind}', rn.value, val, f'at {addr}')
        sv = n.string_value
        if sv != rn.string_value:
            discs.append(Disc(f'C02/tree/string-value/{_sv_class(rn.kind, rn.string_value, sv, rn)}/{rn.kind}/{be}',
                              rn.string_value, sv, f'at {addr} cfg={cfg}'))
        if rn.kind == 'document' and cfg['rootkind'] == 'doc' and n.value is not b.tree:
            D('wrapped-object/document', 'the input ElementTree', repr(n.value))
        if rn.kind in ('element', 'comment', 'pi'):
            want = b.by_addr.get(_baddr(addr))
            if want is not None and n.value is not want:
                D(f'wrapped-object/{rn.kind}', 'the input object', repr(n.value), f'at {addr}')
            if top.tree.elements.get(n.value) is not n:
                D(f'elements-map/{rn.kind}', 'tree.elements[obj] is node', repr(top.tree.elements.get(n.value)), f'at {addr}')
        if rn.kind == 'element':
            nsn = n.namespace_nodes
            got = [(x.name or '', x.value) for x in nsn]
            if sorted(got) != sorted((x.name, x.value) for x in rn.nss) or \
                    any(x.node_kind != 'namespace' for x in nsn):
                D('namespace-nodes' + ('/after-namespaces-dict-extended' if cfg['builder'] == 'context-mutate' else ''),
                  sorted((x.name, x.value) for x in rn.nss), sorted(got), f'at {addr}')
                ok_struct[0] = False
            else:
                ref.adopt_order(addr, ns_prefixes=[g[0] for g in got])
            if any(x.parent is not n for x in nsn):
                D('parent-link/namespace', 'parent is the element', 'other', f'at {addr}')
            if n.namespace_nodes is not nsn and [id(x) for x in n.namespace_nodes] != [id(x) for x in nsn]:
                D('namespace-nodes-not-stable', 'same nodes on second access', 'new nodes', f'at {addr}')
            at = n.attributes
            gota = [(x.name, x.value) for x in at]
            if sorted(gota) != sorted((x.name, x.value) for x in rn.attrs) or \
                    any(x.node_kind != 'attribute' for x in at):
                D('attribute-nodes', sorted((x.name, x.value) for x in rn.attrs), sorted(gota), f'at {addr}')
                ok_struct[0] = False
            else:
                ref.adopt_order(addr, attr_names=[g[0] for g in gota])
            if any(x.parent is not n for x in at):
                D('parent-link/attribute', 'parent is the element', 'other', f'at {addr}')
            if [id(x) for x in n.attributes] != [id(x) for x in at]:
                D('attribute-nodes-not-stable', 'same nodes on second access', 'new nodes', f'at {addr}')
        if rn.kind in ('element', 'document'):
            ch = n.children
            if len(ch) != len(rn.children):
                D(f'children-count/{rn.kind}', [c.kind for c in rn.children], [c.node_kind for c in ch], f'at {addr}')
                ok_struct[0] = False
                return
            for i, (rc, c) in enumerate(zip(rn.children, ch)):
                if c.parent is not n:
                    D(f'parent-link/{rc.kind}', 'child.parent is the node', repr(c.parent), f'at {addr + (i,)}')
                walk(rc, c, addr + (i,))
        elif getattr(n, 'children', None):
            D(f'children-of-leaf/{rn.kind}', [], [c.node_kind for c in n.children], f'at {addr}')

    def _baddr(addr):
        # address in Built (document-topped) of a reference address
        return addr if shift == 0 else (b.n_pre,) + addr

    if top.parent is not None:
        D('top-has-parent', None, repr(top.parent))
    walk(ref.top, top, ())
    if not ok_struct[0]:
        return
    ref.renumber()
    order = list(top.iter())
    got = [xdm.ep_address(x, top) for x in order]
    want = [r.addr for r in ref.nodes]
    if got != want:
        j = next((i for i, (g, w) in enumerate(zip(got, want)) if g != w), min(len(got), len(want)))
        kind = ref.nodes[j].kind if j < len(want) else 'extra'
        D(f'iter-order/{kind}', want[j:j + 3], got[j:j + 3], f'iter() index {j}; lengths {len(want)}/{len(got)}')
        return
    pos = [x.position for x in order]
    for i in range(1, len(pos)):
        if not pos[i - 1] < pos[i]:
            kinds = f'{ref.nodes[i - 1].kind}>{ref.nodes[i].kind}'
            D(f'position-not-increasing/{kinds}', f'> {pos[i - 1]}', pos[i],
              f'iter() index {i} at {want[i]} positions {pos[max(0, i - 3):i + 2]}')
            break
    if any(not isinstance(p, int) for p in pos):
        D('position-type', 'int', sorted({type(p).__name__ for p in pos}))


def judge_tree_one(spec, cfg, rec: Recorder | None = None) -> list[Disc]:
    discs: list[Disc] = []
    tc = xdm.tree_config(spec, cfg['backend'], cfg['rootkind'], cfg['fragment'], cfg['namespaces'])
    ref = xdm.ref_tree(spec, tc)
    try:
        b, top = build_impl(spec, cfg)
    except Exception as e:
        discs.append(Disc(escape_bucket('C02', e) + f'/{cfg["backend"]}/{cfg["builder"]}', 'a node tree', repr(e),
                          f'cfg={cfg}'))
        b = top = None
    if top is not None:
        compare_tree(spec, cfg, b, top, ref, discs, rec)
        if b.ns_orig is not None:
            want = dict(b.ns_orig, **b.ns_added)
            if b.ns_passed != want or list(b.ns_passed) != list(want):
                discs.append(Disc(f'C02/tree/{cfg["backend"]}/namespaces-argument-modified/{cfg["builder"]}', want, b.ns_passed,
                                  f'cfg={cfg}'))
    if rec is not None:
        cl = set(gx.spec_classes(spec))
        classes = ['tree:config', f'tree:{cfg["backend"]}', f'tree:top-{tc["top"]}', f'tree:builder-{cfg["builder"]}']
        if cfg['backend'] == 'et' and cfg['namespaces'] and 'xml' in cfg['namespaces']:
            classes.append('tree:et-xml-in-namespaces')
        if cfg['backend'] == 'et' and cfg['builder'] == 'context-mutate' and cfg['namespaces'] is not None:
            classes.append('tree:et-namespaces-dict-extended-after-build')
        if cfg['backend'] == 'lxml':
            classes.append('tree:lxml-%s-root/fragment-%s/%s' % (cfg['rootkind'], cfg['fragment'], 'pre' * bool(spec['pre']) + 'post' * bool(spec['post']) or 'nomisc'))
        many_ns = any(len(n.nss) >= 3 and n.attrs for n in ref.nodes if n.kind == 'element')
        if many_ns:
            classes.append('tree:2ns+attr')
        misc = bool(cl & {'tree:comment', 'tree:pi'})
        if misc:
            classes.append('tree:comment-or-pi')
        if 'tree:empty-text' in cl:
            classes.append('tree:empty-text')
        if tc['misc'] and (spec['pre'] or spec['post']):
            classes.append('tree:doc-misc')
        if 'tree:misc-tail' in cl:
            classes.append('tree:misc-tail')
        key = [spec, {k: cfg[k] for k in ('backend', 'rootkind', 'fragment', 'builder', 'namespaces')}]
        rec.case(key, nontrivial=many_ns or misc or 'tree:empty-text' in cl,
                 sample={'check': 'tree', 'xml': gx.to_xml(spec), 'cfg': cfg, 'nodes': len(ref.nodes)}, classes=classes)
    return discs


def judge_tree(case, rec: Recorder | None = None) -> list[Disc]:
    out = []
    for cfg in case['cfgs']:
        out.extend(judge_tree_one(case['spec'], cfg, rec))
    return out


# --------------------------------------------------------------------------
# operators
# --------------------------------------------------------------------------

ep_find = xdm.ep_find
adopt_all = xdm.adopt_all


def _rawable(ref, cfg, n):
    """the nearest node (self or parent) that a caller can pass as a raw etree object: element, comment, PI, or the
    ElementTree that was given as root"""
    if n.kind in ('attribute', 'namespace', 'text'):
        n = n.parent
    if n.kind == 'document' and cfg['rootkind'] != 'doc':
        n = ref.root
    return n


def _ref_op(ref, op, A, B):
    """expected result: bool / None (empty) / list of nodes / 'error'"""
    if op in ('is', '<<', '>>'):
        if len(A) > 1 or len(B) > 1:
            # XPTY0004; when the other operand is empty an implementation may also answer () (XPath 2.3.4)
            return 'error' if A and B else 'error-or-empty'
        if not A or not B:
            return None
        a, b = A[0], B[0]
        return a is b if op == 'is' else (a.order < b.order if op == '<<' else a.order > b.order)
    sa, sb = {id(x): x for x in A}, {id(x): x for x in B}
    if op in ('union', '|'):
        res = {**sa, **sb}
    elif op == 'intersect':
        res = {k: v for k, v in sa.items() if k in sb}
    elif op == 'except':
        res = {k: v for k, v in sa.items() if k not in sb}
    elif op == 'root':
        if not A:
            return None
        if len(A) > 1:
            return 'error'
        return [ref.top]
    elif op == 'var-parent':
        res = {id(x.parent): x.parent for x in A if x.parent is not None}
    elif op == 'item-parent':
        return [A[0].parent] if A[0].parent is not None else []
    elif op == 'innermost':
        anc = {id(y) for x in A for y in ref.axis(x, 'ancestor')}
        res = {k: v for k, v in sa.items() if k not in anc}
    elif op == 'outermost':
        res = {k: v for k, v in sa.items() if not any(id(y) in sa for y in ref.axis(v, 'ancestor'))}
    else:
        raise ValueError(op)
    return sorted(res.values(), key=lambda x: x.order)


def _path_operands(o):
    from vp.gen.c01_paths import _ABS_OPERANDS, _REL_OPERANDS
    ia = o['B'][0] if o['B'] else 0
    ib = o['B'][1] if len(o['B']) > 1 else 3
    a, r = _ABS_OPERANDS[ia % len(_ABS_OPERANDS)], _REL_OPERANDS[ib % len(_REL_OPERANDS)]
    return (r, a) if (ia + ib) % 4 == 0 else (a, r)


def _path_want(spec, tc, ref, cache, op, first, second, ctx_node):
    """reference result (nodes of `ref`) of (first op second) from ctx_node; None: no verdict"""
    if tc['ctx_dummy']:
        # Element root with fragment unset: '/' is the hidden implicit document
        if 'refc' not in cache:
            refc = xdm.ref_tree(spec, tc, for_context=True)
            for rn in [n for n in ref.nodes if n.kind == 'element']:
                refc.adopt_order((0,) + rn.addr, [x.name for x in rn.nss], [x.name for x in rn.attrs])
            refc.renumber()
            cache['refc'] = refc
        tree, ctx = cache['refc'], cache['refc'].by_addr[(0,) + ctx_node.addr]
        back = lambda n: ref.by_addr[n.addr[1:]]
    elif ref.top.kind == 'element':
        return None             # fragment: absolute paths on an element-topped tree are C01's assumption, not judged here
    else:
        tree, ctx, back = ref, ctx_node, (lambda n: n)
    ev = xdm.Evaluator(tree)
    r1, i1 = ev.evaluate(first, ctx)
    r2, i2 = ev.evaluate(second, ctx)
    if tc['ctx_dummy'] and (i1.doc_upward or i2.doc_upward):
        return None
    s2 = {id(x) for x in r2}
    if op in ('union', '|'):
        res = {id(x): x for x in r1 + r2}
    elif op == 'intersect':
        res = {id(x): x for x in r1 if id(x) in s2}
    else:
        res = {id(x): x for x in r1 if id(x) not in s2}
    return [back(n) for n in sorted(res.values(), key=lambda x: x.order) if n.kind != 'document' or not tc['ctx_dummy']]


def _render_op(op):
    if op == 'var-parent':
        return '$A/..'
    if op == 'item-parent':
        return '..'
    if op in ('is', '<<', '>>', 'union', '|', 'intersect', 'except'):
        return f'$A {op} $B'
    return f'{op}($A)'


_PARSERS = {}


def _parser30():
    if 'p' not in _PARSERS:
        from elementpath.xpath30 import XPath30Parser
        _PARSERS['p'] = XPath30Parser()
    return _PARSERS['p']


def judge_ops(case, rec: Recorder | None = None) -> list[Disc]:
    from elementpath import XPathContext, ElementPathError
    discs: list[Disc] = []
    spec, cfg = case['spec'], case['cfg']
    tc = xdm.tree_config(spec, cfg['backend'], cfg['rootkind'], cfg['fragment'], cfg['namespaces'])
    ref = xdm.ref_tree(spec, tc)
    try:
        b, top = build_impl(spec, cfg)
    except Exception:
        return discs        # reported by the tree sub-check
    if not adopt_all(ref, top):
        if rec is not None:
            rec.cls('ops:skipped-structure-differs')
        return discs
    be = cfg['backend']
    top0 = top
    cache = {}
    for o in case['ops']:
        op = o['op']
        A = [ref.nodes[i % len(ref.nodes)] for i in o['A']]
        B = [ref.nodes[i % len(ref.nodes)] for i in o['B']]
        if op in ('is', '<<', '>>'):
            A, B = A[:1] if o['A'] and o['A'][0] % 7 else A[:2], B[:1] if o['B'] and o['B'][0] % 5 else B[:2]
        if op == 'root':
            A = A[:1]
        if op == 'item-parent':
            A = A[:1] or [ref.top]
        pathop = op.startswith('path-')
        if pathop:
            A, B = A[:1] or [ref.root], []
            if A[0].kind in ('attribute', 'namespace'):
                A = [A[0].parent]       # (attribute:: from an attribute context is a recorded C01 finding, not this sub-check's subject)
        raw = bool(o.get('raw'))
        if raw:
            # every operand becomes a node that the caller can hold as an etree object
            A, B = [_rawable(ref, cfg, x) for x in A], [_rawable(ref, cfg, x) for x in B]
        if pathop:
            first, second = _path_operands(o)
            want = _path_want(spec, tc, ref, cache, op[5:], first, second, A[0])
            expr = '(%s %s %s)' % (xdm.render(first), op[5:], xdm.render(second))
            if want is None:
                if rec is not None:
                    rec.cls('ops:path-op-no-verdict')
                continue
        else:
            want = _ref_op(ref, op, A, B)
            expr = _render_op(op)
        kinds = ('raw-objects' if raw else 'with-attr-or-ns' if any(x.kind in ('attribute', 'namespace') for x in A + B)
                 else 'tree-nodes-only')
        try:
            tok = _parser30().parse(expr)
            ns = None if cfg['namespaces'] is None else dict(cfg['namespaces'])
            if raw:
                shift = () if ref.top.kind == 'document' else (b.n_pre,)
                obj = lambda x: b.tree if x.kind == 'document' else b.by_addr[shift + x.addr]
                root_obj = b.tree if cfg['rootkind'] == 'doc' else b.root
                kw = {'item': obj(A[0])} if op == 'item-parent' or pathop else {}
                ctx = XPathContext(root_obj, namespaces=ns, fragment=cfg['fragment'],
                                   variables={'A': [obj(x) for x in A], 'B': [obj(x) for x in B]}, **kw)
                top = ctx.root
            else:
                top = top0
                nA, nB = [ep_find(top, x.addr) for x in A], [ep_find(top, x.addr) for x in B]
                kw = {'item': nA[0]} if op == 'item-parent' or pathop else {}
                ctx = XPathContext(top, variables={'A': nA, 'B': nB}, **kw)
            got = [x for x in tok.select(ctx) if not (x is ctx.document and x is not top)]      # hidden implicit document
        except ElementPathError as e:
            got = 'error'
            if want not in ('error', 'error-or-empty'):
                discs.append(Disc(f'C02/ops/{op}/unexpected-error/{getattr(e, "code", "?")}', _show(want), repr(e),
                                  f'{expr} A={[x.addr for x in A]} B={[x.addr for x in B]}'))
        except Exception as e:
            discs.append(Disc(escape_bucket('C02', e) + f'/ops-{op}', _show(want), repr(e),
                              f'{expr} A={[x.addr for x in A]} B={[x.addr for x in B]}'))
            got = 'escape'
        if got not in ('error', 'escape'):
            if want == 'error-or-empty':
                if got != []:
                    discs.append(Disc(f'C02/ops/{op}/value/multi-item-operand', 'XPTY0004 or ()', _show_got(got, top)))
            elif want == 'error':
                discs.append(Disc(f'C02/ops/{op}/missing-type-error', 'XPTY0004', _show_got(got, top)))
            elif want is None or isinstance(want, bool):
                exp = [] if want is None else [want]
                if got != exp or (got and type(got[0]) is not bool):
                    same_parent = (A and B and A[0].kind in ('attribute', 'namespace') and A[0].kind == B[0].kind
                                   and A[0].parent is B[0].parent)
                    discs.append(Disc(f'C02/ops/{op}/value/{A[0].kind if A else "empty"},{B[0].kind if B else "empty"}'
                                      + ('/same-element' if same_parent else ''), exp, got,
                                      f'{expr} A={[x.addr for x in A]} B={[x.addr for x in B]} {be}'))
            else:
                ga = [xdm.ep_address(x, top) if hasattr(x, 'node_kind') else ('?', repr(x)) for x in got]
                wa = [x.addr for x in want]
                if ga != wa:
                    kind = 'members' if sorted(map(repr, ga)) != sorted(map(repr, wa)) else 'order'
                    discs.append(Disc(f'C02/ops/{op}/{kind}/{kinds}', wa, ga,
                                      f'{expr} A={[x.addr for x in A]} B={[x.addr for x in B]} {be}'))
        if rec is not None:
            distinct = len({id(x) for x in A + B})
            classes = ['ops:case', f'ops:{op}']
            if any(x.kind in ('attribute', 'namespace') for x in A + B):
                classes.append('ops:attr-or-ns-operand')
            if pathop and A[0] is not ref.top and A[0] is not ref.root:
                classes.append('ops:path-operands-from-inner-context')
            if raw:
                classes.append('ops:raw-objects')
                if any(x.kind in ('comment', 'pi') for x in A + B):
                    classes.append('ops:raw-comment-or-pi-operand')
            rec.case([spec, cfg['backend'], cfg['rootkind'], cfg['fragment'], op, raw, [x.addr for x in A], [x.addr for x in B]],
                     nontrivial=distinct >= 2, classes=classes,
                     sample={'check': 'ops', 'xml': gx.to_xml(spec), 'expr': expr, 'A': [x.addr for x in A],
                             'B': [x.addr for x in B], 'expected': _show(want)})
    return discs


def _show(want):
    if isinstance(want, list):
        return [x.addr for x in want]
    return want


def _show_got(got, top):
    return [xdm.ep_address(x, top) if hasattr(x, 'node_kind') else x for x in got]


# --------------------------------------------------------------------------
# module interface
# --------------------------------------------------------------------------
_JUDGES = {'tree': judge_tree, 'ops': judge_ops}


def _strategy(job):
    if job['check'] == 'tree':
        return _tree_cases(job['max_elems'])
    return _ops_cases(job['max_elems'])


def selftest():
    xdm.self_test()
    E = lambda n, c=(), a=(), t=None, tl=None, decl=(): {'k': 'e', 'ns': None, 'n': n, 'decl': list(decl),
                                                        'a': [list(x) for x in a], 't': t, 'c': list(c), 'tl': tl}
    spec = gx.normalize({'root': E('r', [E('a', t='t', tl='u', a=[(None, 'x', '1')], decl=['p']),
                                         {'k': 'c', 'v': 'c1', 'tl': 'w'}], t=''),
                         'pre': [{'k': 'c', 'v': 'c0', 'tl': None}], 'post': [{'k': 'p', 'tg': 'x', 'v': 'y', 'tl': None}]})
    t = xdm.RefTree(spec, 'document', True, 'lxml')
    assert [n.kind for n in t.nodes] == ['document', 'comment', 'element', 'namespace', 'text', 'element', 'namespace',
                                         'namespace', 'attribute', 'text', 'text', 'comment', 'text', 'pi']
    assert t.top.string_value == 'tuw' and t.root.string_value == 'tuw'
    # XDM 3.1 section 6.1.2 / F&O: innermost/outermost and set operators on the model
    a = t.by_addr[(1, 1)]
    txt = t.by_addr[(1, 1, 0)]
    assert _ref_op(t, 'innermost', [t.root, a, txt], []) == [txt]
    assert _ref_op(t, 'outermost', [txt, a, t.root], []) == [t.root]
    assert _ref_op(t, 'union', [txt, a], [a, t.root]) == [t.root, a, txt]
    assert _ref_op(t, 'except', [txt, a], [a]) == [txt]
    assert _ref_op(t, '<<', [a], [txt]) is True and _ref_op(t, 'is', [a], [a]) is True
    t2 = xdm.RefTree(spec, 'element', False, {'': 'urn:d', 'q': 'urn:q'})
    assert [x.name for x in t2.root.nss] == ['xml', '', 'q'] and t2.top is t2.root


def jobs(tier, seed):
    q = tier == 'quick'
    out = []
    nt, no = (9, 6) if q else (10, 6)
    per_t, per_o = (1800, 1400) if q else (20000, 16000)
    me = 10 if q else 24
    for i in range(nt):
        out.append({'check': 'tree', 'shard': i, 'n': per_t, 'max_elems': me, 'seed': derive_seed(seed, 'C02', 'tree', i)})
    for i in range(no):
        out.append({'check': 'ops', 'shard': i, 'n': per_o, 'max_elems': me, 'seed': derive_seed(seed, 'C02', 'ops', i)})
    return out


def run_job(job, rec: Recorder):
    chk = job['check']
    jd = _JUDGES[chk]
    hyp_collect(_strategy(job), lambda case: rec.discs_of(chk, case, jd(case, rec)), job['n'], job['seed'], rec)


def shrink_job(job, bucket, budget):
    chk = job['check']
    return gx.find_and_minimize(_strategy(job), _JUDGES[chk], bucket, job['n'], job['seed'], min(budget, 250))


def judge(check, case):
    return _JUDGES[check](case)
