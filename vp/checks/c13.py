"""C13 - Unicode code-point sets are exact: set algebra and category/block tables."""
from __future__ import annotations

import json
import os
import subprocess
import sys
import unicodedata

from hypothesis import strategies as st

from vp.core import Disc, Recorder, derive_seed, hyp_collect, hyp_shrink, escape_bucket
from vp.ref import uniclass

PROPERTY = 'C13'
LEVEL = 'exploration'
RULE = ('histories: hypothesis-generated operation lists (add/discard/update/difference_update/|= -= &= ^=/'
        '| - & ^/complement/copy/clear/eq) on UnicodeSubset over a 41-code-point window (at 0, at 0x61 and at the '
        'top of the code space) and on CharacterClass (add/discard/complement/-=/-) judged on a probe universe; '
        'oracle = python set model + representation invariant after every step. non-trivial = history with an '
        'operation whose argument overlaps/touches >= 2 stored entries, or a complement; distinct by canonical '
        'operation list. tables: every installable Unicode version, all 0x110000 code points (exhaustive part).')
ASSUMPTIONS = [
    'UnicodeSubset(list) is only given sorted-able, pairwise disjoint, non-adjacent lists (what the package itself '
    'passes); every other entry point (update, add, |=, strings) gets arbitrary overlapping items',
    'exact category truth only for the unicodedata versions present offline (running interpreter; /usr/bin/python3)',
    '\\i and \\c are judged on ASCII plus a few BMP points where XML 1.0 2nd and 5th edition agree',
]
FLOORS = {'subset:multi-span-op': (0.10, 'subset:history'), 'cclass:mixed-state': (0.10, 'cclass:history')}

MAXU = 0x10FFFF
WIN = 40
BASES = (0, 0x61, MAXU - WIN)

# --------------------------------------------------------------------------
# strategies (JSON-able cases)
# --------------------------------------------------------------------------
_off = st.integers(0, WIN)


@st.composite
def _item(draw):
    if draw(st.integers(0, 9)) < 4:
        return draw(_off)
    lo = draw(_off)
    ln = draw(st.sampled_from([1, 1, 2, 2, 3, 4, 5, 8, 13]))
    return [lo, min(lo + ln, WIN + 1)] if lo + 1 <= WIN + 1 and lo < min(lo + ln, WIN + 1) else lo


_items = st.lists(_item(), min_size=0, max_size=5)
_OPS_ITEM = ['add', 'discard']
_OPS_ITEMS = ['update', 'difference_update', 'ior_iter', 'isub_iter', 'iand_iter',
              'ior_sub', 'isub_sub', 'iand_sub', 'ixor_sub', 'or_sub', 'sub_sub', 'and_sub', 'xor_sub',
              'or_iter', 'sub_iter', 'eq_other']
_OPS_STR = ['update_str', 'difference_update_str', 'ior_str', 'isub_str']
_OPS_NULL = ['complement', 'copy', 'clear', 'reversed', 'self_xor', 'rebuild']


@st.composite
def _subset_op(draw):
    k = draw(st.integers(0, 99))
    if k < 45:
        return [draw(st.sampled_from(_OPS_ITEM)), draw(_item())]
    if k < 80:
        return [draw(st.sampled_from(_OPS_ITEMS)), draw(_items)]
    if k < 88:
        return [draw(st.sampled_from(_OPS_STR)), draw(_items)]
    return [draw(st.sampled_from(_OPS_NULL))]


subset_history = st.fixed_dictionaries({
    'base': st.sampled_from(BASES),
    'init_kind': st.sampled_from(['list', 'iter', 'str', 'subset', 'none']),
    'init': _items,
    'ops': st.lists(_subset_op(), min_size=1, max_size=25),
})

_CC_PARTS = ['a', 'b', 'c', 'd', 'x', '5', '0', '_', ' ', '$', 'a-c', 'b-d', '0-9', 'a-z', '\\d', '\\D', '\\s', '\\S',
             '\\w', '\\i', '\\c', '\\p{Lu}', '\\P{Lu}', '\\p{L}', '\\p{Nd}', '\\P{Nd}', '\\W', '\\C',
             '\\p{IsBasicLatin}', '\\P{IsBasicLatin}', '\\n', '\\t', '\\-', '\\.', '\\\\', '\u0663', '\u00e9', 'A-Z']
_INT_ARGS = [0x41, 0x61, 0x35, 0x24, 0x20, 0x5F, 0xE9, 0x663, 0x2028, 0x4E00]
_cc_charset = st.lists(st.sampled_from(_CC_PARTS), min_size=1, max_size=3).map(''.join)
_cc_op = st.one_of(
    st.tuples(st.sampled_from(['add', 'add', 'discard']), _cc_charset).map(list),
    # MutableSet-style integer arguments (a code point of the probe universe)
    st.tuples(st.sampled_from(['add', 'discard', 'discard']), st.sampled_from(_INT_ARGS)).map(list),
    st.sampled_from([['complement'], ['len'], ['iter']]),
    st.tuples(st.sampled_from(['isub', 'sub']), st.lists(st.tuples(st.sampled_from(['add', 'complement']),
                                                                    _cc_charset).map(list), max_size=3)).map(list),
)
cclass_history = st.fixed_dictionaries({
    'xsd_version': st.sampled_from(['1.0', '1.1']),
    'init': st.one_of(st.none(), _cc_charset),
    'ops': st.lists(_cc_op, min_size=1, max_size=10),
})

# --------------------------------------------------------------------------
# UnicodeSubset histories
# --------------------------------------------------------------------------


def _abs_item(base, it):
    if isinstance(it, int):
        return base + it
    return (base + it[0], base + it[1])


def _item_set(it):
    return {it} if isinstance(it, int) else set(range(it[0], it[1]))


def _items_set(items):
    s = set()
    for it in items:
        s |= _item_set(it)
    return s


def _normalized(items):
    """sorted, disjoint, non-adjacent list equivalent to items (own code)."""
    pts = sorted(_items_set(items))
    out, i = [], 0
    while i < len(pts):
        j = i
        while j + 1 < len(pts) and pts[j + 1] == pts[j] + 1:
            j += 1
        out.append(pts[i] if i == j else (pts[i], pts[j] + 1))
        i = j + 1
    return out


def _render_str(items):
    """regex character-set string for items (only used with base 0x61, offsets clipped to a-z)."""
    out = []
    for it in items:
        if isinstance(it, int):
            out.append(chr(it))
        elif it[1] - it[0] == 1:
            out.append(chr(it[0]))
        else:
            out.append(chr(it[0]) + '-' + chr(it[1] - 1))
    return ''.join(out)


def _clip_az(items):
    res = []
    for it in items:
        if isinstance(it, int):
            if 0x61 <= it <= 0x7A:
                res.append(it)
        else:
            lo, hi = max(it[0], 0x61), min(it[1], 0x7B)
            if lo < hi:
                res.append((lo, hi))
    return res


def _spans(rep):
    return [(c, c + 1) if isinstance(c, int) else (c[0], c[1]) for c in rep]


def _rep_problems(rep):
    """Representation invariant: sorted, non-empty ranges, disjoint, non-adjacent."""
    probs = []
    prev_end = None
    for c in rep:
        if isinstance(c, int):
            lo, hi = c, c + 1
        else:
            if not (isinstance(c, tuple) and len(c) == 2):
                probs.append('bad-entry')
                continue
            lo, hi = c
            if hi - lo == 1:
                probs.append('singleton-as-range')
        if not (0 <= lo < hi <= MAXU + 1):
            probs.append('bad-range')
        if prev_end is not None:
            if lo < prev_end:
                probs.append('overlap-or-unsorted')
            elif lo == prev_end:
                probs.append('adjacent-unmerged')
        prev_end = hi
    return probs


def _touch_count(rep, it):
    lo, hi = (it, it + 1) if isinstance(it, int) else it
    return sum(1 for a, b in _spans(rep) if a <= hi and lo <= b)


def judge_subset(case, rec: Recorder | None = None) -> list[Disc]:
    from elementpath.regex import UnicodeSubset
    discs: list[Disc] = []
    base = case['base']
    top = base == BASES[2]

    def ab(items):
        res = [_abs_item(base, it) for it in items]
        # clip at the end of the code space
        out = []
        for it in res:
            if isinstance(it, int):
                if it <= MAXU:
                    out.append(it)
            else:
                lo, hi = it[0], min(it[1], MAXU + 1)
                if lo < hi:
                    out.append((lo, hi))
        return out

    def mk(items, kind):
        items = ab(items)
        if kind == 'list':
            return UnicodeSubset(_normalized(items)), _items_set(items)
        if kind == 'iter':
            return UnicodeSubset(tuple(items)), _items_set(items)
        if kind == 'str' and base == 0x61:
            items = _clip_az(items)
            return UnicodeSubset(_render_str(items)), _items_set(items)
        if kind == 'subset':
            return UnicodeSubset(UnicodeSubset(_normalized(items))), _items_set(items)
        return UnicodeSubset(), set()

    multi = compl = False
    try:
        S, M = mk(case['init'], case['init_kind'])
    except Exception as e:
        return [Disc(escape_bucket('C13', e) + '/init', 'subset', repr(e))]

    def verify(S, M, opname, out):
        """compare S to model M; returns list of problem tags"""
        tags = []
        try:
            lst = list(S)
        except Exception as e:
            return ['iter-raises:' + type(e).__name__]
        if set(lst) != M:
            tags.append('members')
        elif lst != sorted(M):
            tags.append('iteration-order-or-duplicates')
        if len(S) != len(M):
            tags.append('len')
        probe = {base, base + WIN, min(base + WIN + 1, MAXU)} | {x + d for x in list(M)[:6] for d in (-1, 0, 1)
                                                                if 0 <= x + d <= MAXU}
        for p in probe:
            if (p in S) != (p in M):
                tags.append('contains')
                break
            if (chr(p) in S) != (p in M):
                tags.append('contains-str')
                break
        tags.extend(sorted(set(_rep_problems(S._codepoints))))
        if not tags:
            fresh = UnicodeSubset()
            fresh.update(sorted(M))
            if not (S == fresh) or not (fresh == S):
                tags.append('extensional-eq')
        return tags

    for i, op in enumerate(case['ops']):
        name = op[0]
        arg = op[1] if len(op) > 1 else None
        before_rep = list(S._codepoints)
        try:
            if name in ('add', 'discard'):
                it = ab([arg])
                if not it:
                    continue
                it = it[0]
                if _touch_count(before_rep, it) >= 2:
                    multi = True
                if name == 'add':
                    S.add(it)
                    M = M | _item_set(it)
                else:
                    S.discard(it)
                    M = M - _item_set(it)
            elif name in _OPS_ITEMS:
                items = ab(arg)
                O = _items_set(items)
                if any(_touch_count(before_rep, it) >= 2 for it in items):
                    multi = True
                kind = name.split('_')[-1]
                if kind in ('sub', 'other'):
                    other = UnicodeSubset()
                    other.update(items)
                    other_rep = list(other._codepoints)
                else:
                    other = list(items)
                    other_rep = None
                opn = name.split('_')[0]
                if name == 'update':
                    S.update(other)
                    M = M | O
                elif name == 'difference_update':
                    S.difference_update(other)
                    M = M - O
                elif opn == 'ior':
                    S |= other
                    M = M | O
                elif opn == 'isub':
                    S -= other
                    M = M - O
                elif opn == 'iand':
                    S &= other
                    M = M & O
                elif opn == 'ixor':
                    S ^= other
                    M = M ^ O
                elif opn in ('or', 'sub', 'and', 'xor'):
                    snap = list(S._codepoints)
                    R = {'or': S.__or__, 'sub': S.__sub__, 'and': S.__and__, 'xor': S.__xor__}[opn](other)
                    RM = {'or': M | O, 'sub': M - O, 'and': M & O, 'xor': M ^ O}[opn]
                    if S._codepoints != snap:
                        discs.append(Disc(f'C13/subset/binary-op-mutates-left/{opn}', snap, S._codepoints, f'step {i}'))
                    for t in verify(R, RM, name, discs):
                        discs.append(Disc(f'C13/subset/{t}/{name}', sorted(RM)[:50], R._codepoints[:50], f'step {i} result'))
                    if not isinstance(R, UnicodeSubset):
                        discs.append(Disc(f'C13/subset/result-type/{name}', 'UnicodeSubset', type(R).__name__))
                elif name == 'eq_other':
                    want = (M == O)
                    if (S == other) != want or (other == S) != want:
                        # only a verdict when both representations are canonical (else reported by rep invariant)
                        if not _rep_problems(S._codepoints) and not _rep_problems(other._codepoints):
                            discs.append(Disc('C13/subset/eq-not-extensional/eq_other', want, S == other,
                                              f'{S._codepoints} vs {other._codepoints}'))
                if other_rep is not None and list(other._codepoints) != other_rep:
                    discs.append(Disc(f'C13/subset/operand-mutated/{name}', other_rep, other._codepoints, f'step {i}'))
            elif name in _OPS_STR:
                if base != 0x61:
                    continue
                items = _clip_az(ab(arg))
                s = _render_str(items)
                O = _items_set(items)
                if not s:
                    continue
                if name == 'update_str':
                    S.update(s)
                    M = M | O
                elif name == 'difference_update_str':
                    S.difference_update(s)
                    M = M - O
                elif name == 'ior_str':
                    S |= s
                    M = M | O
                elif name == 'isub_str':
                    S -= s
                    M = M - O
            elif name == 'complement':
                compl = True
                comp = list(S.complement())
                spans = sorted(_spans(comp) + _spans(_normalized(sorted(M))))
                pos, ok = 0, True
                for a, b in spans:
                    if a != pos or b <= a:
                        ok = False
                        break
                    pos = b
                if not ok or pos != MAXU + 1:
                    discs.append(Disc('C13/subset/complement-not-partition/complement', 'tiles [0,0x110000)',
                                      comp[:20], f'step {i} S={S._codepoints}'))
                elif any(t != 'singleton-as-range' for t in _rep_problems(sorted(
                        comp, key=lambda c: c if isinstance(c, int) else c[0]))) and False:
                    pass
                C = UnicodeSubset(comp)
                for p in (0, base, base + WIN, MAXU, *(list(M)[:3])):
                    if (p in C) == (p in M):
                        discs.append(Disc('C13/subset/complement-membership/complement', p not in M, p in C, f'cp {p}'))
                        break
            elif name == 'copy':
                C = S.copy()
                if C._codepoints is S._codepoints or C._codepoints != S._codepoints:
                    discs.append(Disc('C13/subset/copy/copy', S._codepoints, C._codepoints))
                C.add(base + 1)
                C.discard(base + 2)
                if S._codepoints != before_rep:
                    discs.append(Disc('C13/subset/copy-aliases/copy', before_rep, S._codepoints))
            elif name == 'clear':
                S.clear()
                M = set()
            elif name == 'reversed':
                r = list(reversed(S))
                if r != sorted(M, reverse=True):
                    discs.append(Disc('C13/subset/reversed/reversed', sorted(M, reverse=True)[:30], r[:30]))
            elif name == 'self_xor':
                S ^= S
                M = set()
            elif name == 'rebuild':
                S2 = UnicodeSubset(S)
                if not (S2 == S):
                    discs.append(Disc('C13/subset/copy-constructor/rebuild', S._codepoints, S2._codepoints))
        except Exception as e:
            discs.append(Disc(escape_bucket('C13', e) + '/' + name, 'no exception', repr(e), f'step {i} {op}'))
            S = UnicodeSubset()
            S.update(sorted(M))
            continue
        tags = verify(S, M, name, discs)
        if tags:
            for t in tags:
                discs.append(Disc(f'C13/subset/{t}/{name}', sorted(M)[:60], list(S._codepoints)[:60],
                                  f'step {i} op={op} before={before_rep[:30]}'))
            # re-synchronise so that the search continues behind this discrepancy
            S = UnicodeSubset()
            S.update(sorted(M))
            if rec is not None:
                rec.cls('subset:resync')
    if rec is not None:
        key = [case['base'], case['init_kind'], case['init'], case['ops']]
        classes = ['subset:history']
        if multi:
            classes.append('subset:multi-span-op')
        if compl:
            classes.append('subset:complement')
        if top:
            classes.append('subset:top-window')
        rec.case(key, nontrivial=multi or compl, sample={'check': 'subset', 'case': case}, classes=classes)
    return discs


# --------------------------------------------------------------------------
# CharacterClass histories
# --------------------------------------------------------------------------
_UNIVERSE = sorted({ord(c) for c in '059abcdexzABZ $-._\\:^[]+~'} | {0x9, 0xA, 0xD, 0xB, 0xA0, 0xB7, 0xC0, 0xD7, 0xE9,
                                                                  0x3A9, 0x663, 0x2003, 0x2028, 0x4E00, 0x1F600,
                                                                  0x10FFFF, 0xE000, 0x378, 0x0})
_TINY_PROBE = [0x24, 0x35, 0x61]
_SMALL_PROBE = [0x20, 0x24, 0x35, 0x41, 0x5F, 0x61, 0x7A, 0xE9, 0x663, 0x2003, 0x4E00]

import re as _re
_PART_RE = _re.compile(r'\\[pP]\{[^}]*\}|\\.|.-.|.', _re.S)


def _charset_members(charset: str):
    """(members within _UNIVERSE, undecided points) for a charset built from _CC_PARTS."""
    mem, undecided = set(), set()
    for part in _PART_RE.findall(charset):
        if part.startswith('\\p') or part.startswith('\\P'):
            name = part[3:-1]
            neg = part[1] == 'P'
            for cp in _UNIVERSE:
                if name.startswith('Is'):
                    lo, hi = uniclass.BLOCKS[name[2:]]
                    inside = lo <= cp <= hi
                else:
                    inside = uniclass.in_category(name, cp)
                if inside != neg:
                    mem.add(cp)
        elif len(part) == 2 and part[0] == '\\':
            ch = part[1]
            if ch in 'sdwicSDWIC':
                for cp in _UNIVERSE:
                    v = uniclass.in_escape(ch.lower(), cp)
                    if v is None:
                        undecided.add(cp)
                    elif v != ch.isupper():
                        mem.add(cp)
            else:
                mem.add(ord({'n': '\n', 't': '\t', 'r': '\r'}.get(ch, ch)))
        elif len(part) == 3 and part[1] == '-':
            mem |= {cp for cp in _UNIVERSE if ord(part[0]) <= cp <= ord(part[2])}
        else:
            mem.add(ord(part))
    return mem & set(_UNIVERSE), undecided


def judge_cclass(case, rec: Recorder | None = None) -> list[Disc]:
    from elementpath.regex import CharacterClass
    discs: list[Disc] = []
    U = set(_UNIVERSE)
    mixed = False

    def state_kind(c):
        return ('P' if c.positive._codepoints else '') + ('N' if c.negative._codepoints else '') or 'empty'

    def probes(*ccs):
        # CharacterClass.__contains__ costs O(len(negative)) code points: probe fewer points on huge classes
        size = max(sum(b - a for a, b in _spans(c.negative._codepoints)) for c in ccs)
        return _UNIVERSE if size < 3000 else _SMALL_PROBE if size < 50000 else _TINY_PROBE

    def snap(c):
        return list(c.positive._codepoints), list(c.negative._codepoints)

    class St:
        """object + model; `und` = probe points on which no verdict is given"""
        def __init__(self, cc):
            self.cc, self.M, self.und = cc, set(), set()

        def verify(self, tag, i, op):
            cc = self.cc
            bad = [cp for cp in probes(cc) if cp not in self.und and (cp in cc) != (cp in self.M)]
            if bad:
                discs.append(Disc(f'C13/cclass/members/{tag}', bad[0] in self.M, bad[0] in cc,
                                  f'step {i} op={op} cp={bad[0]:#x} n_bad={len(bad)}'))
                self.resync()
                return False
            return True

        def resync(self):
            # continue the history relative to the object's actual content
            pr = probes(self.cc)
            self.M = {cp for cp in pr if cp in self.cc}
            self.und = U - set(pr)
            if rec is not None:
                rec.cls('cclass:resync')

        def apply(self, name, arg):
            """apply add/discard/complement to object and model"""
            if name == 'add':
                self.cc.add(arg)
                mm, uu = ({arg} & U, set()) if isinstance(arg, int) else _charset_members(arg)
                self.M = self.M | mm
                self.und |= uu
            elif name == 'discard':
                self.cc.discard(arg)
                mm, uu = ({arg} & U, set()) if isinstance(arg, int) else _charset_members(arg)
                self.M = self.M - mm
                self.und |= uu
            elif name == 'complement':
                self.cc.complement()
                self.M = U - self.M

    ver = case['xsd_version']
    try:
        st_ = St(CharacterClass(case['init'], xsd_version=ver) if case['init'] else CharacterClass(xsd_version=ver))
    except Exception as e:
        return [Disc(escape_bucket('C13', e) + '/cc-init', 'class', repr(e))]
    if case['init']:
        st_.M, st_.und = _charset_members(case['init'])
        st_.und = set(st_.und)
        st_.verify('init', -1, case['init'])

    for i, op in enumerate(case['ops']):
        name = op[0]
        cc = st_.cc
        kind = state_kind(cc)
        if kind == 'PN':
            mixed = True
        try:
            if name in ('add', 'discard', 'complement'):
                st_.apply(name, op[1] if len(op) > 1 else None)
                st_.verify(f'{name}{"-int" if len(op) > 1 and isinstance(op[1], int) else ""}/{kind}', i, op)
            elif name == 'len':
                if not cc.negative._codepoints:
                    n = len(cc)
                    if n != len(set(cc.positive)):
                        discs.append(Disc('C13/cclass/len/positive-only', len(set(cc.positive)), n))
            elif name == 'iter':
                if not cc.negative._codepoints:
                    lst = list(cc)
                    if lst != sorted(set(lst)) or {x for x in lst if x in U and x not in st_.und} != \
                            {x for x in st_.M if x not in st_.und}:
                        discs.append(Disc(f'C13/cclass/iter/{kind}', sorted(st_.M)[:30], lst[:30], f'step {i}'))
            elif name in ('isub', 'sub'):
                o = St(CharacterClass(xsd_version=ver))
                for j, oop in enumerate(op[1]):
                    o.apply(oop[0], oop[1])
                    if not o.verify(f'{oop[0]}/{state_kind(o.cc)}', i, oop):
                        pass
                okind = state_kind(o.cc)
                o_snap = snap(o.cc)
                if name == 'isub':
                    cc -= o.cc
                    st_.cc = cc
                    st_.M = st_.M - o.M
                    st_.und |= o.und
                    st_.verify(f'isub/{kind}-{okind}', i, op)
                else:
                    before = snap(cc)
                    R = St(cc - o.cc)
                    R.M, R.und = st_.M - o.M, st_.und | o.und
                    if R.cc is cc or snap(cc) != before:
                        discs.append(Disc('C13/cclass/binary-op-mutates-left/sub', before[0][:10],
                                          cc.positive._codepoints[:10], f'step {i}'))
                        st_.resync()
                    else:
                        R.verify(f'sub/{kind}-{okind}', i, op)
                if snap(o.cc) != o_snap:
                    discs.append(Disc(f'C13/cclass/operand-mutated/{name}', o_snap[0][:10], o.cc.positive._codepoints[:10]))
        except Exception as e:
            discs.append(Disc(escape_bucket('C13', e) + '/cc-' + name, 'no exception', repr(e), f'step {i} {op}'))
            break
    for cp in (0x61, 0x35):
        if (chr(cp) in st_.cc) != (cp in st_.cc):
            discs.append(Disc('C13/cclass/contains-str', cp in st_.cc, chr(cp) in st_.cc))
    if rec is not None:
        classes = ['cclass:history'] + (['cclass:mixed-state'] if mixed else [])
        rec.case([case['xsd_version'], case['init'], case['ops']],
                 nontrivial=mixed or any(o[0] in ('complement', 'isub', 'sub') for o in case['ops']),
                 sample={'check': 'cclass', 'case': case}, classes=classes)
    return discs


# --------------------------------------------------------------------------
# tables
# --------------------------------------------------------------------------

def _cat_runs_from_unicodedata():
    runs, start, cur = [], 0, unicodedata.category(chr(0))
    for cp in range(1, MAXU + 1):
        c = unicodedata.category(chr(cp))
        if c != cur:
            runs.append((start, cp, cur))
            start, cur = cp, c
    runs.append((start, MAXU + 1, cur))
    return runs


_DUMP = r'''
import unicodedata, json, sys
runs=[]; start=0; cur=unicodedata.category(chr(0))
for cp in range(1, 0x110000):
    c=unicodedata.category(chr(cp))
    if c!=cur:
        runs.append((start,cp,cur)); start,cur=cp,c
runs.append((start,0x110000,cur))
json.dump({"version":unicodedata.unidata_version,"runs":runs}, sys.stdout)
'''


def _subset_runs(subsets: dict):
    """[(lo, hi, name)] sorted, from {name: UnicodeSubset}; raises on nothing."""
    runs = []
    for name, s in subsets.items():
        for a, b in _spans(s._codepoints):
            runs.append((a, b, name))
    runs.sort()
    return runs


def _norm_spans(spans):
    out = []
    for a, b in sorted(spans):
        if out and a <= out[-1][1]:
            out[-1] = (out[-1][0], max(out[-1][1], b))
        else:
            out.append((a, b))
    return out


def _merge_runs(runs):
    out = []
    for a, b, n in runs:
        if out and out[-1][2] == n and out[-1][1] == a:
            out[-1] = (out[-1][0], b, n)
        else:
            out.append((a, b, n))
    return out


def _check_version_tables(version, truth_runs, rec: Recorder | None, label) -> list[Disc]:
    """Structural checks for an installed version; exact check when truth_runs is given."""
    from elementpath.regex import unicode_subsets as us
    discs = []
    data = us.UnicodeData(version)
    cats = {n: data.category(n) for n in uniclass.CATEGORIES}
    for n, s in cats.items():
        p = [t for t in _rep_problems(s._codepoints) if t != 'singleton-as-range']
        if p:
            discs.append(Disc(f'C13/tables/rep/{p[0]}', 'canonical', n, f'version {version} category {n}'))
    runs = _subset_runs(cats)
    pos = 0
    for a, b, n in runs:
        if a != pos:
            kind = 'overlap' if a < pos else 'hole'
            discs.append(Disc(f'C13/tables/partition-{kind}', pos, a, f'version {version} at {min(a, pos):#x} category {n}'))
            break
        pos = b
    else:
        if pos != MAXU + 1:
            discs.append(Disc('C13/tables/partition-hole', MAXU + 1, pos, f'version {version} tail'))
    # majors = union of subcategories
    for mj in uniclass.MAJORS:
        want = sorted(x for n, s in cats.items() if n[0] == mj for x in _spans(s._codepoints))
        merged = []
        for a, b in want:
            if merged and merged[-1][1] == a:
                merged[-1] = (merged[-1][0], b)
            else:
                merged.append((a, b))
        got = []
        for a, b in _spans(data.category(mj)._codepoints):
            if got and got[-1][1] == a:
                got[-1] = (got[-1][0], b)
            else:
                got.append((a, b))
        if got != merged:
            diff = sorted(set(got) ^ set(merged))[:3]
            discs.append(Disc('C13/tables/major-not-union', 'union of subcategories', diff, f'version {version} major {mj}'))
    # blocks: pairwise disjoint (blocks of this version that are not superseded), inside the code space
    blocks = []
    for key, name in data._unicode_blocks.items():
        xname = name.replace(' ', '').replace('_', '')
        try:
            s = data.block(xname)
        except Exception as e:
            discs.append(Disc(escape_bucket('C13', e) + '/block', name, repr(e), f'version {version}'))
            continue
        for a, b in _spans(s._codepoints):
            if not (0 <= a < b <= MAXU + 1):
                discs.append(Disc('C13/tables/block-range', 'inside code space', (a, b), f'{version} {name}'))
            blocks.append((a, b, name))
    blocks.sort()
    for (a1, b1, n1), (a2, b2, n2) in zip(blocks, blocks[1:]):
        if a2 < b1 and n1 != n2:
            discs.append(Disc(f'C13/tables/blocks-overlap/{n1}~{n2}@{a2:#x}'.replace(' ', ''), 'disjoint', f'{n1} {a1:#x}-{b1:#x} / {n2} {a2:#x}-{b2:#x}', f'version {version}'))
            break
    # spot truth for blocks that never moved
    if tuple(int(x) for x in version.split('.')) >= (3, 0, 0):
        for bn, (lo, hi) in uniclass.BLOCKS.items():
            try:
                s = data.block(bn)
                if _spans(s._codepoints) != [(lo, hi + 1)]:
                    discs.append(Disc('C13/tables/block-wrong', (lo, hi), s._codepoints, f'{version} {bn}'))
            except KeyError:
                discs.append(Disc('C13/tables/block-missing', bn, 'KeyError', f'{version}'))
    n_cp = 0
    if truth_runs is not None:
        got = _merge_runs(runs)
        want = _merge_runs([(a, b, n) for a, b, n in truth_runs])
        n_cp = MAXU + 1
        if got != want:
            # first differing code point
            gi = {(a, b): n for a, b, n in got}
            d = sorted(set(got) ^ set(want))[0]
            discs.append(Disc(f'C13/tables/category-mismatch/{label}', f'unicodedata {version}', d,
                              f'first differing run {d[0]:#x}-{d[1]:#x} {d[2]}'))
    if rec is not None:
        rec.case(['tables', version, label], nontrivial=True, classes=['tables:version'] + (['tables:exact'] if truth_runs else []),
                 sample={'check': 'tables', 'version': version, 'exact_against': label if truth_runs else None,
                         'category_runs': len(runs), 'blocks': len(blocks)})
        rec.extra['codepoints_compared_exactly'] = rec.extra.get('codepoints_compared_exactly', 0) + n_cp
    return discs


def judge_tables(case, rec: Recorder | None = None) -> list[Disc]:
    from elementpath.regex import unicode_subsets as us, unicode_category, install_unicode_data, unicode_version
    discs: list[Disc] = []
    mode = case['mode']
    if mode == 'installed':
        # the installed default data, through the public accessor, code point by code point
        truth = _cat_runs_from_unicodedata()
        ver = unicode_version()
        if ver != unicodedata.unidata_version:
            discs.append(Disc('C13/tables/default-version', unicodedata.unidata_version, ver))
        table = bytearray(MAXU + 1)
        names = list(uniclass.CATEGORIES)
        dup = None
        for idx, n in enumerate(names, 1):
            for a, b in _spans(unicode_category(n)._codepoints):
                for cp in range(a, b):
                    if table[cp] and dup is None:
                        dup = (cp, names[table[cp] - 1], n)
                    table[cp] = idx
        if dup:
            discs.append(Disc('C13/tables/partition-overlap', 'one category per code point', dup))
        bad = None
        for a, b, n in truth:
            idx = names.index(n) + 1
            for cp in range(a, b):
                if table[cp] != idx:
                    bad = (cp, n, names[table[cp] - 1] if table[cp] else None)
                    break
            if bad:
                break
        if bad:
            discs.append(Disc('C13/tables/category-mismatch/installed', bad[1], bad[2], f'code point {bad[0]:#x}'))
        discs += _check_version_tables(ver, truth, rec, 'running-interpreter')
        # fallback builder must agree as well
        from elementpath.regex import categories_fallback
        fb = categories_fallback.get_unicodedata_categories()
        got = _merge_runs(_subset_runs({n: fb[n] for n in uniclass.CATEGORIES}))
        if got != _merge_runs(truth):
            d = sorted(set(got) ^ set(_merge_runs(truth)))[0]
            discs.append(Disc('C13/tables/category-mismatch/fallback', 'unicodedata', d))
        if rec is not None:
            rec.extra['codepoints_compared_exactly'] = rec.extra.get('codepoints_compared_exactly', 0) + 2 * (MAXU + 1)
    elif mode == 'other-python':
        exe = '/usr/bin/python3'
        if not os.path.exists(exe):
            if rec is not None:
                rec.notes.append('no /usr/bin/python3: second unicodedata version not checked')
            return discs
        out = subprocess.run([exe, '-c', _DUMP], capture_output=True, text=True, timeout=300,
                             env={'PATH': '/usr/bin:/bin'})
        if out.returncode != 0:
            if rec is not None:
                rec.notes.append('other python failed: ' + out.stderr[-200:])
            return discs
        d = json.loads(out.stdout)
        if d['version'] in us.UNICODE_VERSIONS and d['version'] != unicodedata.unidata_version:
            discs += _check_version_tables(d['version'], [tuple(r) for r in d['runs']], rec, 'usr-bin-python3')
    elif mode == 'url':
        # the third way to obtain tables: get_categories_from_url() on a UnicodeData.txt (here synthesized from
        # unicodedata in the official format, with <.., First>/<.., Last> pairs, served through a file:// URL)
        import tempfile
        truth = _cat_runs_from_unicodedata()
        lines = []
        for a, b, c in truth:
            if c == 'Cn':
                continue                      # unassigned code points are not listed in UnicodeData.txt
            if b - a > 20:
                lines.append('%04X;<R%X, First>;%s;0;L;;;;;N;;;;;' % (a, a, c))
                lines.append('%04X;<R%X, Last>;%s;0;L;;;;;N;;;;;' % (b - 1, a, c))
            else:
                lines.extend('%04X;N%X;%s;0;L;;;;;N;;;;;' % (cp, cp, c) for cp in range(a, b))
        with tempfile.TemporaryDirectory() as d:
            path = os.path.join(d, 'UnicodeData.txt')
            with open(path, 'w') as f:
                f.write('\n'.join(lines) + '\n')
            try:
                cats = us.get_categories_from_url('file://' + path)
            except Exception as e:
                return [Disc(escape_bucket('C13', e) + '/url-install', 'categories', repr(e))]
        for n in uniclass.CATEGORIES:
            if n not in cats:
                if any(c == n for _, _, c in truth):
                    discs.append(Disc('C13/tables/url/category-missing', n, sorted(cats)[:5]))
                continue
            p_ = [t for t in _rep_problems(cats[n]._codepoints) if t != 'singleton-as-range']
            if p_:
                discs.append(Disc(f'C13/tables/url/rep/{p_[0]}', 'canonical', n))
        got = _merge_runs(_subset_runs({n: cats[n] for n in uniclass.CATEGORIES if n in cats}))
        if got != _merge_runs(truth):
            dd = sorted(set(got) ^ set(_merge_runs(truth)))[0]
            discs.append(Disc('C13/tables/category-mismatch/url', 'unicodedata', dd, f'first differing run {dd[0]:#x}-{dd[1]:#x} {dd[2]}'))
        for mj in uniclass.MAJORS:
            if mj not in cats:
                discs.append(Disc('C13/tables/url/category-missing', mj, sorted(cats)[:5]))
                continue
            pm = [t for t in _rep_problems(cats[mj]._codepoints) if t != 'singleton-as-range']
            if pm:
                discs.append(Disc(f'C13/tables/url/rep/{pm[0]}', 'canonical', mj))
            want = _norm_spans([x for n in uniclass.CATEGORIES if n[0] == mj and n in cats for x in _spans(cats[n]._codepoints)])
            if _norm_spans(_spans(cats[mj]._codepoints)) != want:
                discs.append(Disc('C13/tables/major-not-union/url', 'union of subcategories', mj))
        if rec is not None:
            rec.case(['tables', 'url'], nontrivial=True, classes=['tables:url'],
                     sample={'check': 'tables', 'mode': 'url', 'lines': len(lines)})
            rec.extra['codepoints_compared_exactly'] = rec.extra.get('codepoints_compared_exactly', 0) + MAXU + 1
    elif mode == 'version':
        from elementpath.regex import CharacterClass
        before = unicode_version()
        discs += _check_version_tables(case['version'], None, rec, 'structural')

        def shortcut_problems(tag):
            # the multi-character escapes of a CharacterClass must follow the INSTALLED data: \d = Nd, \w = L|M|N|S
            # (history: they are lazily cached, the cache must be dropped by install_unicode_data)
            out = []
            want_d = _norm_spans(_spans(unicode_category('Nd')._codepoints))
            got_d = _norm_spans(_spans(CharacterClass('\\d').positive._codepoints))
            if got_d != want_d:
                out.append(Disc(f'C13/tables/shortcut-stale/d/{tag}', 'category Nd of the installed version',
                                sorted(set(got_d) ^ set(want_d))[:3], f'version {unicode_version()}'))
            want_w = _norm_spans([x for c in 'LMNS' for x in _spans(unicode_category(c)._codepoints)])
            got_w = _norm_spans(_spans(CharacterClass('\\w').positive._codepoints))
            if got_w != want_w:
                out.append(Disc(f'C13/tables/shortcut-stale/w/{tag}', 'L|M|N|S of the installed version',
                                sorted(set(got_w) ^ set(want_w))[:3], f'version {unicode_version()}'))
            neg = CharacterClass('\\D').negative._codepoints
            if _norm_spans(_spans(neg)) != want_d:
                out.append(Disc(f'C13/tables/shortcut-stale/D/{tag}', 'category Nd of the installed version', neg[:3]))
            return out

        # install / restore round trip through the public API (state reset afterwards)
        try:
            discs += shortcut_problems('default-before')          # fills the lazy cache under the default data
            install_unicode_data(case['version'])
            if unicode_version() != case['version']:
                discs.append(Disc('C13/tables/install-version', case['version'], unicode_version()))
            nd = unicode_category('Nd')
            if ord('5') not in nd or ord('a') in nd:
                discs.append(Disc('C13/tables/install-content', "'5' in Nd", nd._codepoints[:5], case['version']))
            discs += shortcut_problems('after-install')
        finally:
            install_unicode_data()
        if unicode_version() != before:
            discs.append(Disc('C13/tables/install-restore', before, unicode_version()))
        discs += shortcut_problems('after-restore')
    return discs


# --------------------------------------------------------------------------
# module interface
# --------------------------------------------------------------------------
_STRATS = {'subset': subset_history, 'cclass': cclass_history}
_JUDGES = {'subset': judge_subset, 'cclass': judge_cclass, 'tables': judge_tables}


def selftest():
    uniclass.self_test()
    assert _normalized([3, (4, 6), 9, (8, 9)]) == [(3, 6), (8, 10)]
    assert _rep_problems([(0, 5), (5, 8)]) == ['adjacent-unmerged']
    assert _rep_problems([1, (3, 6), 9]) == []
    m, u = _charset_members('a-c\\d')
    assert ord('b') in m and ord('5') in m and 0x663 in m and ord('d') not in m


def jobs(tier, seed):
    from elementpath.regex import unicode_subsets as us
    q = tier == 'quick'
    out = []
    ns, nc = (5, 9) if q else (8, 8)
    per_s, per_c = (4000, 130) if q else (60000, 1500)
    for i in range(ns):
        out.append({'check': 'subset', 'shard': i, 'n': per_s, 'seed': derive_seed(seed, 'C13', 'subset', i)})
    for i in range(nc):
        out.append({'check': 'cclass', 'shard': i, 'n': per_c, 'seed': derive_seed(seed, 'C13', 'cclass', i)})
    out.append({'check': 'tables', 'cases': [{'mode': 'installed'}]})
    out.append({'check': 'tables', 'cases': [{'mode': 'other-python'}]})
    out.append({'check': 'tables', 'cases': [{'mode': 'url'}]})
    vers = list(us.UNICODE_VERSIONS)
    k = 4
    for i in range(k):
        out.append({'check': 'tables', 'cases': [{'mode': 'version', 'version': v} for v in vers[i::k]]})
    return out


def run_job(job, rec: Recorder):
    chk = job['check']
    if chk == 'tables':
        for case in job['cases']:
            rec.discs_of('tables', case, judge_tables(case, rec))
        return
    jd = _JUDGES[chk]
    hyp_collect(_STRATS[chk], lambda case: rec.discs_of(chk, case, jd(case, rec)), job['n'], job['seed'], rec)


def shrink_job(job, bucket, budget):
    chk = job['check']
    if chk == 'tables':
        for case in job['cases']:
            for d in judge_tables(case):
                if d.bucket == bucket:
                    return case, d
        return None
    return hyp_shrink(_STRATS[chk], _JUDGES[chk], bucket, job['n'], job['seed'], budget)


def judge(check, case):
    return _JUDGES[check](case)
