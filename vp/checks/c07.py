"""C07 - Comparisons, effective boolean value and logic match the specification tables."""
from __future__ import annotations

import itertools
import math
from fractions import Fraction

from hypothesis import strategies as st

from vp.core import Disc, Recorder, derive_seed, hyp_collect, hyp_shrink, escape_bucket
from vp.gen import atoms as A
from vp.ref import compare as C
from vp.ref import numeric as N

PROPERTY = 'C07'
LEVEL = 'exploration'
EXHAUSTIVE = False
EXHAUSTIVE_NOTE = ('sub-check matrix enumerates every ordered pair of the pooled values of the 22 atomic types '
                   '(about 38 000 pairs) under the six value comparisons and the six general comparisons')
RULE = ('value / matrix: a pair of typed atoms (22 atomic types; constructor calls or literals) under eq ne lt le gt ge and, as '
        'singleton sequences, = != < <= > >=, XPath 2.0/3.0/3.1, implicit timezone unset / -05:00 / +05:00; general: two '
        'sequences of 0-4 atoms under the six general comparisons (existential semantics, untypedAtomic conversion); '
        'general10: XPath 1.0 number/string/boolean pairs under the 1.0 conversion rules; order: triples of atoms of one '
        'comparable kind checked for reflexivity, antisymmetry, transitivity, lt <=> not ge, eq <=> not ne using only '
        'the implementation\'s own answers; ebv: boolean()/not()/if/and/or of a sequence against the EBV table; logic: random '
        'and/or/not/if formulas over EBV-able operands (errors included) against Boolean algebra with evaluation-order '
        'freedom; pathlogic: and/or/not/if formulas whose operands are path expressions (absolute/descendant paths with '
        'empty or non-empty result, relative paths) evaluated on a 9-element document with each element as context item, '
        'directly, commuted, through De Morgan and inside a predicate over a node sequence, against truth values computed '
        'in python on the ElementTree; compat: general comparisons of 2.0/3.0/3.1 parsers with compatibility_mode=True between a single boolean, numbers, '
        'strings, nodes, the empty sequence and sequences of up to 3 of them (boolean, number and string rules of XPath 2.0 '
        '3.5.2); era: every ordered pair of 17-21 dateTime / 13-16 date values around the 1 BCE / 1 CE and 9999 / 10000 year '
        'boundaries with order-swapping timezones, XSD 1.0 and 1.1 year numbering, 2.0 and 3.1 parsers, 12 operators; '
        'tzhistory: the same caller-owned date/time objects passed as $variables to 2-3 '
        'successive rounds of all twelve comparisons under contexts whose implicit timezones differ, each round judged for '
        'its own timezone, objects must stay unchanged. non-trivial = cross-type pair, a sequence of length >= 2, NaN, untypedAtomic, or a timezone-less next to a '
        'timezoned value; distinct by (check, mode, timezone, operands / formula).')
ASSUMPTIONS = [
    'strings are compared with the Unicode codepoint collation only (python str order)',
    'a comparison that mixes a timezone-less and a timezoned date/time value is judged only when the context sets the '
    'implicit timezone explicitly (XPathContext(timezone=...)): then the implicit timezone is DEMANDED (no UTC tolerance); '
    'with the implicit timezone unset such a mix has no verdict; two timezone-less values are compared as written',
    'pathlogic trusts python ElementTree child/parent/sibling navigation for the truth of each path operand; an operand '
    'whose own boolean() disagrees is reported as pathlogic/.../operand and the formulas over it are skipped',
    'general comparison: when one pair is true and another pair raises, either outcome is accepted (XPath 3.1 3.7.2); '
    'when no pair is true and some pair raises, the error is demanded; which of several applicable error codes is raised '
    'is not judged beyond membership',
    'and / or: either operand\'s error is acceptable, a dominating false / true operand may hide the other operand\'s error',
    'xs:untypedAtomic against xs:QName in a general comparison is not judged (cast rules differ between versions)',
    'xs:hexBinary / xs:base64Binary ordering (lt le gt ge) exists in XPath 3.1 only; XPTY0004 before',
    'negative years, year 0000 (XSD 1.1) and years above 9999 are generated only by the enumerated `era` sub-check, with the '
    'XSD 1.0 (-0001 = 1 BCE) and XSD 1.1 (0000 = 1 BCE) year numbering chosen by the parser option xsd_version',
    'compatibility mode (XPath 2.0 3.5.2): the boolean rule converts the other operand by its effective boolean value BEFORE '
    'atomization (XPath 1.0 semantics: node sequence = true); node operands have non-empty text; booleans occur only as a '
    'single operand (tests/test_xpath2_parser.py pins (false(), false()) = 1 as a type error)',
    'xs:float operands are exactly representable in binary32 (the reading precision does not matter)',
]
FLOORS = {
    'value:cross-type': (0.15, 'value:pair'), 'value:comparable': (0.30, 'value:pair'),
    'general:multi': (0.40, 'general:case'), 'general:untyped': (0.15, 'general:case'),
    'order:triple-all-comparable': (0.50, 'order:triple'), 'ebv:multi': (0.10, 'ebv:case'), 'logic:with-error-atom': (0.15, 'logic:case'),
    'pathlogic:abs-first-then-relative@inner': (0.25, 'pathlogic:case'), 'pathlogic:inner-context': (0.70, 'pathlogic:case'),
    'value:durations-microseconds-apart': (0.04, 'value:pair'), 'order:durations-microseconds-apart': (0.04, 'order:triple'),
    'compat:boolean-vs-non-0-1': (0.25, 'compat:case'), 'compat:multi': (0.25, 'compat:case'), 'era:across-era': (0.30, 'era:pair'),
    'tzhistory:naive-vs-aware': (0.50, 'tzhistory:case'), 'tzhistory:timezone-changes': (0.60, 'tzhistory:case'),
}

MODES = ('2.0', '3.0', '3.1')
VAL_OPS = C.OPS
GEN_OPS = tuple(C.GENERAL)
TZ_MIN = {None: None, '-05:00': -300, '+05:00': 300, 'Z': 0, '+14:00': 840, '-10:00': -600}

_PARSERS: dict = {}
_ROOT = None


def _parser(mode, xsd='1.0', compat=False):
    key = (mode, xsd, compat)
    p = _PARSERS.get(key)
    if p is None:
        from elementpath import XPath1Parser, XPath2Parser
        from elementpath.xpath30 import XPath30Parser
        from elementpath.xpath31 import XPath31Parser
        cls = {'1.0': XPath1Parser, '2.0': XPath2Parser, '3.0': XPath30Parser, '3.1': XPath31Parser}[mode]
        if mode == '1.0':
            p = cls()
        else:
            kw = {'namespaces': dict(A.NAMESPACES)}
            if xsd != '1.0':
                kw['xsd_version'] = xsd
            if compat:
                kw['compatibility_mode'] = True
            p = cls(**kw)
        _PARSERS[key] = p
    return p


def _root():
    global _ROOT
    if _ROOT is None:
        import xml.etree.ElementTree as ET
        _ROOT = ET.XML('<r><x/><x/></r>')
    return _ROOT


def observe(mode, expr, tz=None, root=False, xsd='1.0', compat=False):
    """-> ('bool', b) | ('empty',) | ('error', code) | ('escape', exc) | ('other', repr)"""
    from elementpath import XPathContext, ElementPathError
    try:
        tok = _parser(mode, xsd, compat).parse(expr)
        if root:
            ctx = XPathContext(root=_root() if root is True else root, timezone=tz)
        else:
            ctx = XPathContext(root=None, item=1, timezone=tz)
        res = tok.get_results(ctx)
    except ElementPathError as e:
        return ('error', (e.code or 'no-code').split(':')[-1])
    except RecursionError:
        raise
    except Exception as e:
        return ('escape', e)
    if isinstance(res, list):
        if not res:
            return ('empty',)
        if len(res) == 1:
            res = res[0]
    if res is True or res is False:
        return ('bool', res)
    return ('other', repr(res)[:80])


def _show(obs):
    if obs[0] == 'bool':
        return str(obs[1]).lower()
    if obs[0] == 'error':
        return obs[1]
    if obs[0] == 'escape':
        return repr(obs[1])
    return obs[0] if obs[0] == 'empty' else obs[1]


def _judge_outcome(acceptable: set, obs, family: str, types: str, op: str, detail: str, discs: list):
    """acceptable: set of True / False / error codes (or the marker 'empty');
    bucket = C07/<family>/<types>/<failure>/<op>"""
    exp = '|'.join(sorted(str(x).lower() if isinstance(x, bool) else x for x in acceptable))

    def add(failure, observed):
        discs.append(Disc(f'C07/{family}/{types}/{failure}/{op}', exp, observed, detail))

    if obs[0] == 'escape':
        discs.append(Disc(escape_bucket(PROPERTY, obs[1]) + f'/{family}', exp, repr(obs[1]), detail))
    elif obs[0] == 'bool':
        if obs[1] not in acceptable:
            errs = sorted(x for x in acceptable if not isinstance(x, bool))
            if errs and not any(isinstance(x, bool) for x in acceptable):
                add(f'no-error:{errs[0]}', _show(obs))
            else:
                add('true-for-false' if obs[1] else 'false-for-true', _show(obs))
    elif obs[0] == 'error':
        if obs[1] not in acceptable:
            add(f'unexpected-error:{obs[1]}', obs[1])
    elif obs[0] == 'empty':
        if 'empty' not in acceptable:
            add('empty-result', 'empty')
    else:
        add('not-a-boolean', _show(obs))


def _outcome_of(obs):
    return obs[1] if obs[0] in ('bool', 'error') else None


# --------------------------------------------------------------------------
# special input classes with a recorded cause
# --------------------------------------------------------------------------

def _num_close(a, b) -> bool:
    """both float/double, different, but within the 1e-7 relative tolerance of elementpath's numeric_equal"""
    if a[0] not in ('float', 'double') or b[0] not in ('float', 'double'):
        return False
    x, y = N.parse(a[0], a[1]), N.parse(b[0], b[1])
    if math.isnan(x) or math.isnan(y) or math.isinf(x) or math.isinf(y) or x == y:
        return False
    return math.isclose(x, y, rel_tol=1.0000001e-7, abs_tol=0.0)


def _is_nontrivial(atoms_a, atoms_b):
    ts = {a[0] for a in atoms_a + atoms_b}
    if len(atoms_a) >= 2 or len(atoms_b) >= 2 or 'untypedAtomic' in ts:
        return True
    if len({C.kind_of(t) for t in ts}) > 1 or len(ts) > 1:
        return True
    for a in atoms_a + atoms_b:
        if a[0] in ('float', 'double') and a[1].strip() == 'NaN':
            return True
    tzs = set()
    for a in atoms_a + atoms_b:
        if a[0] in C.DATETIMES or a[0] in C.GREGORIAN:
            tzs.add(C.value(a)[1][1] is None)
    return len(tzs) > 1


# --------------------------------------------------------------------------
# value comparison (and the same pair as singleton general comparison)
# --------------------------------------------------------------------------

def _temporal_mixed(atoms) -> bool:
    """some timezone-less and some timezoned date/time value"""
    tzs = set()
    for a in atoms:
        if a[0] in C.DATETIMES or a[0] in C.GREGORIAN:
            tzs.add(C.value(a)[1][1] is None)
    return len(tzs) > 1


def _as_double_compare(op, a, b):
    """known-defect model: xs:float against xs:integer/xs:decimal compared in double precision"""
    if {a[0], b[0]} & {'float'} and {a[0], b[0]} & {'integer', 'decimal'} and a[0] != b[0]:
        va, vb = N.make(*a), N.make(*b)
        wa = ('double', va[1]) if va[0] == 'float' else N.convert(va, 'double')
        wb = ('double', vb[1]) if vb[0] == 'float' else N.convert(vb, 'double')
        return C._num_compare(op, wa, wb)
    return None


_ORDER = ('lt', 'le', 'gt', 'ge')


def _model_pair(op, a, b, mode, tzm):
    """Outcome of one general-comparison pair under elementpath's *recorded* defects -> (result, tag);
    result: ('bool', b) | ('error', code) | ('anybool',) | None; tag None = the reference rule applies."""
    ta, tb = a[0], b[0]
    if ta == tb == 'untypedAtomic' and op in _ORDER:
        # both untypedAtomic: ordered as doubles instead of as strings (pinned by tests/test_datatypes.py test_lt)
        try:
            x, y = N.parse('double', a[1]), N.parse('double', b[1])
        except ValueError:
            return ('error', 'FORG0001'), 'untyped-pair-ordered-numerically'
        return ('bool', C._num_compare(op, ('double', x), ('double', y))), 'untyped-pair-ordered-numerically'
    if {ta, tb} == {'untypedAtomic', 'decimal'} and op in _ORDER:
        u = a if ta == 'untypedAtomic' else b
        if u[1].strip() == 'NaN':
            # untypedAtomic is cast to xs:decimal instead of xs:double (pinned by tests/test_datatypes.py test_eq)
            return ('error', 'FORG0001'), 'untyped-cast-to-decimal'
    if {ta, tb} == {'untypedAtomic', 'duration'} and op in _ORDER:
        u = a if ta == 'untypedAtomic' else b
        try:
            C.parse_duration('duration', u[1])
        except C.CastError:
            return ('error', 'FORG0001'), None
        return ('anybool',), 'untyped-vs-duration-ordered'
    if ta == 'anyURI' and tb == 'untypedAtomic' and b[1] != ' '.join(b[1].split()):
        return C.value_compare(op, ['string', a[1]], ['string', b[1]], mode, tzm), 'anyURI-left-untyped-not-collapsed'
    r = C._general_pair(op, a, b, mode, tzm)
    temporal = C.DATETIMES + C.GREGORIAN
    if tzm is not None and ((ta == 'untypedAtomic' and tb in temporal) or (tb == 'untypedAtomic' and ta in temporal)):
        # the untypedAtomic operand is cast to the date/time type only inside the comparison, after the implicit
        # timezone has been applied: the pair is compared with timezone-less values taken as UTC
        a2, b2 = ([tb, a[1]], b) if ta == 'untypedAtomic' else (a, [ta, b[1]])
        try:
            r0 = C.value_compare(op, a2, b2, mode, 0) if _temporal_mixed([a2, b2]) else r
        except C.CastError:
            r0 = r
        if r0 != r:
            return r0, 'implicit-timezone-ignored-untyped'
    if r == ('error', 'XPTY0004') and op in ('eq', 'ne'):
        return ('bool', op == 'ne'), 'missing-XPTY0004'
    m = _as_double_compare(op, a, b)
    if m is not None and r != ('bool', m):
        return ('bool', m), 'float-carried-as-double'     # xs:float against integer/decimal compared as doubles
    return r, None


def _model_general(sym, SA, SB, mode, tzm):
    """(set of outcomes acceptable under the recorded-defect model, tags) or (None, tags)"""
    op = C.GENERAL[sym]
    any_true = anybool = False
    errors, tags = set(), set()
    for a in SA:
        for b in SB:
            r, tag = _model_pair(op, a, b, mode, tzm)
            if tag:
                tags.add(tag)
            if r is None:
                return None, tags
            if r[0] == 'error':
                errors.add(r[1])
            elif r[0] == 'anybool':
                anybool = True
            elif r[1]:
                any_true = True
    out = set(errors)
    if any_true or anybool:
        out.add(True)
    if not any_true and (anybool or not errors):
        out.add(False)
    if not any_true and errors and not anybool:
        pass
    return out, tags


def _special(discs, start, family, types, op, obs, a, b, mode, tz, close, general):
    """move the discrepancy of one comparison into a narrow root-cause bucket when a recorded cause explains it"""
    if len(discs) == start or obs[0] not in ('bool', 'error'):
        return
    d = discs[start]
    opn = C.GENERAL.get(op, op)
    if close:
        d.bucket = f'C07/numeric-isclose-tolerance/{family}/{op}'
        return
    m = _as_double_compare(opn, a, b)
    if m is not None and m == obs[1]:
        d.bucket = f'C07/float-carried-as-double/{family}/{types}'
        return
    if general:
        acc, tags = _model_general(op, [a], [b], mode, TZ_MIN[tz])
        if acc is not None and tags and _outcome_of(obs) in acc:
            tag = '+'.join(sorted(tags))
            d.bucket = f'C07/{tag}/{types}/{op}' if tag == 'missing-XPTY0004' else f'C07/{tag}/general1/{op}'


def _micro_apart(atoms) -> bool:
    """two xs:dayTimeDuration values of at least one hour that differ by 1..10 microseconds"""
    vals = []
    for x in atoms:
        if x[0] != 'dayTimeDuration':
            return False
        vals.append(C.parse_duration(x[0], x[1])[1])
    return any(abs(p) >= 3600 and 0 < abs(p - q) <= Fraction(10, 10 ** 6) for p in vals for q in vals)


def judge_value(case, rec: Recorder | None = None) -> list[Disc]:
    mode, a, b, tz = case['mode'], case['a'], case['b'], case.get('tz')
    discs: list[Disc] = []
    sa, sb = A.xpath_of(a), A.xpath_of(b)
    types = f'{a[0]},{b[0]}'
    tzm = TZ_MIN[tz]
    close = _num_close(a, b)
    n = 0
    comparable = False
    for op in case.get('ops') or VAL_OPS:
        ref = C.value_compare(op, a, b, mode, tzm)
        if ref is None:
            continue
        n += 1
        comparable = comparable or ref[0] == 'bool'
        expr = f'{sa} {op} {sb}'
        obs = observe(mode, expr, tz)
        before = len(discs)
        _judge_outcome({ref[1]}, obs, 'value', types, op, f'{mode} tz={tz} {expr}', discs)
        _special(discs, before, 'value', types, op, obs, a, b, mode, tz, close, False)
    if case.get('general', True):
        for sym in case.get('gops') or GEN_OPS:
            acc = C.general_compare(sym, [a], [b], mode, tzm)
            if acc is None:
                continue
            n += 1
            expr = f'{sa} {sym} {sb}'
            obs = observe(mode, expr, tz)
            before = len(discs)
            _judge_outcome(acc, obs, 'general1', types, sym, f'{mode} tz={tz} {expr}', discs)
            _special(discs, before, 'general1', types, sym, obs, a, b, mode, tz, close, True)
    if rec is not None:
        pre = 'matrix' if case.get('matrix') else 'value'
        classes = [f'{pre}:pair', f'{pre}:mode-{mode}']
        if a[0] != b[0]:
            classes.append(f'{pre}:cross-type')
        if comparable:
            classes.append(f'{pre}:comparable')
        if tz:
            classes.append(f'{pre}:implicit-tz')
        if _micro_apart([a, b]):
            classes.append(f'{pre}:durations-microseconds-apart')
        rec.case(['value', mode, tz, a, b], nontrivial=_is_nontrivial([a], [b]), classes=classes, n=n,
                 sample={'check': 'value', 'mode': mode, 'tz': tz, 'a': sa, 'b': sb})
    return discs


def judge_empty(case, rec: Recorder | None = None) -> list[Disc]:
    """value comparison with an empty operand is the empty sequence; general comparison with () is false"""
    mode, a, side = case['mode'], case['a'], case['side']
    sa = A.xpath_of(a)
    discs: list[Disc] = []
    for op in VAL_OPS:
        expr = f'() {op} {sa}' if side == 'left' else f'{sa} {op} ()'
        _judge_outcome({'empty'}, observe(mode, expr), 'value-empty', a[0], op, f'{mode} {expr}', discs)
    for sym in GEN_OPS:
        expr = f'() {sym} {sa}' if side == 'left' else f'{sa} {sym} ()'
        _judge_outcome({False}, observe(mode, expr), 'general-empty', a[0], sym, f'{mode} {expr}', discs)
    if rec is not None:
        rec.case(['empty', mode, a, side], nontrivial=True, classes=['empty:case'], n=12,
                 sample={'check': 'empty', 'mode': mode, 'a': sa})
    return discs


# --------------------------------------------------------------------------
# general comparison of sequences
# --------------------------------------------------------------------------

def judge_general(case, rec: Recorder | None = None) -> list[Disc]:
    mode, SA, SB, tz = case['mode'], case['A'], case['B'], case.get('tz')
    discs: list[Disc] = []
    ta, tb = A.sequence_of(SA), A.sequence_of(SB)
    tzm = TZ_MIN[tz]
    kinds = ','.join(sorted({C.kind_of(x[0]) for x in SA + SB})) or 'empty'
    close = any(_num_close(a, b) for a in SA for b in SB)
    n = 0
    for sym in case.get('gops') or GEN_OPS:
        acc = C.general_compare(sym, SA, SB, mode, tzm)
        if acc is None:
            continue
        n += 1
        expr = f'{ta} {sym} {tb}'
        obs = observe(mode, expr, tz)
        before = len(discs)
        _judge_outcome(acc, obs, 'general', kinds, sym, f'{mode} tz={tz} {expr}', discs)
        if len(discs) > before and obs[0] in ('bool', 'error'):
            if close:
                discs[before].bucket = f'C07/numeric-isclose-tolerance/general/{sym}'
            else:
                macc, tags = _model_general(sym, SA, SB, mode, tzm)
                if macc is not None and tags and _outcome_of(obs) in macc:
                    discs[before].bucket = f'C07/{"+".join(sorted(tags))}/general/{sym}'
    if rec is not None:
        classes = ['general:case', f'general:mode-{mode}']
        if len(SA) >= 2 or len(SB) >= 2:
            classes.append('general:multi')
        if any(x[0] == 'untypedAtomic' for x in SA + SB):
            classes.append('general:untyped')
        if not SA or not SB:
            classes.append('general:empty-operand')
        rec.case(['general', mode, tz, SA, SB], nontrivial=_is_nontrivial(SA, SB), classes=classes, n=n,
                 sample={'check': 'general', 'mode': mode, 'A': ta, 'B': tb})
    return discs


# --------------------------------------------------------------------------
# XPath 1.0 comparisons of number / string / boolean
# --------------------------------------------------------------------------

def _render10(v):
    k, x = v
    if k == 'boolean':
        return 'true()' if x == 'true' else 'false()'
    if k == 'string':
        return "'" + x + "'"
    return f'(-{x[1:]})' if x.startswith('-') else x


def _val10(v):
    k, x = v
    if k == 'boolean':
        return ('boolean', x == 'true')
    if k == 'number':
        return ('number', float(x))
    return ('string', x)


def judge_general10(case, rec: Recorder | None = None) -> list[Disc]:
    a, b = case['a'], case['b']
    sa, sb = _render10(a), _render10(b)
    discs: list[Disc] = []
    for sym in case.get('gops') or GEN_OPS:
        exp = C.compare10(sym, _val10(a), _val10(b))
        expr = f'{sa} {sym} {sb}'
        obs = observe('1.0', expr)
        _judge_outcome({exp}, obs, 'general10', f'{a[0]},{b[0]}', sym, f'1.0 {expr}', discs)
    if rec is not None:
        rec.case(['general10', a, b], nontrivial=a[0] != b[0], classes=['general10:case'] +
                 (['general10:cross-type'] if a[0] != b[0] else []), n=6,
                 sample={'check': 'general10', 'a': sa, 'b': sb})
    return discs


# --------------------------------------------------------------------------
# order laws on triples (metamorphic: only the implementation's own answers)
# --------------------------------------------------------------------------

def judge_order(case, rec: Recorder | None = None) -> list[Disc]:
    mode, xs, tz = case['mode'], case['xs'], case.get('tz')
    discs: list[Disc] = []
    txt = [A.xpath_of(x) for x in xs]
    kind = C.kind_of(xs[0][0])
    memo: dict = {}

    def q(op, i, j):
        k = (op, i, j)
        if k not in memo:
            o = observe(mode, f'{txt[i]} {op} {txt[j]}', tz)
            memo[k] = o[1] if o[0] == 'bool' else None
        return memo[k]

    def nan(i):
        return xs[i][0] in ('float', 'double') and xs[i][1].strip() == 'NaN'

    def add(law, i, j, k=None):
        who = f'{txt[i]}, {txt[j]}' + (f', {txt[k]}' if k is not None else '')
        discs.append(Disc(f'C07/order/{law}/{kind}', 'law holds', 'violated', f'{mode} tz={tz} {who}'))

    n = len(xs)
    ordered = all(q('le', i, j) is not None for i in range(n) for j in range(n))
    for i in range(n):
        if q('eq', i, i) is not None and not nan(i):
            if q('eq', i, i) is not True:
                add('eq-reflexive', i, i)
            if q('le', i, i) is False or q('ge', i, i) is False:
                add('le-reflexive', i, i)
            if q('lt', i, i) is True or q('ne', i, i) is True:
                add('lt-irreflexive', i, i)
        for j in range(n):
            e, ne = q('eq', i, j), q('ne', i, j)
            if e is not None and ne is not None and e == ne:
                add('eq-ne-complement', i, j)
            if e is not None and q('eq', j, i) is not None and e != q('eq', j, i):
                add('eq-symmetric', i, j)
            if q('lt', i, j) is not None and q('gt', j, i) is not None and q('lt', i, j) != q('gt', j, i):
                add('lt-gt-converse', i, j)
            if q('le', i, j) is not None and q('ge', j, i) is not None and q('le', i, j) != q('ge', j, i):
                add('le-ge-converse', i, j)
            if not nan(i) and not nan(j):
                lt, ge, le = q('lt', i, j), q('ge', i, j), q('le', i, j)
                if lt is not None and ge is not None and lt == ge:
                    add('lt-not-ge', i, j)
                if le is not None and lt is not None and e is not None and le != (lt or e):
                    add('le-is-lt-or-eq', i, j)
                if le is True and q('le', j, i) is True and e is False:
                    add('antisymmetric', i, j)
            for k in range(n):
                if q('le', i, j) is True and q('le', j, k) is True and q('le', i, k) is False:
                    add('le-transitive', i, j, k)
                if q('eq', i, j) is True and q('eq', j, k) is True and q('eq', i, k) is False:
                    add('eq-transitive', i, j, k)
                if q('lt', i, j) is True and q('lt', j, k) is True and q('lt', i, k) is False:
                    add('lt-transitive', i, j, k)
    # one bucket per law and kind is enough
    seen, uniq = set(), []
    for d in discs:
        if d.bucket not in seen:
            seen.add(d.bucket)
            uniq.append(d)
    if rec is not None:
        classes = ['order:triple', f'order:kind-{kind}'] + (['order:triple-all-comparable'] if ordered else []) + \
            (['order:durations-microseconds-apart'] if _micro_apart(xs) else [])
        rec.case(['order', mode, tz, xs], nontrivial=len({tuple(x) for x in xs}) >= 2, classes=classes, n=len(memo),
                 sample={'check': 'order', 'mode': mode, 'xs': txt})
    return uniq


# --------------------------------------------------------------------------
# effective boolean value and logic
# --------------------------------------------------------------------------

def _items_text(items):
    parts = ['/r/x[1]' if it == 'node' else A.xpath_of(it) for it in items]
    return '(' + ', '.join(parts) + ')'


def judge_ebv(case, rec: Recorder | None = None) -> list[Disc]:
    mode, items = case['mode'], case['items']
    discs: list[Disc] = []
    e = C.ebv(items)
    s = _items_text(items)
    has_node = 'node' in items
    kind = 'node-first' if items and items[0] == 'node' else 'empty' if not items else \
        ('multi' if len(items) > 1 else items[0][0])
    neg = (not e) if isinstance(e, bool) else e
    forms = [('boolean', f'boolean({s})', {e}), ('not', f'not({s})', {neg}),
             ('if', f'if ({s}) then true() else false()', {e}),
             ('and-true', f'{s} and true()', {e}), ('or-false', f'false() or {s}', {e}),
             ('and-false', f'{s} and false()', {False} | ({e} if not isinstance(e, bool) else set())),
             ('or-true', f'true() or {s}', {True} | ({e} if not isinstance(e, bool) else set())),
             ('predicate', f'(1)[{s}] = 1', {e} if kind not in C.NUMERIC else None)]
    n = 0
    for name, expr, acc in forms:
        if acc is None or (case.get('forms') and name not in case['forms']):
            continue
        n += 1
        obs = observe(mode, expr, root=has_node)
        _judge_outcome(acc, obs, 'ebv', kind, name, f'{mode} {expr}', discs)
    if rec is not None:
        classes = ['ebv:case'] + (['ebv:multi'] if len(items) > 1 else []) + (['ebv:node'] if has_node else []) + \
            (['ebv:error-expected'] if not isinstance(e, bool) else [])
        rec.case(['ebv', mode, items], nontrivial=len(items) != 1 or items[0] == 'node' or items[0][0] not in ('boolean',),
                 classes=classes, n=n, sample={'check': 'ebv', 'mode': mode, 'expr': f'boolean({s})'})
    return discs


def _render_formula(f, operands):
    k = f[0]
    if k == 'atom':
        return _items_text(operands[f[1]])
    if k == 'not':
        return f'not({_render_formula(f[1], operands)})'
    if k in ('and', 'or'):
        return f'({_render_formula(f[1], operands)} {k} {_render_formula(f[2], operands)})'
    return f'(if ({_render_formula(f[1], operands)}) then {_render_formula(f[2], operands)} else {_render_formula(f[3], operands)})'


def _formula_atoms(f, out):
    if f[0] == 'atom':
        out.add(f[1])
    else:
        for g in f[1:]:
            _formula_atoms(g, out)
    return out


def judge_logic(case, rec: Recorder | None = None) -> list[Disc]:
    mode, operands, f = case['mode'], case['operands'], case['formula']
    discs: list[Disc] = []
    used = _formula_atoms(f, set())
    acc = C.formula_outcomes(f, lambda i: C.ebv(operands[i]))
    expr = f'boolean({_render_formula(f, operands)})'
    has_node = any('node' in operands[i] for i in used)
    obs = observe(mode, expr, root=has_node)
    top = f[0]
    _judge_outcome(acc, obs, 'logic', 'formula', top, f'{mode} {expr}', discs)
    if rec is not None:
        err = any(not isinstance(C.ebv(operands[i]), bool) for i in used)
        rec.case(['logic', mode, operands, f], nontrivial=len(used) >= 2, classes=['logic:case'] +
                 (['logic:with-error-atom'] if err else []) + ([f'logic:top-{top}']), n=1,
                 sample={'check': 'logic', 'mode': mode, 'expr': expr})
    return discs


# --------------------------------------------------------------------------
# logic over path operands evaluated with a real context item (not the root)
# --------------------------------------------------------------------------
_DOC = None


def _doc():
    """<r k='1'><a><c/><b/></a><a k='2'><b/></a><b><c/></b><d/></r>  built by construction;
    -> (root, elements in document order, parent map)"""
    global _DOC
    if _DOC is None:
        import xml.etree.ElementTree as ET
        r = ET.Element('r', {'k': '1'})
        a1 = ET.SubElement(r, 'a')
        ET.SubElement(a1, 'c')
        ET.SubElement(a1, 'b')
        a2 = ET.SubElement(r, 'a', {'k': '2'})
        ET.SubElement(a2, 'b')
        b3 = ET.SubElement(r, 'b')
        ET.SubElement(b3, 'c')
        ET.SubElement(r, 'd')
        els = list(r.iter())
        _DOC = (r, els, {ch: pa for pa in els for ch in pa})
    return _DOC


def _kids(e, tag=None):
    return [c for c in e if tag is None or c.tag == tag]


# operand pool: XPath text -> independent truth of its effective boolean value at element e
# (R = root element, P = parent map); kind: 'abs' (absolute / descendant from the root), 'rel', 'const'
_PATH_OPS = {
    '//x': ('abs', lambda e, R, P: False), '/x': ('abs', lambda e, R, P: False), '/r/x': ('abs', lambda e, R, P: False),
    '//zz/b': ('abs', lambda e, R, P: False), '/r/a/x': ('abs', lambda e, R, P: False), '//d/c': ('abs', lambda e, R, P: False),
    '//c': ('abs', lambda e, R, P: True), '/r': ('abs', lambda e, R, P: True), '/r/a': ('abs', lambda e, R, P: True),
    '/r/d': ('abs', lambda e, R, P: True), '//a/b': ('abs', lambda e, R, P: True),
    'b': ('rel', lambda e, R, P: bool(_kids(e, 'b'))), 'c': ('rel', lambda e, R, P: bool(_kids(e, 'c'))),
    'a': ('rel', lambda e, R, P: bool(_kids(e, 'a'))), 'd': ('rel', lambda e, R, P: bool(_kids(e, 'd'))),
    'x': ('rel', lambda e, R, P: False),
    'a/c': ('rel', lambda e, R, P: any(_kids(x, 'c') for x in _kids(e, 'a'))),
    'b/c': ('rel', lambda e, R, P: any(_kids(x, 'c') for x in _kids(e, 'b'))),
    '*': ('rel', lambda e, R, P: len(e) > 0), '@k': ('rel', lambda e, R, P: 'k' in e.attrib),
    'self::a': ('rel', lambda e, R, P: e.tag == 'a'), 'self::b': ('rel', lambda e, R, P: e.tag == 'b'),
    '../b': ('rel', lambda e, R, P: e in P and bool(_kids(P[e], 'b'))),
    '../d': ('rel', lambda e, R, P: e in P and bool(_kids(P[e], 'd'))),
    'following-sibling::*': ('rel', lambda e, R, P: e in P and list(P[e]).index(e) < len(P[e]) - 1),
    'preceding-sibling::a': ('rel', lambda e, R, P: e in P and any(x.tag == 'a' for x in list(P[e])[:list(P[e]).index(e)])),
    'true()': ('const', lambda e, R, P: True), 'false()': ('const', lambda e, R, P: False),
}
# node sequences for the predicate form: XPath text -> elements (python)
_PATH_SETS = {
    'a': lambda e, R, P: _kids(e, 'a'), '*': lambda e, R, P: _kids(e),
    '//a': lambda e, R, P: [x for x in R.iter() if x.tag == 'a'],
    '/r/*': lambda e, R, P: _kids(R),
    'descendant-or-self::*': lambda e, R, P: list(e.iter()),
    '//*': lambda e, R, P: list(R.iter()),
}


def _render_pf(f, ops, xp1):
    k = f[0]
    if k == 'atom':
        return ops[f[1]]
    if k == 'not':
        return f'not({_render_pf(f[1], ops, xp1)})'
    if k in ('and', 'or'):
        return f'({_render_pf(f[1], ops, xp1)} {k} {_render_pf(f[2], ops, xp1)})'
    c, x, y = (_render_pf(g, ops, xp1) for g in f[1:])
    if xp1:     # XPath 1.0 has no conditional expression
        return f'(({c} and {x}) or (not({c}) and {y}))'
    return f'(if ({c}) then {x} else {y})'


def _swap(f):
    """commute every and / or"""
    k = f[0]
    if k == 'atom':
        return f
    if k == 'not':
        return ['not', _swap(f[1])]
    if k in ('and', 'or'):
        return [k, _swap(f[2]), _swap(f[1])]
    return ['if', _swap(f[1]), _swap(f[2]), _swap(f[3])]


def _demorgan(f):
    """X or Y -> not(not X and not Y); X and Y -> not(not X or not Y)"""
    k = f[0]
    if k == 'atom':
        return f
    if k == 'not':
        return ['not', _demorgan(f[1])]
    if k in ('and', 'or'):
        other = 'and' if k == 'or' else 'or'
        return ['not', [other, ['not', _demorgan(f[1])], ['not', _demorgan(f[2])]]]
    return ['if', _demorgan(f[1]), _demorgan(f[2]), _demorgan(f[3])]


def _truth(f, val):
    k = f[0]
    if k == 'atom':
        return val(f[1])
    if k == 'not':
        return not _truth(f[1], val)
    if k == 'and':
        return _truth(f[1], val) and _truth(f[2], val)
    if k == 'or':
        return _truth(f[1], val) or _truth(f[2], val)
    return _truth(f[2], val) if _truth(f[1], val) else _truth(f[3], val)


def _abs_then_rel(f, ops):
    """an and/or whose first operand starts with an absolute path and whose second operand contains a relative one"""
    def kinds(g, out):
        if g[0] == 'atom':
            out.add(_PATH_OPS[ops[g[1]]][0])
        else:
            for h in g[1:]:
                kinds(h, out)
        return out

    def first_atom_kind(g):
        while g[0] != 'atom':
            g = g[1]
        return _PATH_OPS[ops[g[1]]][0]

    if f[0] == 'atom':
        return False
    if f[0] in ('and', 'or') and first_atom_kind(f[1]) == 'abs' and 'rel' in kinds(f[2], set()):
        return True
    return any(_abs_then_rel(g, ops) for g in f[1:])


def observe_at(mode, expr, ctx_index):
    """evaluate expr with the document of _doc() and the ctx_index-th element as context item (fresh context)"""
    from elementpath import XPathContext, ElementPathError
    R, els, _ = _doc()
    try:
        tok = _parser(mode).parse(expr)
        res = tok.get_results(XPathContext(root=R, item=els[ctx_index]))
    except ElementPathError as e:
        return ('error', (e.code or 'no-code').split(':')[-1])
    except RecursionError:
        raise
    except Exception as e:
        return ('escape', e)
    if isinstance(res, list) and len(res) == 1:
        res = res[0]
    if res is True or res is False:
        return ('bool', res)
    if isinstance(res, (int, float)) and not isinstance(res, bool):
        return ('number', res)
    return ('other', repr(res)[:80])


def judge_pathlogic(case, rec: Recorder | None = None) -> list[Disc]:
    mode, ci, ops, f, sset = case['mode'], case['ctx'], case['operands'], case['formula'], case['set']
    R, els, P = _doc()
    e = els[ci]
    xp1 = mode == '1.0'
    discs: list[Disc] = []
    where = 'root' if ci == 0 else 'inner'

    def truth_at(x, g):
        return _truth(g, lambda i: _PATH_OPS[ops[i]][1](x, R, P))

    exp = truth_at(e, f)
    n = 0
    # each operand on its own, on a fresh context (the oracle of the operands themselves)
    for i in sorted(_formula_atoms(f, set())):
        n += 1
        obs = observe_at(mode, f'boolean({ops[i]})', ci)
        _judge_outcome({_PATH_OPS[ops[i]][1](e, R, P)}, obs, 'pathlogic', where, 'operand', f'{mode} ctx={ci} boolean({ops[i]})', discs)
    if not discs:
        for name, g in (('formula', f), ('commuted', _swap(f)), ('de-morgan', _demorgan(f))):
            n += 1
            expr = f'boolean({_render_pf(g, ops, xp1)})'
            obs = observe_at(mode, expr, ci)
            _judge_outcome({exp}, obs, 'pathlogic', where, name, f'{mode} ctx={ci}({e.tag}) {expr}', discs)
        # inside a predicate: the formula is evaluated with every item of a node sequence as context item
        items = _PATH_SETS[sset](e, R, P)
        want = sum(1 for x in items if truth_at(x, f))
        expr = f'count({sset}[{_render_pf(f, ops, xp1)}])'
        obs = observe_at(mode, expr, ci)
        n += 1
        if obs[0] == 'escape':
            discs.append(Disc(escape_bucket(PROPERTY, obs[1]) + '/pathlogic', want, repr(obs[1]), f'{mode} ctx={ci} {expr}'))
        elif obs[0] != 'number' or obs[1] != want:
            discs.append(Disc(f'C07/pathlogic/{where}/wrong-count/predicate', want, _show(obs) if obs[0] != 'number' else obs[1],
                              f'{mode} ctx={ci}({e.tag}) {expr}'))
    if rec is not None:
        atr = _abs_then_rel(f, ops)
        classes = ['pathlogic:case', f'pathlogic:mode-{mode}'] + (['pathlogic:inner-context'] if ci else []) + \
            (['pathlogic:abs-first-then-relative'] if atr else []) + \
            (['pathlogic:abs-first-then-relative@inner'] if atr and ci else [])
        rec.case(['pathlogic', mode, ci, ops, f, sset], nontrivial=f[0] != 'atom', classes=classes, n=n,
                 sample={'check': 'pathlogic', 'mode': mode, 'ctx': ci, 'expr': _render_pf(f, ops, xp1)})
    return discs


# --------------------------------------------------------------------------
# histories: caller-owned date/time objects re-used under different implicit timezones
# --------------------------------------------------------------------------

def _dt_object(atom):
    from elementpath import datatypes as D
    cls = {'dateTime': D.DateTime, 'date': D.Date, 'time': D.Time, 'gYear': D.GregorianYear, 'gYearMonth': D.GregorianYearMonth,
           'gMonth': D.GregorianMonth, 'gMonthDay': D.GregorianMonthDay, 'gDay': D.GregorianDay}[atom[0]]
    return cls.fromstring(atom[1])


def judge_tzhistory(case, rec: Recorder | None = None) -> list[Disc]:
    """the same python objects ($a, $b) are compared under a list of contexts with different implicit timezones"""
    from elementpath import XPathContext, ElementPathError
    mode, a, b, tzs = case['mode'], case['a'], case['b'], case['tzs']
    discs: list[Disc] = []
    oa, ob = _dt_object(a), _dt_object(b)          # built once, re-used by every step
    sa0, sb0 = str(oa), str(ob)
    typ = a[0]
    ops = [(op, f'$a {op} $b') for op in VAL_OPS] + [(sym, f'$a {sym} $b') for sym in GEN_OPS]
    toks = {expr: _parser(mode).parse(expr) for _, expr in ops}
    n = judged = 0
    mutated = False
    for step, tz in enumerate(tzs):
        tzm = TZ_MIN[tz]
        for op, expr in ops:
            ref = C.value_compare(C.GENERAL.get(op, op), a, b, mode, tzm)
            try:
                res = toks[expr].get_results(XPathContext(root=None, item=1, variables={'a': oa, 'b': ob}, timezone=tz))
                obs = ('bool', res) if res is True or res is False else ('other', repr(res)[:60])
            except ElementPathError as e:
                obs = ('error', (e.code or 'no-code').split(':')[-1])
            except RecursionError:
                raise
            except Exception as e:
                obs = ('escape', e)
            n += 1
            if ref is None:
                continue           # implicit timezone unset and the operands mix: no verdict, the step still runs
            judged += 1
            _judge_outcome({ref[1]}, obs, 'tzhistory', typ, ('first-step' if step == 0 else 'later-step') + '/' + op,
                           f'{mode} step {step} tz={tz} after {tzs[:step]} {expr} a={a[1]} b={b[1]}', discs)
        for name, o, s0 in (('a', oa, sa0), ('b', ob, sb0)):
            if not mutated and str(o) != s0:     # reported once; the history goes on with the caller's objects as they are
                discs.append(Disc(f'C07/tzhistory/{typ}/caller-object-mutated/step', s0, str(o),
                                  f'{mode} ${name} after step {step} tz={tz}'))
                mutated = True
    if rec is not None:
        naive = sum(1 for x in (a, b) if C.value(x)[1][1] is None)
        classes = ['tzhistory:case', f'tzhistory:type-{typ}'] + (['tzhistory:naive-vs-aware'] if naive == 1 else []) + \
            (['tzhistory:timezone-changes'] if len(set(tzs)) > 1 else [])
        rec.case(['tzhistory', mode, a, b, tzs], nontrivial=naive >= 1 and len(set(tzs)) > 1, classes=classes, n=n,
                 sample={'check': 'tzhistory', 'mode': mode, 'a': a, 'b': b, 'tzs': tzs})
        rec.cls('tzhistory:judged-comparisons', judged)
    return discs


# --------------------------------------------------------------------------
# general comparisons of XPath 2.0+ parsers with compatibility_mode=True (XPath 2.0 3.5.2)
# --------------------------------------------------------------------------
_COMPAT_TEXTS = ['abc', '0', '1', '2', '12', '1.5', ' 7 ', 'true']
_COMPAT_DOC = None


def _compat_doc():
    global _COMPAT_DOC
    if _COMPAT_DOC is None:
        import xml.etree.ElementTree as ET
        r = ET.Element('r')
        for t in _COMPAT_TEXTS:
            ET.SubElement(r, 't').text = t
        _COMPAT_DOC = r
    return _COMPAT_DOC


def _compat_item(it):
    if it[0] == 'node':
        return f'/r/t[{_COMPAT_TEXTS.index(it[1]) + 1}]'
    return A.xpath_of(it)


def judge_compat(case, rec: Recorder | None = None) -> list[Disc]:
    mode, SA, SB = case['mode'], case['A'], case['B']
    discs: list[Disc] = []
    ta = '(' + ', '.join(_compat_item(x) for x in SA) + ')' if len(SA) != 1 else _compat_item(SA[0])
    tb = '(' + ', '.join(_compat_item(x) for x in SB) + ')' if len(SB) != 1 else _compat_item(SB[0])

    def kind(S):
        if len(S) == 1 and S[0][0] == 'boolean':
            return 'boolean'
        ks = {('number' if x[0] in C.NUMERIC else x[0]) for x in S}
        return ('empty' if not S else '+'.join(sorted(ks))) + ('*' if len(S) > 1 else '')

    kinds = f'{kind(SA)},{kind(SB)}'
    n = 0
    for sym in case.get('gops') or GEN_OPS:
        acc = C.compat_general(sym, SA, SB)
        if acc is None:
            continue
        n += 1
        expr = f'{ta} {sym} {tb}'
        obs = observe(mode, expr, root=_compat_doc(), compat=True)
        before = len(discs)
        _judge_outcome(acc, obs, 'compat', kinds, sym, f'{mode} compat {expr}', discs)
        if len(discs) > before:
            # recorded causes (removed by proposed/C07/fix08.diff), each with a narrow input class x failure
            sba, sbb = kind(SA) == 'boolean', kind(SB) == 'boolean'
            other = SB if sba else SA
            if (sba or sbb) and len(other) > 1 and other[0][0] == 'node' and obs == ('error', 'FORG0006'):
                discs[before].bucket = f'C07/compat-boolean-rule-atomizes-first/{sym}'
            elif (sba or sbb) and not other and obs == ('bool', False):
                discs[before].bucket = f'C07/compat-boolean-rule-empty-operand/{sym}'
            elif not (sba or sbb) and sym in ('=', '!=') and obs[0] == 'error' and obs[1] in ('XPTY0004', 'FORG0001') and \
                    any((a[0] in C.NUMERIC) != (b[0] in C.NUMERIC) for a in SA for b in SB):
                discs[before].bucket = f'C07/compat-number-rule-missing/{sym}'
    if rec is not None:
        sb = (len(SA) == 1 and SA[0][0] == 'boolean') or (len(SB) == 1 and SB[0][0] == 'boolean')
        other = SB if (len(SA) == 1 and SA[0][0] == 'boolean') else SA
        odd = sb and (len(other) != 1 or other[0][0] in ('string', 'node') or
                      (other[0][0] in C.NUMERIC and other[0][1] not in ('0', '1')))
        classes = ['compat:case', f'compat:mode-{mode}'] + (['compat:boolean-rule'] if sb else []) + \
            (['compat:boolean-vs-non-0-1'] if odd else []) + (['compat:multi'] if len(SA) > 1 or len(SB) > 1 else [])
        rec.case(['compat', mode, SA, SB], nontrivial=sb or len(SA) > 1 or len(SB) > 1 or kind(SA) != kind(SB), classes=classes, n=n,
                 sample={'check': 'compat', 'mode': mode, 'A': ta, 'B': tb})
    return discs


# --------------------------------------------------------------------------
# era boundary and other year boundaries with order-swapping timezones
# --------------------------------------------------------------------------
ERA_POOL = {
    'dateTime': {
        'both': ['0001-01-01T00:00:00+14:00', '-0001-12-31T10:00:00Z', '-0001-12-31T23:59:59-14:00', '0001-01-01T00:00:00Z',
                 '0001-01-01T00:00:00', '-0001-12-31T23:00:00', '-0001-12-31T24:00:00Z', '-0002-12-31T23:00:00-05:00',
                 '-0001-01-01T00:00:00+05:00', '0001-01-02T00:00:00+14:00', '9999-12-31T23:00:00-05:00',
                 '10000-01-01T00:00:00+05:00', '10000-01-01T00:00:00Z', '9999-12-31T24:00:00Z', '9999-12-31T12:00:00Z',
                 '0001-12-31T20:00:00-10:00', '0002-01-01T00:00:00+14:00'],
        '1.0': ['-0001-02-29T12:00:00Z'],
        '1.1': ['0000-12-31T10:00:00Z', '0000-01-01T00:00:00+14:00', '0000-02-29T00:00:00Z', '-0001-12-31T23:00:00-05:00'],
    },
    'date': {
        'both': ['0001-01-01+14:00', '-0001-12-31Z', '-0001-12-31-10:00', '0001-01-01', '-0001-12-31', '0001-01-01Z',
                 '-0002-12-31-14:00', '9999-12-31-12:00', '10000-01-01+12:00', '10000-01-01Z', '9999-12-31Z', '0001-12-31-14:00',
                 '0002-01-01+14:00'],
        '1.0': [],
        '1.1': ['0000-12-31Z', '0000-12-31-10:00', '0000-01-01+14:00'],
    },
}


def era_cases():
    for xsd in ('1.0', '1.1'):
        for typ, pools in ERA_POOL.items():
            vals = pools['both'] + pools[xsd]
            for mode in ('2.0', '3.1'):
                for tz in (None, '-05:00'):
                    for x in vals:
                        for y in vals:
                            yield {'mode': mode, 'xsd': xsd, 'tz': tz, 'a': [typ, x], 'b': [typ, y]}


def _year_of(lex):
    return int(lex[:lex.index('-', 1)])


def judge_era(case, rec: Recorder | None = None) -> list[Disc]:
    mode, xsd, tz, a, b = case['mode'], case['xsd'], case.get('tz'), case['a'], case['b']
    discs: list[Disc] = []
    sa, sb = A.xpath_of(a), A.xpath_of(b)
    tzm = TZ_MIN[tz]
    n = 0
    for op in VAL_OPS + GEN_OPS:
        ref = C.value_compare(C.GENERAL.get(op, op), a, b, mode, tzm, xsd)
        if ref is None:
            continue
        n += 1
        expr = f'{sa} {op} {sb}'
        obs = observe(mode, expr, tz, xsd=xsd)
        _judge_outcome({ref[1]}, obs, 'era', f'{a[0]}-xsd{xsd}', op, f'{mode} xsd={xsd} tz={tz} {expr}', discs)
    if rec is not None:
        ya, yb = _year_of(a[1]), _year_of(b[1])
        classes = ['era:pair', f'era:xsd-{xsd}'] + (['era:across-era'] if (ya <= 0) != (yb <= 0) else []) + \
            (['era:across-9999'] if (ya > 9999) != (yb > 9999) else [])
        rec.case(['era', mode, xsd, tz, a, b], nontrivial=ya != yb, classes=classes, n=n,
                 sample={'check': 'era', 'mode': mode, 'xsd': xsd, 'a': sa, 'b': sb})
    return discs


# --------------------------------------------------------------------------
# strategies
# --------------------------------------------------------------------------
_mode = st.sampled_from(['3.1', '3.1', '2.0', '3.0'])
_tz = st.sampled_from([None, None, '-05:00', '+05:00'])
_KIND_TYPES: dict = {}
for _t in A.ATOMIC_TYPES:
    _KIND_TYPES.setdefault(C.kind_of(_t), []).append(_t)
_KIND_TYPES['string'] = ['string', 'anyURI', 'untypedAtomic']
_kinds = sorted(_KIND_TYPES)


@st.composite
def _same_kind_atoms(draw, n):
    kind = draw(st.sampled_from(_kinds))
    return [draw(A.atom_of(draw(st.sampled_from(_KIND_TYPES[kind])))) for _ in range(n)]


_PAIR_SAME = _same_kind_atoms(2)
_TRIPLE_SAME = _same_kind_atoms(3)
_ANY = A.any_atom()


_DUR2, _DUR3 = A.duration_family(2), A.duration_family(3)


@st.composite
def value_case(draw):
    k = draw(st.integers(0, 19))
    if k < 4:
        a, b = draw(_DUR2)
        if draw(st.booleans()):
            a, b = b, a
    elif k < 13:
        a, b = draw(_PAIR_SAME)
    else:
        a, b = draw(_ANY), draw(_ANY)
    return {'mode': draw(_mode), 'tz': draw(_tz), 'a': a, 'b': b}


_ARM_TYPES = list(C.NUMERIC) + ['string', 'anyURI', 'boolean', 'QName', 'untypedAtomic']


@st.composite
def general_case(draw):
    """sequences of one kind (+ untypedAtomic), or a mix of numeric/string/boolean/QName/untypedAtomic items;
    the whole type matrix (all 22 x 22 pairs) is covered by the singleton comparisons of `matrix`"""
    if draw(st.integers(0, 9)) < 6:
        kind = draw(st.sampled_from(_kinds))
        types = _KIND_TYPES[kind] + ['untypedAtomic']
    else:
        types = _ARM_TYPES
    el = st.sampled_from(types).flatmap(A.atom_of)
    tt = [t for t in types if t != 'untypedAtomic']
    typed = st.sampled_from(tt).flatmap(A.atom_of) if tt else el
    side = draw(st.integers(0, 2))     # untypedAtomic on both sides only in a third of the cases
    SA = draw(st.lists(typed if side == 1 else el, min_size=0, max_size=4))
    SB = draw(st.lists(typed if side == 2 else el, min_size=0, max_size=4))
    return {'mode': draw(_mode), 'tz': draw(_tz), 'A': SA, 'B': SB}


_V10 = st.one_of(
    st.sampled_from(['true', 'false']).map(lambda s: ['boolean', s]),
    st.sampled_from(['0', '1', '-1', '1.0', '12', '1.5', '-1.5', '2', '10', '100', '0.5']).map(lambda s: ['number', s]),
    st.sampled_from(['', 'abc', 'a', 'b', '1', '1.0', '12', '12.0', ' 12 ', '-1.5', '0', 'true', 'false', '2', '10', '01']).map(
        lambda s: ['string', s]))
general10_case = st.fixed_dictionaries({'a': _V10, 'b': _V10})


@st.composite
def order_case(draw):
    return {'mode': draw(_mode), 'tz': draw(_tz), 'xs': draw(_DUR3 if draw(st.integers(0, 2)) == 0 else _TRIPLE_SAME)}


_EBV_ITEM = st.one_of(st.just('node'), _ANY, st.sampled_from(['boolean', 'string', 'integer', 'double', 'untypedAtomic', 'decimal',
                                                                 'anyURI', 'float']).flatmap(A.atom_of))
_EBV_ITEMS = st.one_of(st.lists(_EBV_ITEM, min_size=1, max_size=1), st.lists(_EBV_ITEM, min_size=1, max_size=1),
                       st.lists(_EBV_ITEM, min_size=0, max_size=3))
ebv_case = st.fixed_dictionaries({'mode': _mode, 'items': _EBV_ITEMS})


def _formula(n_atoms):
    leaf = st.integers(0, n_atoms - 1).map(lambda i: ['atom', i])
    return st.recursive(leaf, lambda ch: st.one_of(
        ch.map(lambda f: ['not', f]), st.tuples(st.sampled_from(['and', 'or']), ch, ch).map(list),
        st.tuples(st.just('if'), ch, ch, ch).map(list)), max_leaves=6)


logic_case = st.fixed_dictionaries({'mode': _mode, 'operands': st.lists(_EBV_ITEMS, min_size=4, max_size=4),
                                    'formula': _formula(4)})


_OPNAMES = sorted(_PATH_OPS)
_ABS_EMPTY = [k for k in _OPNAMES if _PATH_OPS[k][0] == 'abs' and not _PATH_OPS[k][1](None, None, None)]
_REL = [k for k in _OPNAMES if _PATH_OPS[k][0] == 'rel']


@st.composite
def pathlogic_case(draw):
    k = draw(st.integers(0, 9))
    if k < 5:      # first operand an absolute / descendant path with an empty result, the others relative
        ops = [draw(st.sampled_from(_ABS_EMPTY))] + [draw(st.sampled_from(_REL)) for _ in range(3)]
    else:
        ops = [draw(st.sampled_from(_OPNAMES)) for _ in range(4)]
    if k < 4:
        rest = draw(_formula(4))
        f = [draw(st.sampled_from(['or', 'and'])), ['atom', 0], rest if draw(st.booleans()) else ['atom', draw(st.integers(1, 3))]]
        if draw(st.integers(0, 3)) == 0:
            f = ['not', f]
    else:
        f = draw(_formula(4))
    return {'mode': draw(st.sampled_from(['3.1', '3.1', '2.0', '1.0', '3.0'])), 'ctx': draw(st.sampled_from([0, 1, 1, 2, 3, 4, 4, 5, 6, 7, 8])),
            'operands': ops, 'formula': f, 'set': draw(st.sampled_from(sorted(_PATH_SETS)))}


_CNUM = st.sampled_from([['integer', '0'], ['integer', '1'], ['integer', '2'], ['integer', '-1'], ['decimal', '1.5'], ['double', 'NaN'],
                         ['integer', '100'], ['double', '1'], ['decimal', '0.0'], ['integer', '12'], ['double', 'INF']])
_CSTR = st.sampled_from(['', 'abc', '0', '1', '2', 'true', 'false', '1.0', ' 12 ', '1e2', 'b']).map(lambda x: ['string', x])
_CNODE = st.sampled_from(_COMPAT_TEXTS).map(lambda x: ['node', x])
_CBOOL = st.sampled_from([[['boolean', 'true']], [['boolean', 'false']]])
_CITEM = st.one_of(_CNUM, _CSTR, _CNODE)
_CSEQ = st.one_of(st.lists(_CITEM, min_size=1, max_size=1), st.lists(_CITEM, min_size=0, max_size=3))


@st.composite
def compat_case(draw):
    if draw(st.integers(0, 9)) < 5:
        a, b = draw(_CBOOL), draw(st.one_of(_CSEQ, _CBOOL))
        if draw(st.booleans()):
            a, b = b, a
    else:
        a, b = draw(_CSEQ), draw(_CSEQ)
    return {'mode': draw(st.sampled_from(['2.0', '3.1', '3.0'])), 'A': a, 'B': b}


_HTZ = st.sampled_from(['+05:00', '-05:00', None, 'Z', '+14:00', '-10:00'])
_TEMPORAL_TYPES = list(C.DATETIMES + C.GREGORIAN)


@st.composite
def tzhistory_case(draw):
    typ = draw(st.sampled_from(['dateTime', 'dateTime', 'date', 'time'] + _TEMPORAL_TYPES))
    pool = A.POOLS[typ]
    naive = [x for x in pool if C.value([typ, x])[1][1] is None]
    aware = [x for x in pool if C.value([typ, x])[1][1] is not None]
    k = draw(st.integers(0, 9))
    if k < 7:
        a, b = draw(st.sampled_from(naive)), draw(st.sampled_from(aware))
    elif k < 9:
        a, b = draw(st.sampled_from(naive)), draw(st.sampled_from(naive))
    else:
        a, b = draw(st.sampled_from(pool)), draw(st.sampled_from(pool))
    if draw(st.booleans()):
        a, b = b, a
    tzs = draw(st.lists(_HTZ, min_size=2, max_size=3, unique=draw(st.integers(0, 9)) < 9))
    return {'mode': draw(st.sampled_from(['3.1', '2.0'])), 'a': [typ, a], 'b': [typ, b], 'tzs': tzs}


# --------------------------------------------------------------------------
# type matrix
# --------------------------------------------------------------------------

def matrix_atoms():
    return [a for t in A.ATOMIC_TYPES for a in A.pool_of(t)]


def matrix_cases(lo, hi, mode):
    atoms = matrix_atoms()
    temporal = set(C.DATETIMES + C.GREGORIAN)
    for i, (a, b) in enumerate(itertools.product(atoms, atoms)):
        if lo <= i < hi:
            tz = '-05:00' if (a[0] in temporal and b[0] in temporal) else None
            yield {'mode': mode, 'tz': tz, 'a': a, 'b': b, 'matrix': True}


# --------------------------------------------------------------------------
# module interface
# --------------------------------------------------------------------------
_STRATS = {'compat': compat_case(), 'pathlogic': pathlogic_case(), 'tzhistory': tzhistory_case(), 'value': value_case(), 'general': general_case(), 'general10': general10_case, 'order': order_case(),
           'ebv': ebv_case, 'logic': logic_case}
_JUDGES = {'compat': judge_compat, 'era': judge_era, 'pathlogic': judge_pathlogic, 'tzhistory': judge_tzhistory, 'value': judge_value, 'matrix': judge_value, 'general': judge_general, 'general10': judge_general10,
           'order': judge_order, 'ebv': judge_ebv, 'logic': judge_logic, 'empty': judge_empty}


def selftest():
    C.self_test()
    N.self_test()
    for t in A.POOLS:
        for a in A.pool_of(t):
            if t != 'untypedAtomic':
                C.value(a)
    assert A.xpath_of(['string', "it's"]) == "'it''s'" and A.xpath_of(['boolean', '1']) == "xs:boolean('1')"
    assert sorted(_KIND_TYPES) == _kinds and len(A.ATOMIC_TYPES) == 22


def jobs(tier, seed):
    q = tier == 'quick'
    out = []
    total = len(matrix_atoms()) ** 2
    k = 6
    for i in range(k):
        out.append({'check': 'matrix', 'mode': '3.1', 'lo': total * i // k, 'hi': total * (i + 1) // k})
    if not q:
        for i in range(k):
            out.append({'check': 'matrix', 'mode': '2.0', 'lo': total * i // k, 'hi': total * (i + 1) // k})
    out.append({'check': 'empty'})
    out.append({'check': 'era', 'part': 0})
    out.append({'check': 'era', 'part': 1})
    plan = {'value': (2, 2500, 4, 40000), 'general': (3, 2500, 5, 40000), 'general10': (1, 1500, 1, 6000),
            'order': (2, 1200, 3, 15000), 'ebv': (1, 2500, 2, 20000), 'logic': (1, 2500, 2, 30000),
            'pathlogic': (2, 2000, 3, 25000), 'tzhistory': (1, 2500, 2, 25000), 'compat': (1, 3000, 2, 30000)}
    for chk, (nq, pq, nt, pt) in plan.items():
        for i in range(nq if q else nt):
            out.append({'check': chk, 'shard': i, 'n': pq if q else pt, 'seed': derive_seed(seed, 'C07', chk, i)})
    return out


def _enum_cases(job):
    if job['check'] == 'matrix':
        return matrix_cases(job['lo'], job['hi'], job['mode'])
    if job['check'] == 'era':
        return (c for i, c in enumerate(era_cases()) if i % 2 == job['part'])
    atoms = [A.pool_of(t)[0] for t in A.ATOMIC_TYPES] + [['double', 'NaN'], ['string', '']]
    return ({'mode': m, 'a': a, 'side': s} for m in ('2.0', '3.1') for a in atoms for s in ('left', 'right'))


def run_job(job, rec: Recorder):
    chk = job['check']
    jd = _JUDGES[chk]
    if chk in ('matrix', 'empty', 'era'):
        for case in _enum_cases(job):
            rec.discs_of(chk, case, jd(case, rec))
        return
    hyp_collect(_STRATS[chk], lambda case: rec.discs_of(chk, case, jd(case, rec)), job['n'], job['seed'], rec)


def shrink_job(job, bucket, budget):
    chk = job['check']
    jd = _JUDGES[chk]
    if chk in ('matrix', 'empty', 'era'):
        for case in _enum_cases(job):
            for d in jd(case):
                if d.bucket == bucket:
                    return case, d
        return None
    return hyp_shrink(_STRATS[chk], jd, bucket, job['n'], job['seed'], budget)


def judge(check, case):
    return _JUDGES[check](case)
