"""C19 - Evaluation preserves process-global state: locale, lock, decimal context, environment,
entities, threads.

Every generated case is executed in a forked CHILD process (one history / batch / thread case per
child); the parent only waits.  A parent-side timeout is 'inconclusive' and never a verdict: verdicts
come from inspecting, inside the child and after every step, LC_COLLATE, the collation lock, the
decimal context and os.environ, from the outcome of the following steps, and from the harness lock
proxy that recognises "acquire() by the thread that already owns the non-reentrant lock" (a certain
deadlock) without waiting for it.
"""
from __future__ import annotations

import json
import os
import select as _select
import signal
import time
import traceback

from hypothesis import strategies as st

from vp.core import Disc, HarnessError, Recorder, canon, escape_bucket, hyp_collect, hyp_shrink, derive_seed

PROPERTY = 'C19'
LEVEL = 'fault_enumeration'
RULE = ('histories: hypothesis-generated lists of 3-10 evaluation steps (collation functions x collation pool '
        '[codepoint, html-ascii, UCA with lang/fallback variants, locale names, malformed, empty sequence] x '
        'API [select, Selector, token.evaluate] x parser [2.0, 3.0, 3.1] x collation passed as literal / variable / '
        'parser default; steps failing inside the with-body; nested collation calls; decimal arithmetic; environment '
        'and parse-xml steps; fixed liveness probes), each history run in a forked child under a configuration '
        '(initial LC_COLLATE C / C.utf8 / C.UTF-8 / POSIX, decimal precision 28 / 40, planted canary variable); '
        'fault enumeration: the base run counts the N locale.setlocale(category, <locale>) calls, then the history is '
        're-run N times with the k-th call raising locale.Error (all k enumerated). non-trivial history = a failing '
        'collation step followed by a lock-taking collation step, or a fault run whose injected failure hit; '
        'distinct by canonical (configuration, steps, fault index). env / entities: batches of generated queries / '
        'DOCTYPE texts, non-trivial = canary name asked / text with an entity declaration. threads: 2/4/8 threads '
        'on a barrier under sys.setswitchinterval(1e-6), non-trivial = >= 2 distinct expressions.')
ASSUMPTIONS = [
    'locale names are compared after codeset normalisation (C.utf8 == C.UTF-8, POSIX == C): glibc treats them as '
    'the same locale and locale.getlocale() itself normalises',
    'only locale.setlocale(category, <non-None>) calls are counted / failed by the fault injector; queries '
    '(locale=None) cannot fail in reality and locale.getlocale() does not go through locale.setlocale',
    'when the injected fault hits a call that restores the locale found at the start of the step (a restore), only '
    '"no lock held afterwards" is demanded: the locale cannot be as found, and the W3C text says nothing about the '
    'exception; when it hits any other call the step must leave LC_COLLATE unchanged and may only raise an '
    'ElementPathError (F&O: FOCH0002 for an unsupported collation)',
    'the decimal context is compared on prec, rounding, Emin, Emax, capitals, clamp and traps (flags are sticky '
    'signals set by ordinary arithmetic and are not part of "untouched")',
    '"same answers" = the outcome of the step evaluated alone in a fresh child process under the same '
    'configuration (value, or error code); the step hit by an injected fault may instead raise FOCH0002',
    'a collation string is restricted to XML characters (NUL / lone surrogates make locale.setlocale raise '
    'ValueError / UnicodeEncodeError; they cannot be written in an XPath literal)',
    'a parent-side timeout (60 s) or a child killed by a signal is recorded as inconclusive, never as a violation',
    'thread schedules are sampled by the OS scheduler, not enumerated',
    'DOCTYPE texts without any entity declaration may be accepted or rejected (the statement only covers DOCTYPEs '
    'declaring entities); for them only "canary content never appears" is demanded',
]
FLOORS = {
    'history:fail-then-locking-step': (0.15, 'history:run'),
    'history:fault-hit': (0.5, 'history:fault-run'),
    'history:nested-collation': (0.10, 'history:base-run'),
    'history:array-map-operand-locking-collation': (0.25, 'history:base-run'),
    'history:hof-consumer-of-collation-result': (0.08, 'history:base-run'),
    'history:relative-collation-under-two-base-uris': (0.03, 'history:base-run'), 'history:uca-dotted-lang': (0.15, 'history:base-run'),
    'env:canary-asked': (0.2, 'env:query'),
    'env:positive-control-ok': (0.9, 'env:batch'), 'env:grant-then-default-on-one-token': (0.25, 'env:query'),
    'env:dynamic-reference': (0.4, 'env:query'), 'env:granted-evaluation-sees-canary': (0.2, 'env:granted-evaluation'),
    'entities:entity-declaration': (0.4, 'entities:text'),
    'entities:positive-control-ok': (0.9, 'entities:batch'), 'entities:only-empty-valued-declarations': (0.1, 'entities:text'),
    'threads:locale-collation-job': (0.3, 'threads:case'),
    'localeenv:utf8-locale': (0.3, 'localeenv:config'),
}

CANARY_NAME = 'VP_C19_CANARY'
CANARY_VALUE = 'vp-c19-secret-4711'
CANARY_FILE_TEXT = 'vp-c19-file-secret-0815'
CHILD_TIMEOUT = 60.0

CP = 'http://www.w3.org/2005/xpath-functions/collation/codepoint'
HTML = 'http://www.w3.org/2005/xpath-functions/collation/html-ascii-case-insensitive'
CASEBLIND = 'http://www.w3.org/2010/09/qt-fots-catalog/collation/caseblind'
UCA = 'http://www.w3.org/2013/collation/UCA'

NOLOCK_COLLS = [CP, HTML, CASEBLIND]
UCA_COLLS = [UCA, UCA + '?lang=C', UCA + '?lang=C;fallback=no', UCA + '?lang=C;fallback=yes', UCA + '?lang=en',
             UCA + '?lang=en;fallback=no', UCA + '?lang=en;fallback=yes', UCA + '?lang=xx;fallback=no',
             UCA + '?lang=xx', UCA + '?lang=;fallback=no', UCA + '?lang=', UCA + '?lang=en_US.UTF-8',
             UCA + '?lang=C.UTF-8;fallback=no', UCA + '?fallback=no', UCA + '?fallback=maybe',
             UCA + '?lang=a b;fallback=no', UCA + '?lang=%%', UCA + '?lang=en;lang=C;fallback=no',
             UCA + '?lang=C;lang=en;fallback=no', UCA + '?strength=primary;fallback=no',
             UCA + '?lang=POSIX;fallback=no', UCA + '?fallback=no;lang=C', UCA + '?lang=de-DE;fallback=no',
             # lang values with dots (locale.encoding and worse) and empty ones, fallback yes / no / absent
             UCA + '?lang=en_US.UTF-8;fallback=no', UCA + '?lang=en_US.UTF-8;fallback=yes', UCA + '?lang=en_US.UTF-8.x',
             UCA + '?lang=en_US.UTF-8.x;fallback=no', UCA + '?lang=a.b.c', UCA + '?lang=a.b.c;fallback=no', UCA + '?lang=a.b.c;fallback=yes',
             UCA + '?lang=.', UCA + '?lang=.;fallback=no', UCA + '?lang=..;fallback=yes', UCA + '?lang=C.UTF-8.;fallback=no',
             UCA + '?lang=;fallback=yes', UCA + '?lang=C.utf8.extra']
_DOTTED_LANG = [c for c in UCA_COLLS if '?' in c and ('.' in c.split('?', 1)[1] or c.endswith('lang=') or 'lang=;' in c)]
LOCALE_COLLS = ['C', 'C.utf8', 'C.UTF-8', 'POSIX', 'it_IT.UTF-8', 'en_US.UTF-8', 'garbage', 'é', '',
                'http://example.com/unknown', 'a/b', 'C.', '.utf8', 'c', "o'c"]
REL_COLLS = ['codepoint', 'html-ascii-case-insensitive', 'collation/codepoint', './codepoint', '../collation/html-ascii-case-insensitive',
             'UCA?lang=C;fallback=no']
COLL_BASE = 'http://www.w3.org/2005/xpath-functions/collation/'
BASE_URIS = [None, COLL_BASE, 'http://www.w3.org/2005/xpath-functions/', 'http://example.com/x/', 'http://www.w3.org/2013/collation/']
ALL_COLLS = NOLOCK_COLLS + UCA_COLLS + LOCALE_COLLS + REL_COLLS + [None]
# collations that are certainly available on any glibc host (used where a step must succeed)
SAFE_LOCKING = ['C', 'C.utf8', 'C.UTF-8', 'POSIX', UCA + '?lang=C;fallback=no']

OPERANDS = ["'a'", "'b'", "'B'", "'ab'", "'abc'", "''", "'A'", "'é'"]

# name -> (minimum version, format, failing-inside-body?)   {C} = ", <collation>" or ""
COLL_TEMPLATES = {
    'compare': ('2.0', "compare({A}, {B}{C})"),
    'contains': ('2.0', "contains({A}, {B}{C})"),
    'starts-with': ('2.0', "starts-with({A}, {B}{C})"),
    'ends-with': ('2.0', "ends-with({A}, {B}{C})"),
    'substring-before': ('2.0', "substring-before({A}, {B}{C})"),
    'substring-after': ('2.0', "substring-after({A}, {B}{C})"),
    'index-of': ('2.0', "index-of(({A}, {B}, {A}), {A}{C})"),
    'distinct-values': ('2.0', "distinct-values(({A}, {B}, {A}){C})"),
    'min': ('2.0', "min(({A}, {B}){C})"),
    'max': ('2.0', "max(({A}, {B}){C})"),
    'deep-equal': ('2.0', "deep-equal(({A}, {B}), ({A}, {B}){C})"),
    'deep-equal-nodes': ('2.0', "deep-equal(/r/a[1], /r/a[2]{C})"),
    'sort': ('3.1', "sort(({B}, {A}){C})"),
    'array-sort': ('3.1', "array:sort([{B}, {A}]{C})"),
    # operands containing arrays and maps (3.1): members are compared by recursive calls under the same collation
    'deep-equal-array': ('3.1', "deep-equal([{A}, {B}], [{A}, {B}]{C})"),
    'deep-equal-array-diff': ('3.1', "deep-equal([{A}, [{B}]], [{A}, [{A}]]{C})"),
    'deep-equal-map': ('3.1', "deep-equal(map{{'k': {A}, 'l': [{B}, {A}]}}, map{{'l': [{B}, {A}], 'k': {A}}}{C})"),
    'deep-equal-nested': ('3.1', "deep-equal(({A}, [{B}, map{{1: [{A}, ({B}, {A})]}}], {B}), ({A}, [{B}, map{{1: [{A}, ({B}, {A})]}}], {B}){C})"),
    'deep-equal-array-nodes': ('3.1', "deep-equal([/r/a[1], {A}], [/r/a[1], {A}]{C})"),
    'index-of-array': ('3.1', "index-of(([{A}, {B}], {B}, [[{B}]]), {B}{C})"),
    'distinct-values-array': ('3.1', "distinct-values(([{A}, {B}], {A}, [[{B}]]){C})"),
    'sort-array-members': ('3.1', "sort(([{B}], [{A}], {A}){C})"),
    'sort-key-array': ('3.1', "sort(({B}, {A}){C!}, function($x) {{ [$x, [{A}]] }})"),
    'array-sort-nested': ('3.1', "array:sort([[{B}, {A}], [{A}]]{C})"),
    'min-array': ('3.1', "min(([{A}, {B}], {A}){C})"),
    # raising inside (or around) the with-body
    'max-mixed': ('2.0', "max(({A}, 1){C})"),
    'distinct-error': ('2.0', "distinct-values(({A}, error()){C})"),
    'index-of-error': ('2.0', "index-of(({A}, 1 idiv 0), {A}{C})"),
    'deep-equal-error': ('2.0', "deep-equal(({A}, error()), ({A}, {B}){C})"),
    'deep-equal-function': ('3.0', "deep-equal(({A}, abs#1), ({A}, abs#1){C})"),
    'sort-mixed': ('3.1', "sort(({A}, 1){C})"),
    'compare-type': ('2.0', "compare({A}, 1{C})"),
    'min-duration': ('2.0', "min((xs:duration('P1D'), xs:duration('P2D')){C})"),
    # abandoned generators
    'exists-distinct': ('2.0', "exists(distinct-values(({A}, {B}, {A}){C}))"),
    'index-of-head': ('2.0', "index-of(({A}, {B}, {A}), {A}{C})[1]"),
    'some-distinct': ('2.0', "some $x in distinct-values(({A}, {B}){C}) satisfies $x = {A}"),
}
_ARRAY_MAP_TEMPLATES = {'deep-equal-array', 'deep-equal-array-diff', 'deep-equal-map', 'deep-equal-nested', 'deep-equal-array-nodes',
                        'index-of-array', 'distinct-values-array', 'sort-array-members', 'sort-key-array', 'array-sort-nested', 'min-array'}
NESTED_TEMPLATES = {
    'nest-for-distinct': ('2.0', "for $x in distinct-values(({A}, {B}, {A}){C}) return compare($x, {A}, {C2})"),
    'nest-for-index': ('2.0', "for $x in index-of(({A}, {B}, {A}), {A}{C}) return compare({B}, {A}, {C2})"),
    'nest-operand-distinct': ('2.0', "distinct-values((compare({A}, {B}, {C2}), 1){C})"),
    'nest-operand-index': ('2.0', "index-of((compare({A}, {B}, {C2}), 1), 1{C})"),
    'nest-operand-deep': ('2.0', "deep-equal((compare({A}, {B}, {C2})), (-1){C})"),
    'nest-operand-max': ('2.0', "max((string(compare({A}, {B}, {C2})), {A}){C})"),
    'nest-contains': ('2.0', "contains({A}, string(compare({A}, {B}, {C2})){C})"),
    'nest-some': ('2.0', "some $x in distinct-values(({A}, {B}){C}) satisfies contains($x, {A}, {C2})"),
    'nest-sort-key': ('3.1', "sort(({B}, {A}){C!}, function($x) {{ compare($x, {A}, {C2}) }})"),
    # higher-order functions consuming a collation function's result lazily while the callback takes a locale collation
    'nest-hof-for-each-index': ('3.0', "for-each(index-of(({A}, {B}, {A}), {A}{C}), function($i) {{ compare({A}, {B}, {C2}) }})"),
    'nest-hof-filter-distinct': ('3.0', "filter(distinct-values(({A}, {B}, {A}){C}), function($x) {{ contains($x, {A}, {C2}) }})"),
    'nest-hof-fold-left-index': ('3.0', "fold-left(index-of(({A}, {B}, {A}), {A}{C}), 0, function($acc, $i) {{ $acc + compare({A}, {B}, {C2}) }})"),
    'nest-hof-fold-right-distinct': ('3.0', "fold-right(distinct-values(({A}, {B}){C}), '', function($x, $acc) {{ concat($acc, string(compare($x, {A}, {C2}))) }})"),
    'nest-hof-for-each-pair': ('3.0', "for-each-pair(distinct-values(({A}, {B}, {A}){C}), index-of(({A}, {B}, {A}), {A}{C}), "
                                      "function($x, $i) {{ compare($x, {A}, {C2}) }})"),
    'nest-hof-for-each-sort': ('3.1', "for-each(sort(({B}, {A}){C}), function($x) {{ ends-with($x, {A}, {C2}) }})"),
    'nest-hof-bang-index': ('3.0', "index-of(({A}, {B}, {A}), {A}{C}) ! compare({A}, {B}, {C2})"),
    'nest-hof-filter-index': ('3.0', "filter(index-of(({B}, {A}, {A}), {A}{C}), function($i) {{ starts-with({A}, {B}, {C2}) }})"),
    'nest-hof-apply-named': ('3.0', "for-each(index-of(({A}, {B}), {B}{C}), compare({A}, ?, {C2}))"),
    'nest-deep-lazy': ('2.0', "deep-equal(for $x in ({A}, {B}) return string(compare($x, {A}, {C2})), ('0', '1'){C})"),
}
PLAIN_EXPRS = [
    ('2.0', "1.1 + 2.2"), ('2.0', "10 div 3"), ('2.0', "xs:decimal('1') div 7"), ('2.0', "round-half-to-even(2.5)"),
    ('2.0', "round-half-to-even(3.14159, 2)"), ('2.0', "1 idiv 0"), ('2.0', "xs:integer('x')"), ('2.0', "1 +"),
    ('2.0', "string-join(('a', 'b'), '-')"), ('2.0', "matches('aB', '\\p{Lu}')"), ('2.0', "2.5 * 1.30"),
    ('3.0', "format-number(1234.5, '#,##0.00')"), ('2.0', "xs:decimal(1e0 div 3)"), ('2.0', "'a' lt 'b'"),
    ('2.0', "count(//a)"), ('2.0', "1.0000000000000000000000000001 * 3"), ('3.0', "round(2.675, 2)"),
    # decimals with more digits than the default context precision: every numeric code path that may be
    # tempted to widen the (thread-global) decimal context
    ('2.0', "round-half-to-even(12345678901234567890123.4567895, 6)"),
    ('2.0', "round-half-to-even(1234567890123456789012345678901234.5)"),
    ('2.0', "round(1234567890123456789012345678901234.5)"), ('3.0', "round(12345678901234567890123456789.125, 2)"),
    ('3.0', "round(123456789012345678901234567890, -3)"), ('2.0', "123456789012345678901234567890.5 idiv 7"),
    ('2.0', "123456789012345678901234567890.5 mod 7"), ('2.0', "123456789012345678901234567890.5 div 3"),
    ('2.0', "123456789012345678901234567890.5 * 1.5"), ('2.0', "abs(-12345678901234567890123456789012345.6)"),
    ('2.0', "floor(12345678901234567890123456789012345.6)"), ('2.0', "ceiling(12345678901234567890123456789012345.6)"),
    ('2.0', "avg((123456789012345678901234567890.1, 2))"), ('2.0', "sum((123456789012345678901234567890.1, 0.9))"),
    ('2.0', "xs:integer(1234567890123456789012345678901234.9)"), ('2.0', "xs:decimal(1e40)"),
    ('2.0', "string(1234567890123456789012345678901234.5)"), ('2.0', "xs:dayTimeDuration('PT0.000001S') * 1234567890123"),
    ('3.0', "format-number(12345678901234567890123456789012.5, '#.0')"),
    ('2.0', "seconds-from-dateTime(xs:dateTime('2000-01-01T00:00:01.123456789012345678901234567890'))"),
    # block escapes (converted lazily in a process-global table) ...
    ('2.0', "matches('a', '\\p{IsBasicLatin}')"), ('2.0', "matches('\u03b1', '\\p{IsGreek}')"), ('2.0', "replace('a\u0436', '\\p{IsCyrillic}', '#')"),
    ('2.0', "matches('\u00e9', '[\\p{IsLatin-1Supplement}]')"), ('2.0', "matches('a', '\\P{IsBasicLatin}')"), ('2.0', "matches('\u4e00', '\\p{IsCJKUnifiedIdeographs}')"),
    # ... and the special block NoBlock (all code points outside every block)
    ('2.0', "matches('a', '\\p{IsNoBlock}')"), ('2.0', "replace('aZ\u03b1#!', '\\P{IsNoBlock}', '#')"), ('2.0', "matches('\u2fe0', '\\p{IsNoBlock}')"),
    ('2.0', "replace('a\u2fe0\u0436\u4e00', '[\\p{IsNoBlock}\\p{IsGreek}]', '-')"), ('2.0', "matches('\u0436', '^\\P{IsNoBlock}$')"),
    # character classes whose first part is a negated escape followed by another negated escape or a subtraction
    # (their construction works on the process-global category subsets) ...
    ('2.0', "matches('a', '[\\D\\S]')"), ('2.0', "matches('A', '[\\P{Lu}\\P{Ll}]')"), ('2.0', "matches('5', '[\\D-[x]]')"),
    ('2.0', "matches('5', '[^\\D-[5]]')"), ('2.0', "replace('a1 B', '[\\W\\D]', '-')"), ('2.0', "string-join(tokenize('a 1b', '[\\S-[a]]'), '|')"),
    ('2.0', "matches('x', '[\\P{Nd}\\P{L}]')"), ('2.0', "matches('Q', '[\\P{Lu}-[A-P]]')"), ('2.0', "replace('ab12', '[\\D\\W-[b]]', '.')"),
    # ... and independent later regexes on the same categories
    ('2.0', "matches('5', '\\p{Nd}')"), ('2.0', "matches('5', '[\\d]')"), ('2.0', "matches('A', '\\p{Lu}')"), ('2.0', "matches('\u06635', '^[\\d]+$')"),
    ('2.0', "replace('aB1 ', '\\p{Lu}', '#')"), ('2.0', "matches(' ', '[\\s]')"), ('2.0', "matches('a_1', '^[\\w]+$')"),
    ('2.0', "string-join(tokenize('a1b2', '\\p{Nd}'), '|')"), ('2.0', "matches('b', '\\p{Ll}')"), ('2.0', "replace('x5y', '[^\\d]', '')"),
]
ENV_EXPRS = [
    "environment-variable('%s')" % CANARY_NAME, "available-environment-variables()", "environment-variable('PATH')",
    "environment-variable#1('%s')" % CANARY_NAME, "for-each(('%s', 'HOME'), environment-variable#1)" % CANARY_NAME,
]
XML_DOCS = [
    '<!DOCTYPE r [<!ENTITY e "vp-internal">]><r>&e;</r>',
    '<!DOCTYPE r [<!ENTITY e SYSTEM "file://{CANARY}">]><r>&e;</r>',
    '<!DOCTYPE r [<!ENTITY % p "<!ENTITY e \'vp-internal\'>"> %p;]><r>&e;</r>',
    '<r>&lt;ok&gt;</r>', '<r><a/>text</r>', '<r', '',
    '<!DOCTYPE r [<!ENTITY e "">]><r>x&e;</r>', "<!DOCTYPE r [<!ENTITY e ''>]><r>x</r>", '<!DOCTYPE r [<!ENTITY e SYSTEM "">]><r>x</r>',
    '<!DOCTYPE r [<!ENTITY % p "">%p;]><r>x</r>',
]

_BLOCK_STEPS = [i for i, (_v, e) in enumerate(PLAIN_EXPRS) if '{Is' in e and 'IsNoBlock' not in e]
_NOBLOCK_STEPS = [i for i, (_v, e) in enumerate(PLAIN_EXPRS) if 'IsNoBlock' in e]
_REGEX_FIRST = [i for i, (_v, e) in enumerate(PLAIN_EXPRS) if '{Is' not in e and ("'[\\D" in e or "'[\\P" in e or "'[^\\D-" in e or "'[\\W" in e or "'[\\S-" in e)]
_REGEX_LATER = [i for i, (_v, e) in enumerate(PLAIN_EXPRS) if i > max(_REGEX_FIRST) and ('matches(' in e or 'replace(' in e or 'tokenize(' in e)]

# --------------------------------------------------------------------------
# forked child plumbing
# --------------------------------------------------------------------------


_preloaded = False


def _preload():
    """import (never evaluate) everything the children need, once per worker, so that a fork is cheap"""
    global _preloaded
    if not _preloaded:
        import decimal, locale, tempfile, threading, gc                      # noqa: F401
        import xml.etree.ElementTree, lxml.etree                            # noqa: F401
        import elementpath, elementpath.xpath30, elementpath.xpath31, elementpath.collations   # noqa: F401
        for ver in ('2.0', '3.0', '3.1'):
            _parser_class(ver)().parse('1')      # builds the class-level tokenizer only (no locale, no regex caches)
        gc.collect()
        gc.freeze()        # children then never traverse (and copy-on-write) the parent's heap
        _preloaded = True


def _fork_call(fn, arg, timeout=None):
    """Run fn(arg) in a forked child; returns {'ok': json} | {'timeout': True} | {'died': status}."""
    _preload()
    global _CANARY_PATH
    import tempfile
    fd, _CANARY_PATH = tempfile.mkstemp(prefix='vp_c19_', suffix='.txt')    # removed by the parent, also after a kill
    os.write(fd, CANARY_FILE_TEXT.encode())
    os.close(fd)
    try:
        return _fork_call_inner(fn, arg, CHILD_TIMEOUT if timeout is None else timeout)
    finally:
        try:
            os.unlink(_CANARY_PATH)
        except OSError:
            pass


_CANARY_PATH = '/nonexistent'


def _fork_call_inner(fn, arg, timeout):
    r, w = os.pipe()
    pid = os.fork()
    if pid == 0:
        try:
            os.close(r)
            dn = os.open(os.devnull, os.O_WRONLY)
            os.dup2(dn, 2)     # "Exception ignored in generator" chatter of the child
            try:
                out = {'ok': fn(arg)}
            except BaseException:
                out = {'harness_error': traceback.format_exc()}
            data = json.dumps(out, default=repr).encode('utf-8', 'backslashreplace')
            with os.fdopen(w, 'wb') as f:
                f.write(data)
        finally:
            os._exit(0)
    os.close(w)
    chunks = []
    deadline = time.monotonic() + timeout
    timed_out = False
    while True:
        left = deadline - time.monotonic()
        if left <= 0:
            timed_out = True
            break
        rl, _, _ = _select.select([r], [], [], left)
        if not rl:
            continue
        b = os.read(r, 1 << 16)
        if not b:
            break
        chunks.append(b)
    os.close(r)
    if timed_out:
        try:
            os.kill(pid, signal.SIGKILL)
        except ProcessLookupError:
            pass
        os.waitpid(pid, 0)
        return {'timeout': True}
    _, status = os.waitpid(pid, 0)
    if not chunks:
        return {'died': status}
    out = json.loads(b''.join(chunks).decode('utf-8'))
    if 'harness_error' in out:
        raise HarnessError('C19 child failed:\n' + out['harness_error'])
    return out


def _lcnorm(s):
    s = s.lower()
    if '.' in s:
        lang, enc = s.split('.', 1)
        s = lang + '.' + enc.replace('-', '')
    if s == 'posix' or s.startswith('posix.'):
        s = 'c' + s[5:]
    return s


class _SelfDeadlock(BaseException):
    def __init__(self, holder):
        super().__init__(holder)
        self.holder = holder


class _LockProxy:
    """Wraps elementpath.collations._locale_collate_lock; same behaviour, plus: an acquire by the thread that
    already owns a non-reentrant lock (which would block for ever) raises _SelfDeadlock instead of blocking."""

    def __init__(self, inner):
        import threading
        self.inner = inner
        self.reentrant = not hasattr(inner, 'locked') or type(inner).__name__ == 'RLock'
        self.owner = None
        self.depth = 0
        self.holder = None
        self._ident = threading.get_ident

    def acquire(self, blocking=True, timeout=-1):
        import sys
        me = self._ident()
        if self.owner == me and not self.reentrant and blocking and timeout == -1:
            raise _SelfDeadlock(self.holder)
        ok = self.inner.acquire(blocking, timeout)
        if ok:
            self.owner = me
            self.depth += 1
            if self.depth == 1:
                fr = sys._getframe(1)
                names = []
                while fr is not None and len(names) < 2:
                    if '/elementpath/' in fr.f_code.co_filename.replace('\\', '/'):
                        names.append(fr.f_code.co_name)
                    fr = fr.f_back
                self.holder = names[-1] if names else '?'
        return ok

    def release(self):
        self.depth -= 1
        if self.depth <= 0:
            self.depth = 0
            self.owner = None
        self.inner.release()

    def locked(self):
        return self.depth > 0

    def __enter__(self):
        self.acquire()
        return self

    def __exit__(self, *a):
        self.release()

    def force_release(self):
        while self.depth > 0:
            self.depth -= 1
            try:
                self.inner.release()
            except RuntimeError:        # released behind the proxy's back
                pass
        self.owner = None


class _InjectedState:
    pass


def _child_setup(cfg):
    """Common child-side installation; returns a state object."""
    import decimal
    import locale
    import tempfile
    import elementpath.collations as colls
    S = _InjectedState()
    S.real_setlocale = locale.setlocale
    if not hasattr(colls, '_locale_collate_lock'):
        raise HarnessError('elementpath.collations._locale_collate_lock not found (named by the property)')
    S.proxy = _LockProxy(colls._locale_collate_lock)
    colls._locale_collate_lock = S.proxy
    S.calls = 0
    S.fault = cfg.get('fault', 0)
    S.hit = None            # (requested locale, caller name) of the failed call
    S.step_lc = None

    def patched(category, loc=None):
        if loc is None:
            return S.real_setlocale(category)
        S.calls += 1
        if S.calls == S.fault:
            import sys
            S.hit = (loc, sys._getframe(1).f_code.co_name)
            raise locale.Error('unsupported locale setting')
        return S.real_setlocale(category, loc)

    locale.setlocale = patched
    os.environ[CANARY_NAME] = CANARY_VALUE
    S.real_setlocale(locale.LC_COLLATE, cfg.get('lc', 'C'))
    decimal.getcontext().prec = cfg.get('prec', 28)
    decimal.DefaultContext.prec = cfg.get('prec', 28)      # what new threads start from
    S.canary_path = _CANARY_PATH
    return S


def _child_cleanup(S):
    pass


def _dec_tuple():
    import decimal
    c = decimal.getcontext()
    return [c.prec, c.rounding, c.Emin, c.Emax, c.capitals, c.clamp, sorted(s.__name__ for s, v in c.traps.items() if v)]


def _unicode_digest():
    """digests of a few process-global code point sets: general categories of the installed Unicode data and the
    \\s \\d \\w \\i \\c shortcut subsets that are already in the module cache (never filled from here)"""
    from elementpath.regex import unicode_subsets as us
    out = {}
    for name in ('Nd', 'Lu', 'Ll', 'Zs'):          # two-letter categories are stored sets; one-letter ones are rebuilt per call
        out[name] = hash(tuple(us.unicode_category(name)._codepoints))
    blocks = getattr(us.__dict__.get('__unicode_data'), '_blocks', {})
    if hasattr(blocks.get('NoBlock'), '_codepoints'):
        out['block:NoBlock'] = hash(tuple(blocks['NoBlock']._codepoints))
    for func, subset in list(us.__dict__.get('__subsets_cache', {}).items()):
        out['cache:' + getattr(func, '__name__', '?')] = hash(tuple(subset._codepoints))
    return out


def _snapshot(S):
    import locale
    return {'lc': S.real_setlocale(locale.LC_COLLATE, None), 'lock': S.proxy.locked(), 'dec': _dec_tuple(),
            'env': dict(os.environ), 'uni': _unicode_digest()}


def _restore(S, before):
    """re-synchronise the process state so that the history continues behind a violation"""
    import decimal
    import locale
    S.proxy.force_release()
    S.real_setlocale(locale.LC_COLLATE, before['lc'])
    c = decimal.getcontext()
    c.prec, c.rounding, c.Emin, c.Emax, c.capitals, c.clamp = before['dec'][:6]
    for s in c.traps:
        c.traps[s] = s.__name__ in before['dec'][6]
    if dict(os.environ) != before['env']:
        os.environ.clear()
        os.environ.update(before['env'])
    if any(_unicode_digest().get(k) != v for k, v in before.get('uni', {}).items()):
        from elementpath.regex import install_unicode_data
        install_unicode_data()           # rebuilds the installed data and clears the subsets cache


def _parser_class(ver):
    if ver == '2.0':
        from elementpath import XPath2Parser
        return XPath2Parser
    if ver == '3.0':
        from elementpath.xpath30 import XPath30Parser
        return XPath30Parser
    from elementpath.xpath31 import XPath31Parser
    return XPath31Parser


def _lit(s):
    return '()' if s is None else "'" + s.replace("'", "''") + "'"


def _ver_max(a, b):
    return a if a >= b else b


def render_step(step, canary_path='/nonexistent'):
    """-> (expr, variables, parser kwargs, version, function label)"""
    k = step['k']
    ver = step.get('ver', '3.1')
    variables, pk = {}, {}
    if k in ('coll', 'nest'):
        minv, fmt = (COLL_TEMPLATES if k == 'coll' else NESTED_TEMPLATES)[step['t']]
        ver = _ver_max(ver, minv)
        via, c = step.get('via', 'lit'), step['c']
        if via == 'default' and c is not None:
            carg, cbang = '', ', ()'
            pk['default_collation'] = c
        elif via == 'var' and c is not None:
            carg = cbang = ', $c'
            variables['c'] = c
        else:
            carg = cbang = ', ' + _lit(c)
        if step.get('base'):
            pk['base_uri'] = step['base']          # static base URI: relative collation URIs are resolved against it
        a = OPERANDS[step.get('a', 0) % len(OPERANDS)]
        b = OPERANDS[step.get('b', 1) % len(OPERANDS)]
        expr = fmt.replace('{C!}', cbang).replace('{C2}', _lit(step.get('c2', 'C'))).replace('{C}', carg) \
            .replace('{A}', a).replace('{B}', b).replace('{{', '{').replace('}}', '}')
        return expr, variables, pk, ver, step['t']
    if k == 'plain':
        minv, expr = PLAIN_EXPRS[step['i'] % len(PLAIN_EXPRS)]
        return expr, variables, pk, _ver_max(ver, minv), 'plain'
    if k == 'env':
        return ENV_EXPRS[step['i'] % len(ENV_EXPRS)], variables, pk, _ver_max(ver, '3.0'), 'env'
    if k == 'xml':
        doc = XML_DOCS[step['i'] % len(XML_DOCS)].replace('{CANARY}', canary_path)
        fn = 'parse-xml-fragment' if step.get('frag') else 'parse-xml'
        return f"{fn}($d)/string()", {'d': doc}, pk, _ver_max(ver, '3.0'), 'xml'
    if k == 'probe':
        return "compare('a', 'b', %s)" % _lit(CP if step['p'] == 'cp' else 'C.utf8'), variables, pk, ver, 'probe-' + step['p']
    raise HarnessError(f'unknown step kind {k!r}')


def _new_root(lxml_root=False):
    if lxml_root:
        import lxml.etree as LE
        return LE.XML('<r><a>x</a><a>y</a></r>')
    import xml.etree.ElementTree as ET
    r = ET.Element('r')
    for t in ('x', 'y'):
        ET.SubElement(r, 'a').text = t
    return r


def _evaluate(api, expr, variables, pk, ver, root, ctx_kwargs=None):
    import elementpath
    P = _parser_class(ver)
    ck = dict(ctx_kwargs or {})
    if variables:
        ck['variables'] = variables
    if api == 'select':
        return elementpath.select(root, expr, parser=P, **ck, **pk)
    if api == 'selector':
        return elementpath.Selector(expr, parser=P, **pk).select(root, **ck)
    tok = P(**pk).parse(expr)
    res = tok.evaluate(elementpath.XPathContext(root, **ck))
    return list(res) if hasattr(res, '__next__') else res


def _norm(v, top=True):
    """results as plain data: select()/evaluate() return a bare value or a list; arrays keep their structure"""
    from elementpath.xpath_tokens import XPathArray, XPathMap
    if isinstance(v, XPathArray):
        r = ['array', [_norm(x, False) for x in v.items()]]
    elif isinstance(v, XPathMap):
        r = ['map', [[_norm(k, False), _norm(x, False)] for k, x in v.items()]]
    elif isinstance(v, (list, tuple)):
        return [_norm(x, False) for x in v]
    elif isinstance(v, (str, int, bool)) or v is None:
        r = v
    elif hasattr(v, 'tag') and hasattr(v, 'attrib'):
        r = ['element', str(v.tag), v.text]
    else:
        r = repr(v)
    return [r] if top else r


def _outcome(fn):
    """run fn(); -> (['ok', repr] | ['err', code, type] | ['escape', bucket, repr] | ['deadlock', holder], exc-site)"""
    from elementpath import ElementPathError
    try:
        res = fn()
        return ['ok', repr(_norm(res))], None
    except _SelfDeadlock as e:
        return ['deadlock', str(e.holder)], 'self-deadlock'
    except ElementPathError as e:
        code = getattr(e, 'code', None) or ''
        site = escape_bucket('', e).split('/escape/', 1)[1]
        return ['err', str(code).rsplit(':', 1)[-1], type(e).__name__], site
    except Exception as e:
        b = escape_bucket('C19', e)
        return ['escape', b, repr(e)[:200]], b.split('/escape/', 1)[1]


def _state_violations(before, after):
    v = []
    if after['lock']:
        v.append(['lock-held', 'unlocked', 'locked'])
    if _lcnorm(after['lc']) != _lcnorm(before['lc']):
        v.append(['lc-collate-changed', before['lc'], after['lc']])
    if after['dec'] != before['dec']:
        v.append(['decimal-context-changed', before['dec'], after['dec']])
    if after['env'] != before['env']:
        ks = sorted(k for k in set(before['env']) | set(after['env']) if before['env'].get(k) != after['env'].get(k))
        v.append(['environ-changed', 'unchanged', ks[:5]])
    changed = sorted(k for k, d in before.get('uni', {}).items() if after.get('uni', {}).get(k, d) != d)
    if changed:
        v.append(['unicode-data-changed', 'global code point sets unchanged', changed[:6]])
    return v


def _child_history(arg):
    """arg = {'cfg':…, 'steps': […], 'fault': k}; returns per-step records + N setlocale calls."""
    cfg = dict(arg['cfg'], fault=arg.get('fault', 0))
    S = _child_setup(cfg)
    try:
        import gc
        root = _new_root(cfg.get('lxml', False))
        recs = []
        for step in arg['steps']:
            expr, variables, pk, ver, label = render_step(step, S.canary_path)
            before = _snapshot(S)
            c0 = S.calls
            hit0 = S.hit
            out, site = _outcome(lambda: _evaluate(step.get('api', 'select'), expr, variables, pk, ver, root))
            if S.proxy.locked():
                gc.collect()   # give abandoned generators in reference cycles the chance to be finalised first
            after = _snapshot(S)
            hit = S.hit if S.hit is not hit0 else None
            rec = {'out': out, 'site': site, 'viol': _state_violations(before, after), 'label': label, 'expr': expr,
                   'calls': S.calls - c0, 'hit': None}
            if hit is not None:
                req = hit[0]
                if isinstance(req, (tuple, list)):
                    req = 'C' if req[0] is None else (req[0] + ('.' + req[1] if req[1] else ''))
                rec['hit'] = {'restore': isinstance(req, str) and _lcnorm(req) == _lcnorm(before['lc']),
                              'caller': hit[1], 'req': str(req)}
            recs.append(rec)
            _restore(S, before)
        return {'steps': recs, 'N': S.calls}
    finally:
        _child_cleanup(S)


# --------------------------------------------------------------------------
# history strategies
# --------------------------------------------------------------------------

def _coll_class(c):
    if c is None:
        return 'none'
    if c in NOLOCK_COLLS:
        return 'nolock'
    return 'locking'


_api = st.sampled_from(['select', 'select', 'selector', 'token'])
_ver = st.sampled_from(['2.0', '3.0', '3.1', '3.1'])
_coll = st.one_of(st.sampled_from(ALL_COLLS), st.sampled_from(UCA_COLLS[:9] + SAFE_LOCKING))
_safe = st.sampled_from(SAFE_LOCKING)
_opi = st.integers(0, len(OPERANDS) - 1)


@st.composite
def _step(draw):
    k = draw(st.integers(0, 99))
    base = {'api': draw(_api), 'ver': draw(_ver)}
    if k < 13:
        # relative collation URI under a static base URI (several of them meet in one history)
        return dict(base, k='coll', t=draw(st.sampled_from(['compare', 'contains', 'max', 'distinct-values', 'deep-equal', 'index-of'])),
                    c=draw(st.sampled_from(REL_COLLS[:2] + REL_COLLS)), base=draw(st.sampled_from(BASE_URIS + [COLL_BASE])),
                    via=draw(st.sampled_from(['lit', 'var'])), a=draw(_opi), b=draw(_opi))
    if k < 55:
        return dict(base, k='coll', t=draw(st.sampled_from(sorted(COLL_TEMPLATES))), c=draw(st.one_of(_coll, _coll, st.sampled_from(_DOTTED_LANG))),
                    via=draw(st.sampled_from(['lit', 'lit', 'var', 'default'])), a=draw(_opi), b=draw(_opi),
                    base=draw(st.sampled_from([None, None, None, COLL_BASE])))
    if k < 72:
        return dict(base, k='nest', t=draw(st.sampled_from(sorted(NESTED_TEMPLATES))),
                    c=draw(st.one_of(_safe, _coll)), c2=draw(st.one_of(_safe, st.sampled_from(ALL_COLLS[:-1]))),
                    via=draw(st.sampled_from(['lit', 'var', 'default'])), a=draw(_opi), b=draw(_opi))
    if k < 80:
        return dict(base, k='plain', i=draw(st.integers(0, len(PLAIN_EXPRS) - 1)))
    if k < 85:
        return dict(base, k='env', i=draw(st.integers(0, len(ENV_EXPRS) - 1)))
    if k < 90:
        return dict(base, k='xml', i=draw(st.integers(0, len(XML_DOCS) - 1)), frag=draw(st.booleans()))
    return dict(base, k='probe', p=draw(st.sampled_from(['cp', 'c'])))


_cfg = st.fixed_dictionaries({'lc': st.sampled_from(['C', 'C', 'C.utf8', 'C.UTF-8', 'POSIX']),
                              'prec': st.sampled_from([28, 28, 40]), 'lxml': st.sampled_from([False, False, True])})
history_case = st.fixed_dictionaries({'cfg': _cfg, 'steps': st.lists(_step(), min_size=3, max_size=10),
                                      'fault': st.just('all')})

_PROBES = [{'k': 'probe', 'p': 'cp', 'api': 'select', 'ver': '2.0'}, {'k': 'probe', 'p': 'c', 'api': 'select', 'ver': '2.0'}]

_solo_cache: dict[str, list] = {}


def _solo(cfg, step, rec=None):
    key = canon([cfg, step])
    if key not in _solo_cache:
        r = _fork_call(_child_history, {'cfg': cfg, 'steps': [step], 'fault': 0})
        if 'ok' not in r:
            if rec is not None:
                rec.cls('inconclusive:solo-child-' + ('timeout' if 'timeout' in r else 'died'))
            _solo_cache[key] = None
        else:
            _solo_cache[key] = r['ok']['steps'][0]['out']
    return _solo_cache[key]


def _same_answer(out, solo):
    if out[0] != solo[0]:
        return False
    if out[0] == 'err':
        return out[1] == solo[1]
    if out[0] == 'escape':
        return out[1] == solo[1]
    return out[1] == solo[1]


def _judge_run(case, k, rec, discs):
    """one run of the history with fault index k (0 = none); returns N or None (inconclusive)"""
    cfg, steps = case['cfg'], list(case['steps']) + _PROBES
    r = _fork_call(_child_history, {'cfg': cfg, 'steps': steps, 'fault': k})
    if 'ok' not in r:
        if rec is not None:
            what = 'timeout' if 'timeout' in r else 'died'
            rec.cls('inconclusive:child-' + what)
            rec.notes.append(f'inconclusive: history child {what}: {canon(case)[:300]} fault={k}')
        return None
    recs = r['ok']['steps']
    failed_coll = fail_then_lock = nested = arrmap = hof = False
    hit_any = False
    for i, (step, sr) in enumerate(zip(steps, recs)):
        out, label = sr['out'], sr['label']
        where = f'step {i} fault={k} expr={sr["expr"]}'
        when = ('after-return:' + label) if out[0] == 'ok' else \
               ('after-raise:' + str(sr['site'])) if out[0] in ('err', 'escape') else 'after-self-deadlock'
        hit = sr['hit']
        hit_any = hit_any or hit is not None
        restore_hit = bool(hit and hit['restore'])
        if hit:
            when = 'fault-at:' + hit['caller'] + ('(restore)' if restore_hit else '')
        for kind, exp, obs in sr['viol']:
            if restore_hit and kind == 'lc-collate-changed':
                continue
            discs.append(Disc(f'C19/{kind}/{when}', exp, obs, where))
        if out[0] == 'deadlock':
            discs.append(Disc(f'C19/self-deadlock/held-by:{out[1]}', 'evaluation completes',
                              'acquire() of the collation lock by the thread that owns it', where))
        elif out[0] == 'escape' and not restore_hit:
            discs.append(Disc(out[1], 'value or ElementPathError', out[2], where))
        # answers
        if step['k'] == 'probe':
            if out != ['ok', '[-1]'] and out[0] != 'escape' and not hit:
                discs.append(Disc(f'C19/probe/{label}', '[-1]', out, where))
        elif out[0] != 'deadlock' and not restore_hit:
            solo = _solo(cfg, step, rec)
            if solo is not None and solo[0] != 'deadlock' and not _same_answer(out, solo):
                if hit is not None and out[0] == 'err' and out[1] == 'FOCH0002':
                    pass
                elif hit is not None and out[0] == 'escape':
                    pass        # already reported as escape
                else:
                    discs.append(Disc(f'C19/answer-differs/{label}' + ('/fault-hit' if hit else ''), solo, out, where))
        if step['k'] == 'env' and out[0] == 'ok' and (out[1] != '[]' or CANARY_VALUE in out[1]):
            discs.append(Disc('C19/env/visible/history', '[]', out[1], where))
        if step['k'] == 'xml':
            doc = XML_DOCS[step['i'] % len(XML_DOCS)]
            if out[0] == 'ok' and '<!ENTITY' in doc:
                discs.append(Disc('C19/entities/accepted/history', 'rejected', out[1], where))
            if CANARY_FILE_TEXT in canon(out):
                discs.append(Disc('C19/entities/canary-leak/history', 'no file content', out, where))
        # classes
        if step['k'] in ('coll', 'nest'):
            locking = _coll_class(step['c']) == 'locking' or (step['k'] == 'nest' and _coll_class(step.get('c2')) == 'locking')
            if failed_coll and locking:
                fail_then_lock = True
            if out[0] != 'ok':
                failed_coll = True
            if step['k'] == 'nest' and _coll_class(step['c']) == 'locking' and _coll_class(step.get('c2')) == 'locking':
                nested = True
            if step['k'] == 'nest' and step['t'].startswith('nest-hof-') and _coll_class(step['c']) == 'locking' \
                    and _coll_class(step.get('c2')) == 'locking':
                hof = True
            if step['k'] == 'coll' and step['t'] in _ARRAY_MAP_TEMPLATES and _coll_class(step['c']) == 'locking':
                arrmap = True
    if rec is not None:
        rel = {}
        for st_ in steps:
            if st_.get('k') == 'coll' and st_.get('c') in REL_COLLS:
                rel.setdefault(st_['c'], set()).add(st_.get('base'))
        if k == 0 and any(len(v) >= 2 for v in rel.values()):
            rec.cls('history:relative-collation-under-two-base-uris')
        if k == 0 and any(st_.get('c') in _DOTTED_LANG for st_ in steps):
            rec.cls('history:uca-dotted-lang')
        classes = ['history:run', 'history:base-run' if k == 0 else 'history:fault-run']
        if fail_then_lock:
            classes.append('history:fail-then-locking-step')
        if hof and k == 0:
            classes.append('history:hof-consumer-of-collation-result')
        if arrmap and k == 0:
            classes.append('history:array-map-operand-locking-collation')
        if nested and k == 0:
            classes.append('history:nested-collation')
        if k and hit_any:
            classes.append('history:fault-hit')
        if case['cfg']['lc'] != 'C':
            classes.append('history:non-C-initial-locale')
        rec.case([case['cfg'], case['steps'], k], nontrivial=fail_then_lock or (k > 0 and hit_any),
                 sample={'check': 'history', 'cfg': case['cfg'], 'fault': k,
                         'exprs': [s['expr'] for s in recs][:10]}, classes=classes)
        rec.cls('history:steps', len(recs))
    return r['ok']['N']


def judge_history(case, rec: Recorder | None = None) -> list[Disc]:
    discs: list[Disc] = []
    f = case.get('fault', 'all')
    if f == 'all':
        n = _judge_run(case, 0, rec, discs)
        for k in range(1, (n or 0) + 1):
            _judge_run(case, k, rec, discs)
        if rec is not None and n is not None:
            rec.cls('history:setlocale-calls', n)
    else:
        _judge_run(case, int(f), rec, discs)
    return discs


# --------------------------------------------------------------------------
# environment
# --------------------------------------------------------------------------
_ENV_NAMES = [CANARY_NAME, 'PATH', 'HOME', 'LANG', '', 'vp_c19_canary', CANARY_NAME + ' ', 'NO_SUCH_VAR_X', 'PYTHONHASHSEED',
              'SISSASCHOOL_ELEMENTPATH_VERIF', 'é', 'A=B']
_ENV_FORMS = [
    ('3.0', "environment-variable({N})"),
    ('3.0', "fn:environment-variable({N})"),
    ('3.0', "environment-variable#1({N})"),
    ('3.0', "environment-variable(?)({N})"),
    ('3.0', "for-each(({N}, 'HOME'), environment-variable#1)"),
    ('3.0', "function-lookup(xs:QName('fn:environment-variable'), 1)({N})"),
    ('3.0', "let $f := environment-variable#1 return $f({N})"),
    ('3.0', "({N}, 'PATH') ! environment-variable(.)"),
    ('3.0', "string-join(for $v in ({N}, 'PATH') return environment-variable($v), '|')"),
    ('3.0', "available-environment-variables()"),
    ('3.0', "available-environment-variables#0()"),
    ('3.0', "function-lookup(xs:QName('fn:available-environment-variables'), 0)()"),
    ('3.0', "count(available-environment-variables())"),
    ('3.0', "available-environment-variables()[. = {N}]"),
    ('3.0', "exists(environment-variable({N}))"),
    ('3.0', "string(environment-variable({N}))"),
    ('3.1', "apply(environment-variable#1, [{N}])"),
    ('3.1', "[{N}] ! array:for-each(., environment-variable#1)"),
    ('3.1', "map{{'k': environment-variable({N})}}?k"),
    ('3.1', "array:size([available-environment-variables()])"),
    # dynamically evaluated references (function items created while the expression runs)
    ('3.0', "{N} ! environment-variable#1(.)"),
    ('3.0', "for $v in ({N}, 'HOME') return environment-variable#1($v)"),
    ('3.0', "let $f := environment-variable(?) return $f({N})"),
    ('3.0', "for-each(({N}, 'HOME'), function($x) {{ environment-variable#1($x) }})"),
    ('3.0', "let $f := function-lookup(xs:QName('fn:environment-variable'), 1) return ({N}, 'PATH') ! $f(.)"),
    ('3.0', "let $g := available-environment-variables#0 return $g()[. = {N}]"),
    ('3.0', "(environment-variable#1, environment-variable(?)) ! .({N})"),
    ('3.0', "for-each-pair(({N}, 'HOME'), (1, 2), function($a, $b) {{ environment-variable#1($a) }})"),
]
_ENV_DYNAMIC = tuple(range(20, 28)) + (2, 3, 4, 5, 6, 10, 11, 16, 17)
_GRANTS = [[False], [False], [True, False], [True, False, False], [False, True, False], [True, True, False], [False, True, False, True, False]]
# expected result under default settings, by form index (own derivation from "nothing observable")
_ENV_EXPECT = {12: '[0]', 14: '[False]', 15: "['']", 8: "['']", 19: '[1]', 17: "[['array', [[]]]]"}
_ENV_CTX = ['default', 'explicit-false', 'item', 'doc']

_env_query = st.fixed_dictionaries({
    'form': st.one_of(st.integers(0, len(_ENV_FORMS) - 1), st.sampled_from(_ENV_DYNAMIC)),
    'name': st.sampled_from(_ENV_NAMES + [CANARY_NAME] * 6),
    'byvar': st.booleans(), 'api': st.sampled_from(['select', 'selector', 'token', 'selector', 'token']),
    'ver': st.sampled_from(['3.0', '3.1']), 'ctx': st.sampled_from(_ENV_CTX),
    # evaluations of ONE compiled Selector / token: True = XPathContext(allow_environment=True), False = default settings
    'grants': st.sampled_from(_GRANTS)})
env_case = st.fixed_dictionaries({'cfg': _cfg, 'queries': st.lists(_env_query, min_size=8, max_size=16)})


def _render_env(q):
    minv, fmt = _ENV_FORMS[q['form']]
    variables = {}
    if q['byvar']:
        n = '$n'
        variables['n'] = q['name']
    else:
        n = _lit(q['name'])
    return fmt.replace('{N}', n).replace('{{', '{').replace('}}', '}'), variables, _ver_max(q['ver'], minv)


def _child_env(case):
    S = _child_setup(dict(case['cfg']))
    try:
        import elementpath
        import xml.etree.ElementTree as ET
        root = _new_root(case['cfg'].get('lxml', False))
        recs = []
        for q in case['queries']:
            expr, variables, ver = _render_env(q)
            ck = {}
            r = root
            if q['ctx'] == 'explicit-false' and q['api'] != 'select':
                ck['allow_environment'] = False
            elif q['ctx'] == 'item':
                ck['item'] = 'ctx-item'
            elif q['ctx'] == 'doc' and not case['cfg'].get('lxml'):
                r = ET.ElementTree(root)
            grants = q.get('grants', [False]) if q['api'] != 'select' else [False]     # select() compiles per call
            P = _parser_class(ver)
            if variables:
                ck['variables'] = variables
            box = []
            evs = []
            for g in grants:
                before = _snapshot(S)
                kw = dict(ck, allow_environment=True) if g else ck

                def run():
                    if q['api'] == 'select':
                        return elementpath.select(r, expr, parser=P, **kw)
                    if not box:      # compiled once, evaluated for every grant
                        box.append(elementpath.Selector(expr, parser=P) if q['api'] == 'selector' else P().parse(expr))
                    if q['api'] == 'selector':
                        return box[0].select(r, **kw)
                    res = box[0].evaluate(elementpath.XPathContext(r, **kw))
                    return list(res) if hasattr(res, '__next__') else res
                out, site = _outcome(run)
                after = _snapshot(S)
                evs.append({'out': out, 'site': site, 'viol': _state_violations(before, after), 'granted': g})
                _restore(S, before)
            recs.append({'evs': evs, 'expr': expr})
        # positive control (not a verdict): with allow_environment=True the canary is visible to the functions
        P = _parser_class('3.1')
        ctx = elementpath.XPathContext(root, allow_environment=True)
        pos = [P().parse("environment-variable('%s')" % CANARY_NAME).evaluate(ctx),
               CANARY_NAME in P().parse("available-environment-variables()").evaluate(
                   elementpath.XPathContext(root, allow_environment=True))]
        return {'recs': recs, 'positive': pos == [CANARY_VALUE, True]}
    finally:
        _child_cleanup(S)


def judge_env(case, rec: Recorder | None = None) -> list[Disc]:
    discs: list[Disc] = []
    r = _fork_call(_child_env, case)
    if 'ok' not in r:
        if rec is not None:
            rec.cls('inconclusive:child-' + ('timeout' if 'timeout' in r else 'died'))
        return discs
    for q, sr in zip(case['queries'], r['ok']['recs']):
        fkey = f'form{q["form"]}'
        granted_before = False
        for n_ev, ev in enumerate(sr['evs']):
            out = ev['out']
            where = f'expr={sr["expr"]} name={q["name"]!r} api={q["api"]} ctx={q["ctx"]} evaluation {n_ev} of grants {[e["granted"] for e in sr["evs"]]}'
            for kind, exp, obs in ev['viol']:
                discs.append(Disc(f'C19/{kind}/env', exp, obs, where))
            if out[0] == 'escape':
                discs.append(Disc(out[1], 'value or ElementPathError', out[2], where))
            elif ev['granted']:
                granted_before = True
                if rec is not None:
                    rec.cls('env:granted-evaluation')
                    if CANARY_VALUE in canon(out) or CANARY_NAME in canon(out):
                        rec.cls('env:granted-evaluation-sees-canary')
                continue
            elif out[0] == 'ok':
                want = _ENV_EXPECT.get(q['form'], '[]')
                sfx = '/after-granted-evaluation' if granted_before else ''
                if CANARY_VALUE in out[1]:
                    discs.append(Disc(f'C19/env/canary-visible/{fkey}{sfx}', want, out[1], where))
                elif out[1] != want and not (q['form'] == 17 and out[1] == '[]'):    # select() flattens arrays
                    discs.append(Disc(f'C19/env/observable/{fkey}{sfx}', want, out[1], where))
            else:
                # an error is "nothing observable" as well, but none is expected from these forms
                discs.append(Disc(f'C19/env/error/{fkey}/{out[1]}', _ENV_EXPECT.get(q['form'], '[]'), out, where))
        if rec is not None:
            asked = q['name'] == CANARY_NAME or q['form'] in (9, 10, 11, 12, 19)
            withdrawn = any(e['granted'] for e in sr['evs'][:-1])
            rec.case(['env', case['cfg'], q], nontrivial=asked, sample={'check': 'env', 'expr': sr['expr'], 'query': q},
                     classes=['env:query'] + (['env:canary-asked'] if asked else []) + [f'env:api-{q["api"]}']
                     + (['env:grant-then-default-on-one-token'] if withdrawn else [])
                     + (['env:dynamic-reference'] if q['form'] in _ENV_DYNAMIC else []), n=len(sr['evs']))
    if rec is not None:
        rec.cls('env:batch')
        if r['ok']['positive']:
            rec.cls('env:positive-control-ok')
    return discs


# --------------------------------------------------------------------------
# entities
# --------------------------------------------------------------------------
_WS = ['', ' ', '\n', '\t ', '\r\n']
_ENT_NAMES = ['e', 'ent', 'lt2', 'a.b', '_x', 'é']


@st.composite
def _entity_text(draw):
    """JSON description of an XML text with a DOCTYPE; rendered by _render_doc."""
    decls = []
    n = draw(st.integers(1, 3))
    kinds = ['internal', 'external-file', 'external-public', 'parameter', 'nested', 'unparsed', 'param-external',
             'element', 'attlist', 'notation', 'comment', 'pi']
    empties = ['internal-empty', 'external-empty', 'parameter-empty', 'public-empty']
    only_empty = draw(st.integers(0, 3)) == 0          # DOCTYPEs declaring nothing but empty-valued entities
    for _ in range(n):
        decls.append({'kind': draw(st.sampled_from(empties if only_empty else kinds + kinds[:7] + empties)), 'name': draw(st.sampled_from(_ENT_NAMES)),
                      'q': draw(st.sampled_from(['"', "'"])), 'ws': draw(st.sampled_from(_WS))})
    return {
        'prolog': draw(st.sampled_from(['', '', '<?xml version="1.0"?>', '<?xml version="1.0" encoding="UTF-8"?>',
                                        '<?xml version="1.0" encoding="utf-8" standalone="yes"?>',
                                        '<?xml version="1.1"?>', '<?xml version="1.0" encoding="UTF-16"?>',
                                        '<?xml version="1.0" encoding="latin1"?>', '﻿'])),
        'pre': draw(st.sampled_from(['', '', '', '\n', '<!-- c -->', '<?pi x?>', ' ', '<!-- <!DOCTYPE x> -->'])),
        'doctype': draw(st.sampled_from(['internal'] * 8 + ['system', 'public', 'system+internal', 'system+internal', 'none'])),
        'ws': draw(st.sampled_from(_WS)),
        'decls': decls,
        'use': draw(st.sampled_from(['text', 'attr', 'unused', 'text', 'twice'])),
        'root': draw(st.sampled_from(['r', 'r', 'doc', 'p:r'])),
        'fn': draw(st.sampled_from(['parse-xml', 'parse-xml', 'parse-xml-fragment'])),
        'api': draw(_api), 'ver': draw(st.sampled_from(['3.0', '3.1'])),
        'access': draw(st.sampled_from(['/string()', '/string()', '//@*/string()', '', '/*/name()'])),
    }


entities_case = st.fixed_dictionaries({'cfg': _cfg, 'texts': st.lists(_entity_text(), min_size=6, max_size=12)})


def _render_doc(t, canary_path):
    """-> (xml text, declares_entity)"""
    root = t['root']
    decl_txt = []
    ent_names = []
    declares = False
    for d in t['decls']:
        q, n, ws = d['q'], d['name'], d['ws']
        k = d['kind']
        if k == 'internal':
            decl_txt.append(f'<!ENTITY{ws or " "}{n} {q}vp-internal{q}>')
            ent_names.append(n)
            declares = True
        elif k == 'external-file':
            decl_txt.append(f'<!ENTITY {n} SYSTEM {q}file://{canary_path}{q}>')
            ent_names.append(n)
            declares = True
        elif k == 'external-public':
            decl_txt.append(f'<!ENTITY {n} PUBLIC {q}-//VP//x{q} {q}file://{canary_path}{q}>')
            ent_names.append(n)
            declares = True
        elif k == 'parameter':
            decl_txt.append(f'<!ENTITY % {n} {q}<!ENTITY {n}2 "vp-internal">{q}>{ws}%{n};')
            ent_names.append(n + '2')
            declares = True
        elif k == 'param-external':
            decl_txt.append(f'<!ENTITY % {n} SYSTEM {q}file://{canary_path}{q}>{ws}%{n};')
            declares = True
        elif k == 'nested':
            decl_txt.append(f'<!ENTITY {n}0 {q}vp-internal{q}><!ENTITY {n} {q}&{n}0;&{n}0;&{n}0;{q}>')
            ent_names.append(n)
            declares = True
        elif k == 'unparsed':
            decl_txt.append(f'<!NOTATION gif SYSTEM {q}image/gif{q}><!ENTITY {n} SYSTEM {q}file://{canary_path}{q} NDATA gif>')
            declares = True
        elif k == 'internal-empty':
            decl_txt.append(f'<!ENTITY {n} {q}{q}>')
            ent_names.append(n)
            declares = True
        elif k == 'external-empty':
            decl_txt.append(f'<!ENTITY {n} SYSTEM {q}{q}>')
            declares = True
        elif k == 'public-empty':
            decl_txt.append(f'<!ENTITY {n} PUBLIC {q}{q} {q}{q}>')
            declares = True
        elif k == 'parameter-empty':
            decl_txt.append(f'<!ENTITY % {n} {q}{q}>{ws}%{n};')
            declares = True
        elif k == 'element':
            decl_txt.append(f'<!ELEMENT {root} ANY>')
        elif k == 'attlist':
            decl_txt.append(f'<!ATTLIST {root} dflt CDATA {q}vp-default{q}>')
        elif k == 'notation':
            decl_txt.append(f'<!NOTATION n{n} SYSTEM {q}x{q}>')
        elif k == 'comment':
            decl_txt.append('<!-- <!ENTITY c "x"> -->')
        elif k == 'pi':
            decl_txt.append('<?pi <!ENTITY c "x">?>')
        decl_txt.append(ws)
    subset = ''.join(decl_txt)
    dt = t['doctype']
    ws = t['ws']
    if dt == 'none':
        doctype = ''
        declares = False
        ent_names = []
    elif dt == 'internal':
        doctype = f'<!DOCTYPE {root}{ws or " "}[{subset}]{ws}>'
    elif dt == 'system':
        doctype = f'<!DOCTYPE {root} SYSTEM "file://{canary_path}">'
        declares = False
        ent_names = []
    elif dt == 'public':
        doctype = f'<!DOCTYPE {root} PUBLIC "-//VP//DTD" "file://{canary_path}">'
        declares = False
        ent_names = []
    else:
        doctype = f'<!DOCTYPE {root} SYSTEM "file://{canary_path}" [{subset}]>'
    ref = ('&' + ent_names[0] + ';') if ent_names else 'plain'
    nsdecl = ' xmlns:p="urn:p"' if ':' in root else ''
    use = t['use']
    if use == 'attr':
        body = f'<{root}{nsdecl} a="{ref}">t</{root}>'
    elif use == 'unused':
        body = f'<{root}{nsdecl}>t</{root}>'
    elif use == 'twice':
        body = f'<{root}{nsdecl}>{ref}<b>{ref}</b></{root}>'
    else:
        body = f'<{root}{nsdecl}>{ref}</{root}>'
    return t['prolog'] + t['pre'] + doctype + ws + body, declares


def _child_entities(case):
    S = _child_setup(dict(case['cfg']))
    try:
        root = _new_root(case['cfg'].get('lxml', False))
        recs = []
        for t in case['texts']:
            doc, declares = _render_doc(t, S.canary_path)
            expr = f"{t['fn']}($d){t['access']}"
            before = _snapshot(S)
            out, site = _outcome(lambda: _evaluate(t['api'], expr, {'d': doc}, {}, t['ver'], root))
            if out[0] == 'ok' and not t['access']:
                out[1] = 'node'
            after = _snapshot(S)
            recs.append({'out': out, 'site': site, 'viol': _state_violations(before, after),
                         'doc': doc.replace(S.canary_path, '{CANARY}'), 'declares': declares})
            _restore(S, before)
        pos = _outcome(lambda: _evaluate('select', "parse-xml($d)/string()", {'d': '<r a="1">&lt;t&#65;<b/>u</r>'}, {}, '3.1', root))[0]
        pos2 = _outcome(lambda: _evaluate('select', "parse-xml-fragment($d)/string()", {'d': 'x<b>y</b>&amp;'}, {}, '3.1', root))[0]
        return {'recs': recs, 'positive': pos == ['ok', "['<tAu']"] and pos2 == ['ok', "['xy&']"], 'pos': [pos, pos2]}
    finally:
        _child_cleanup(S)


def judge_entities(case, rec: Recorder | None = None) -> list[Disc]:
    discs: list[Disc] = []
    r = _fork_call(_child_entities, case)
    if 'ok' not in r:
        if rec is not None:
            rec.cls('inconclusive:child-' + ('timeout' if 'timeout' in r else 'died'))
        return discs
    for t, sr in zip(case['texts'], r['ok']['recs']):
        out = sr['out']
        kinds = sorted({d['kind'] for d in t['decls']}) if t['doctype'] in ('internal', 'system+internal') else []
        dclass = '+'.join(k for k in kinds if k in ('internal', 'external-file', 'external-public', 'parameter', 'nested',
                                                    'unparsed', 'param-external', 'internal-empty', 'external-empty',
                                                    'parameter-empty', 'public-empty')) or 'no-entity'
        where = f'fn={t["fn"]} api={t["api"]} doc={sr["doc"]!r}'
        for kind, exp, obs in sr['viol']:
            discs.append(Disc(f'C19/{kind}/entities', exp, obs, where))
        if out[0] == 'escape':
            discs.append(Disc(out[1], 'ElementPathError', out[2], where))
        if CANARY_FILE_TEXT in canon(out):
            discs.append(Disc(f'C19/entities/canary-leak/{t["fn"]}', 'no file content', out, where))
        if sr['declares'] and out[0] == 'ok':
            discs.append(Disc(f'C19/entities/accepted/{t["fn"]}/{dclass}', 'rejected', out[1], where))
        if rec is not None:
            rec.case(['entities', case['cfg'], t], nontrivial=sr['declares'],
                     sample={'check': 'entities', 'doc': sr['doc'], 'fn': t['fn'], 'outcome': out[:2]},
                     classes=['entities:text'] + (['entities:entity-declaration'] if sr['declares'] else [])
                     + [f'entities:outcome-{out[0]}' + ('' if sr['declares'] else '-nodecl')]
                     + ([f'entities:kind-{k}' for k in kinds] if sr['declares'] else [])
                     + (['entities:only-empty-valued-declarations'] if sr['declares'] and kinds and all(k.endswith('-empty') for k in kinds) else []))
    if rec is not None:
        rec.cls('entities:batch')
        if r['ok']['positive']:
            rec.cls('entities:positive-control-ok')
        else:
            rec.notes.append(f'entities positive control failed: {r["ok"]["pos"]}')
    return discs


# --------------------------------------------------------------------------
# threads
# --------------------------------------------------------------------------
_T_PATHS = ["//a", "/r/a[2]/string()", "count(//a) + 1", "//a[. = 'x']/following-sibling::a/string()", "string-join(//a, ',')",
            "sum(for $i in 1 to 50 return $i * $i)", "//a/ancestor::r/name()", "(//a)[last()]/string()"]
_T_REGEX = ["matches('aBé', '^\\p{Ll}\\p{Lu}\\p{L}$')", "replace('a1b22', '\\d+', '#')", "tokenize('a, b;c', '[,;]\\s*')",
            "matches('x', '[\\p{IsBasicLatin}-[a-w]]')", "matches('٣', '\\p{Nd}')", "replace('Hello', '\\P{Lu}', '')",
            "matches('a_b', '^\\w+$')", "matches('a b', '\\S\\s\\S')", "matches('一', '\\p{IsCJKUnifiedIdeographs}')",
            "matches('ab', '^[\\i-[:]][\\c-[:]]*$')", "tokenize('a1b', '\\p{N}')", "matches('Å', '\\p{Lu}')",
            "matches('a_b1', '^[\\w]+$')", "replace('a1b22', '[\\d]+', '#')", "tokenize('a b,c', '[\\s,]+')",
            "matches('a-b', '[^\\w]')", "matches('x:y', '^[\\i][\\c]*$')", "replace('a b', '[\\S]', 'x')",
            "matches('é9', '^[\\w-[\\d]][\\d]$')"]
_T_ARITH = ["1.1 + 2.2", "10 div 3", "xs:decimal('1') div 7", "round-half-to-even(2.5)", "2 * 3.5e0", "7 mod 3",
            "xs:integer('12') idiv 5", "1 idiv 0", "xs:integer('x')", "string(xs:date('2020-02-29') + xs:dayTimeDuration('P1D'))"]
_T_COLL = ["compare('a', 'b', 'C.utf8')", "compare('b', 'a', 'POSIX')", "contains('abc', 'b', 'C')",
           "distinct-values(('a', 'b', 'a'), 'C.UTF-8')", "index-of(('a', 'b', 'a'), 'a', 'C.utf8')", "max(('a', 'b'), 'POSIX')",
           "compare('a', 'b', 'it_IT.UTF-8')", "compare('a', 'B', '%s')" % HTML, "deep-equal(('a', 'b'), ('a', 'b'), 'C.utf8')",
           "compare('a', 'b', '%s?lang=xx;fallback=no')" % UCA, "max(('a', 1), 'C.utf8')", "compare('a', 'b', '%s?lang=C')" % UCA,
           "sort(('b', 'a'), 'C.utf8')", "ends-with('abc', 'c', 'C.utf8')", "compare(/r/a[1], 'y', 'C.utf8')",
           "index-of(//a, 'y', 'POSIX')", "distinct-values((//a, 'x'), 'C.UTF-8')", "max(//a/string(), 'C.utf8')",
           "contains(/r/a[2], 'y', '%s?lang=C;fallback=no')" % UCA, "compare(/r/a[1], 'y', 'xx_XX.UTF-8')"]
_T_POOLS = {'path': _T_PATHS, 'regex': _T_REGEX, 'arith': _T_ARITH, 'coll': _T_COLL}

_tjob = st.one_of(
    st.tuples(st.just('coll'), st.integers(0, len(_T_COLL) - 1)),
    st.tuples(st.just('regex'), st.integers(0, len(_T_REGEX) - 1)),
    st.tuples(st.just('path'), st.integers(0, len(_T_PATHS) - 1)),
    st.tuples(st.just('arith'), st.integers(0, len(_T_ARITH) - 1)),
).map(list)


@st.composite
def _threads_case(draw):
    T = draw(st.sampled_from([2, 4, 8]))
    same = draw(st.integers(0, 3)) == 0
    one = draw(st.lists(_tjob, min_size=2, max_size=6))
    jobs = [one if same else draw(st.lists(_tjob, min_size=2, max_size=6)) for _ in range(T)]
    return {'cfg': draw(_cfg), 'T': T, 'jobs': jobs, 'reps': draw(st.sampled_from([1, 3, 8])),
            'order': draw(st.sampled_from(['threads-first', 'threads-first', 'sequential-first'])),
            'shared_root': draw(st.booleans()), 'build_in_thread': draw(st.booleans())}


threads_case = _threads_case()


def _child_threads(case):
    import linecache
    import sys
    import threading
    import elementpath
    import locale
    cfg = dict(case['cfg'])
    S = _child_setup(cfg)
    try:
        # the threaded phase runs on the real lock (genuine blocking between threads); the sequential phase keeps
        # the proxy so that a lock leaked by an earlier job is seen at once instead of blocking the child
        import elementpath.collations as colls
        locale.setlocale = S.real_setlocale
        seq_viol = []
        T, reps = case['T'], case['reps']
        P = _parser_class('3.1')
        shared = _new_root(cfg.get('lxml', False))

        def exprs(t):
            return [_T_POOLS[k][i] for k, i in case['jobs'][t]]

        def build(t):
            """[Selector | outcome of the failed construction (static evaluation raises at parse time)]"""
            sels = []
            for e in exprs(t):
                box = []
                out, _site = _outcome(lambda: box.append(elementpath.Selector(e, parser=P)))
                sels.append(box[0] if box else out)
            return sels

        def run_jobs(selectors, root, reps, sink, sequential_phase=False):
            for _ in range(reps):
                for sel in selectors:
                    out = sel if isinstance(sel, list) else _outcome(lambda: sel.select(root))[0]
                    sink.append(out[:2] if out[0] != 'escape' else out)
                    if sequential_phase and S.proxy.locked():
                        seq_viol.append(['lock-held', 'unlocked', 'locked after ' + getattr(sel, 'path', '?')])
                        S.proxy.force_release()

        def sequential():
            res = []
            for t in range(T):
                root = shared if case['shared_root'] else _new_root(cfg.get('lxml', False))
                sels = build(t)
                if S.proxy.locked():
                    seq_viol.append(['lock-held', 'unlocked', 'locked after building selectors'])
                    S.proxy.force_release()
                sink = []
                run_jobs(sels, root, reps, sink, True)
                res.append(sink)
            return res

        def threaded():
            barrier = threading.Barrier(T)
            res = [[] for _ in range(T)]
            errs = []
            prebuilt = None if case['build_in_thread'] else [build(t) for t in range(T)]
            if S.proxy.locked():
                seq_viol.append(['lock-held', 'unlocked', 'locked after building selectors'])
                S.proxy.force_release()
            roots = [shared if case['shared_root'] else _new_root(cfg.get('lxml', False)) for _ in range(T)]

            def work(t):
                try:
                    barrier.wait()
                    sels = prebuilt[t] if prebuilt is not None else build(t)
                    run_jobs(sels, roots[t], reps, res[t])
                except BaseException:
                    errs.append(traceback.format_exc())

            old = sys.getswitchinterval()
            sys.setswitchinterval(1e-6)
            colls._locale_collate_lock = S.proxy.inner
            try:
                ths = [threading.Thread(target=work, args=(t,), daemon=True) for t in range(T)]
                for th in ths:
                    th.start()
                deadline = time.monotonic() + 30
                stuck, blocked_polls = None, 0
                while any(th.is_alive() for th in ths) and time.monotonic() < deadline:
                    ths[0].join(0.05) if ths[0].is_alive() else time.sleep(0.05)
                    # state inspection: every live thread sits on the `.acquire(` line of CollationManager.__enter__
                    # while the lock is held -> nobody is left who could release it
                    frames = sys._current_frames()
                    where = []
                    for th in ths:
                        if th.is_alive():
                            fr = frames.get(th.ident)
                            if fr is None:
                                where.append('?')
                                continue
                            fn = fr.f_code.co_filename.replace('\\', '/')
                            at = fn.rsplit('/elementpath/', 1)[-1] + ':' + fr.f_code.co_name
                            if '.acquire(' not in linecache.getline(fr.f_code.co_filename, fr.f_lineno):
                                at += ':running'
                            where.append(at)
                    locked = S.proxy.inner.locked() if hasattr(S.proxy.inner, 'locked') else None
                    if where and locked and all(x == 'collations.py:__enter__' for x in where):
                        blocked_polls += 1
                        if blocked_polls >= 20:
                            stuck = {'where': where, 'locked': locked}
                            break
                    else:
                        blocked_polls = 0
                if stuck is None and any(th.is_alive() for th in ths):
                    stuck = {'where': where, 'locked': locked, 'undecided': True}
            finally:
                sys.setswitchinterval(old)
                colls._locale_collate_lock = S.proxy
            if errs:
                raise HarnessError('thread body failed:\n' + errs[0])
            return res, stuck

        before = _snapshot(S)
        if case['order'] == 'sequential-first':
            seq = sequential()
        thr, stuck = threaded()
        after_thr = _snapshot(S)
        if stuck:
            return {'stuck': stuck}
        after_thr['lock'] = S.proxy.inner.locked() if hasattr(S.proxy.inner, 'locked') else False
        if after_thr['lock']:
            S.proxy.inner.release()
        if case['order'] == 'threads-first':
            _restore(S, before)
            seq = sequential()
        return {'seq': seq, 'thr': thr, 'viol': _state_violations(before, after_thr), 'seq_viol': seq_viol[:3]}
    finally:
        _child_cleanup(S)


def judge_threads(case, rec: Recorder | None = None) -> list[Disc]:
    discs: list[Disc] = []
    r = _fork_call(_child_threads, case, timeout=90.0)
    all_jobs = [tuple(j) for js in case['jobs'] for j in js]
    if 'ok' not in r:
        if rec is not None:
            rec.cls('inconclusive:child-' + ('timeout' if 'timeout' in r else 'died'))
            rec.notes.append(f'inconclusive: threads child: {r}')
        return discs
    res = r['ok']
    if 'stuck' in res:
        w = res['stuck']['where']
        if res['stuck']['locked'] and not res['stuck'].get('undecided') and all(x == 'collations.py:__enter__' for x in w):
            discs.append(Disc('C19/threads/deadlock-on-collation-lock', 'all threads finish',
                              f'{len(w)} threads blocked in CollationManager.__enter__ with the lock held and no owner running'))
        elif rec is not None:
            rec.cls('inconclusive:threads-not-finished')
            rec.notes.append(f'inconclusive: threads still running after 30 s: {w}')
    else:
        for kind, exp, obs in res['viol']:
            discs.append(Disc(f'C19/{kind}/threads', exp, obs, 'after all threads joined'))
        for kind, exp, obs in res['seq_viol'][:1]:
            discs.append(Disc(f'C19/{kind}/threads-sequential-phase', exp, obs, 'sequential evaluation of the same jobs'))
        for t, (a, b) in enumerate(zip(res['seq'], res['thr'])):
            if a != b:
                n = len(case['jobs'][t])
                idx = next((i for i, (x, y) in enumerate(zip(a, b)) if x != y), min(len(a), len(b)))
                kind = case['jobs'][t][idx % n][0]
                e = _T_POOLS[kind][case['jobs'][t][idx % n][1]]
                obs = b[idx] if idx < len(b) else 'missing'
                exp = a[idx] if idx < len(a) else 'missing'
                if isinstance(obs, list) and obs and obs[0] == 'escape':
                    discs.append(Disc(obs[1].replace('C19/escape/', 'C19/threads/escape/'), exp, obs[2], f'thread {t} expr={e}'))
                else:
                    discs.append(Disc(f'C19/threads/result-differs/{kind}', exp, obs, f'thread {t} job {idx} expr={e}'))
                break
    if rec is not None:
        kinds = {j[0] for j in all_jobs}
        classes = ['threads:case', f'threads:T{case["T"]}', 'threads:' + case['order']]
        if 'coll' in kinds and any(j[0] == 'coll' and j[1] in (0, 1, 2, 3, 4, 5, 8, 10, 11, 12, 13, 14, 15, 16, 17, 18) for j in all_jobs):
            classes.append('threads:locale-collation-job')
        if 'regex' in kinds:
            classes.append('threads:regex-job')
        if case['shared_root']:
            classes.append('threads:shared-root')
        rec.case(['threads', case], nontrivial=len(set(all_jobs)) >= 2,
                 sample={'check': 'threads', 'T': case['T'], 'order': case['order'],
                         'exprs': [_T_POOLS[k][i] for k, i in case['jobs'][0]]}, classes=classes)
        rec.cls('threads:evaluations', sum(len(js) for js in case['jobs']) * case['reps'])
    return discs


# --------------------------------------------------------------------------
# locale variables of the process environment (fresh interpreter per configuration: exec, not fork)
# --------------------------------------------------------------------------
_LE_VARS = ('LC_ALL', 'LC_COLLATE', 'LANG')
_LE_VALUES = (None, 'C.UTF-8', 'C.utf8', 'garbage', 'en_US.UTF-8', 'POSIX', '')
_LE_QUERIES = [('2.0', "default-collation()"), ('2.0', "compare('a', 'B')"), ('2.0', "compare('\u00e4', 'z')"), ('2.0', "max(('a', 'B'))"),
               ('2.0', "distinct-values(('a', 'A', 'a'))"), ('2.0', "index-of(('a', 'B'), 'B')"), ('2.0', "contains('abc', 'B')"),
               ('2.0', "deep-equal('a', 'A')"), ('2.0', "'a' lt 'B'"), ('2.0', "min(('b', 'B', '\u00e9'))"), ('3.1', "sort(('b', 'B', 'a', '\u00e9'))"),
               ('3.1', "deep-equal(['a'], ['A'])"), ('3.1', "array:sort(['b', 'B'])"), ('2.0', "starts-with('Abc', 'a')"),
               ('2.0', "substring-after('aBc', 'b')")]
_LE_SCRIPT = ("import sys, json\n"
              "sys.path[:0] = json.loads(sys.argv[1])\n"
              "from vp.checks import c19\n"
              "sys.stdout.write('@@C19@@' + json.dumps(c19._child_localeenv(), default=repr))\n")


def _child_localeenv():
    """runs in a freshly exec'ed interpreter whose os.environ carried the locale variables from the start"""
    import locale
    real = locale.setlocale
    log = []          # every setlocale(category, <locale>) call: [category, locale, lock held?, caller]
    holder = {}

    def patched(category, loc=None):
        if loc is not None:
            px = holder.get('proxy')
            log.append([category, str(loc), bool(px.locked()) if px is not None else False, sys._getframe(1).f_code.co_name])
        return real(category) if loc is None else real(category, loc)

    import sys
    locale.setlocale = patched
    start = {'LC_COLLATE': real(locale.LC_COLLATE), 'LC_CTYPE': real(locale.LC_CTYPE)}
    import elementpath
    import elementpath.collations as colls
    holder['proxy'] = colls._locale_collate_lock = _LockProxy(colls._locale_collate_lock)
    root = _new_root(False)
    out = {'start': start, 'default_collation': {}, 'results': {}, 'env': {k: os.environ.get(k) for k in _LE_VARS}}
    for ver in ('2.0', '3.0', '3.1'):
        P = _parser_class(ver)
        out['default_collation'][ver] = [P().default_collation, elementpath.Selector('1', parser=P).parser.default_collation]
        for minv, expr in _LE_QUERIES:
            if ver >= minv:
                for api in ('select', 'token'):
                    out['results'][f'{ver} {api} {expr}'] = _outcome(lambda: _evaluate(api, expr, {}, {}, ver, root))[0]
    out['end'] = {'LC_COLLATE': real(locale.LC_COLLATE), 'lock': holder['proxy'].locked()}
    out['setlocale_calls'] = log
    return out


def _exec_localeenv(env_cfg):
    import subprocess
    import sys
    import elementpath
    repo = os.path.dirname(os.path.dirname(os.path.abspath(elementpath.__file__)))
    verif = os.path.dirname(os.path.dirname(os.path.dirname(os.path.abspath(__file__))))
    env = {k: v for k, v in os.environ.items() if not (k.startswith('LC_') or k in ('LANG', 'LANGUAGE', 'PYTHONUTF8'))}
    env.update(PYTHONCOERCECLOCALE='0', PYTHONHASHSEED='0', PYTHONDONTWRITEBYTECODE='1')
    env.update({k: v for k, v in env_cfg.items() if v is not None})
    try:
        p = subprocess.run([sys.executable, '-c', _LE_SCRIPT, json.dumps([repo, verif])], env=env, capture_output=True, text=True,
                           timeout=CHILD_TIMEOUT * 2)
    except subprocess.TimeoutExpired:
        return None
    if '@@C19@@' not in p.stdout:
        raise HarnessError(f'C19 localeenv child failed (rc={p.returncode}) env={env_cfg}:\n' + p.stderr[-2000:])
    return json.loads(p.stdout.split('@@C19@@', 1)[1])


_le_baseline: list = []


def _le_class(env_cfg):
    vals = [v for v in env_cfg.values() if v is not None]
    return 'utf8-locale' if any(v in ('C.UTF-8', 'C.utf8') for v in vals) else 'unset' if not vals else 'other'


def judge_localeenv(case, rec: Recorder | None = None) -> list[Disc]:
    discs: list[Disc] = []
    if not _le_baseline:
        _le_baseline.append(_exec_localeenv({}))
    base = _le_baseline[0]
    got = _exec_localeenv(case['env'])
    if got is None or base is None:
        if rec is not None:
            rec.cls('inconclusive:localeenv-timeout')
        return discs
    where = f'environment {case["env"]}'
    cls = _le_class(case['env'])
    for c in got['setlocale_calls']:
        if not c[2]:
            discs.append(Disc(f'C19/localeenv/setlocale-outside-collation-lock/{c[3]}', 'no category switch outside CollationManager',
                              f'setlocale({c[0]}, {c[1]!r}) called from {c[3]} without the lock', where))
            break
    if got['start']['LC_COLLATE'] != 'C':
        raise HarnessError(f'precondition: fresh interpreter starts with LC_COLLATE={got["start"]["LC_COLLATE"]!r} for {case["env"]}')
    if _lcnorm(got['end']['LC_COLLATE']) != _lcnorm(got['start']['LC_COLLATE']):
        discs.append(Disc('C19/lc-collate-changed/localeenv', got['start']['LC_COLLATE'], got['end']['LC_COLLATE'], where))
    if got['end']['lock']:
        discs.append(Disc('C19/lock-held/localeenv', 'unlocked', 'locked', where))
    for ver, dc in got['default_collation'].items():
        if dc != base['default_collation'][ver]:
            discs.append(Disc(f'C19/localeenv/default-collation-depends-on-environment/{cls}', base['default_collation'][ver], dc,
                              f'parser {ver} {where}'))
            break
    for key, out in got['results'].items():
        if out != base['results'][key]:
            fn = key.split(' ', 2)[2].split('(')[0]
            discs.append(Disc(f'C19/localeenv/result-depends-on-environment/{fn}', base['results'][key], out, f'{key} {where}'))
            break
    bad = [k for k, o in base['results'].items() if o[0] == 'escape']
    if bad:
        discs.append(Disc('C19/localeenv/escape-in-baseline', 'value', base['results'][bad[0]], bad[0]))
    if rec is not None:
        rec.case(['localeenv', case['env']], nontrivial=cls != 'unset', sample={'check': 'localeenv', 'env': case['env'],
                 'default_collation': got['default_collation']['3.1'][0]}, classes=['localeenv:config', 'localeenv:' + cls],
                 n=len(got['results']))
    return discs


def _le_configs(tier, seed):
    import itertools
    from vp.core import h64
    allc = [dict(zip(_LE_VARS, vs)) for vs in itertools.product(_LE_VALUES, repeat=3)]
    must = [{'LC_ALL': 'C.UTF-8', 'LC_COLLATE': None, 'LANG': None}, {'LC_ALL': None, 'LC_COLLATE': 'C.utf8', 'LANG': None},
            {'LC_ALL': None, 'LC_COLLATE': None, 'LANG': 'C.UTF-8'}, {'LC_ALL': 'garbage', 'LC_COLLATE': 'C.UTF-8', 'LANG': 'C.utf8'},
            {'LC_ALL': None, 'LC_COLLATE': None, 'LANG': None}, {'LC_ALL': '', 'LC_COLLATE': 'en_US.UTF-8', 'LANG': 'C.UTF-8'}]
    if tier != 'quick':
        return allc
    rest = sorted((c for c in allc if c not in must), key=lambda c: h64([seed, 'localeenv', c]))
    return must + rest[:22]


# --------------------------------------------------------------------------
# module interface
# --------------------------------------------------------------------------
_STRATS = {'history': history_case, 'env': env_case, 'entities': entities_case, 'threads': threads_case}
_JUDGES = {'history': judge_history, 'env': judge_env, 'entities': judge_entities, 'threads': judge_threads,
           'localeenv': judge_localeenv}


def selftest():
    assert _lcnorm('C.utf8') == _lcnorm('C.UTF-8') == 'c.utf8' and _lcnorm('POSIX') == _lcnorm('C') == 'c'
    assert _lcnorm('it_IT.UTF-8') != _lcnorm('it_IT.ISO8859-1')
    assert _lit("o'c") == "'o''c'" and _lit(None) == '()'
    e = render_step({'k': 'nest', 't': 'nest-sort-key', 'c': 'C', 'c2': 'POSIX', 'via': 'default', 'a': 0, 'b': 1})
    assert e[0] == "sort(('b', 'a'), (), function($x) { compare($x, 'a', 'POSIX') })" and e[2] == {'default_collation': 'C'}, e
    e = render_step({'k': 'coll', 't': 'compare', 'c': None, 'via': 'var', 'a': 0, 'b': 2})
    assert e[0] == "compare('a', 'B', ())", e
    doc, decl = _render_doc({'prolog': '', 'pre': '', 'doctype': 'internal', 'ws': '', 'decls': [
        {'kind': 'external-file', 'name': 'e', 'q': '"', 'ws': ''}], 'use': 'text', 'root': 'r'}, '/x/y')
    assert doc == '<!DOCTYPE r [<!ENTITY e SYSTEM "file:///x/y">]><r>&e;</r>' and decl, doc
    # the independent parsers agree that such a text declares and uses an entity (expat through the stdlib)
    import xml.parsers.expat as expat
    seen = []
    p = expat.ParserCreate()
    p.EntityDeclHandler = lambda *a: seen.append(a[0])
    p.Parse('<!DOCTYPE r [<!ENTITY e "v">]><r>&e;</r>', True)
    assert seen == ['e']
    # lock proxy: second acquire by the owner is recognised, foreign state untouched
    import threading
    px = _LockProxy(threading.Lock())
    assert px.acquire() and px.locked()
    try:
        px.acquire()
        raise AssertionError('no self-deadlock signalled')
    except _SelfDeadlock:
        pass
    px.release()
    assert not px.locked() and not px.inner.locked()
    prx = _LockProxy(threading.RLock())
    assert prx.acquire() and prx.acquire()
    prx.release(), prx.release()
    assert not prx.locked()
    # forked child plumbing: value, timeout
    assert _fork_call(lambda x: x + 1, 1) == {'ok': 2}
    assert _fork_call(lambda x: time.sleep(5), 0, timeout=0.2) == {'timeout': True}


def jobs(tier, seed):
    q = tier == 'quick'
    plan = {'history': (6, 40) if q else (8, 430), 'env': (2, 60) if q else (2, 1000),
            'entities': (2, 90) if q else (1, 2000), 'threads': (2, 45) if q else (1, 600)}
    out = []
    for chk, (shards, n) in plan.items():
        for i in range(shards):
            out.append({'check': chk, 'shard': i, 'n': n, 'seed': derive_seed(seed, 'C19', chk, i)})
    # complete sweep of the state-sensitive plain expressions (every expression x api x decimal precision):
    # sampled histories reach each of them only a few times per run
    out.append({'check': 'history', 'sweep': 'plain', 'part': 0, 'parts': 2})
    out.append({'check': 'history', 'sweep': 'plain', 'part': 1, 'parts': 2})
    # locale variables of the environment: every configuration in its own exec'ed interpreter (quick: 28, thorough: all 343)
    cfgs = _le_configs(tier, seed)
    k = 2 if q else 4
    for i in range(k):
        out.append({'check': 'localeenv', 'cases': [{'env': c} for c in cfgs[i::k]]})
    return out


def _sweep_cases():
    for prec in (28, 40):
        for api in ('select', 'selector', 'token'):
            for lo in range(0, len(PLAIN_EXPRS), 8):
                steps = [{'api': api, 'ver': '3.1', 'k': 'plain', 'i': i}
                         for i in range(lo, min(lo + 8, len(PLAIN_EXPRS)))]
                yield {'cfg': {'lc': 'C', 'prec': prec, 'lxml': False}, 'steps': steps, 'fault': 0}
    # every "negated-first class" regex followed by every later regex, with fresh selectors, in one process
    for api in ('select', 'selector'):
        for first in _REGEX_FIRST:
            steps = [{'api': api, 'ver': '3.1', 'k': 'plain', 'i': first}] + \
                    [{'api': 'selector' if api == 'select' else 'select', 'ver': '3.1', 'k': 'plain', 'i': j} for j in _REGEX_LATER]
            yield {'cfg': {'lc': 'C', 'prec': 28, 'lxml': False}, 'steps': steps, 'fault': 0}
    # each block escape first, then every NoBlock probe (NoBlock must not depend on which blocks were used before)
    for first in _BLOCK_STEPS + [None]:
        steps = ([{'api': 'select', 'ver': '3.1', 'k': 'plain', 'i': first}] if first is not None else []) + \
                [{'api': 'selector', 'ver': '3.1', 'k': 'plain', 'i': j} for j in _NOBLOCK_STEPS] + \
                [{'api': 'select', 'ver': '3.1', 'k': 'plain', 'i': j} for j in _BLOCK_STEPS[:2]]
        yield {'cfg': {'lc': 'C', 'prec': 28, 'lxml': False}, 'steps': steps, 'fault': 0}
    # one relative collation URI under the collation base URI, then under no / other base URIs (and the reverse)
    for rel in REL_COLLS:
        for order in ([COLL_BASE, None, 'http://example.com/x/', COLL_BASE], [None, COLL_BASE, 'http://www.w3.org/2005/xpath-functions/', None]):
            steps = [{'api': api, 'ver': '3.1', 'k': 'coll', 't': t, 'c': rel, 'via': via, 'a': 0, 'b': 2, 'base': b}
                     for b in order for api, t, via in (('select', 'compare', 'lit'), ('token', 'contains', 'var'))]
            yield {'cfg': {'lc': 'C', 'prec': 28, 'lxml': False}, 'steps': steps, 'fault': 0}
    # dotted / empty lang values of UCA collations, each followed by a lock-taking probe
    for lo in range(0, len(_DOTTED_LANG), 4):
        steps = [{'api': 'select', 'ver': '3.1', 'k': 'coll', 't': 'compare', 'c': c, 'via': 'lit', 'a': 0, 'b': 1} for c in _DOTTED_LANG[lo:lo + 4]]
        yield {'cfg': {'lc': 'C', 'prec': 28, 'lxml': False}, 'steps': steps, 'fault': 'all'}


def run_job(job, rec: Recorder):
    chk = job['check']
    jd = _JUDGES[chk]
    if job.get('sweep'):
        for case in list(_sweep_cases())[job.get('part', 0)::job.get('parts', 1)]:
            rec.discs_of(chk, case, jd(case, rec))
            rec.cls('history:plain-sweep')
        return
    if 'cases' in job:
        for case in job['cases']:
            rec.discs_of(chk, case, jd(case, rec))
        return
    hyp_collect(_STRATS[chk], lambda case: rec.discs_of(chk, case, jd(case, rec)), job['n'], job['seed'], rec)


def shrink_job(job, bucket, budget):
    chk = job['check']
    if job.get('sweep'):
        for case in list(_sweep_cases())[job.get('part', 0)::job.get('parts', 1)]:
            for d in _JUDGES[chk](case):
                if d.bucket == bucket:
                    return case, d
        return None
    if 'cases' in job:
        for case in job['cases']:
            for d in _JUDGES[chk](case):
                if d.bucket == bucket:
                    return case, d
        return None
    return hyp_shrink(_STRATS[chk], _JUDGES[chk], bucket, job['n'], job['seed'], min(budget, 60))


def judge(check, case):
    return _JUDGES[check](case)
