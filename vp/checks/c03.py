"""C03 - Parse and evaluate fail only with ElementPathError; parsers stay reusable."""
from __future__ import annotations

import os
import re
import signal
import sys

from hypothesis import strategies as st

from vp.core import Disc, Recorder, derive_seed, hyp_collect, hyp_shrink, escape_bucket
from vp.gen import exprs as X

PROPERTY = 'C03'
LEVEL = 'exploration'
RULE = ('strings from (a) renderings of grammar ASTs and generated function calls over every registered function name, '
        '(b) 1-3 token-level mutations of those (delete/duplicate/swap/other-kind operand/keyword/unbalanced bracket, '
        'comment, quote/spliced Q{ ? => ! #), (c) random strings biased to XPath punctuation plus arbitrary unicode; each x '
        'parser version x context kind (element, document, child, attribute, text, atomic item, no context, lxml) x API '
        '(evaluate, select, get_results, elementpath.select, iter_select, Selector). oracle: parse returns a token or '
        'raises ElementPathError with an err:XXXXnnnn code; evaluation returns or raises ElementPathError; any other '
        'exception is bucketed by type + innermost elementpath frame. histories: one long-lived parser per version parses a '
        'generated sequence of failing/succeeding strings; after each step its cursor state is reset and tree/source/'
        'error/value equal those of a fresh parser (sampled histories + the complete reusegrid). non-trivial = the string is rejected or raises, or mixes >= 2 operator '
        'kinds; a history is non-trivial when a successful parse follows a failed one. distinct by version + string '
        '(+ context/API).')
ASSUMPTIONS = [
    'a fresh parser instance is created for every string (so that a case replays on its own); reusability is judged '
    'only by the histories sub-check',
    'RecursionError is an escape only when bracket depth + longest prefix-operator run of the input is <= 30; '
    'MemoryError, and evaluations stopped by the 20 s alarm guard, are resource outcomes (counted, not violations); '
    'super-polynomial cost is judged only by sub-check blowup, on CPU time of a child process (regex backtracking runs in C, '
    'an instruction counter cannot see it): verdict only when n=40 costs > 1000 x n=10 and > 5 s CPU',
    'integer literals have at most 3 digits and collation arguments are never UCA URIs (an unavailable locale can '
    'leave elementpath.collations._locale_collate_lock held: property C19)',
    'functions that reach the file system or the network (doc, collection, unparsed-text*, json-doc, transform, '
    'load-xquery-module, environment-variable) are not called by the generators',
    'histories compare the long-lived parser with a fresh one on: exception type, code, message, tree, source; '
    'after a divergence the long-lived parser is replaced so that the history continues',
]
FLOORS = {
    'grammar:evaluated': (0.35, 'expr:src-grammar'),
    'grammar:eval-error': (0.10, 'expr:src-grammar'),
    'calls:evaluated': (0.20, 'expr:src-calls'),
    'calls:eval-error': (0.10, 'expr:src-calls'),
    'callgrid:evaluated': (0.10, 'expr:src-callgrid'),
    'callgrid:eval-error': (0.10, 'expr:src-callgrid'),
    'opgrid:evaluated': (0.10, 'expr:src-opgrid'),
    'opgrid:eval-error': (0.10, 'expr:src-opgrid'),
    'mutated:parse-error': (0.40, 'expr:src-mutated'),
    'mutated:evaluated': (0.05, 'expr:src-mutated'),
    'random:parse-error': (0.50, 'expr:src-random'),
    'reuse:ok-after-fail': (0.50, 'reuse:history'),
    'reusegrid:ok-after-fail': (0.90, 'reusegrid:history'),
    'nsgrid:parse-error': (0.50, 'expr:src-nsgrid'),
    'nsgrid:evaluated': (0.01, 'expr:src-nsgrid'),
    'regexgrid:evaluated': (0.10, 'expr:src-regexgrid'),
    'regexgrid:parse-error': (0.05, 'expr:src-regexgrid'),
    'regexgrid:eval-error': (0.05, 'expr:src-regexgrid'),
}

VERS = X.VERSIONS
CTX_KINDS = ('root', 'doc', 'child', 'attr', 'text', 'atomic-int', 'atomic-str', 'none', 'lxml', 'comment')
APIS = ('evaluate', 'select', 'results', 'api-select', 'api-iter', 'selector')
CODE_RE = re.compile(r'^(?:[A-Za-z_][\w.\-]*:)?[A-Z]{4}[0-9]{4}$')   # the prefix is empty when the default namespace is the err namespace
MAX_LEN = 160

# --------------------------------------------------------------------------
# elementpath access
# --------------------------------------------------------------------------
_CACHE: dict = {}


def parser_class(ver):
    from elementpath import XPath1Parser, XPath2Parser
    from elementpath.xpath30 import XPath30Parser
    from elementpath.xpath31 import XPath31Parser
    return {'1.0': XPath1Parser, '2.0': XPath2Parser, '3.0': XPath30Parser, '3.1': XPath31Parser}[ver]


NS = {'p': 'urn:p', 'q': 'urn:q'}


XSD_NS = 'http://www.w3.org/2001/XMLSchema'
PARSER_CONFIGS = ('default', 'xsd-default-ns', 'xsd-empty-prefix', 'fn-ns', 'compat', 'nonstrict-1.1', 'vartypes', 'elem-ns',
                  'ns-err-rebound', 'ns-err-rebound-aliased', 'ns-fn-rebound', 'ns-xs-rebound', 'ns-math-map-array-rebound',
                  'ns-aliases', 'ns-default-fn', 'ns-default-err', 'ns-xsi-swapped')
XQT_ERRORS_NS = 'http://www.w3.org/2005/xqt-errors'
FN_NS = 'http://www.w3.org/2005/xpath-functions'
# namespaces= arguments that rebind the well-known prefixes to other URIs, or bind other prefixes to the well-known URIs
NS_CONFIGS = {
    'ns-err-rebound': {'err': 'http://example.com/app-errors'},
    'ns-err-rebound-aliased': {'err': 'http://example.com/app-errors', 'myerr': XQT_ERRORS_NS, 'e2': XQT_ERRORS_NS},
    'ns-fn-rebound': {'fn': 'urn:other-functions', 'f': FN_NS},
    'ns-xs-rebound': {'xs': 'urn:other-types', 'xsd': XSD_NS},
    'ns-math-map-array-rebound': {'math': 'urn:m', 'map': 'urn:mp', 'array': 'http://www.w3.org/2005/xpath-functions/map',
                                  'mm': 'http://www.w3.org/2005/xpath-functions/math'},
    'ns-aliases': {'e': XQT_ERRORS_NS, 'f': FN_NS, 'x': XSD_NS, 'a': 'http://www.w3.org/2005/xpath-functions/array'},
    'ns-default-fn': {'': FN_NS},
    'ns-default-err': {'': XQT_ERRORS_NS, 'err': 'urn:not-err'},
    'ns-xsi-swapped': {'xsi': XSD_NS, 'xs': 'http://www.w3.org/2001/XMLSchema-instance'},
}


def parser_kwargs(ver, cfg):
    """constructor options of a parser configuration (every configuration must still raise coded errors only)"""
    ns = dict(NS)
    if cfg in NS_CONFIGS:
        ns.update(NS_CONFIGS[cfg])
        return {'namespaces': ns}
    if ver == '1.0':
        if cfg == 'xsd-empty-prefix':
            ns[''] = XSD_NS
        return {'namespaces': ns, 'strict': cfg not in ('nonstrict-1.1',)}
    kw = {'namespaces': ns}
    if cfg == 'xsd-default-ns':
        kw['default_namespace'] = XSD_NS
    elif cfg == 'xsd-empty-prefix':
        ns[''] = XSD_NS
    elif cfg == 'fn-ns':
        kw['function_namespace'] = 'urn:my-functions'
    elif cfg == 'compat':
        kw['compatibility_mode'] = True
    elif cfg == 'nonstrict-1.1':
        kw.update(strict=False, xsd_version='1.1', base_uri='http://example.com/x/')
    elif cfg == 'vartypes':
        kw['variable_types'] = {'v': 'xs:integer', 'w': 'xs:string', 's': 'xs:integer*'}
    elif cfg == 'elem-ns':
        kw['default_namespace'] = 'urn:p'
    return kw


SCHEMAS = {
    's1': '''<xs:schema xmlns:xs="http://www.w3.org/2001/XMLSchema">
 <xs:element name="root"><xs:complexType><xs:sequence>
  <xs:element name="a" type="xs:string" maxOccurs="unbounded"/><xs:element name="b" type="xs:integer"/>
  <xs:element name="c"><xs:complexType><xs:sequence><xs:element name="d" type="xs:integer" maxOccurs="unbounded"/>
   </xs:sequence><xs:attribute name="x" type="xs:date"/></xs:complexType></xs:element>
 </xs:sequence><xs:attribute name="id" type="xs:ID"/></xs:complexType></xs:element></xs:schema>''',
    's2': '''<xs:schema xmlns:xs="http://www.w3.org/2001/XMLSchema" xmlns="urn:p" targetNamespace="urn:p" elementFormDefault="qualified">
 <xs:element name="r" type="rt"/>
 <xs:complexType name="rt"><xs:sequence><xs:element name="a" type="xs:decimal"/><xs:element name="e" type="et" minOccurs="0"/>
  </xs:sequence><xs:attribute name="min" type="xs:int"/><xs:attribute name="max" type="xs:string"/></xs:complexType>
 <xs:complexType name="et"><xs:simpleContent><xs:extension base="xs:boolean"><xs:attribute name="x" type="xs:time"/>
  </xs:extension></xs:simpleContent></xs:complexType></xs:schema>''',
    's3': '''<xs:schema xmlns:xs="http://www.w3.org/2001/XMLSchema">
 <xs:element name="a"><xs:complexType><xs:sequence><xs:element name="d" type="xs:string"/>
  <xs:element name="b" minOccurs="0"><xs:complexType><xs:sequence><xs:element name="c" type="xs:double"/></xs:sequence>
   <xs:attribute name="x" type="xs:string"/></xs:complexType></xs:element></xs:sequence>
  <xs:attribute name="x" type="xs:integer"/></xs:complexType></xs:element></xs:schema>''',
}
SCHEMA_CONFIGS = {'schema-s1': ('s1', None), 'schema-s1-c': ('s1', 'root/c'), 'schema-s2': ('s2', None),
                  'schema-s2-r': ('s2', 'p:r'), 'schema-s3': ('s3', None), 'schema-s3-b': ('s3', 'a/b')}


def schema_proxy(cfg):
    """a new proxy (it is bound to one parser) over a cached xmlschema.XMLSchema"""
    import xmlschema
    from xmlschema.xpath import XMLSchemaProxy
    name, base = SCHEMA_CONFIGS[cfg]
    sch = _CACHE.get(('xsd', name))
    if sch is None:
        sch = _CACHE[('xsd', name)] = xmlschema.XMLSchema(SCHEMAS[name])
    if base is None:
        return XMLSchemaProxy(sch)
    elem = sch.find(base, namespaces={'p': 'urn:p'})
    assert elem is not None, (cfg, base)
    return XMLSchemaProxy(sch, elem)


def new_parser(ver, cfg='default'):
    if cfg == 'default':
        return parser_class(ver)(namespaces=dict(NS))
    if cfg in SCHEMA_CONFIGS:
        return parser_class(ver)(namespaces=dict(NS), schema=schema_proxy(cfg))
    return parser_class(ver)(**parser_kwargs(ver, cfg))


def _etree_doc(lib):
    """<r a="1" p:b="2">t<a x="1">1</a><!--c--><b>2<c/>u</b><?pi d?><p:e/><a>3</a></r>  built by construction"""
    key = ('doc', lib)
    d = _CACHE.get(key)
    if d is None:
        if lib == 'lxml':
            from lxml import etree as ET
        else:
            from xml.etree import ElementTree as ET
        r = ET.Element('r', {'a': '1', '{urn:p}b': '2'})
        r.text = 't'
        a = ET.SubElement(r, 'a', {'x': '1'})
        a.text = '1'
        r.append(ET.Comment('c'))
        b = ET.SubElement(r, 'b')
        b.text = '2'
        c = ET.SubElement(b, 'c')
        c.tail = 'u'
        r.append(ET.ProcessingInstruction('pi', 'd'))
        ET.SubElement(r, '{urn:p}e')
        ET.SubElement(r, 'a').text = '3'
        d = _CACHE[key] = (r, ET.ElementTree(r))
    return d


def _variables(ver):
    from decimal import Decimal
    v = _CACHE.get(('vars', ver))
    if v is None:
        from elementpath import XPathContext
        root = _etree_doc('et')[0]
        v = {'v': 1, 'w': 'two', 's': [1, 2, 3], 'd': Decimal('1.5'), 'x': 2.5, 'b': True, 'e': root, 'z': []}
        if ver >= '3.0':
            v['f'] = new_parser(ver).parse('abs#1').evaluate(XPathContext(root))
        else:
            v['f'] = 3
        if ver >= '3.1':
            v['m'] = new_parser(ver).parse("map{'a': 1, 1: (2, 3)}").evaluate(XPathContext(root))
            v['r'] = new_parser(ver).parse("[1, (), 'x']").evaluate(XPathContext(root))
        else:
            v['m'] = 'm'
            v['r'] = 7
        _CACHE[('vars', ver)] = v
    return dict(v)


CONTEXT_CONFIGS = ('plain', 'dt-utc', 'dt-plus0530', 'dt-minus14', 'dt-seconds-offset', 'dt-zoneinfo', 'dt-tz-none', 'dt-naive',
                   'tz-string', 'tz-z', 'tz-object', 'tz-and-dt', 'language', 'resources', 'item-datetime')


def context_kwargs(cfg):
    """XPathContext arguments that date/time and resource functions read"""
    import datetime as dt
    if cfg == 'plain':
        return {}
    base = (2001, 2, 3, 4, 5, 6)
    if cfg == 'dt-utc':
        return {'current_dt': dt.datetime(*base, tzinfo=dt.timezone.utc)}
    if cfg == 'dt-plus0530':
        return {'current_dt': dt.datetime(*base, tzinfo=dt.timezone(dt.timedelta(hours=5, minutes=30)))}
    if cfg == 'dt-minus14':
        return {'current_dt': dt.datetime(*base, tzinfo=dt.timezone(dt.timedelta(hours=-14)))}
    if cfg == 'dt-seconds-offset':
        return {'current_dt': dt.datetime(*base, tzinfo=dt.timezone(dt.timedelta(hours=1, seconds=30)))}
    if cfg == 'dt-zoneinfo':
        try:
            import zoneinfo
            tz = zoneinfo.ZoneInfo('Europe/Rome')
        except Exception:
            class Rule(dt.tzinfo):          # rule based: no offset without a date
                def utcoffset(self, d):
                    return None if d is None else dt.timedelta(hours=1)

                def dst(self, d):
                    return None if d is None else dt.timedelta(0)

                def tzname(self, d):
                    return 'RULE'
            tz = Rule()
        return {'current_dt': dt.datetime(2001, 7, 3, 4, 5, 6, tzinfo=tz)}
    if cfg == 'dt-tz-none':
        class NoOffset(dt.tzinfo):
            def utcoffset(self, d):
                return None

            def dst(self, d):
                return None

            def tzname(self, d):
                return None
        return {'current_dt': dt.datetime(*base, tzinfo=NoOffset())}
    if cfg == 'dt-naive':
        return {'current_dt': dt.datetime(*base)}
    if cfg == 'tz-string':
        return {'timezone': '+05:00'}
    if cfg == 'tz-z':
        return {'timezone': 'Z'}
    if cfg == 'tz-object':
        from elementpath.datatypes import Timezone
        return {'timezone': Timezone.fromstring('-03:30')}
    if cfg == 'tz-and-dt':
        return {'timezone': '-08:00', 'current_dt': dt.datetime(*base, tzinfo=dt.timezone(dt.timedelta(hours=9)))}
    if cfg == 'language':
        return {'default_language': 'it', 'default_calendar': 'AD', 'default_place': 'Europe/Rome'}
    if cfg == 'resources':
        root, tree = _etree_doc('et')
        return {'documents': {'http://example.com/d.xml': tree, 'd2.xml': root}, 'collections': {'http://example.com/c': [root, tree]},
                'default_collection': [root], 'text_resources': {'http://example.com/t.txt': 'line1\nline2'},
                'resource_collections': {'http://example.com/rc': ['http://example.com/t.txt']},
                'default_resource_collection': 'http://example.com/rc', 'allow_environment': True}
    if cfg == 'item-datetime':
        from elementpath.datatypes import DateTime10
        return {'item': DateTime10.fromstring('2001-01-01T10:00:00+02:00')}
    raise KeyError(cfg)


def make_context(ver, kind, extra_vars=None, ctxcfg=None):
    """-> (XPathContext or None, root object for the module-level API)"""
    from elementpath import XPathContext
    if kind == 'none':
        return None, None
    lib = 'lxml' if kind == 'lxml' else 'et'
    root, tree = _etree_doc(lib)
    variables = _variables(ver)
    if extra_vars:
        variables.update(extra_vars)
    if ctxcfg:
        return XPathContext(tree if kind == 'doc' else root, variables=variables, **context_kwargs(ctxcfg)), root
    if kind == 'doc':
        return XPathContext(tree, variables=variables), tree
    if kind in ('root', 'lxml'):
        return XPathContext(root, variables=variables), root
    if kind == 'child':
        return XPathContext(root, item=root[0], variables=variables), root
    if kind == 'atomic-int':
        return XPathContext(root, item=3, variables=variables), root
    if kind == 'atomic-str':
        return XPathContext(root, item='str', variables=variables), root
    ctx = XPathContext(root, variables=variables)
    rn = ctx.root
    if kind == 'attr':
        ctx.item = rn.attributes[0]
    elif kind == 'text':
        ctx.item = next(c for c in rn.children if type(c).__name__ == 'TextNode')
    elif kind == 'comment':
        ctx.item = next(c for c in rn.children if type(c).__name__ == 'CommentNode')
    return ctx, root


class _Timeout(BaseException):
    pass


def _alarm(signum, frame):
    raise _Timeout()


def guarded(fn, seconds=20):
    """run fn under an alarm guard; -> ('ok', value) | ('timeout', None); exceptions propagate"""
    old = signal.signal(signal.SIGALRM, _alarm)
    signal.setitimer(signal.ITIMER_REAL, seconds)
    try:
        return 'ok', fn()
    except _Timeout:
        return 'timeout', None
    finally:
        signal.setitimer(signal.ITIMER_REAL, 0)
        signal.signal(signal.SIGALRM, old)


def _lock_state():
    from elementpath import collations
    lk = getattr(collations, '_locale_collate_lock', None)
    try:
        return bool(lk is not None and lk.locked())
    except Exception:
        return False


# --------------------------------------------------------------------------
# judging one string
# --------------------------------------------------------------------------
_GENERIC_FRAMES = {'__getitem__', '__setitem__', '__delitem__', '__len__', '__iter__', '__contains__', '__call__wrapper'}


_UNTYPED_GENERIC = {'_operator', '__eq__', '__ne__', '__lt__', '__le__', '__gt__', '__ge__'}


def call_site_bucket(exc):
    """type + innermost elementpath frame, skipping container dunders of tdop.Token (self[1][1] raises inside
    Token.__getitem__: the call site is the frame that indexed)"""
    import traceback
    tb = traceback.extract_tb(exc.__traceback__)
    site = 'outside'
    for fr in reversed(tb):
        fn = fr.filename.replace('\\', '/')
        if '/elementpath/' in fn:
            if fr.name in _GENERIC_FRAMES and fn.endswith('/tdop.py'):
                continue
            if fn.endswith('/datatypes/untyped.py') and fr.name in _UNTYPED_GENERIC:
                continue            # the comparison helper of UntypedAtomic: the call site is the operator / function using it
            site = fn.split('/elementpath/', 1)[1] + ':' + fr.name
            break
    return f'C03/escape/{type(exc).__name__}@{site}'


def _esc(exc, s, phase):
    """Disc (or None for resource outcomes) for a non-ElementPathError exception"""
    if isinstance(exc, MemoryError):
        return None, 'resource:memory'
    if isinstance(exc, RecursionError):
        if X.nesting_depth(s) > 30:
            return None, 'resource:deep-recursion'
    return Disc(call_site_bucket(exc), 'ElementPathError or a value', repr(exc)[:300], f'{phase}: {s!r}'), 'escape'


def judge_string(ver, s, ctxkind, api, rec=None, source='?', extra_vars=None, cfg='default', ctxcfg=None):
    from elementpath.exceptions import ElementPathError
    import elementpath
    discs = []
    classes = ['expr:case', f'expr:src-{source}', f'expr:ver-{ver}']
    outcome = None
    tok = None
    p = new_parser(ver, cfg)
    if cfg != 'default':
        classes.append(f'expr:cfg-{cfg}')
    if ctxcfg:
        classes.append(f'expr:ctxcfg-{ctxcfg}')
    try:
        st_, tok = guarded(lambda: p.parse(s))
        if st_ == 'timeout':
            classes.append('resource:timeout-parse')
            tok = None
            outcome = 'timeout'
    except ElementPathError as e:
        outcome = 'parse-error'
        code = e.code
        if not code or not CODE_RE.match(str(code)):
            discs.append(Disc(escape_bucket('C03', e).replace('/escape/', '/no-code/'), 'error code err:XXXXnnnn',
                              repr(code), f'{s!r}: {e}'))
        else:
            classes.append('expr:code-' + str(code).split(':')[-1])
    except Exception as e:
        d, cl = _esc(e, s, 'parse')
        outcome = cl
        if d is not None:
            discs.append(d)
    if tok is not None:
        outcome = 'parsed'
        try:
            ctx, root = make_context(ver, ctxkind, extra_vars, ctxcfg)

            def run():
                if api == 'evaluate':
                    return tok.evaluate(ctx)
                if api == 'select':
                    return list(tok.select(ctx))
                if api == 'results':
                    return tok.get_results(ctx)
                kw = dict(parser=parser_class(ver), namespaces=dict(NS), variables=_variables(ver))
                if ctx is not None and ctxkind in ('child', 'atomic-int', 'atomic-str'):
                    kw['item'] = ctx.item if ctxkind != 'child' else root[0]
                if api == 'api-select':
                    return elementpath.select(root, s, **kw)
                if api == 'api-iter':
                    return list(elementpath.iter_select(root, s, **kw))
                sel = elementpath.Selector(s, namespaces=dict(NS), parser=parser_class(ver), variables=_variables(ver))
                return sel.select(root)
            st_, _v = guarded(run)
            if st_ == 'timeout':
                classes.append('resource:timeout-eval')
                outcome = 'timeout'
            else:
                outcome = 'evaluated'
        except ElementPathError:
            outcome = 'eval-error'
        except Exception as e:
            d, cl = _esc(e, s, 'eval')
            outcome = cl
            if d is not None:
                discs.append(d)
    if _lock_state():
        discs.append(Disc('C03/hang/collation-lock-held', 'lock released', 'locked', repr(s)))
        from elementpath import collations
        try:
            collations._locale_collate_lock.release()
        except Exception:
            pass
    if rec is not None:
        classes.append('expr:' + str(outcome))
        classes.append(f'{source}:{outcome}')
        classes.append(f'expr:ctx-{ctxkind}')
        classes.append(f'expr:api-{api}')
        nontrivial = outcome in ('parse-error', 'eval-error', 'escape') or len(set(re.findall(
            r'[-+*/|=<>!,\[\]()?]|\b(?:and|or|div|mod|to|eq|union|instance|cast|treat|if|for|some)\b', s))) >= 2
        rec.case([ver, s, ctxkind, api], nontrivial=nontrivial,
                 sample={'check': source, 'ver': ver, 'string': s, 'ctx': ctxkind, 'api': api, 'outcome': outcome},
                 classes=classes)
    return discs


def judge_batch(case, rec=None, source='?'):
    out = []
    for it in case['items']:
        out += judge_string(case['ver'], it['s'], it['ctx'], it['api'], rec, source, it.get('vars'), it.get('cfg', 'default'), it.get('ctxcfg'))
    return out


# --------------------------------------------------------------------------
# parser reusability histories
# --------------------------------------------------------------------------
def _vrepr(v, depth=0):
    """type-tagged text of an XDM value (for comparing a long-lived parser with a fresh one)"""
    if depth > 5:
        return '...'
    if isinstance(v, list):
        return '[' + ', '.join(_vrepr(x, depth + 1) for x in v) + ']'
    tn = type(v).__name__
    if hasattr(v, 'position') and hasattr(v, 'parent'):
        return f'{tn}@{v.position}'
    if hasattr(v, 'nargs'):
        try:
            if str(getattr(v, 'label', '')) in ('map', 'array'):
                return re.sub(r' at 0x[0-9a-f]+', '', f'{tn}:{v.source}')
            # a function item: its argument tokens are rewritten by every call (the object in $f is shared by all cases)
            return f'{tn}:{v.symbol}:{v.nargs if isinstance(v.nargs, int) else "*"}'
        except Exception:
            return f'{tn}:{getattr(v, "symbol", "?")}'
    if hasattr(v, 'symbol'):
        return f'{tn}:{v.symbol}'          # a token object (placeholder, ...)
    try:
        r = repr(v)
    except Exception:
        return tn
    return tn if ' at 0x' in r else f'{tn}:{r}'


_NONDETERMINISTIC = re.compile(r'current-|random|generate-id|implicit-timezone|environment')


def _parse_outcome(p, s, ver=None):
    """outcome of parse (+ evaluation on the element context when ver is given) as a JSON-able list"""
    from elementpath.exceptions import ElementPathError
    try:
        st_, t = guarded(lambda: p.parse(s))
        if st_ == 'timeout':
            return ['timeout']
        try:
            out = ['tree', t.tree, t.source]
        except Exception as e:
            return ['tree-unprintable', type(e).__name__]
    except ElementPathError as e:
        return ['error', type(e).__name__, str(e.code), str(e)]
    except RecursionError:
        return ['exc', 'RecursionError']
    except Exception as e:
        return ['exc', type(e).__name__, str(e)[:200]]
    if ver is not None and not _NONDETERMINISTIC.search(s):
        try:
            ctx, _root = make_context(ver, 'root')
            st_, v = guarded(lambda: t.evaluate(ctx))
            out.append('timeout' if st_ == 'timeout' else 'value ' + _vrepr(v))
        except ElementPathError as e:
            out.append(f'error {e.code}')
        except Exception as e:
            out.append('exc ' + type(e).__name__)
    return out


_FRESH: dict = {}


def _fresh_outcome(ver, s, cfg='default'):
    """outcome of a fresh parser (a pure function of version, configuration and string: cached per process)"""
    key = (ver, cfg, s)
    o = _FRESH.get(key)
    if o is None:
        o = _FRESH[key] = _parse_outcome(new_parser(ver, cfg), s, ver)
        if len(_FRESH) > 20000:
            _FRESH.clear()
    return o


def _state_problems(p):
    probs = []
    try:
        if p.token is not p.next_token:
            probs.append('token-is-not-next_token')
        if getattr(p.token, 'symbol', None) != '(start)':
            probs.append('token-not-start')
        if p.next_match is not None:
            probs.append('next_match-kept')
        if next(iter(p.tokens), None) is not None:
            probs.append('tokens-not-exhausted')
    except Exception as e:
        probs.append('state-unreadable:' + type(e).__name__)
    return probs


def _attr_diff(p, fresh):
    """attributes of the long-lived parser whose value differs from that of a fresh instance (an instance attribute that
    merely shadows an equal class attribute is no difference)"""
    skip = {'tokens', 'token', 'next_token', 'next_match', '_start_token', 'source',
            'schema', 'symbol_table', 'tokenizer', 'function_signatures'}     # per-instance copies of a schema-bound parser
    keys = (set(getattr(p, '__dict__', {})) | set(getattr(fresh, '__dict__', {}))) - skip
    missing = object()
    diff = []
    for k in sorted(keys):
        v1, v2 = getattr(p, k, missing), getattr(fresh, k, missing)
        if v1 is missing or v2 is missing:
            if v1 is not v2:
                diff.append(k)
            continue
        try:
            same = v1 == v2
        except Exception:
            same = v1 is v2
        if not same:
            diff.append(k)
    return diff


def judge_reuse(case, rec=None, tag='reuse'):
    ver = case['ver']
    cfg = case.get('cfg', 'default')
    discs = []
    long = new_parser(ver, cfg)
    failed_before = ok_after_fail = False
    n_fail = n_ok = resync = 0
    leaked = set()
    for i, s in enumerate(case['steps']):
        got = _parse_outcome(long, s, ver)
        want = _fresh_outcome(ver, s, cfg)
        probs = _state_problems(long)
        ref = _CACHE.get(('refparser', ver, cfg))
        if ref is None:
            ref = _CACHE[('refparser', ver, cfg)] = new_parser(ver, cfg)      # never used for parsing
        attrs = _attr_diff(long, ref)
        # classes describe the history itself (what a fresh parser does with each step), not the parser under test
        if want[0] == 'error' or want[0] == 'exc':
            n_fail += 1
        elif want[0] == 'tree':
            n_ok += 1
            if failed_before:
                ok_after_fail = True
        diverged = False
        for pr in probs:
            discs.append(Disc(f'C03/reuse/state/{pr}/{ver}', 'cursor reset after parse()', pr, f'step {i} {s!r} after {case["steps"][:i]!r}'))
            diverged = True
        if got != want and 'timeout' not in (got[0], want[0]):
            kind = f'{want[0]}~{got[0]}'
            cause = ('attr:' + '+'.join(attrs)) if attrs else 'unknown'
            discs.append(Disc(f'C03/reuse/outcome/{cause}/{kind}/{ver}', want, got, f'step {i} {s!r} after {case["steps"][:i]!r}'))
            diverged = True
        elif attrs and tuple(attrs) not in leaked:
            # state left behind by this parse; the parser is kept so that the next steps show the consequence
            leaked.add(tuple(attrs))
            discs.append(Disc(f'C03/reuse/leak/attr:{"+".join(attrs)}/{ver}', 'instance attributes as after __init__', attrs,
                              f'step {i} {s!r} after {case["steps"][:i]!r}'))
        if want[0] in ('error', 'exc'):
            failed_before = True
        if diverged:
            long = new_parser(ver, cfg)
            leaked = set()
            resync += 1
    if rec is not None:
        classes = [f'{tag}:history', f'{tag}:ver-{ver}']
        if ok_after_fail:
            classes.append(f'{tag}:ok-after-fail')
        if resync:
            rec.cls(f'{tag}:resync', resync)
        rec.cls(f'{tag}:steps', len(case['steps']))
        rec.cls(f'{tag}:failing-steps', n_fail)
        rec.case([ver, cfg, case['steps']], nontrivial=ok_after_fail, sample={'check': tag, 'ver': ver, 'steps': case['steps'][:6]},
                 classes=classes)
    return discs


# --------------------------------------------------------------------------
# strategies
# --------------------------------------------------------------------------
EXHAUSTIVE_NOTE = ('schemagrid: histories on schema-bound parsers (3 small schemas, proxies on the schema and on a base element: 6 '
                   'configurations x 2.0/3.0/3.1): a first parse with a rooted step that fails during the static schema-context '
                   'evaluation (or succeeds), then relative probes whose outcome depends on the focus, compared with a fresh '
                   'schema-bound parser: 3150 histories; the same 6 configurations are part of cfggrid (43 382 cases in all). '
                   'ctxgrid: ~100 expressions that read the dynamic context (current date/time, implicit timezone, adjust-*, '
                   'format-*, comparisons of zoned and unzoned values, doc/collection/unparsed-text/environment, default '
                   'language) x 15 XPathContext configurations (current_dt with utc / +05:30 / -14:00 / seconds offset / ZoneInfo / '
                   'tzinfo without offset / naive; timezone as string, Z, Timezone object, with current_dt; language+calendar+'
                   'place; documents/collections/text resources; dateTime context item): 4050 cases. '
                   'further complete grids: itemgrid (every kind of function item - inline with empty / literal / focus / closure / typed '
                   'body, named references, partial applications of each, maps, arrays: 33 items in 3.0, 49 in 3.1 - x 25-45 ways of '
                   'calling it: direct, parenthesised, let-bound, !, partial then call, partial of partial, apply, for-each/filter/'
                   'fold/sort/array:*/map:*, arrow, lookup, wrong arity: 4128 cases), cfggrid (type operators with unprefixed and '
                   'prefixed type names, constructor calls, unprefixed names, variables, comparisons: ~1000 strings x 8 parser '
                   'configurations - XSD as default namespace by option and by empty prefix, function_namespace, compatibility_mode, '
                   'strict=False + xsd_version 1.1, variable_types, element default namespace - x 4 versions: 24 608 cases) and blowup '
                   '(18 repeated-unit input families x n = 5, 10, 20, 40 x 4 versions parsed in child interpreters under a CPU budget of '
                   'max(5 s, 1000 x the n=10 cost) enforced by RLIMIT_CPU; exceeding it is C03/blowup/<unit>/<version>, a budget hit '
                   'before the base cost is known is only a note). '
                   'sub-checks reusegrid (every source prefix that ends right after a construct holding temporary parser state - arrow '
                   'with every proxy-resolved name, comments, lookup, map/array constructors, sequence types, calls, paths, flow '
                   'expressions: 32/68/87/284 prefixes per version - x 26 tokenizer-level failures, each followed by 3 ordinary '
                   'expressions on the same parser, compared with a fresh parser on tree, source and value: 12 246 histories), '
                   'nsgrid (every local function name registered in any namespace x 17 ways of qualifying it x call/0-2 args, '
                   'name#0-2, arrow specifier: 54 708 strings on 3.0/3.1) and regexgrid (replace/tokenize/matches/analyze-string x '
                   '26 backslash/dollar/brace strings per string argument x 11 flag values, constant and through $variables: '
                   '55 276 calls) are complete enumerations, as are callgrid and opgrid: every registered function of a parser version x '
                   'every legal arity <= 2 x every combination of 11-20 representative arguments (3 arguments over 6-8 values), '
                   'and every operator form of the version x every combination of 14-25 representative operands, each '
                   'evaluated on the element context')
EXCLUDED_FUNCTIONS = {'doc', 'doc-available', 'collection', 'uri-collection', 'unparsed-text', 'unparsed-text-lines',
                      'unparsed-text-available', 'json-doc', 'transform', 'load-xquery-module', 'environment-variable',
                      'available-environment-variables', 'trace'}
CODEPOINT = 'http://www.w3.org/2005/xpath-functions/collation/codepoint'
HTML_ASCII = 'http://www.w3.org/2005/xpath-functions/collation/html-ascii-case-insensitive'
ARG_POOL = ["1", "0", "-1", "2", "3", "10", "999", "1.5", "-0.5", "1e0", "1e300", "-1e-300", "xs:double('NaN')", "xs:double('INF')",
            "xs:float('-INF')", "''", "'a'", "'abc'", "'A b'", "' '", "'1'", "'x1'", "'NaN'", "'true'", "'2001-01-01'",
            "'12:00:00'", "'P1Y'", "'PT1S'", "'a*'", "'('", "'[a-'", "'\\d+'", "'$1'", "'\\'", "'i'", "'x'", "'q'", "'é'", "'xs:integer'",
            "'http://example.com/a b'", f"'{CODEPOINT}'", f"'{HTML_ASCII}'", "'http://unknown/collation'", "'en'", "'#'", "'0.0'",
            "'[Y0001]-[M01]'", "'NFC'", "'xml'", "'json'", "'{\"a\":1}'", "'<a/>'", "'<a'", "()", "(1, 2)", "('a', 'b')",
            "(1, 'a')", "(1 to 3)", ".", "..", "/", "a", "//a", "//b/c", "@a", "//@x", "a/text()", "//comment()", "*", "$v",
            "$w", "$s", "$d", "$x", "$b", "$e", "$z", "$f", "$m", "$r", "$nope", "true()", "false()", "position()", "last()",
            "xs:date('2001-01-01')", "xs:dateTime('2001-01-01T00:00:00Z')", "xs:time('12:00:00')", "xs:dayTimeDuration('PT1S')",
            "xs:yearMonthDuration('P1Y')", "xs:duration('P1Y1D')", "xs:QName('p:a')", "xs:anyURI('u')", "xs:hexBinary('00')",
            "xs:base64Binary('AA==')", "xs:untypedAtomic('1')", "xs:gYear('2001')", "xs:integer('1')", "xs:decimal('1.10')",
            "xs:float('1.5')", "xs:boolean('1')", "xs:NCName('n')", "xs:unsignedByte('255')"]
ARG_POOL_30 = ["abs#1", "concat#2", "function($x){$x}", "function($x, $y){$x + $y}", "function(){1}", "string#0", "true#0",
               "math:pi()", "fn:abs#1", "Q{http://www.w3.org/2005/xpath-functions}abs#1", "$f(1)", "(abs#1, string#1)"]
ARG_POOL_31 = ["map{}", "map{'a':1}", "map{1:2, 'b':()}", "[]", "[1, 2]", "[(), (1, 2)]", "array{1, 2}", "[[1], [2]]",
               "map{'a':map{'b':1}}", "map{'method':'json'}", "map{'liberal':true()}", "map{'duplicates':'x'}", "$m?a", "$r?1",
               "[1,2]?*", "map{'a':1}?*", "1 => abs()", "'a' => upper-case()"]


def function_names(ver):
    """[(lexical name, nargs)] of the registered functions of a parser version (generation only)"""
    key = ('fn', ver)
    v = _CACHE.get(key)
    if v is None:
        p = new_parser(ver)
        rev = {uri: pfx for pfx, uri in p.namespaces.items() if pfx}
        out = []
        for k, cls in sorted(p.symbol_table.items(), key=lambda kv: kv[0]):
            if not hasattr(cls, 'nargs') or 'function' not in str(getattr(cls, 'label', '')):
                continue
            sym = getattr(cls, 'symbol', k)
            if sym in EXCLUDED_FUNCTIONS or not re.match(r'^[A-Za-z][\w\-.]*$', sym):
                continue
            ns = getattr(cls, 'namespace', None)
            pfx = rev.get(ns)
            if 'constructor' in str(cls.label) and pfx is None:
                pfx = 'xs'
            name = sym if (pfx in (None, 'fn') or ver == '1.0') else f'{pfx}:{sym}'
            out.append((name, cls.nargs))
        v = _CACHE[key] = sorted(set((n, repr(a)) for n, a in out))
    return v


@st.composite
def call_string(draw, ver, depth=1):
    names = function_names(ver)
    name, nargs_r = draw(st.sampled_from(names))
    nargs = eval(nargs_r)  # repr of None / int / tuple, produced above
    if nargs is None:
        lo, hi = 1, 3
    elif isinstance(nargs, int):
        lo = hi = nargs
    else:
        lo, hi = nargs[0], (nargs[1] if nargs[1] is not None else nargs[0] + 2)
    k = draw(st.integers(0, 19))
    n = draw(st.integers(lo, hi)) if k < 17 else draw(st.integers(0, 4))     # mostly a legal arity
    pool = ARG_POOL + (ARG_POOL_30 if ver >= '3.0' else []) + (ARG_POOL_31 if ver >= '3.1' else [])
    args = []
    for _ in range(n):
        if depth > 0 and draw(st.integers(0, 9)) == 0:
            args.append(draw(call_string(ver, depth - 1)))
        else:
            args.append(draw(st.sampled_from(pool)))
    s = f'{name}({", ".join(args)})'
    w = draw(st.integers(0, 19))
    if w == 0:
        s = f'{s}[1]'
    elif w == 1:
        s = f'a/{s}'
    elif w == 2 and ver >= '3.0':
        s = f'{draw(st.sampled_from(pool))} ! {s}'
    elif w == 3 and ver >= '3.1' and args:
        s = f'{args[0]} => {name}({", ".join(args[1:])})'
    elif w == 4:
        s = f'{s} = {draw(st.sampled_from(pool))}'
    elif w == 5 and ver >= '3.0':
        s = f'{name}#{n}'
    elif w == 6 and ver >= '3.0' and n:
        s = f'{name}({", ".join(["?"] + args[1:])})({args[0]})'
    return s


GRID_ARGS = ["()", "1", "-1.5", "1e300", "xs:double('NaN')", "'a'", "''", "'2001-01-01'", "(1, 2)", ".", "a", "@a", "true()",
             "xs:date('2001-01-01')", "xs:dayTimeDuration('PT1S')", "xs:QName('p:a')", "xs:untypedAtomic('x')"]
GRID_ARGS_30 = ["abs#1"]
GRID_ARGS_31 = ["map{'a':1}", "[1, 'b']"]


def call_grid(ver):
    """complete grid: every registered function x every legal arity <= 2 x every combination of GRID_ARGS"""
    import itertools
    pool = GRID_ARGS + (GRID_ARGS_30 if ver >= '3.0' else []) + (GRID_ARGS_31 if ver >= '3.1' else [])
    if ver == '1.0':
        pool = [a for a in pool if not a.startswith('xs:') and a not in ('()', '(1, 2)', '1e300')]
    for name, nargs_r in function_names(ver):
        nargs = eval(nargs_r)
        if nargs is None:
            lo, hi = 1, 2
        elif isinstance(nargs, int):
            lo = hi = nargs
        else:
            lo, hi = nargs[0], (nargs[1] if nargs[1] is not None else 2)
        for n in range(lo, min(hi, 2) + 1):
            for args in itertools.product(pool, repeat=n):
                yield f'{name}({", ".join(args)})'
        if ver >= '3.0':
            # dynamic calls and arrow calls take another path to the function body (XPathFunction.__call__)
            dyn = ["abs#1", "()", "(1, 2)", "'a'", ".", "xs:untypedAtomic('x')", "@a", "1.5"] + \
                (["map{'a':1}", "[1, 'b']"] if ver >= '3.1' else [])
            if lo <= 1 <= hi:
                for a in dyn:
                    yield f'{name}#1({a})'
                    if ver >= '3.1':
                        yield f'{a} => {name}()'
            if lo <= 2 <= hi and ver >= '3.1':
                for a in dyn:
                    for b in ("1", "'a'", "()", "abs#1"):
                        yield f'{a} => {name}({b})'
        if lo <= 3 <= hi and ver != '1.0':
            small = ["()", "1", "'a'", ".", "xs:untypedAtomic('x')", "(1, 2)"] + (["abs#1"] if ver >= '3.0' else []) + \
                (["map{'a':1}"] if ver >= '3.1' else [])
            for args in itertools.product(small, repeat=3):
                yield f'{name}({", ".join(args)})'


OP_POOL = ["0", "1", "-1", "0.0", "1.5", "0e0", "1e300", "xs:double('NaN')", "xs:double('INF')", "()", "(1, 2)", "'a'", "''", "a",
           "@a", ".", "true()", "xs:date('2001-01-01')", "xs:dayTimeDuration('PT1S')", "xs:yearMonthDuration('P1Y')",
           "xs:untypedAtomic('x')", "xs:QName('p:a')"]
OP_POOL_10 = ["0", "1", "-1", "0.0", "1.5", "'a'", "''", "a", "@a", ".", "true()", "1 div 0", "0 div 0", "//comment()"]


def op_grid(ver):
    """complete grid: every operator of the version x every combination of representative operands"""
    import itertools
    pool = OP_POOL_10 if ver == '1.0' else OP_POOL + (["abs#1"] if ver >= '3.0' else []) + (["map{1:2}", "[1]"] if ver >= '3.1' else [])
    ops = sorted(X.BINOPS[ver]) + ['/', '//']
    for op in ops:
        for a, b in itertools.product(pool, repeat=2):
            yield f'({a}) {op} ({b})'
    for a in pool:
        yield f'-({a})'
        yield f'({a})[1]'
        yield f'a[{a}]'
        yield f'({a})[{a}]'
        if ver != '1.0':
            yield f'+({a})'
            yield f'if ({a}) then 1 else 2'
            yield f'some $x in ({a}) satisfies $x'
            yield f'for $x in ({a}) return $x + 1'
            for t in X.SINGLE_TYPES + ['xs:QName', 'xs:duration', 'xs:anyURI', 'xs:hexBinary', 'xs:integer?']:
                yield f'({a}) cast as {t}'
                yield f'({a}) castable as {t}'
            for t in ['xs:integer', 'xs:string*', 'node()+', 'item()?', 'element()', 'empty-sequence()', 'xs:untypedAtomic']:
                yield f'({a}) instance of {t}'
                yield f'({a}) treat as {t}'
        if ver >= '3.0':
            yield f'({a})(1)'
            yield f'({a})()'
            yield f'({a}) ! position()'
            yield f'let $x := ({a}) return $x'
        if ver >= '3.1':
            yield f'({a})?1'
            yield f'({a})?*'
            yield f'({a})?a'
            yield f'({a}) => abs()'
            yield f'({a}) => concat({a})'
            yield f'map{{({a}): 1}}'
            yield f'[({a})](1)'


# ---- reuse grid: every construct that holds parser state x every tokenizer-level failure right after it -------------
PROBES = ['abs(-1)', 'count((1, 2, 3))', "string-length('abc') + 1", "concat('a', 'b')", 'reverse((1, 2))', '(: c :) 1 + 1',
          'a[1]/text()']
PROBES_31 = ['(3, 1) => sort()', "map{1: 'x'}?1", '[1, 2]?2', '1 instance of xs:integer+']
TOKEN_FAILURES = ['(: an unterminated comment', '"unterminated', "'unterminated", '.5.5', '1e', '1.2.3', '~', '`', '%', '\\', '\x00',
                  '(: a (: nested :)', ':)', '(::', '}', ']', ')', '#', '', '1 1', '(: c', '\u2028', '{', '::', '$', '@']
PROXY_CANDIDATES = ['reverse', 'head', 'tail', 'sort', 'contains', 'size', 'get', 'put', 'merge', 'remove', 'join', 'filter',
                    'flatten', 'for-each', 'fold-left', 'exp', 'pi', 'sqrt', 'append', 'subarray', 'insert-before', 'keys',
                    'entry', 'find', 'for-each-pair', 'fold-right', 'string', 'boolean', 'data', 'abs', 'count', 'concat', 'QName',
                    'dateTime', 'date', 'integer', 'empty', 'exists', 'trace', 'error', 'position', 'last', 'name', 'lang', 'id']


def proxy_names(ver):
    """local names whose token class is a ProxyToken in this version (generation only)"""
    key = ('proxy', ver)
    v = _CACHE.get(key)
    if v is None:
        from elementpath.xpath_tokens import ProxyToken
        st_ = new_parser(ver).symbol_table
        v = _CACHE[key] = sorted(k for k, c in st_.items() if isinstance(c, type) and issubclass(c, ProxyToken)
                                 and re.match(r'^[A-Za-z][\w\-]*$', k))
    return v


def state_prefixes(ver):
    """source prefixes that end right after a construct during which the parser holds temporary state"""
    out = []
    if ver >= '3.1':
        names = sorted(set(proxy_names(ver)) | set(PROXY_CANDIDATES))
        for n in names:
            out += [f'(1, 2, 3) => {n} ', f'$s => {n} ( ', f'x => {n} ( 1 , ']
        out += ['1 => $f ', '1 => ( abs#1 ) ', '1 => fn:abs ', '1 => math:exp ', '1 => array:size ', '1 => map:size ',
                '1 => Q{http://www.w3.org/2005/xpath-functions}abs ', '1 => nope ', '1 => p:f ', '1 => abs ( ) => ', '1 => ',
                '$m ? ', '$m ?( ', '? ', '$m ? a ? ', '[1] ( ', 'map { ', 'map { 1 : ', 'map { 1 : 2 , ', '[ 1 , ', '[ ', 'array { ',
                'array { 1 , ', '1 instance of map( ', '1 instance of map( xs:string , ', '1 instance of array( ',
                '1 treat as array( xs:integer ', 'map:size ( ', 'array:size ( ']
    if ver >= '3.0':
        out += ['function ( ', 'function ( $x ', 'function ( $x as ', 'function ( $x ) as ', 'function ( $x ) { ', 'abs # ', 'fn:abs # ',
                'Q{ ', 'Q{u} ', 'Q{u}f ( ', 'let $x := ', 'let $x := 1 return ', '1 ! ', "'a' || ", '$f ( ', '$f ( 1 , ',
                '1 instance of function( ', 'math:pi ( ', 'math:exp ( 1 ']
    if ver >= '2.0':
        out += ['1 (: c :) ', '1 + (: c :) ', 'abs (: c :) ', 'abs (: c :) ( ', 'fn:abs ( ', 'fn : ', 'xs:integer ( ', 'xs:date ( ',
                '1 instance of ', '1 instance of node() ', '1 instance of element( ', '1 instance of element( a , ',
                '1 instance of attribute( ', '1 instance of document-node( ', '1 treat as ', '1 cast as ', '1 cast as xs:integer ',
                '1 castable as ', 'for $x in ', 'for $x in 1 return ', 'for $x in 1 , $y in ', 'some $x in 1 satisfies ',
                'every $x in ', 'if ( ', 'if ( 1 ) then ', 'if ( 1 ) then 2 else ', '( 1 , ', '1 to ', '1 eq ', 'a intersect ',
                '1 idiv ', 'attribute::', 'attribute( ', 'element( ', 'schema-element( ', 'processing-instruction( ']
    out += ['abs( ', 'count( ', 'concat( 1 , ', 'reverse( ', 'string( ', 'a / ', 'a // ', '/ ', '// ', '@ ', 'child :: ', 'self :: ',
            '$ ', 'a [ ', 'a [ 1 ] [ ', '( ', '- ', '1 + ', '1 = ', '1 and ', 'a | ', '1 div ', 'p : ', 'p:a / ', '* : ', 'text ( ',
            'node ( ', 'processing-instruction ( ', 'id ( ', 'name ( ', 'position ( ', '']
    return out


def reuse_grid(ver):
    probes = PROBES + (PROBES_31 if ver >= '3.1' else [])
    if ver == '1.0':
        probes = [p for p in probes if not p.startswith(('abs', 'reverse', '(:'))] + ['count(a)', "concat('a', 'b')"]
    for pre in state_prefixes(ver):
        for k, suf in enumerate(TOKEN_FAILURES):
            # two probes per history, rotating, so that every probe follows every kind of failure
            n = len(probes)
            yield [pre + suf, probes[k % n], probes[(k + 3) % n], probes[(k + 5) % n]]


# ---- namespace grid: every local name registered in any namespace x every other way of qualifying it ------------------
def ns_grid(ver):
    locs = sorted({n.split(':')[-1] for n, _ in function_names(ver)})
    p = new_parser(ver)
    uris = sorted({u for u in p.namespaces.values() if u})
    quals = ['fn:', 'math:', 'map:', 'array:', 'xs:', 'p:', 'zz:', 'err:', ''] + ['Q{%s}' % u for u in uris] + ['Q{}', 'Q{urn:none}']
    for loc in locs:
        for q_ in quals:
            name = q_ + loc
            yield f'{name}()'
            yield f'{name}(1)'
            yield f"{name}('a', 2)"
            yield f'{name}#0'
            yield f'{name}#1'
            yield f'{name}#2'
            if ver >= '3.1':
                yield f'1 => {name}()'
                yield f"'a' => {name}(2)"


# ---- regex grid ------------------------------------------------------------------------------------------------------
RX_POOL = ['abc', 'C:\\data\\2024', '\\', '\\1', '\\d', '$1', '\\$', '$', '$0', '$9', '\\\\', 'a\\', '\\n', '\\p{L}', '\\p{', '(', '(a)(b)',
           '[', '[a-', '{', 'a{2}', '*', 'a|b', '\\$1', '$a', '']
RX_INPUTS = ['abc', 'C:\\data\\2024', '$1 (a)', '\\', 'a\\1b', '', 'aXbxc', '[{(']
RX_FLAGS = [None, '', 'q', 'i', 'x', 's', 'm', 'qi', 'sx', 'z', 'qq']


def _xq(v):
    return "'" + v.replace("'", "''") + "'"


def regex_grid(ver, dynamic):
    """(string, vars) for fn:replace / tokenize / matches / analyze-string over RX_POOL in each string position x flags"""
    import itertools

    def render(fn, args):
        if not dynamic:
            return f'{fn}({", ".join(_xq(a) for a in args)})', None
        names = (['i', 'pt', 'rp', 'fl'] if fn == 'replace' else ['i', 'pt', 'fl'])[:len(args)]
        return f'{fn}({", ".join("$" + n for n in names)})', dict(zip(names, args))

    def with_flags(fn, args, flags=RX_FLAGS):
        for fl in flags:
            yield render(fn, args + ([fl] if fl is not None else []))
    for pat, rep in itertools.product(RX_POOL, RX_POOL):
        yield from with_flags('replace', ['abc', pat, rep])
        for inp in RX_INPUTS[1:3]:
            yield from with_flags('replace', [inp, pat, rep], [None, 'q', 'qi'])
    for inp in RX_POOL:
        for pat, rep in itertools.product(['a', '\\\\', '(a)|(b)', '$'], ['x', '\\', '$1', 'C:\\data']):
            yield from with_flags('replace', [inp, pat, rep], [None, 'q'])
    for fn in ['tokenize', 'matches'] + (['analyze-string'] if ver >= '3.0' else []):
        for inp, pat in itertools.product(RX_INPUTS, RX_POOL):
            yield from with_flags(fn, [inp, pat])


# ---- item grid: every kind of function item x every way of calling it (3.0 / 3.1) ------------------------------------
def function_items(ver):
    """[(expression, arity)] ; arity None for maps/arrays"""
    items = [("function($a, $b) { 1 }", 2), ("function($a) { 'x' }", 1), ("function() { 1 }", 0), ("function($a) { . }", 1),
             ("function($a) { position() }", 1), ("function($a) { a }", 1), ("function($a, $b) { $a + $b }", 2),
             ("function($a, $b) { ($a, $b) }", 2), ("function($a as xs:integer) as xs:integer { $a }", 1),
             ("(let $k := 2 return function($a, $b) { $a + $k })", 2), ("(for $k in 3 return function($a) { $k })", 1),
             ("function($f) { $f(1) }", 1), ("abs#1", 1), ("concat#2", 2), ("concat#3", 3), ("math:pow#2", 2), ("fn:string-join#2", 2),
             ("count#1", 1), ("true#0", 0), ("position#0", 0), ("xs:integer#1", 1), ("string#0", 0), ("name#1", 1),
             ("concat(?, 'x')", 1), ("concat('x', ?)", 1), ("concat(?, ?)", 2), ("substring(?, 2)", 1), ("math:pow(2, ?)", 1),
             ("function($a, $b) { $a + $b }(?, 2)", 1), ("function($a, $b) { $a + $b }(1, ?)", 1),
             ("function($a, $b) { ($a, $b) }(?, ?)", 2), ("function($a, $b) { . }(?, 2)", 1), ("abs(?)", 1)]
    if ver >= '3.1':
        items += [("function($a, $b) {}", 2), ("function($a) {}", 1), ("function() {}", 0), ("function($a, $b) {}(1, ?)", 1),
                  ("function($a, $b) {}(?, ?)", 2), ("function($a, $b) {}(?, 2)", 1), ("map{1: 2, 'a': 'b'}", None), ("map{}", None),
                  ("[1, 2]", None), ("[]", None), ("array{1, 2}", None), ("array:size#1", 1), ("map:size#1", 1),
                  ("map:merge#1", 1), ("array:join(?)", 1), ("map:put(?, 1, ?)", 2)]
    return items


def item_grid(ver):
    args = ["1", "2", "'x'"]
    for f, n in function_items(ver):
        ar = 1 if n is None else n
        a = args[:ar]
        al = ', '.join(a)
        yield f'{f}'
        yield f'{f}({al})'
        yield f'({f})({al})'
        yield f'let $g := {f} return $g({al})'
        yield f'let $g := {f} return ($g, $g) ! .({al})'
        yield f'{f}()'
        yield f'{f}(1, 2, 3, 4)'
        yield f'function-arity({f})'
        yield f'function-name({f})'
        yield f'{f} instance of function(*)'
        yield f'(1, 2) ! {f}({", ".join(["."] + a[1:]) if ar else ""})'
        yield f'string({f})'
        yield f'data({f})'
        yield f'deep-equal({f}, {f})'
        yield f'({f}, {f})[2]({al})'
        if ar >= 1:
            q1 = ', '.join(['?'] + a[1:])
            yield f'{f}({q1})'
            yield f'{f}({q1})({a[0]})'
            yield f'({f})({q1})({a[0]})'
            yield f'let $g := {f}({q1}) return $g({a[0]})'
            yield f'{f}({", ".join(["?"] * ar)})({al})'
            yield f'{f}({q1})(?)({a[0]})'
            yield f'for-each((1, 2), {f}({q1}))'
        if ar >= 2:
            q2 = ', '.join(a[:1] + ['?'] + a[2:])
            yield f'{f}({q2})({a[1]})'
            yield f'{f}({", ".join(["?"] * ar)})({q2})({a[1]})'
            yield f'{f}({", ".join(["?"] * ar)})({", ".join(["?"] + a[1:])})({a[0]})'
        if ar == 1:
            yield f'for-each((1, 2), {f})'
            yield f'filter((1, 2), {f})'
            yield f'for-each((), {f})'
        if ar == 2:
            yield f'fold-left((1, 2), 0, {f})'
            yield f'fold-right((1, 2), 0, {f})'
            yield f'for-each-pair((1, 2), (3, 4), {f})'
        if ver >= '3.1':
            yield f'apply({f}, [{al}])'
            yield f'apply({f}, [])'
            yield f'let $g := {f} return {a[0] if a else "()"} => $g({", ".join(a[1:])})'
            yield f'{a[0] if a else "()"} => ({f})({", ".join(a[1:])})'
            yield f'{f}?1'
            yield f'{f}?*'
            if ar == 1:
                yield f'sort((2, 1), (), {f})'
                yield f'array:for-each([1, 2], {f})'
                yield f'array:filter([1, 2], {f})'
                yield f"map:for-each(map{{1: 2}}, function($k, $v) {{ {f}($v) }})"
            if ar == 2:
                yield f'array:fold-left([1, 2], 0, {f})'
                yield f'map:for-each(map{{1: 2}}, {f})'
                yield f'array:for-each-pair([1], [2], {f})'


# ---- configuration grid: type operators, constructors, names and variables under non-default parser options ----------
CFG_OPERANDS = ["1", "'1'", "'x'", "1.5", "()", "(1, 2)", "a", "@a", ".", "$v", "xs:untypedAtomic('1')", "true()"]
CFG_TYPES = ['integer', 'date', 'string', 'QName', 'untypedAtomic', 'anyAtomicType', 'NOTATION', 'decimal', 'boolean', 'nope', 'xs:integer',
             'xs:nope', 'p:t', 'zz:t', 'integer?', 'xs:date?', 'error', 'anyURI']
CFG_SEQTYPES = ['integer', 'integer*', 'xs:integer+', 'item()', 'node()*', 'element()', 'element(a)', 'element(a, integer)',
                'element(*, xs:integer)', 'attribute(a)', 'attribute(*, integer)', 'document-node()', 'empty-sequence()', 'nope', 'p:t?',
                'text()', 'anyAtomicType+']


CFG_BASICS = ["b", "1 +", "b/foo(", "b[2] + 1", "1 div 0", "$undefined", "a/", "nope()", "p:a", "zz:a", "count()", "1 = 'x'", "@", "(", "'a",
              "err:a", "fn:a", "xs:a", "math:a", "fn:count(a)", "fn:nope()", "xs:integer('x')", "string(1 div 0)", "a[", "//", "1 1",
              "number('x') + 1", "sum(a)", "-'x'", "a | 1", "boolean((1, 2))", "id()", "$v/b", "lang()", "substring('a')"]


def cfg_grid(ver):
    yield from CFG_BASICS
    if ver != '1.0':
        for s_ in ["error()", "error(xs:QName('err:FOER0000'))", "error(QName('http://www.w3.org/2005/xqt-errors', 'err:X'), 'm')",
                   "err:nope()", "1 idiv 0", "xs:date('x')", "(1, 2) eq 1", "1 treat as xs:string", "exactly-one(())", "zero-or-one((1, 2))",
                   "xs:QName('zz:a')", "resolve-QName('zz:a', .)", "QName('u', 'p:a:b')", "math:pi()", "mm:pi()", "f:count(a)", "x:integer('1')"]:
            yield s_
    if ver >= '3.1':
        for s_ in ["map:size(map{})", "array:size([])", "a:size([])", "map{1: 2}?3", "[1](2)", "array:get([1], 5)", "map:merge((map{1:2}, map{1:3}), map{'duplicates': 'reject'})"]:
            yield s_
    if ver == '1.0':
        for a in ["1", "'x'", "a", "@a", ".", "$v", "p:a", "*", "integer", "a/b", "//a[b]", "count(a)", "string(integer)", "name(.)",
                  "a | b", "-a", "a = 'x'", "a[1]", "id('x')/a", "{urn:p}a", "{}a", "child::a", "namespace::*"]:
            yield a
        return
    for a in CFG_OPERANDS:
        for t in CFG_TYPES:
            yield f'{a} cast as {t}'
            yield f'{a} castable as {t}'
        for t in CFG_SEQTYPES:
            yield f'{a} instance of {t}'
            yield f'{a} treat as {t}'
    for t in ['integer', 'date', 'string', 'QName', 'decimal', 'boolean', 'xs:integer', 'nope', 'untypedAtomic', 'dayTimeDuration', 'NOTATION',
              'anyURI', 'fn:integer', 'p:integer']:
        for a in ["'1'", "1", "'2001-01-01'", "'x'", "()", "a", "$v", "."]:
            yield f'{t}({a})'
    for s_ in ["a", "a/b", "//a", "*", "p:a", "@a", "@p:b", "child::a", "element(a)", "a[1]", "//element(a)", "self::r", "$v", "$w", "$s",
               "$v + 1", "$s[1]", "$nope", "count(a)", "fn:count(a)", "string(a)", "abs(-1)", "fn:abs(-1)", "xs:integer(1) + 1", "name(.)",
               "local-name(a)", "namespace-uri(a)", "a = 'x'", "a eq 'x'", "a < 1", "1 = '1'", "() = 1", "a is b", "a | b", "-a", "+'1'",
               "1 + '1'", "'a' < 1", "for $x in a return $x", "some $x in a satisfies $x = 1", "if (a) then 1 else 2",
               "(1, 'a') = 1", "a/text()", "//comment()", "string-length()", "number()", "position() = 1", "lang('en')", "id('x')",
               "a/b = (1, 2)", "a castable as integer", "element(a, integer)", "schema-element(a)", "1 idiv 0", "1 div 0", "'a' || 1"]:
        yield s_
    if ver >= '3.0':
        for s_ in ["integer#1", "xs:integer#1", "integer#1('1')", "function($x as integer) as integer { $x }(1)", "Q{}a", "Q{urn:p}e",
                   "Q{http://www.w3.org/2001/XMLSchema}integer('1')", "let $x := 1 return $x cast as integer", "abs#1(1)",
                   "1 instance of function(*)", "math:pi()"]:
            yield s_
    if ver >= '3.1':
        for s_ in ["1 => integer()", "'1' => xs:integer()", "map{'a': 1} instance of map(string, integer)", "[1] instance of array(integer)",
                   "map{'a': 1}?a cast as string", "1 => abs()", "[1, 2]?1 treat as integer"]:
            yield s_


# ---- blow-up check: repeated small units, cost measured in child processes --------------------------------------------
BLOWUP_UNITS = {
    'comments-after-name': lambda n: 'a' + ' (: c :)' * n + ' + 1',
    'comments-after-function-name': lambda n: 'count' + ' (: c :)' * n + ' (a)',
    'comments-between-operands': lambda n: '1' + ' + (: c :) 1' * n,
    'nested-comments': lambda n: '(:' * n + ' c ' + ':)' * n + ' 1',
    'nested-parentheses': lambda n: '(' * n + '1' + ')' * n,
    'chained-plus': lambda n: '1' + ' + 1' * (5 * n),
    'chained-path': lambda n: 'a' + '/a' * (5 * n),
    'chained-and-or': lambda n: 'a' + ' and a or a' * (2 * n),
    'predicates': lambda n: 'a' + '[1]' * n,
    'nested-predicates': lambda n: 'a[' * n + '1' + ']' * n,
    'whitespace-run': lambda n: '1' + ' \n\t' * (40 * n) + '+ 1',
    'string-doubled-quotes': lambda n: "'" + "a''" * (12 * n) + "'",
    'comma-ranges': lambda n: '(' + ', '.join(['1 to 2'] * n) + ')',
    'unary-minus': lambda n: '-' * n + '1',
    'nested-calls': lambda n: 'string(' * n + "'a'" + ')' * n,
    'long-name': lambda n: 'a.b-c_d' * (10 * n),
    'names-then-paren': lambda n: ' '.join(['a-b.c div'] * n) + ' count(a)',
    'union-steps': lambda n: ' | '.join(['a/b[1]'] * n),
}
BLOWUP_UNITS_20 = ('comments-after-name', 'comments-after-function-name', 'comments-between-operands', 'nested-comments', 'comma-ranges')
BLOWUP_SCALE = (5, 10, 20, 40)
_BLOWUP_CHILD = r'''
import sys, json, time, resource
repo = sys.argv[1]
sys.path.insert(0, repo)
from elementpath import XPath1Parser, XPath2Parser
from elementpath.xpath30 import XPath30Parser
from elementpath.xpath31 import XPath31Parser
from elementpath.exceptions import ElementPathError
CLS = {'1.0': XPath1Parser, '2.0': XPath2Parser, '3.0': XPath30Parser, '3.1': XPath31Parser}
tasks = json.load(sys.stdin)
def cost(ver, s, reps):
    best = None; out = 'ok'
    for _ in range(reps):
        p = CLS[ver]()
        t0 = time.process_time()
        try:
            p.parse(s)
        except ElementPathError as e:
            out = 'error ' + str(e.code)
        except RecursionError:
            out = 'recursion'
        except Exception as e:
            out = 'exc ' + type(e).__name__
        dt = time.process_time() - t0
        best = dt if best is None else min(best, dt)
    return best, out
for unit, ver, strings in tasks:
    base = None
    for n, s in strings:
        budget = 5.0 if base is None else max(5.0, 1000.0 * base)
        soft = int(time.process_time() + budget) + 2
        resource.setrlimit(resource.RLIMIT_CPU, (soft, soft + 5))
        print(json.dumps({'unit': unit, 'ver': ver, 'n': n, 'start': True, 'budget': budget}), flush=True)
        c, out = cost(ver, s, 3 if n <= 10 else 1)
        if n == 10:
            base = max(c, 0.001)
        print(json.dumps({'unit': unit, 'ver': ver, 'n': n, 'cpu': c, 'outcome': out}), flush=True)
'''


def blowup_tasks(ver):
    out = []
    for unit, fn in BLOWUP_UNITS.items():
        if ver == '1.0' and unit in BLOWUP_UNITS_20:
            continue
        out.append({'unit': unit, 'ver': ver})
    return out


def judge_blowup(case, rec=None, repo=None):
    """cases: {'ver', 'units': [...]}: one child interpreter per case; a unit whose n=40 (or n=20) parse exceeds 1000 x the CPU
    cost of its n=10 parse (at least 5 s of CPU) is a blow-up; the child is killed by RLIMIT_CPU, never by the wall clock"""
    import json as _json
    import subprocess
    if repo is None:
        import elementpath
        repo = os.path.dirname(os.path.dirname(os.path.abspath(elementpath.__file__)))
    ver = case['ver']
    pending = list(case['units'])
    discs = []
    env = {'PYTHONHASHSEED': '0', 'PYTHONDONTWRITEBYTECODE': '1', 'PATH': os.environ.get('PATH', '/usr/bin:/bin'), 'LC_ALL': 'C'}
    while pending:
        tasks = [[u, ver, [[n, BLOWUP_UNITS[u](n)] for n in BLOWUP_SCALE]] for u in pending]
        try:
            p = subprocess.run([sys.executable, '-c', _BLOWUP_CHILD, repo], input=_json.dumps(tasks), capture_output=True, text=True,
                               env=env, timeout=1500)
            stdout, rc = p.stdout, p.returncode
        except subprocess.TimeoutExpired as e:
            stdout, rc = (e.stdout or b'').decode() if isinstance(e.stdout, bytes) else (e.stdout or ''), 'wall-timeout'
        rows = [_json.loads(line) for line in stdout.splitlines() if line.startswith('{')]
        done = {}
        started = None
        for r in rows:
            if r.get('start'):
                started = r
            else:
                done.setdefault(r['unit'], {})[r['n']] = r
                started = None
        finished_units = [u for u in pending if len(done.get(u, {})) == len(BLOWUP_SCALE)]
        for u in finished_units:
            c10, c40 = done[u][10]['cpu'], done[u][40]['cpu']
            if c40 > 1000.0 * max(c10, 0.001) and c40 > 5.0:
                discs.append(Disc(f'C03/blowup/{u}/{ver}', f'polynomial cost (n=10: {c10:.4f} s CPU)', f'n=40: {c40:.2f} s CPU',
                                  repr(BLOWUP_UNITS[u](10))))
            if rec is not None:
                rec.case(['blowup', u, ver], nontrivial=True, classes=['blowup:unit', f'blowup:ver-{ver}', 'blowup:' + done[u][40]['outcome'].split()[0]],
                         sample={'check': 'blowup', 'unit': u, 'ver': ver, 'cpu': {str(n): round(done[u][n]['cpu'], 5) for n in BLOWUP_SCALE}})
        if rc == 0 and len(finished_units) == len(pending):
            break
        if started is not None and rc != 'wall-timeout':
            # the child was stopped by its CPU limit inside this measurement
            u, n = started['unit'], started['n']
            c10 = done.get(u, {}).get(10, {}).get('cpu')
            if n in (20, 40) and c10 is not None:
                discs.append(Disc(f'C03/blowup/{u}/{ver}', f'polynomial cost (n=10: {c10:.4f} s CPU)',
                                  f'n={n}: CPU budget of {started["budget"]:.1f} s exceeded', repr(BLOWUP_UNITS[u](10))))
                if rec is not None:
                    rec.case(['blowup', u, ver], nontrivial=True, classes=['blowup:unit', f'blowup:ver-{ver}', 'blowup:killed'],
                             sample={'check': 'blowup', 'unit': u, 'ver': ver, 'killed_at_n': n})
            elif rec is not None:
                rec.cls('blowup:inconclusive')
                rec.notes.append(f'blowup {u} {ver}: CPU budget hit at n={n} before a base cost was known: inconclusive')
            pending = pending[pending.index(u) + 1:]
        else:
            if rec is not None:
                rec.cls('blowup:inconclusive')
                rec.notes.append(f'blowup child for {ver} ended with {rc}: {len(pending) - len(finished_units)} units inconclusive')
            break
    return discs


# ---- schema grid: histories on schema-bound parsers (static evaluation in a schema context) ---------------------------
SCHEMA_FIRST = {
    's1': ["//a[. eq 1]", "//a eq 1", "/root/b eq 'x'", "//d + 'x'", "/root/c/@x eq 1", "//c[@x eq 1]/d", "/root/a[. eq 1]", "//b[. eq 'x']",
           "//a", "/root/c", "/", "//d", "/root/c/d[1]", "//c/@x", "/root[b eq 'x']", "//d[. + 'x']", "/root/c/d eq 'x'", "(//a, 1 div 0)",
           "/root/nope eq 1", "//a[", "/root/c/(", "root/a eq 1", "c/d eq 'x'"],
    's2': ["//p:a eq 'x'", "/p:r/@min eq 'x'", "//p:e[@x eq 1]", "/p:r/p:a", "//p:e", "/p:r[@max eq 1]", "/p:r/p:e eq 1", "//p:a[. eq 'x']",
           "/", "//p:e/@x"],
    's3': ["//d eq 1", "/a/b/c eq 'x'", "//b[@x eq 1]", "/a/@x eq 'x'", "//c", "/a/b", "//b/@x", "/a[d eq 1]", "//c + 'x'", "/"],
}
SCHEMA_PROBES = {
    's1': ["d eq 1", "@x eq 'a'", "d + 1", "year-from-date(@x)", "a", "b + 1", "c/d", ".", "@id", "count(c)", "root/a eq 1", "a eq 1",
           "c/@x eq 1", "string-length(a)", "d[1] eq 'x'"],
    's2': ["p:a + 1", "@min + 1", "@max eq 'x'", "@max eq 1", "p:e eq true()", "hours-from-time(p:e/@x)", "p:r/p:a eq 'x'", "@x eq 1", "."],
    's3': ["d eq 'x'", "d eq 1", "@x + 1", "@x eq 'a'", "b/c + 1", "c + 1", "c eq 'x'", "a/d eq 1", "."],
}


def schema_grid(ver):
    """(cfg, steps): a first parse with a rooted step (failing during static evaluation, or not) then relative probes"""
    for cfg, (name, _base) in SCHEMA_CONFIGS.items():
        probes = SCHEMA_PROBES[name]
        for i, first in enumerate(SCHEMA_FIRST[name]):
            for j in range(len(probes)):
                yield cfg, [first, probes[j], probes[(j + 1 + i) % len(probes)], first, probes[(j + 3) % len(probes)]]


# ---- context grid: functions that read the dynamic context x context configurations ----------------------------------
CTX_STRINGS = [
    "current-dateTime()", "current-date()", "current-time()", "implicit-timezone()", "timezone-from-dateTime(current-dateTime())",
    "timezone-from-date(current-date())", "timezone-from-time(current-time())", "adjust-dateTime-to-timezone(current-dateTime())",
    "adjust-dateTime-to-timezone(xs:dateTime('2001-01-01T00:00:00'))", "adjust-date-to-timezone(xs:date('2001-01-01'))",
    "adjust-time-to-timezone(xs:time('10:00:00'))", "adjust-dateTime-to-timezone(current-dateTime(), ())",
    "adjust-date-to-timezone(current-date(), xs:dayTimeDuration('PT2H'))", "adjust-time-to-timezone(current-time(), implicit-timezone())",
    "adjust-dateTime-to-timezone(xs:dateTime('2001-01-01T00:00:00+14:00'))",
    "format-dateTime(current-dateTime(), '[Y]-[M]-[D] [H]:[m]:[s] [z] [Z] [ZN]')", "format-date(current-date(), '[FNn] [D1o] [MNn] [Y] [E] [C]')",
    "format-time(current-time(), '[h]:[m] [P] [Z0000] [z]')", "format-dateTime(current-dateTime(), '[Y]', 'it', (), ())",
    "format-date(current-date(), '[MNn]', 'de', 'AD', 'Europe/Rome')", "format-time(current-time(), '[H]', (), (), 'us')",
    "format-date(xs:date('2001-01-01'), '[Y][Z]')", "xs:dateTime('2001-01-01T00:00:00') - current-dateTime()",
    "current-dateTime() eq current-dateTime()", "current-dateTime() + xs:dayTimeDuration('PT1H')", "current-date() - xs:date('2000-01-01')",
    "xs:date('2001-01-01') eq xs:date('2001-01-01Z')", "xs:time('10:00:00') lt current-time()", "xs:dateTime('2001-01-01T00:00:00') lt current-dateTime()",
    "year-from-dateTime(current-dateTime())", "hours-from-time(current-time())", "seconds-from-dateTime(current-dateTime())",
    "string(current-dateTime())", "string(current-time())", "dateTime(current-date(), current-time())", "xs:date(current-dateTime())",
    "xs:time(current-dateTime())", "current-dateTime() cast as xs:gYear", "max((xs:date('2001-01-01'), xs:date('2001-01-01+01:00')))",
    "min((current-time(), xs:time('10:00:00')))", "distinct-values((xs:date('2001-01-01'), xs:date('2001-01-01Z')))",
    "deep-equal(xs:dateTime('2001-01-01T00:00:00'), xs:dateTime('2001-01-01T00:00:00Z'))", "index-of((current-date()), current-date())",
    "xs:gYear('2001') eq xs:gYear('2001Z')", "timezone-from-dateTime(.)", "adjust-dateTime-to-timezone(.)", "hours-from-dateTime(.)",
    ". - current-dateTime()", "doc('http://example.com/d.xml')", "doc-available('http://example.com/d.xml')", "doc('d2.xml')/a",
    "doc('nope.xml')", "doc-available('nope.xml')", "doc(())", "doc-available(())", "collection()", "collection('http://example.com/c')",
    "collection('nope')", "collection(())", "count(collection())", "default-collation()", "static-base-uri()", "base-uri(.)",
    "document-uri(/)", "root()", "id('x')", "idref('x')", "lang('it')", "lang('en', a)", "implicit-timezone() + implicit-timezone()",
    "(current-dateTime(), current-dateTime())[2] eq current-dateTime()", "for $x in 1 to 2 return current-time()",
]
CTX_STRINGS_30 = ["uri-collection()", "uri-collection('http://example.com/rc')", "uri-collection('nope')", "unparsed-text('http://example.com/t.txt')",
                  "unparsed-text-available('http://example.com/t.txt')", "unparsed-text-lines('http://example.com/t.txt')",
                  "unparsed-text('nope.txt')", "unparsed-text-available('nope.txt')", "unparsed-text('http://example.com/t.txt', 'utf-8')",
                  "environment-variable('PATH')", "environment-variable('NOPE_X')", "count(available-environment-variables())",
                  "format-dateTime(current-dateTime(), '[Y0001]-[M01]-[D01]T[H01]:[m01]:[s01][Z]')", "current-dateTime() ! timezone-from-dateTime(.)",
                  "let $d := current-dateTime() return adjust-dateTime-to-timezone($d, timezone-from-dateTime($d))",
                  "timezone-from-dateTime#1(current-dateTime())", "for-each((current-dateTime()), timezone-from-dateTime#1)",
                  "function() { implicit-timezone() }()", "generate-id(.)", "path(.)", "has-children()", "innermost(.)"]
CTX_STRINGS_31 = ["default-language()", "current-dateTime() => timezone-from-dateTime()", "sort((current-time(), xs:time('10:00:00')))",
                  "map{'d': current-date()}?d", "[current-dateTime()](1) => adjust-dateTime-to-timezone()", "parse-ietf-date('Wed, 06 Jun 1994 07:29:35 GMT')",
                  "json-doc('http://example.com/t.txt')", "collation-key('a')", "contains-token('a b', 'a')", "random-number-generator(1)?number > 2"]


def ctx_grid(ver):
    strings = CTX_STRINGS + (CTX_STRINGS_30 if ver >= '3.0' else []) + (CTX_STRINGS_31 if ver >= '3.1' else [])
    for ctxcfg in CONTEXT_CONFIGS:
        for s_ in strings:
            yield s_, ctxcfg


# ---- untyped grid: untyped values of every content x literals of every atomic type x comparison / arithmetic operators ------
UNTYPED_CONTENTS = ['x', '', ' ', 'NaN', 'INF', '-INF', '1e5', '--1', '1.2.3', '1', ' 1.5 ', 'true', '2001-01-01', 'P1D', 'p:a', '0x', '१']
TYPED_LITERALS = ["1.5", "0.25", "10.0", "1", "0", "-3", "1e0", "xs:float('1.5')", "xs:double('NaN')", "true()", "'a'", "''",
                  "xs:date('2001-01-01')", "xs:dateTime('2001-01-01T00:00:00')", "xs:time('12:00:00')", "xs:dayTimeDuration('PT1S')",
                  "xs:yearMonthDuration('P1Y')", "xs:duration('P1D')", "xs:QName('p:a')", "xs:anyURI('u')", "xs:hexBinary('00')",
                  "xs:base64Binary('AA==')", "xs:gYear('2001')", "xs:untypedAtomic('1')", "()", "(1.5, 'a')"]
UNTYPED_OPS = ['=', '!=', '<', '<=', '>', '>=', 'eq', 'ne', 'lt', 'le', 'gt', 'ge', '+', '-', '*', 'div', 'idiv', 'mod']
UNTYPED_NODES = ["/r/a", "/r/b", "/r/*", "/r/@a", "/r/a/@x", "/r", "/r/text()", "/r/comment()", "//c"]


def untyped_grid(ver):
    """(string, vars): untyped operand (constructor = static, via $w = dynamic, node of the schema-less document) op literal,
    both operand orders"""
    for op in UNTYPED_OPS:
        for lit in TYPED_LITERALS:
            for i, c in enumerate(UNTYPED_CONTENTS):
                u = "xs:untypedAtomic('%s')" % c
                yield f'{u} {op} {lit}', None
                yield f'{lit} {op} {u}', None
                if i % 3 == 0:
                    yield f'xs:untypedAtomic($w) {op} {lit}', {'w': c}
                    yield f'{lit} {op} xs:untypedAtomic($w)', {'w': c}
            for nd in UNTYPED_NODES:
                yield f'{nd} {op} {lit}', None
                yield f'{lit} {op} {nd}', None


def _item(strings, source):
    return st.fixed_dictionaries({'s': strings, 'ctx': st.sampled_from(CTX_KINDS + ('root', 'root', 'doc')),
                                  'api': st.sampled_from(APIS + ('evaluate', 'select'))})


@st.composite
def _grammar_string(draw, ver, depth):
    toks, _ = X.render(draw(X.ast(ver, draw(st.integers(1, depth)))), ver, False)
    k = draw(st.integers(0, 2))
    s = X.join(toks) if k == 0 else X.join_spaced(toks) if k == 1 else X.join(toks).replace(' ', '\n')
    return s[:MAX_LEN]


@st.composite
def _mutated_string(draw, ver, depth):
    if draw(st.integers(0, 3)) == 0:
        s = draw(call_string(ver, 0))
        toks = re.findall(r"'[^']*'|\"[^\"]*\"|[\w.\-]+:?[\w.\-]*|\S", s)
    else:
        toks, _ = X.render(draw(X.ast(ver, draw(st.integers(1, depth)))), ver, False)
    toks = draw(X.mutated(toks))
    return (X.join(toks) if draw(st.booleans()) else ' '.join(toks))[:MAX_LEN]


@st.composite
def batch(draw, kind, depth, size):
    ver = draw(st.sampled_from(VERS))
    if kind == 'grammar':
        strings = _grammar_string(ver, depth)
    elif kind == 'calls':
        strings = call_string(ver, 1)
    elif kind == 'mutated':
        strings = _mutated_string(ver, depth)
    else:
        strings = X.random_string()
    n = draw(st.integers(1, size))
    return {'ver': ver, 'items': [draw(_item(strings, kind)) for _ in range(n)]}


@st.composite
def history(draw):
    ver = draw(st.sampled_from(VERS))
    good = st.one_of(_grammar_string(ver, 2), call_string(ver, 0),
                     st.sampled_from(['1', 'a/b', '1 + 2', 'count(a)', "concat('a', 'b')", '//a[1]', 'text()', '$v']))
    arrowish = st.sampled_from(['1 => abs()', '1 => abs(', '1 => ', '1 => (abs#1)(', "'a' => concat('b'", '1 => $f(', '1 => fn:abs(',
                                '(1, 2) => count()', '1 => nope()', '1 => abs() =>', 'abs(', 'abs(1', 'count(a, b)', 'a[', 'a[1',
                                '1 => (', '1 => (1 +', '1 => Q{', '1 => nope:x()', '1 => (abs#1', '1 => p:f(', '(: open', '(1', '1 +', "'open", 'for $x in', 'if (1) then', 'map{', '[1,', 'Q{u', '$', 'a/',
                                '1 instance of', '1 cast as', 'function($x', 'let $x :=', 'some $x in a', 'a!', '#', '1 1'])
    bad = st.one_of(_mutated_string(ver, 2), X.random_string(20), arrowish, arrowish)
    steps = draw(st.lists(st.one_of(good, bad, bad), min_size=2, max_size=12))
    return {'ver': ver, 'steps': steps}


def _strategy(job):
    chk = job['check']
    if chk == 'reuse':
        return history()
    return batch(chk, job.get('depth', 3), job.get('batch', 8))


def _judge_for(chk):
    if chk in ('reuse', 'reusegrid', 'schemagrid'):
        return judge_reuse
    if chk == 'blowup':
        return judge_blowup
    return lambda case, rec=None: judge_batch(case, rec, chk)


# --------------------------------------------------------------------------
# module interface
# --------------------------------------------------------------------------
def selftest():
    assert CODE_RE.match('err:XPST0003') and CODE_RE.match('XPST0003') and not CODE_RE.match('err:xpst0003') and not CODE_RE.match('')
    assert X.nesting_depth('((1))') == 2 and X.nesting_depth('--1') == 2 and X.nesting_depth('(' * 31) == 31
    assert X.join(['1', 'to', '2']) == '1 to 2'
    st_, v = guarded(lambda: 5)
    assert (st_, v) == ('ok', 5)


def _limit_memory():
    try:
        import resource
        lim = 3 * 1024 ** 3
        soft, hard = resource.getrlimit(resource.RLIMIT_AS)
        if soft == resource.RLIM_INFINITY or soft > lim:
            resource.setrlimit(resource.RLIMIT_AS, (lim, hard))
    except Exception:
        pass


def jobs(tier, seed):
    q = tier == 'quick'
    out = []

    def add(chk, shards, n, **kw):
        for i in range(shards):
            out.append({'check': chk, 'shard': i, 'n': n, 'seed': derive_seed(seed, 'C03', chk, i), **kw})
    for v, k in (('1.0', 1), ('2.0', 2), ('3.0', 2), ('3.1', 3)):
        for i in range(k):
            out.append({'check': 'callgrid', 'ver': v, 'part': i, 'parts': k})
    for v, k in (('1.0', 1), ('2.0', 1), ('3.0', 2), ('3.1', 2)):
        for i in range(k):
            out.append({'check': 'opgrid', 'ver': v, 'part': i, 'parts': k})
    for v, k in (('1.0', 1), ('2.0', 1), ('3.0', 1), ('3.1', 3)):
        for i in range(k):
            out.append({'check': 'reusegrid', 'ver': v, 'part': i, 'parts': k})
    for v, k in (('3.0', 1), ('3.1', 2)):
        for i in range(k):
            out.append({'check': 'nsgrid', 'ver': v, 'part': i, 'parts': k})
    for v in ('2.0', '3.0', '3.1'):
        out.append({'check': 'schemagrid', 'ver': v, 'part': 0, 'parts': 1})
        out.append({'check': 'ctxgrid', 'ver': v, 'part': 0, 'parts': 1})
    for v in ('2.0', '3.1'):
        for i in range(2):
            out.append({'check': 'untypedgrid', 'ver': v, 'part': i, 'parts': 2})
    for v in ('3.0', '3.1'):
        out.append({'check': 'itemgrid', 'ver': v, 'part': 0, 'parts': 1})
    for v in VERS:
        out.append({'check': 'cfggrid', 'ver': v, 'part': 0, 'parts': 1})
        out.append({'check': 'blowup', 'ver': v, 'units': [t['unit'] for t in blowup_tasks(v)]})
    for v, dyn, k in (('2.0', False, 1), ('3.1', False, 1), ('3.0', True, 1)):
        for i in range(k):
            out.append({'check': 'regexgrid', 'ver': v, 'dynamic': dyn, 'part': i, 'parts': k})
    if q:
        add('grammar', 3, 500, depth=3, batch=8)
        add('calls', 3, 500, batch=8)
        add('mutated', 4, 600, depth=3, batch=8)
        add('random', 2, 700, batch=8)
        add('reuse', 2, 450)
    else:
        add('grammar', 3, 5000, depth=4, batch=8)
        add('calls', 4, 6000, batch=8)
        add('mutated', 4, 6500, depth=3, batch=8)
        add('random', 2, 6000, batch=8)
        add('reuse', 2, 4500)
        for i in range(1):
            out.append({'check': 'atheris', 'shard': i, 'runs': 300000, 'seed': derive_seed(seed, 'C03', 'atheris', i) % (2 ** 31)})
    return out


def run_job(job, rec: Recorder):
    _limit_memory()
    chk = job['check']
    if chk == 'atheris':
        from vp.gen import c03_atheris
        return c03_atheris.run(job, rec)
    if chk in ('callgrid', 'opgrid', 'nsgrid', 'regexgrid', 'itemgrid', 'cfggrid', 'ctxgrid', 'untypedgrid'):
        for case in _grid_cases(job):
            rec.discs_of(chk, case, judge_batch(case, rec, chk))
        return
    if chk == 'blowup':
        case = {'ver': job['ver'], 'units': job['units']}
        rec.discs_of('blowup', case, judge_blowup(case, rec))
        return
    if chk in ('reusegrid', 'schemagrid'):
        for case in _grid_cases(job):
            rec.discs_of(chk, case, judge_reuse(case, rec, chk))
        return
    jd = _judge_for(chk)
    hyp_collect(_strategy(job), lambda case: rec.discs_of(chk, case, jd(case, rec)), job['n'], job['seed'], rec)


def _grid_cases(job):
    chk, ver = job['check'], job['ver']
    if chk == 'reusegrid':
        for idx, steps in enumerate(reuse_grid(ver)):
            if idx % job['parts'] == job['part']:
                yield {'ver': ver, 'steps': steps}
        return
    if chk == 'regexgrid':
        for idx, (s, vars_) in enumerate(regex_grid(ver, job['dynamic'])):
            if idx % job['parts'] == job['part']:
                it = {'s': s, 'ctx': 'root', 'api': 'evaluate'}
                if vars_:
                    it['vars'] = vars_
                yield {'ver': ver, 'items': [it]}
        return
    if chk == 'cfggrid':
        for cfg in PARSER_CONFIGS + (tuple(SCHEMA_CONFIGS) if ver != '1.0' else ()):
            for s in cfg_grid(ver):
                yield {'ver': ver, 'items': [{'s': s, 'ctx': 'root', 'api': 'evaluate', 'cfg': cfg}]}
            if cfg in SCHEMA_CONFIGS:
                name = SCHEMA_CONFIGS[cfg][0]
                for s in SCHEMA_FIRST[name] + SCHEMA_PROBES[name]:
                    yield {'ver': ver, 'items': [{'s': s, 'ctx': 'root', 'api': 'evaluate', 'cfg': cfg}]}
        return
    if chk == 'schemagrid':
        for cfg, steps in schema_grid(ver):
            yield {'ver': ver, 'cfg': cfg, 'steps': steps}
        return
    if chk == 'untypedgrid':
        for idx, (s, vars_) in enumerate(untyped_grid(ver)):
            if idx % job['parts'] == job['part']:
                it = {'s': s, 'ctx': 'root', 'api': 'evaluate'}
                if vars_:
                    it['vars'] = vars_
                if idx % 7 == 3 and ver == '2.0':
                    it['cfg'] = 'compat'
                yield {'ver': ver, 'items': [it]}
        return
    if chk == 'ctxgrid':
        for idx, (s, ctxcfg) in enumerate(ctx_grid(ver)):
            yield {'ver': ver, 'items': [{'s': s, 'ctx': 'doc' if idx % 3 == 2 else 'root', 'api': 'select' if idx % 2 else 'evaluate',
                                          'ctxcfg': ctxcfg}]}
        return
    if chk == 'itemgrid':
        for idx, s in enumerate(item_grid(ver)):
            ctx, api = (('root', 'evaluate'), ('none', 'evaluate'), ('root', 'select'))[idx % 3]
            yield {'ver': ver, 'items': [{'s': s, 'ctx': 'root', 'api': 'evaluate'}]}
            if (ctx, api) != ('root', 'evaluate'):
                yield {'ver': ver, 'items': [{'s': s, 'ctx': ctx, 'api': api}]}
        return
    grid = {'callgrid': call_grid, 'opgrid': op_grid, 'nsgrid': ns_grid}[chk]
    for idx, s in enumerate(grid(ver)):
        if idx % job['parts'] == job['part']:
            yield {'ver': ver, 'items': [{'s': s, 'ctx': 'root', 'api': 'evaluate'}]}


def shrink_job(job, bucket, budget):
    chk = job['check']
    if chk == 'atheris':
        return None
    if chk in ('reusegrid', 'schemagrid'):
        for case in _grid_cases(job):
            for d in judge_reuse(case):
                if d.bucket == bucket:
                    return case, d
        return None
    if chk == 'blowup':
        for u in job['units']:
            case = {'ver': job['ver'], 'units': [u]}
            for d in judge_blowup(case):
                if d.bucket == bucket:
                    return case, d
        return None
    if chk in ('callgrid', 'opgrid', 'nsgrid', 'regexgrid', 'itemgrid', 'cfggrid', 'ctxgrid', 'untypedgrid'):
        for case in _grid_cases(job):
            for d in judge_batch(case, None, chk):
                if d.bucket == bucket:
                    return case, d
        return None
    return hyp_shrink(_strategy(job), _judge_for(chk), bucket, job['n'], job['seed'], budget)


def judge(check, case):
    if check == 'atheris':
        check = 'random'
    return _judge_for(check)(case)
