"""C15 - Maps and arrays are immutable values obeying the XPath 3.1 map/array laws."""
from __future__ import annotations

import itertools
import re
import xml.etree.ElementTree as ET

from hypothesis import strategies as st

from vp.core import Disc, Recorder, derive_seed, hyp_collect, hyp_shrink, escape_bucket, canon as jcanon
from vp.ref import c15_mapmodel as M
from vp.ref.c15_mapmodel import XErr, NoVerdict

PROPERTY = 'C15'
LEVEL = 'exploration'
RULE = ('hist: hypothesis-generated histories (JSON lists of expression trees) over a pool of map and array objects '
        'obtained from token.evaluate() and passed back as $variables; every step is one XPath 3.1 expression built '
        'from map:* / array:* functions, constructors, ?-lookup and function-call syntax with keys drawn from a '
        'per-history key pool made of same-key clusters (1/1.0/1e0/xs:float(1)/true()/"1", NaN, +-0, a/anyURI/'
        'untypedAtomic/QName, date/times with and without timezone, durations, binaries), values = atoms, (), '
        'sequences, nodes, nested and pooled maps/arrays, index arguments in {0,1,mid,size,size+1,-1}; oracle = '
        'list-of-(key,value) model with an independent op:same-key, plus the immutability invariant (every pooled '
        'object still equals its value at creation) after every step. non-trivial history = some pooled object is '
        'operand >= 2 times, or a cross-type same-key collision, or an out-of-bounds index occurs; distinct by '
        'canonical step list. samekey: EXHAUSTIVE over all ordered pairs of the 100-atom table x 12 expression shapes. '
        'deq: fn:deep-equal on generated value pairs (second value = edited copy of the first).')
ASSUMPTIONS = [
    'results are observed through token.evaluate() and the python accessors XPathMap.items() / XPathArray.items() '
    '(select() flattens arrays); atomic values are mapped to XSD types by their python class',
    'order of map entries is implementation-dependent: map:keys, map:for-each, map:find and ?* on maps are compared as bags',
    'map:merge: which of two duplicate key values (e.g. 1 and 1.0) survives is compared only up to op:same-key; '
    'use-any with duplicates gives no verdict',
    'when several errors are possible in one expression any of their codes is accepted',
    'fn:deep-equal verdicts only where they do not depend on numeric promotion, untypedAtomic casting or the implicit '
    'timezone; array:sort only on arrays of single integers / single strings, or with the key function count#1 (stability)',
    'a map constructor converts an xs:untypedAtomic key to xs:string (XPath 3.1 section 3.11.1); map:put / map:entry keep it',
    'keys of schema-derived types, NOTATION keys and function items as values are not generated',
    'cases are decoded from hypothesis-drawn byte blocks (one block per step) instead of nested composite strategies: '
    'generation was 60% of the run time; shrinking deletes blocks (= steps) and lowers bytes (= simpler choices)',
]
FLOORS = {
    'hist:operand-reuse': (0.50, 'hist'),
    'hist:cross-type-collision': (0.15, 'hist'),
    'hist:oob-index': (0.15, 'hist'),
    'hist:nested-value': (0.20, 'hist'),
    'step:pooled': (0.15, 'step'),
    'step:value-verdict': (0.40, 'step'),
    'deq:expect-true': (0.15, 'deq'),
    'deq:expect-false': (0.30, 'deq'),
}
EXHAUSTIVE_NOTE = 'sub-check samekey enumerates every ordered pair of the %d-atom table; hist and deq are sampled'

# --------------------------------------------------------------------------
# atom table
# --------------------------------------------------------------------------
A = lambda t, lex: ['a', t, lex]

CLUSTERS = {
    'one': [A('integer', '1'), A('decimal', '1.0'), A('double', '1e0'), A('float', '1'), A('boolean', 'true'),
            A('string', '1'), A('untypedAtomic', '1'), A('anyURI', '1'), A('decimal', '1')],
    'zero': [A('integer', '0'), A('decimal', '0.0'), A('decimal', '-0.0'), A('double', '0e0'), A('double', '-0e0'),
             A('float', '-0'), A('float', '0'), A('boolean', 'false'), A('string', '0')],
    'str': [A('string', 'a'), A('anyURI', 'a'), A('untypedAtomic', 'a'), A('QName', '||a'), A('QName', 'u|p|a'),
            A('QName', 'u|q|a'), A('string', 'b'), A('string', ''), A('string', 'A'), A('anyURI', 'b'),
            A('string', 'true'), A('untypedAtomic', 'true')],
    'nan': [A('double', 'NaN'), A('float', 'NaN'), A('double', 'INF'), A('float', 'INF'), A('double', '-INF'),
            A('string', 'NaN'), A('float', '-INF')],
    'frac': [A('decimal', '0.1'), A('double', '0.1'), A('float', '0.1'), A('decimal', '1.5'), A('double', '1.5'),
             A('float', '1.5'), A('decimal', '0.5'), A('double', '0.5'), A('float', '0.5'), A('integer', '2'),
             A('decimal', '2.0'), A('double', '2')],
    'big': [A('integer', '9007199254740993'), A('double', '9007199254740992'), A('integer', '9007199254740992'),
            A('decimal', '9007199254740993.0'), A('float', '16777216'), A('integer', '16777217'),
            A('integer', '16777216'), A('float', '16777217')],
    'dt': [A('dateTime', '2000-01-01T12:00:00'), A('dateTime', '2000-01-01T12:00:00Z'),
           A('dateTime', '2000-01-01T13:00:00+01:00'), A('dateTime', '2000-01-01T00:00:00'),
           A('dateTime', '2000-01-01T00:00:00Z'), A('date', '2000-01-01'), A('date', '2000-01-01Z'),
           A('date', '2000-01-01+01:00'), A('date', '2000-01-02')],
    'time': [A('time', '12:00:00'), A('time', '12:00:00Z'), A('time', '13:00:00+01:00'), A('time', '00:00:00'),
             A('gYear', '2000'), A('gYear', '2000Z'), A('gYearMonth', '2000-01'), A('gMonth', '--01'),
             A('gMonthDay', '--01-01'), A('gDay', '---01')],
    'dur': [A('duration', 'P1M'), A('yearMonthDuration', 'P1M'), A('duration', 'PT0S'), A('yearMonthDuration', 'P0M'),
            A('dayTimeDuration', 'PT0S'), A('dayTimeDuration', 'PT60S'), A('dayTimeDuration', 'PT1M'),
            A('duration', 'P1D'), A('dayTimeDuration', 'PT24H'), A('duration', 'P1Y'), A('yearMonthDuration', 'P12M')],
    'bin': [A('hexBinary', '00'), A('hexBinary', 'FF'), A('hexBinary', ''), A('base64Binary', 'AA=='),
            A('base64Binary', '/w=='), A('base64Binary', ''), A('string', '00')],
    'plain': [A('integer', '2'), A('integer', '3'), A('integer', '-1'), A('string', 'b'), A('string', 'c'),
              A('string', 'k'), A('integer', '4'), A('integer', '5'), A('string', 'a')],
}
ALL_ATOMS = []
for _c in CLUSTERS.values():
    for _a in _c:
        if _a not in ALL_ATOMS:
            ALL_ATOMS.append(_a)
EXHAUSTIVE_NOTE = EXHAUSTIVE_NOTE % len(ALL_ATOMS)
EXHAUSTIVE = False       # only the samekey sub-check is exhaustive (see exhaustive_note)

NODES = {'r': '/r', 'a': '/r/a', 'b': '/r/b', 'b/@x': '/r/b/@x', 'b/text()': '/r/b/text()', 'a/text()': '/r/a/text()'}
DOC = '<r><a>1</a><b x="2">t</b></r>'


def T(a):
    return tuple(a)


# --------------------------------------------------------------------------
# features of key pairs (bucket component): which key-identity corner a case touches
# --------------------------------------------------------------------------
FEATURE_ORDER = ['float32', 'bool~num', 'dt-cross-type', 'bin-cross', 'nan-float', 'nan', 'untyped~other', 'dt-tz~notz',
                 'qname~str', 'num-inexact', 'eq-cross:num', 'eq-cross:str', 'eq-cross:dt', 'eq-cross:dur',
                 'eq-cross:qname', 'negzero']


def _float_inexact(a):
    if a[1] != 'float':
        return False
    try:
        x = float(a[2])
    except ValueError:
        return False
    return x == x and M._f32(x) != x          # NaN and the infinities are exact


def pair_features(a, b):
    """features of an (unordered) pair of key atoms"""
    fs = set()
    ta, tb = a[1], b[1]
    if M.is_nan(a) or M.is_nan(b):
        fs.add('nan-float' if (M.is_nan(a) and ta == 'float') or (M.is_nan(b) and tb == 'float') else 'nan')
    if _float_inexact(a) or _float_inexact(b):
        fs.add('float32')
    if a is b:
        return fs
    same = M.same_key(a, b)
    if same:
        if M.ident(a) != M.ident(b):
            if ta in M.NUMERIC:
                fs.add('negzero' if ta == tb else 'eq-cross:num')
            elif ta in M.STRINGY:
                fs.add('eq-cross:str')
            elif ta in M.DATETIMES:
                fs.add('eq-cross:dt')
            elif ta in M.DURATIONS:
                fs.add('eq-cross:dur')
            elif ta == 'QName':
                fs.add('eq-cross:qname')
        elif ta in M.DATETIMES and a[2] != b[2]:
            fs.add('eq-cross:dt')
        elif ta == 'QName' and a[2] != b[2]:
            fs.add('eq-cross:qname')
        return fs
    for x, y in ((a, b), (b, a)):
        tx, ty = x[1], y[1]
        if tx == 'boolean' and ty in M.NUMERIC:
            if M.keyclass(y) == ('num', '1' if x[2] == 'true' else '0'):
                fs.add('bool~num')
        if tx == 'untypedAtomic' and ty not in M.STRINGY:
            fs.add('untyped~other')
        if tx == 'QName' and ty in M.STRINGY:
            fs.add('qname~str')
    if ta in M.DATETIMES and tb in M.DATETIMES:
        if ta != tb:
            fs.add('dt-cross-type')
        elif (M._split_tz(a[2])[1] is None) != (M._split_tz(b[2])[1] is None):
            fs.add('dt-tz~notz')
    if ta in M.BINARIES and tb in M.BINARIES and ta != tb:
        fs.add('bin-cross')
    if ta in M.NUMERIC and tb in M.NUMERIC and not M.is_nan(a) and not M.is_nan(b):
        va, vb = M._num_value(ta, a[2])[0], M._num_value(tb, b[2])[0]
        if not isinstance(va, str) and not isinstance(vb, str) and float(va) == float(vb):
            fs.add('num-inexact')
    return fs


def key_feature(keys):
    fs = set()
    keys = [T(k) for k in keys]
    for k in keys:
        fs |= pair_features(k, k)
    for x, y in itertools.combinations(keys, 2):
        fs |= pair_features(x, y)
    for f in FEATURE_ORDER:
        if f in fs:
            return f
    return 'plain'


# --------------------------------------------------------------------------
# rendering of atoms
# --------------------------------------------------------------------------

def ratom(a):
    _, t, lex = a
    if t == 'integer':
        return lex if lex.isdigit() else f"xs:integer('{lex}')"
    if t == 'decimal':
        return lex if re.fullmatch(r'\d+\.\d+', lex) else f"xs:decimal('{lex}')"
    if t == 'double':
        return lex if re.fullmatch(r'\d+(\.\d+)?e\d+', lex) else f"xs:double('{lex}')"
    if t == 'string':
        return "'" + lex.replace("'", "''") + "'"
    if t == 'boolean':
        return 'true()' if lex == 'true' else 'false()'
    if t == 'QName':
        uri, prefix, local = lex.split('|')
        return f"fn:QName('{uri}', '{prefix + ':' if prefix else ''}{local}')"
    return f"xs:{t}('{lex}')"


# --------------------------------------------------------------------------
# observation of elementpath values  ->  model values
# --------------------------------------------------------------------------
_OBS = {}


def _obs_types():
    if not _OBS:
        import decimal
        from elementpath import datatypes as dt
        from elementpath.xpath_tokens import XPathMap, XPathArray, XPathFunction
        from elementpath.xpath_nodes import XPathNode, EtreeElementNode, TextNode, AttributeNode
        _OBS.update(dt=dt, Decimal=decimal.Decimal, XPathMap=XPathMap, XPathArray=XPathArray,
                    XPathFunction=XPathFunction, XPathNode=XPathNode, EtreeElementNode=EtreeElementNode,
                    TextNode=TextNode, AttributeNode=AttributeNode)
        _OBS['dtmap'] = [(dt.DateTime, 'dateTime'), (dt.Date, 'date'), (dt.Time, 'time'),
                         (dt.GregorianYearMonth, 'gYearMonth'), (dt.GregorianYear, 'gYear'),
                         (dt.GregorianMonthDay, 'gMonthDay'), (dt.GregorianMonth, 'gMonth'), (dt.GregorianDay, 'gDay')]
    return _OBS


def obs_atom(v):
    o = _obs_types()
    dt = o['dt']
    import math
    if isinstance(v, bool):
        return ('a', 'boolean', 'true' if v else 'false')
    if type(v) is int or type(v) is dt.Integer:
        return ('a', 'integer', str(int(v)))
    if isinstance(v, o['Decimal']) and type(v) is o['Decimal']:
        return ('a', 'decimal', format(v, 'f'))
    if isinstance(v, float):
        if type(v) is float:
            t = 'double'
        elif isinstance(v, dt.Float):
            t = 'float'
        else:
            return ('bad', 'atom-class:' + type(v).__name__)
        if math.isnan(v):
            return ('a', t, 'NaN')
        if math.isinf(v):
            return ('a', t, 'INF' if v > 0 else '-INF')
        return ('a', t, repr(float(v)))
    if type(v) is str:
        return ('a', 'string', v)
    if isinstance(v, dt.AnyURI):
        return ('a', 'anyURI', str(v))
    if isinstance(v, dt.UntypedAtomic):
        return ('a', 'untypedAtomic', str(v))
    if isinstance(v, dt.AbstractDateTime):
        for cls, name in o['dtmap']:
            if isinstance(v, cls):
                return ('a', name, str(v))
    if isinstance(v, dt.Duration):
        name = ('yearMonthDuration' if isinstance(v, dt.YearMonthDuration) else
                'dayTimeDuration' if isinstance(v, dt.DayTimeDuration) else 'duration')
        return ('a', name, str(v))
    if isinstance(v, dt.HexBinary):
        return ('a', 'hexBinary', str(v))
    if isinstance(v, dt.Base64Binary):
        return ('a', 'base64Binary', str(v))
    if isinstance(v, dt.QName):
        return ('a', 'QName', f'{v.uri}|{v.prefix or ""}|{v.local_name}')
    return ('bad', 'atom-class:' + type(v).__name__)


def obs_item(v, depth=0):
    o = _obs_types()
    if depth > 12:
        return ('bad', 'cyclic-or-too-deep')
    if isinstance(v, o['XPathMap']):
        return ('m', tuple((obs_atom(k), observe(val, True, depth + 1)) for k, val in v.items()))
    if isinstance(v, o['XPathArray']):
        return ('A', tuple(observe(x, True, depth + 1) for x in v.items()))
    if isinstance(v, o['XPathFunction']):
        return ('f', getattr(v, 'symbol', '?'))
    if isinstance(v, o['XPathNode']):
        if isinstance(v, o['EtreeElementNode']):
            return ('n', str(v.elem.tag))
        par = v.parent.elem.tag if getattr(v, 'parent', None) is not None and hasattr(v.parent, 'elem') else '?'
        if isinstance(v, o['TextNode']):
            return ('n', f'{par}/text()')
        if isinstance(v, o['AttributeNode']):
            return ('n', f'{par}/@{v.name}')
        return ('bad', 'node-class:' + type(v).__name__)
    if v is None:
        return ('bad', 'None')
    if isinstance(v, (list, tuple)):
        return ('bad', 'nested-sequence')
    return obs_atom(v)


def observe(v, inner=False, depth=0):
    """elementpath value (item, list, None at top level) -> model value (tuple of items)"""
    if isinstance(v, list):
        return tuple(obs_item(x, depth) for x in v)
    if v is None and not inner:
        return ()
    return (obs_item(v, depth),)


def has_bad(value):
    for it in value:
        if it[0] == 'bad':
            return it[1]
        if it[0] == 'm':
            for k, v in it[1]:
                if k[0] == 'bad':
                    return k[1]
                b = has_bad(v)
                if b:
                    return b
        elif it[0] == 'A':
            for v in it[1]:
                b = has_bad(v)
                if b:
                    return b
    return None


def show(value, n=160):
    def s_item(it):
        if it[0] == 'a':
            return f'{it[1]}({it[2]})'
        if it[0] == 'n':
            return f'node({it[1]})'
        if it[0] == 'm':
            return 'map{' + ', '.join(f'{s_item(k)}: {s_val(v)}' for k, v in it[1]) + '}'
        if it[0] == 'A':
            return '[' + ', '.join(s_val(v) for v in it[1]) + ']'
        return repr(it)

    def s_val(v):
        return s_item(v[0]) if len(v) == 1 else '(' + ', '.join(s_item(x) for x in v) + ')'
    s = s_val(value)
    return s if len(s) <= n else s[:n] + '...'


# --------------------------------------------------------------------------
# function catalogue (inline functions with their model)
# --------------------------------------------------------------------------
def _I(n):
    return ('a', 'integer', str(n))


FOREACH = {
    'id': ('function($x){$x}', lambda v: v),
    'dup': ('function($x){($x, $x)}', lambda v: v + v),
    'wrap': ('function($x){[$x]}', lambda v: (('A', (v,)),)),
    'count': ('function($x){count($x)}', lambda v: (_I(len(v)),)),
    'empty': ('function($x){()}', lambda v: ()),
}
FILTER = {
    'one': ('function($x){count($x) eq 1}', lambda v: len(v) == 1),
    'empty': ('function($x){empty($x)}', lambda v: len(v) == 0),
    'all': ('function($x){true()}', lambda v: True),
    'none': ('function($x){false()}', lambda v: False),
}
PAIR = {
    'cat': ('function($x, $y){($x, $y)}', lambda x, y: x + y),
    'arr': ('function($x, $y){[$x, $y]}', lambda x, y: (('A', (x, y)),)),
}
MAPFOREACH = {
    'pair': ('function($k, $v){[$k, $v]}', lambda k, v: (('A', ((k,), v)),)),
    'key': ('function($k, $v){$k}', lambda k, v: (k,)),
    'val': ('function($k, $v){$v}', lambda k, v: v),
    'entry': ('function($k, $v){map:entry($k, $v)}', lambda k, v: (('m', ((k, v),)),)),
}

# --------------------------------------------------------------------------
# evaluation of one expression tree: XPath text + model result
# --------------------------------------------------------------------------
POOL_CAP = 6


_PARSER = []


def _parser():
    if not _PARSER:
        from elementpath.xpath31 import XPath31Parser
        _PARSER.append(XPath31Parser())
    return _PARSER[0]


def _bucket(feature, check, kind, opname):
    if feature == 'plain':
        return f'C15/{check}/{kind}/{opname}'
    return f'C15/key:{feature}/{check}/{kind}/{opname}'


class Env:
    def __init__(self):
        self.parser = _parser()
        self.root = ET.XML(DOC)
        self.pool = {'M': [], 'A': []}       # entries: {'obj', 'model', 'uses'}
        self.nadd = {'M': 0, 'A': 0}
        self.hclasses = set()

    def variables(self):
        v = {}
        for kind, pre in (('M', 'm'), ('A', 'a')):
            for i, ent in enumerate(self.pool[kind]):
                v[f'{pre}{i}'] = ent['obj']
        return v


class Step:
    """per-step scratch: keys met, refs used, op names, flags"""
    def __init__(self):
        self.keys = []
        self.refs = []
        self.ops = []
        self.loose = False
        self.bag = False
        self.oob = False
        self.nested = False


def _bad(*rs):
    codes = set()
    nv = None
    for r in rs:
        if r[0] == 'e':
            codes |= r[1]
        elif r[0] == 'nv':
            nv = r
    if nv is not None:          # an undecided part may also raise: no verdict for the whole expression
        return nv
    if codes:
        return ('e', codes)
    return None


def _collect_keys(value, out):
    for it in value:
        if it[0] == 'm':
            for k, v in it[1]:
                out.append(k)
                _collect_keys(v, out)
        elif it[0] == 'A':
            for v in it[1]:
                _collect_keys(v, out)


def _model_atoms(value, out):
    for it in value:
        if it[0] == 'a':
            if it not in out:
                out.append(it)
        elif it[0] == 'm':
            for k, v in it[1]:
                _model_atoms((k,), out)
                _model_atoms(v, out)
        elif it[0] == 'A':
            for v in it[1]:
                _model_atoms(v, out)


def _ix(kind, size):
    return {'0': 0, '1': 1, '2': 2, '-1': -1, 'size': size, 'size+1': size + 1, 'size+2': size + 2,
            'mid': max(1, (size + 1) // 2)}[kind]


def _rint(n):
    return str(n) if n >= 0 else f'-{-n}'


class Ev:
    def __init__(self, env: Env, step: Step):
        self.env, self.s = env, step

    # ---- values ---------------------------------------------------------
    def item(self, it):
        k = it[0]
        if k == 'a':
            return ratom(it), ('v', (T(it),))
        if k == 'n':
            return NODES[it[1]], ('v', (('n', it[1]),))
        if k == 'ref':
            return self.ref(it)
        if k == 'm':
            self.s.nested = True
            return self.mctor(it[1])
        if k == 'A':
            self.s.nested = True
            return self.actor(it[1])
        if k == 'C':
            self.s.nested = True
            return self.cctor(it[1])
        raise ValueError(f'bad item spec {it!r}')

    def value(self, v):
        parts = [self.item(it) for it in v]
        text = '(' + ', '.join(p[0] for p in parts) + ')'
        bad = _bad(*(p[1] for p in parts))
        if bad:
            return text, bad
        out = ()
        for p in parts:
            out += p[1][1]
        return text, ('v', out)

    def ref(self, e):
        _, kind, i = e
        pool = self.env.pool[kind]
        if not pool:
            return ('map{}', ('v', (('m', ()),))) if kind == 'M' else ('[]', ('v', (('A', ()),)))
        i %= len(pool)
        ent = pool[i]
        self.s.refs.append((kind, i))
        _collect_keys((ent['model'],), self.s.keys)
        return f"${'m' if kind == 'M' else 'a'}{i}", ('v', (ent['model'],))

    def mctor(self, pairs):
        ks, vs = [], []
        for k, v in pairs:
            self.s.keys.append(T(k))
            ks.append(T(k))
            vs.append(self.value(v))
        text = 'map{' + ', '.join(f'{ratom(k)} : {v[0]}' for k, v in zip(ks, vs)) + '}'
        bad = _bad(*(v[1] for v in vs))
        try:
            m = M.map_ctor([(k, v[1][1] if v[1][0] == 'v' else ()) for k, v in zip(ks, vs)])
        except XErr as x:
            return text, ('e', x.codes | (bad[1] if bad and bad[0] == 'e' else set()))
        if bad:
            return text, bad
        return text, ('v', (m,))

    def actor(self, members):
        vs = [self.value(v) for v in members]
        text = '[' + ', '.join(v[0] for v in vs) + ']'
        bad = _bad(*(v[1] for v in vs))
        if bad:
            return text, bad
        return text, ('v', (M.arr([v[1][1] for v in vs]),))

    def cctor(self, value):
        t, r = self.value(value)
        text = 'array{' + t[1:-1] + '}'
        if r[0] != 'v':
            return text, r
        return text, ('v', (M.arr_curly(r[1]),))

    # ---- helpers -----------------------------------------------------------
    def _one(self, r, kind):
        """the single map/array of an operand result"""
        if r[0] != 'v':
            return None
        if len(r[1]) != 1 or r[1][0][0] != kind:
            raise ValueError('ill-typed case: operand is not a single ' + kind)
        return r[1][0]

    def _apply(self, text, rs, fn):
        bad = _bad(*rs)
        if bad:
            return text, bad
        try:
            return text, ('v', fn())
        except XErr as x:
            if 'FOAY0001' in x.codes:
                self.s.oob = True
            return text, ('e', x.codes)
        except NoVerdict as x:
            return text, ('nv', str(x))

    def _size(self, r):
        if r[0] == 'v' and len(r[1]) == 1 and r[1][0][0] == 'A':
            return len(r[1][0][1])
        return 2

    def key(self, k):
        self.s.keys.append(T(k))
        return ratom(k), T(k)

    # ---- expressions ----------------------------------------------------
    def expr(self, e):
        op = e[0]
        if op == 'ref':
            return self.ref(e)
        if op == 'val':
            return self.value(e[1])
        self.s.ops.append(op)
        return getattr(self, 'op_' + op.replace('.', '_'))(e)

    # maps
    def op_m_ctor(self, e):
        return self.mctor(e[1])

    def op_m_put(self, e):
        mt, mr = self.expr(e[1])
        kt, k = self.key(e[2])
        vt, vr = self.value(e[3])
        return self._apply(f'map:put({mt}, {kt}, {vt})', (mr, vr),
                           lambda: (M.map_put(self._one(mr, 'm'), k, vr[1]),))

    def op_m_get(self, e):
        mt, mr = self.expr(e[1])
        kt, k = self.key(e[2])
        return self._apply(f'map:get({mt}, {kt})', (mr,), lambda: M.map_get(self._one(mr, 'm'), k))

    def op_m_contains(self, e):
        mt, mr = self.expr(e[1])
        kt, k = self.key(e[2])
        return self._apply(f'map:contains({mt}, {kt})', (mr,),
                           lambda: (('a', 'boolean', 'true' if M.map_contains(self._one(mr, 'm'), k) else 'false'),))

    def op_m_remove(self, e):
        mt, mr = self.expr(e[1])
        ks = [self.key(k) for k in e[2]]
        return self._apply(f"map:remove({mt}, ({', '.join(k[0] for k in ks)}))", (mr,),
                           lambda: (M.map_remove(self._one(mr, 'm'), [k[1] for k in ks]),))

    def op_m_size(self, e):
        mt, mr = self.expr(e[1])
        return self._apply(f'map:size({mt})', (mr,), lambda: (_I(M.map_size(self._one(mr, 'm'))),))

    def op_m_keys(self, e):
        mt, mr = self.expr(e[1])
        self.s.bag = True
        return self._apply(f'map:keys({mt})', (mr,), lambda: M.map_keys(self._one(mr, 'm')))

    def op_m_entry(self, e):
        kt, k = self.key(e[1])
        vt, vr = self.value(e[2])
        return self._apply(f'map:entry({kt}, {vt})', (vr,), lambda: (M.map_entry(k, vr[1]),))

    def op_m_merge(self, e):
        parts = [self.expr(x) for x in e[1]]
        policy = e[2]
        text = 'map:merge((' + ', '.join(p[0] for p in parts) + ')' + \
               (f", map{{'duplicates': '{policy}'}})" if policy else ')')

        def fn():
            m, info = M.map_merge([self._one(p[1], 'm') for p in parts], policy or 'use-first')
            if info['cross_type_dup']:
                self.s.loose = True
            return (m,)
        return self._apply(text, [p[1] for p in parts], fn)

    def op_m_find(self, e):
        vt, vr = self.value(e[1])
        kt, k = self.key(e[2])
        if vr[0] == 'v':
            _collect_keys(vr[1], self.s.keys)
        outer = self.s.ops[0] == 'm.find'
        if outer:
            self.s.bag = 'members'

        def fn():
            r = M.map_find(vr[1], k)
            if not outer and len(r[1]) > 1:
                raise NoVerdict('member order of a nested map:find')
            return (r,)
        return self._apply(f'map:find({vt}, {kt})', (vr,), fn)

    def op_m_foreach(self, e):
        mt, mr = self.expr(e[1])
        ftext, f = MAPFOREACH[e[2]]
        self.s.bag = True

        def fn():
            out = ()
            for k, v in self._one(mr, 'm')[1]:
                out += f(k, v)
            return out
        return self._apply(f'map:for-each({mt}, {ftext})', (mr,), fn)

    def op_m_rebuild(self, e):
        mt, mr = self.expr(e[1])
        ftext, _ = MAPFOREACH['entry']
        return self._apply(f'map:merge(map:for-each({mt}, {ftext}))', (mr,), lambda: (self._one(mr, 'm'),))

    # arrays
    def op_a_ctor(self, e):
        return self.actor(e[1])

    def op_a_curly(self, e):
        return self.cctor(e[1])

    def op_a_size(self, e):
        at, ar = self.expr(e[1])
        return self._apply(f'array:size({at})', (ar,), lambda: (_I(M.arr_size(self._one(ar, 'A'))),))

    def op_a_get(self, e):
        at, ar = self.expr(e[1])
        i = _ix(e[2], self._size(ar))
        return self._apply(f'array:get({at}, {_rint(i)})', (ar,), lambda: M.arr_get(self._one(ar, 'A'), i))

    def op_a_put(self, e):
        at, ar = self.expr(e[1])
        i = _ix(e[2], self._size(ar))
        vt, vr = self.value(e[3])
        return self._apply(f'array:put({at}, {_rint(i)}, {vt})', (ar, vr),
                           lambda: (M.arr_put(self._one(ar, 'A'), i, vr[1]),))

    def op_a_append(self, e):
        at, ar = self.expr(e[1])
        vt, vr = self.value(e[2])
        return self._apply(f'array:append({at}, {vt})', (ar, vr), lambda: (M.arr_append(self._one(ar, 'A'), vr[1]),))

    def op_a_insert(self, e):
        at, ar = self.expr(e[1])
        i = _ix(e[2], self._size(ar))
        vt, vr = self.value(e[3])
        return self._apply(f'array:insert-before({at}, {_rint(i)}, {vt})', (ar, vr),
                           lambda: (M.arr_insert_before(self._one(ar, 'A'), i, vr[1]),))

    def op_a_remove(self, e):
        at, ar = self.expr(e[1])
        ps = [_ix(k, self._size(ar)) for k in e[2]]
        return self._apply(f"array:remove({at}, ({', '.join(_rint(p) for p in ps)}))", (ar,),
                           lambda: (M.arr_remove(self._one(ar, 'A'), ps),))

    def op_a_sub(self, e):
        at, ar = self.expr(e[1])
        n = self._size(ar)
        start = _ix(e[2], n)
        if e[3] is None:
            return self._apply(f'array:subarray({at}, {_rint(start)})', (ar,),
                               lambda: (M.arr_subarray(self._one(ar, 'A'), start),))
        length = {'0': 0, '1': 1, '-1': -1, 'rest': max(0, n + 1 - start), 'rest+1': max(0, n + 1 - start) + 1,
                  'rest-1': max(0, n - start)}[e[3]]
        return self._apply(f'array:subarray({at}, {_rint(start)}, {_rint(length)})', (ar,),
                           lambda: (M.arr_subarray(self._one(ar, 'A'), start, length),))

    def op_a_head(self, e):
        at, ar = self.expr(e[1])
        return self._apply(f'array:head({at})', (ar,), lambda: M.arr_head(self._one(ar, 'A')))

    def op_a_tail(self, e):
        at, ar = self.expr(e[1])
        return self._apply(f'array:tail({at})', (ar,), lambda: (M.arr_tail(self._one(ar, 'A')),))

    def op_a_reverse(self, e):
        at, ar = self.expr(e[1])
        return self._apply(f'array:reverse({at})', (ar,), lambda: (M.arr_reverse(self._one(ar, 'A')),))

    def op_a_join(self, e):
        parts = [self.expr(x) for x in e[1]]
        return self._apply('array:join((' + ', '.join(p[0] for p in parts) + '))', [p[1] for p in parts],
                           lambda: (M.arr_join([self._one(p[1], 'A') for p in parts]),))

    def op_a_flatten(self, e):
        vt, vr = self.value(e[1])
        return self._apply(f'array:flatten({vt})', (vr,), lambda: M.flatten(vr[1]))

    def op_a_foreach(self, e):
        at, ar = self.expr(e[1])
        ftext, f = FOREACH[e[2]]
        return self._apply(f'array:for-each({at}, {ftext})', (ar,),
                           lambda: (('A', tuple(f(v) for v in self._one(ar, 'A')[1])),))

    def op_a_filter(self, e):
        at, ar = self.expr(e[1])
        ftext, f = FILTER[e[2]]
        return self._apply(f'array:filter({at}, {ftext})', (ar,),
                           lambda: (('A', tuple(v for v in self._one(ar, 'A')[1] if f(v))),))

    def op_a_foldl(self, e):
        at, ar = self.expr(e[1])
        kind = e[2]

        def fn():
            mem = self._one(ar, 'A')[1]
            if kind == 'append':
                return (('A', mem),)
            if kind == 'cat':
                return tuple(it for v in mem for it in v)
            return (_I(sum(len(v) for v in mem)),)
        text = {'append': f'array:fold-left({at}, [], function($acc, $x){{array:append($acc, $x)}})',
                'cat': f'array:fold-left({at}, (), function($acc, $x){{($acc, $x)}})',
                'cnt': f'array:fold-left({at}, 0, function($acc, $x){{$acc + count($x)}})'}[kind]
        return self._apply(text, (ar,), fn)

    def op_a_foldr(self, e):
        at, ar = self.expr(e[1])
        kind = e[2]

        def fn():
            mem = self._one(ar, 'A')[1]
            if kind == 'append':
                return (('A', tuple(reversed(mem))),)
            if kind == 'cat':
                return tuple(it for v in mem for it in v)
            return tuple(it for v in reversed(mem) for it in v)
        text = {'append': f'array:fold-right({at}, [], function($x, $acc){{array:append($acc, $x)}})',
                'cat': f'array:fold-right({at}, (), function($x, $acc){{($x, $acc)}})',
                'catr': f'array:fold-right({at}, (), function($x, $acc){{($acc, $x)}})'}[kind]
        return self._apply(text, (ar,), fn)

    def op_a_pair(self, e):
        at, ar = self.expr(e[1])
        bt, br = self.expr(e[2])
        ftext, f = PAIR[e[3]]
        return self._apply(f'array:for-each-pair({at}, {bt}, {ftext})', (ar, br),
                           lambda: (('A', tuple(f(x, y) for x, y in zip(self._one(ar, 'A')[1], self._one(br, 'A')[1]))),))

    def op_a_sort(self, e):
        at, ar = self.expr(e[1])

        def fn():
            mem = self._one(ar, 'A')[1]
            if e[2] == 'count':
                return (('A', tuple(sorted(mem, key=len))),)
            if all(len(v) == 1 and v[0][0] == 'a' and v[0][1] == 'integer' for v in mem):
                return (('A', tuple(sorted(mem, key=lambda v: int(v[0][2])))),)
            if all(len(v) == 1 and v[0][0] == 'a' and v[0][1] == 'string' for v in mem):
                return (('A', tuple(sorted(mem, key=lambda v: [ord(c) for c in v[0][2]]))),)
            raise NoVerdict('array:sort on mixed members')
        text = f'array:sort({at}, (), function($x){{count($x)}})' if e[2] == 'count' else f'array:sort({at})'
        return self._apply(text, (ar,), fn)

    # lookups
    def _keyspec(self, ks, size):
        if ks[0] == 'name':
            self.s.keys.append(('a', 'string', ks[1]))
            return ks[1], ('name', ks[1])
        if ks[0] == 'int':
            n = _ix(ks[1], size) if isinstance(ks[1], str) else ks[1]
            self.s.keys.append(_I(n))
            return (str(n), ('int', n)) if n >= 0 else (f'(-{-n})', ('paren', [_I(n)]))
        if ks[0] == 'star':
            return '*', ('star',)
        atoms = []
        for k in ks[1]:
            if k[0] == 'ix':
                k = _I(_ix(k[1], size))
            atoms.append(T(k))
            self.s.keys.append(T(k))
        return '(' + ', '.join(ratom(k) if not (k[1] == 'integer' and k[2].startswith('-')) else k[2] for k in atoms) + ')', \
            ('paren', atoms)

    def _lookup(self, e, unary):
        parts = [self.expr(x) for x in e[1]]
        size = self._size(parts[0][1]) if parts else 2
        kt, ks = self._keyspec(e[2], size)
        seq = '(' + ', '.join(p[0] for p in parts) + ')' if len(parts) != 1 else parts[0][0]
        text = f'{seq} ! ?{kt}' if unary else f'{seq}?{kt}'

        def fn():
            if ks[0] == 'paren' and any(k[1] == 'untypedAtomic' for k in ks[1]) and \
                    any(p[1][1][0][0] == 'A' for p in parts):
                raise NoVerdict('untypedAtomic array index')
            out, unordered = M.lookup(tuple(p[1][1][0] for p in parts), ks)
            if unordered:
                self.s.bag = True
            return out
        return self._apply(text, [p[1] for p in parts], fn)

    def op_lk(self, e):
        return self._lookup(e, False)

    def op_ulk(self, e):
        return self._lookup(e, True)

    def op_call(self, e):
        xt, xr = self.expr(e[1])
        arg = e[2]
        if arg[0] == 'ix':
            n = _ix(arg[1], self._size(xr))
            at, k = _rint(n), _I(n)
            self.s.keys.append(k)
        else:
            at, k = self.key(arg)

        def fn():
            obj = xr[1][0]
            if obj[0] == 'm':
                return M.map_get(obj, k)
            if k[1] != 'integer':
                raise NoVerdict('non-integer array call')
            return M.arr_get(obj, int(k[2]))
        if xr[0] == 'v' and len(xr[1]) != 1:
            raise ValueError('ill-typed call')
        return self._apply(f'{xt}({at})', (xr,), fn)

    def op_deq(self, e):
        t1, r1 = self.value(e[1])
        t2, r2 = self.value(e[2])
        for r in (r1, r2):          # deep-equal compares every atom: all of them define the corner class of the case
            if r[0] == 'v':
                _model_atoms(r[1], self.s.keys)
        return self._apply(f'deep-equal({t1}, {t2})', (r1, r2),
                           lambda: (('a', 'boolean', 'true' if M.deep_equal(r1[1], r2[1]) else 'false'),))


# --------------------------------------------------------------------------
# running one step against elementpath
# --------------------------------------------------------------------------

def _evaluate(env: Env, text):
    """-> ('v', observed model value, raw) | ('e', code, exc) | ('x', exc)"""
    from elementpath import XPathContext, ElementPathError
    try:
        tok = env.parser.parse(text)
        raw = tok.evaluate(XPathContext(env.root, variables=env.variables()))
    except ElementPathError as x:
        code = (x.code or '').split(':')[-1] or type(x).__name__
        return ('e', code, x)
    except Exception as x:          # includes RecursionError on cyclic values built by in-place mutation
        return ('x', x)
    return ('v', observe(raw), raw)


def _compare(exp, obs, step: Step):
    """-> None or (kind, expected-text, observed-text)"""
    if step.bag == 'members':          # map:find: one array whose member order is implementation-dependent
        if len(obs) != 1 or obs[0][0] != 'A':
            return 'item-kind', show(exp), show(obs)
        bag = lambda a: tuple(sorted((M.canon(v, step.loose) for v in a[1]), key=repr))
        ce, co = bag(exp[0]), bag(obs[0])
    elif step.bag:
        ce, co = M.canon_bag(exp, step.loose), M.canon_bag(obs, step.loose)
    else:
        ce, co = M.canon(exp, step.loose), M.canon(obs, step.loose)
    if ce == co:
        return None
    kind = 'value'
    if len(exp) != len(obs):
        kind = 'length'
    elif len(exp) == 1 and exp[0][0] == obs[0][0] and exp[0][0] in ('m', 'A'):
        if len(exp[0][1]) != len(obs[0][1]):
            kind = 'size'
        elif exp[0][0] == 'm' and M.canon_bag(tuple(k for k, _ in exp[0][1]), step.loose) != \
                M.canon_bag(tuple(k for k, _ in obs[0][1]), step.loose):
            kind = 'keys'
    elif len(exp) == 1 and exp[0][0] != obs[0][0]:
        kind = 'item-kind'
    return kind, show(exp), show(obs)


def run_step(env: Env, e, idx, check, rec=None):
    discs = []
    step = Step()
    text, res = Ev(env, step).expr(e)
    opname = '>'.join(step.ops) or e[0]
    got = _evaluate(env, text)
    where = f'step {idx}: {text}'
    feature = None

    def bucket(kind):
        """plain cases: C15/<check>/<kind>/<ops>; cases touching a key-identity corner: C15/key:<corner>/<check>/<kind>/<ops>"""
        nonlocal feature
        if feature is None:
            feature = key_feature(step.keys)
        return _bucket(feature, check, kind, opname)

    if rec is not None:
        rec.cls('step')
        for o in set(step.ops):
            rec.cls('op:' + o)
    if got[0] == 'x':
        discs.append(Disc(bucket('escape:' + escape_bucket('C15', got[1]).split('/escape/', 1)[1].replace('/', '.')),
                          'value or XPath error', repr(got[1]), where))
    elif res[0] == 'nv':
        if rec is not None:
            rec.cls('step:no-verdict')
    elif res[0] == 'e':
        if rec is not None:
            rec.cls('step:error-expected')
        if got[0] == 'v':
            discs.append(Disc(bucket('no-error:' + '|'.join(sorted(res[1]))), sorted(res[1]), show(got[1]), where))
        elif got[1] not in res[1]:
            discs.append(Disc(bucket(f"wrong-error:{got[1]}-for-{'|'.join(sorted(res[1]))}"), sorted(res[1]), got[1], where))
    else:
        exp = res[1]
        if rec is not None:
            rec.cls('step:value-verdict')
        if got[0] == 'e':
            discs.append(Disc(bucket('error:' + got[1]), show(exp), f'{got[1]}: {got[2]}'[:200], where))
        else:
            obs = got[1]
            bad = has_bad(obs)
            if bad:
                discs.append(Disc(bucket('malformed:' + bad), show(exp), show(obs), where))
            else:
                try:
                    diff = _compare(exp, obs, step)
                except ValueError as x:          # an observed atom with a non-canonical string form
                    diff = ('unparsable-atom', show(exp), f'{show(obs)} ({x})')
                if diff:
                    discs.append(Disc(bucket(diff[0]), diff[1], diff[2], where))
                elif len(exp) == 1 and exp[0][0] in ('m', 'A') and e[0] != 'ref' and \
                        len(exp[0][1]) <= 10 and not step.loose:
                    kind = 'M' if exp[0][0] == 'm' else 'A'
                    pool = env.pool[kind]
                    # (a result compared as a bag is pooled with the member order actually observed)
                    ent = {'obj': got[2][0] if isinstance(got[2], list) else got[2],
                           'model': obs[0] if step.bag else exp[0], 'uses': 0}
                    if len(pool) < POOL_CAP:
                        pool.append(ent)
                    else:
                        pool[env.nadd[kind] % POOL_CAP] = ent
                    env.nadd[kind] += 1
                    if rec is not None:
                        rec.cls('step:pooled')
    # history classes
    for kind, i in step.refs:
        if i < len(env.pool[kind]):
            env.pool[kind][i]['uses'] += 1
            if env.pool[kind][i]['uses'] >= 2:
                env.hclasses.add('hist:operand-reuse')
    if step.oob:
        env.hclasses.add('hist:oob-index')
    if step.nested:
        env.hclasses.add('hist:nested-value')
    ks = [T(k) for k in step.keys]
    if any(M.is_nan(k) for k in ks):
        env.hclasses.add('hist:nan-key')
    seen = {}
    for k in ks:
        kc = M.keyclass(k)
        if kc in seen and seen[kc] != M.ident(k):
            env.hclasses.add('hist:cross-type-collision')
            break
        seen.setdefault(kc, M.ident(k))
    # immutability invariant: every pooled object still equals its value at creation
    for kind in ('M', 'A'):
        for i, ent in enumerate(list(env.pool[kind])):
            now = observe(ent['obj'])
            bad = has_bad(now)
            try:
                if 'canon' not in ent:
                    ent['canon'] = M.canon((ent['model'],))
                same = not bad and M.canon(now) == ent['canon']
            except ValueError:
                same, bad = False, 'unparsable-atom'
            if same:
                continue
            direct = [o for o in step.ops]
            discs.append(Disc(f"C15/{check}/operand-mutated/{'>'.join(direct) or e[0]}/{'map' if kind == 'M' else 'array'}",
                              show((ent['model'],)), show(now), f'{where}; pooled object ${kind.lower()}{i} changed'))
            if bad:
                env.pool[kind].remove(ent)
            else:
                ent['model'] = now[0]
                ent.pop('canon', None)         # re-snapshot so that the rest of the history stays meaningful
            if rec is not None:
                rec.cls('hist:resnapshot')
    return discs


def judge_hist(case, rec: Recorder | None = None):
    env = Env()
    discs = []
    for i, e in enumerate(case['steps']):
        discs += run_step(env, e, i, 'hist', rec)
    if rec is not None:
        nontrivial = bool(env.hclasses & {'hist:operand-reuse', 'hist:cross-type-collision', 'hist:oob-index'})
        rec.case(case['steps'], nontrivial=nontrivial, sample={'check': 'hist', 'case': case},
                 classes=['hist'] + sorted(env.hclasses), n=len(case['steps']))
    return discs


# --------------------------------------------------------------------------
# samekey: exhaustive pairs
# --------------------------------------------------------------------------
_V0, _V1 = [A('integer', '0')], [A('integer', '1')]


def _samekey_exprs(k1, k2):
    e1 = ['m.entry', k1, _V0]
    e2 = ['m.entry', k2, _V1]
    return [
        ('ctor', ['m.ctor', [[k1, _V0], [k2, _V1]]]),
        ('contains', ['m.contains', e1, k2]),
        ('get', ['m.get', e1, k2]),
        ('put', ['m.put', e1, k2, _V1]),
        ('remove', ['m.remove', e1, [k2]]),
        ('merge', ['m.merge', [e1, e2], None]),
        ('merge-last', ['m.merge', [e1, e2], 'use-last']),
        ('merge-combine', ['m.merge', [e1, e2], 'combine']),
        ('merge-reject', ['m.merge', [e1, e2], 'reject']),
        ('find', ['m.find', [['m', [[k1, _V0]]]], k2]),
        ('lookup', ['lk', [e1], ['paren', [k2]]]),
        ('call', ['call', e1, k2]),
    ]


def judge_samekey(case, rec: Recorder | None = None):
    k1, k2 = case['k1'], case['k2']
    discs = []
    feature = key_feature([k1, k2])
    env = Env()
    for name, e in _samekey_exprs(k1, k2):
        for d in run_step(env, e, 0, 'samekey', None):
            if '/operand-mutated/' not in d.bucket:
                kind = d.bucket.split('/')[-2]
                d.bucket = _bucket(feature, 'samekey', kind, f'{name}/{k1[1]}~{k2[1]}')
            discs.append(d)
    if rec is not None:
        same = M.same_key(T(k1), T(k2))
        rec.case(['samekey', k1, k2], nontrivial=(k1 != k2), n=len(_samekey_exprs(k1, k2)),
                 sample={'check': 'samekey', 'case': case} if (same and k1[1] != k2[1]) else None,
                 classes=['samekey:pair', 'samekey:same' if same else 'samekey:different', 'samekey:' + feature])
    return discs


# --------------------------------------------------------------------------
# deq: fn:deep-equal on value pairs
# --------------------------------------------------------------------------

def _collect_atoms(vspec, out):
    for it in vspec:
        if it[0] == 'a':
            if T(it) not in out:
                out.append(T(it))
        elif it[0] == 'm':
            for k, v in it[1]:
                _collect_atoms([k], out)
                _collect_atoms(v, out)
        elif it[0] == 'A':
            for v in it[1]:
                _collect_atoms(v, out)
        elif it[0] == 'C':
            _collect_atoms(it[1], out)


def judge_deq(case, rec: Recorder | None = None):
    env = Env()
    step = Step()
    e = ['deq', case['v1'], case['v2']]
    text, res = Ev(env, step).expr(e)
    discs = []
    classes = ['deq']
    if res[0] == 'v':
        want = res[1][0][2]
        classes.append('deq:expect-' + want)
        atoms = list(step.keys)         # every atom of both values: deep-equal compares them all
        for v in (case['v1'], case['v2']):
            _collect_atoms(v, atoms)
        feature = key_feature(atoms)
        kind = want + '-expected'
        if want == 'false':
            # is everything up to and including the first map/array item equal?  (the rest decides)
            m1, m2 = Ev(Env(), Step()).value(case['v1'])[1][1], Ev(Env(), Step()).value(case['v2'])[1][1]
            i = next((j for j, it in enumerate(m1) if it[0] in ('m', 'A')), None)
            try:
                if i is not None and i < len(m2) and M.deep_equal(m1[:i + 1], m2[:i + 1]):
                    kind += ':differs-after-first-map-or-array'
            except NoVerdict:
                pass
        got = _evaluate(env, text)
        if got[0] == 'x':
            discs.append(Disc(_bucket(feature, 'deq', 'escape:' + escape_bucket('C15', got[1]).split('/escape/', 1)[1].replace('/', '.'), want),
                              want, repr(got[1]), text))
        elif got[0] == 'e':
            discs.append(Disc(_bucket(feature, 'deq', 'error:' + got[1], want), want, str(got[2])[:200], text))
        elif M.canon(got[1]) != M.canon(res[1]):
            discs.append(Disc(_bucket(feature, 'deq', kind, 'deq'), want, show(got[1]), text))
    else:
        classes.append('deq:no-verdict' if res[0] == 'nv' else 'deq:error')
    if rec is not None:
        rec.case(['deq', case['v1'], case['v2']], nontrivial=res[0] == 'v' and (step.nested),
                 sample={'check': 'deq', 'case': case, 'xpath': text}, classes=classes)
    return discs


# --------------------------------------------------------------------------
# strategies: hypothesis draws fixed-size byte blocks (one per step), a deterministic decoder turns
# them into the JSON case (one hypothesis draw per step instead of ~10: generation was the bottleneck;
# shrinking deletes blocks = steps and lowers bytes = simpler choices, a zero byte is the simplest choice)
# --------------------------------------------------------------------------
_CL_NAMES = [c for c in CLUSTERS if c != 'plain']
_IX = ['1', 'size', 'mid', '0', 'size+1', '-1', '2', '1', 'size', 'mid']
_IX_IN = ['1', 'size', 'mid', '2', '1', 'size', 'size+1', '0']
_NCNAME = re.compile(r'[A-Za-z_][A-Za-z0-9_]*\Z')


def _unzero(b: bytes) -> bytes:
    """hypothesis pads size-capped examples with zero bytes: an all-zero block becomes a fixed varied one"""
    return b if any(b) else bytes((i * 37 + 11) % 251 for i in range(len(b)))


class Src:
    def __init__(self, data: bytes):
        self.d, self.i = data, 0

    def n(self, k):
        """integer in [0, k), 0 when the block is exhausted"""
        if self.i >= len(self.d):
            return 0
        b = self.d[self.i]
        self.i += 1
        if k > 256 and self.i < len(self.d):
            b = b * 256 + self.d[self.i]
            self.i += 1
        return b % k

    def pick(self, seq):
        return seq[self.n(len(seq))]

    def many(self, fn, lo, hi):
        return [fn() for _ in range(lo + self.n(hi - lo + 1))]


def _dedup(pairs):
    out, seen = [], set()
    for k, v in pairs:
        kc = M.keyclass(T(k))
        if kc not in seen:
            seen.add(kc)
            out.append([k, v])
    return out


def g_kpool(s: Src):
    pool = []
    names = [s.pick(_CL_NAMES)]
    if s.n(2):
        names.append(s.pick(_CL_NAMES))
    for nm in names:
        for a in s.many(lambda: s.pick(CLUSTERS[nm]), 2, 5):
            if a not in pool:
                pool.append(a)
    for a in s.many(lambda: s.pick(CLUSTERS['plain']), 1, 3):
        if a not in pool:
            pool.append(a)
    return pool


def g_value(s, kp, depth, maxlen=3):
    n = s.pick([1, 1, 0, 1, 2, 2, 3][:4 + maxlen])
    return [g_item(s, kp, depth) for _ in range(n)]


def g_item(s, kp, depth):
    c = s.n(100)
    if c < 50 or depth <= 0 and c < 80:
        return s.pick(kp)
    if c < 60:
        return ['n', s.pick(sorted(NODES))]
    if c < 80 or depth <= 0:
        return ['ref', s.pick(['M', 'A']), s.n(POOL_CAP)]
    if c < 90:
        return ['m', _dedup(s.many(lambda: [s.pick(kp), g_value(s, kp, depth - 1, 2)], 0, 3))]
    if c < 97:
        return ['A', s.many(lambda: g_value(s, kp, depth - 1, 2), 0, 3)]
    return ['C', g_value(s, kp, depth - 1, 3)]


def g_map_expr(s, kp, depth):
    c = s.n(100)
    if depth <= 0 or c < 40:
        return ['ref', 'M', s.n(POOL_CAP)]
    sub = lambda: g_map_expr(s, kp, depth - 1)
    if c < 50:
        pairs = s.many(lambda: [s.pick(kp), g_value(s, kp, 1)], 0, 5)
        return ['m.ctor', _dedup(pairs) if s.n(4) else pairs]
    if c < 68:
        return ['m.put', sub(), s.pick(kp), g_value(s, kp, 1)]
    if c < 78:
        return ['m.remove', sub(), s.many(lambda: s.pick(kp), 0, 3)]
    if c < 90:
        return ['m.merge', s.many(sub, 0, 3),
                s.pick([None, 'use-first', 'use-last', 'combine', None, 'combine', 'reject', 'use-any'])]
    if c < 95:
        return ['m.entry', s.pick(kp), g_value(s, kp, 1)]
    return ['m.rebuild', sub()]


def g_arr_expr(s, kp, depth):
    c = s.n(100)
    if depth <= 0 or c < 38:
        return ['ref', 'A', s.n(POOL_CAP)]
    sub = lambda: g_arr_expr(s, kp, depth - 1)
    if c < 46:
        return ['a.ctor', s.many(lambda: g_value(s, kp, 1), 0, 5)]
    if c < 49:
        return ['a.curly', g_value(s, kp, 1, 3)]
    if c < 55:
        return ['a.put', sub(), s.pick(_IX), g_value(s, kp, 1)]
    if c < 61:
        return ['a.append', sub(), g_value(s, kp, 1)]
    if c < 67:
        return ['a.insert', sub(), s.pick(_IX + ['size+2', 'size+1']), g_value(s, kp, 1)]
    if c < 72:
        return ['a.remove', sub(), s.many(lambda: s.pick(_IX_IN), 0, 3)]
    if c < 78:
        return ['a.sub', sub(), s.pick(_IX + ['size+2', 'size+1']),
                s.pick([None, 'rest', '0', '1', '-1', None, 'rest', 'rest+1', 'rest-1'])]
    if c < 81:
        return ['a.tail', sub()]
    if c < 84:
        return ['a.reverse', sub()]
    if c < 88:
        return ['a.join', s.many(sub, 0, 3)]
    if c < 91:
        return ['a.foreach', sub(), s.pick(sorted(FOREACH))]
    if c < 93:
        return ['a.filter', sub(), s.pick(sorted(FILTER))]
    if c < 95:
        return ['a.pair', sub(), sub(), s.pick(sorted(PAIR))]
    if c < 97:
        return ['a.sort', sub(), s.pick(['count', None, 'count'])]
    if c < 98:
        return ['a.foldl', sub(), 'append']
    if c < 99:
        return ['a.foldr', sub(), 'append']
    return ['m.find', g_value(s, kp, 2), s.pick(kp)]


def g_keyspec(s, kp, for_array):
    c = s.n(10)
    if c < 2:
        return ['star']
    if for_array:
        if c < 6:
            return ['int', s.pick(_IX)]
        if c < 9:
            return ['paren', s.many(lambda: ['ix', s.pick(_IX_IN)], 0, 3)]
        return ['name', 'a']
    names = [k[2] for k in kp if k[1] == 'string' and _NCNAME.match(k[2])]
    if c < 4 and names:
        return ['name', s.pick(names)]
    if c < 6:
        return ['int', s.pick([1, 0, 2, 3])]
    return ['paren', s.many(lambda: s.pick(kp), 0, 3)]


def g_query(s, kp):
    c = s.n(100)
    m = lambda: g_map_expr(s, kp, 1)
    a = lambda: g_arr_expr(s, kp, 1)
    k = lambda: s.pick(kp)
    if c < 12:
        return ['m.get', m(), k()]
    if c < 20:
        return ['m.contains', m(), k()]
    if c < 26:
        return ['m.size', m()]
    if c < 32:
        return ['m.keys', m()]
    if c < 37:
        return ['m.foreach', m(), s.pick(sorted(MAPFOREACH))]
    if c < 40:
        return ['m.find', g_value(s, kp, 2), k()]
    if c < 46:
        return ['a.size', a()]
    if c < 54:
        return ['a.get', a(), s.pick(_IX)]
    if c < 57:
        return ['a.head', a()]
    if c < 61:
        return ['a.flatten', g_value(s, kp, 2)]
    if c < 64:
        return ['a.foldl', a(), s.pick(['append', 'cat', 'cnt'])]
    if c < 67:
        return ['a.foldr', a(), s.pick(['append', 'cat', 'catr'])]
    if c < 77:
        arrs = bool(s.n(2))
        es = s.many(a if arrs else m, 1, 2)
        if s.n(10) == 9:
            es.append(m() if arrs else a())
        return [s.pick(['lk', 'lk', 'ulk']), es, g_keyspec(s, kp, arrs)]
    if c < 83:
        if s.n(2):
            return ['call', m(), k()]
        return ['call', a(), ['ix', s.pick(_IX)]]
    if c < 92:
        v1 = g_value(s, kp, 2)
        v2 = v1 if s.n(3) == 0 else g_value(s, kp, 2)
        return ['deq', v1, v2]
    return ['val', g_value(s, kp, 2)]


def decode_hist(blocks):
    head, steps_b = blocks
    s = Src(_unzero(head))
    kp = g_kpool(s)
    steps = []
    # seed the pool: two maps and two arrays built by the constructors
    for _ in range(2):
        steps.append(['m.ctor', _dedup(s.many(lambda: [s.pick(kp), g_value(s, kp, 1)], 1, 5))])
        steps.append(['a.ctor', s.many(lambda: g_value(s, kp, 1), 1, 5)])
    for b in steps_b:
        if not any(b):
            continue        # hypothesis pads size-capped examples with zero blocks: no step instead of a trivial one
        s = Src(b)
        c = s.n(10)
        if c < 3:
            steps.append(g_map_expr(s, kp, 2))
        elif c < 6:
            steps.append(g_arr_expr(s, kp, 2))
        else:
            steps.append(g_query(s, kp))
    return {'steps': steps}


hist_case = st.tuples(st.binary(min_size=96, max_size=96),
                      st.lists(st.binary(min_size=48, max_size=48), min_size=8, max_size=30)).map(decode_hist)


def _edit(s, v, kp):
    """a copy of value spec v with one small edit"""
    import copy
    v = copy.deepcopy(v)
    paths = []

    def walk(seq):
        for i, it in enumerate(seq):
            paths.append((seq, i))
            if it[0] == 'm':
                for pair in it[1]:
                    walk(pair[1])
            elif it[0] == 'A':
                for mem in it[1]:
                    walk(mem)
            elif it[0] == 'C':
                walk(it[1])
    walk(v)
    kind = s.n(6)
    if not paths or kind == 0:
        v.append(s.pick(kp))
        return v
    seq, i = s.pick(paths)
    it = seq[i]
    if kind == 1:
        del seq[i]
    elif kind == 3 and it[0] == 'm' and it[1]:
        it[1].reverse()
    elif kind == 4 and it[0] == 'm' and it[1]:
        s.pick(it[1])[1] = [s.pick(kp)]
    elif kind == 5 and it[0] == 'A' and it[1]:
        it[1][s.n(len(it[1]))] = [s.pick(kp)]
    else:
        seq[i] = s.pick(kp)
    return v


def _strip_refs(v):          # no pool references in the deq sub-check
    out = []
    for it in v:
        if it[0] == 'ref':
            out.append(['m', []] if it[1] == 'M' else ['A', []])
        elif it[0] == 'm':
            out.append(['m', [[k, _strip_refs(x)] for k, x in it[1]]])
        elif it[0] == 'A':
            out.append(['A', [_strip_refs(x) for x in it[1]]])
        elif it[0] == 'C':
            out.append(['C', _strip_refs(it[1])])
        else:
            out.append(it)
    return out


def decode_deq(data):
    s = Src(_unzero(data))
    kp = g_kpool(s)
    v1 = _strip_refs(g_value(s, kp, 2))
    c = s.n(10)
    if c < 3:
        v2 = v1
    elif c < 8:
        v2 = _edit(s, v1, kp)
    else:
        v2 = _strip_refs(g_value(s, kp, 2))
    return {'v1': v1, 'v2': v2}


deq_case = st.binary(min_size=96, max_size=96).map(decode_deq)

# --------------------------------------------------------------------------
# module interface
# --------------------------------------------------------------------------
_STRATS = {'hist': hist_case, 'deq': deq_case}
_JUDGES = {'hist': judge_hist, 'samekey': judge_samekey, 'deq': judge_deq}


def selftest():
    M.self_test()
    assert key_feature([A('boolean', 'true'), A('integer', '1')]) == 'bool~num'
    assert key_feature([A('integer', '1'), A('double', '1e0')]) == 'eq-cross:num'
    assert key_feature([A('integer', '1'), A('integer', '2')]) == 'plain'
    assert key_feature([A('double', 'NaN')]) == 'nan'
    assert key_feature([A('date', '2000-01-01'), A('dateTime', '2000-01-01T00:00:00')]) == 'dt-cross-type'
    assert ratom(A('QName', 'u|p|a')) == "fn:QName('u', 'p:a')" and ratom(A('string', "a'b")) == "'a''b'"
    for a in ALL_ATOMS:
        M.ident(T(a))


def _pairs():
    return [(a, b) for a in ALL_ATOMS for b in ALL_ATOMS]


def jobs(tier, seed):
    q = tier == 'quick'
    out = []
    nh, per_h = (8, 340) if q else (12, 7000)
    nd, per_d = (2, 1500) if q else (2, 30000)
    ns = 6
    for i in range(nh):
        out.append({'check': 'hist', 'shard': i, 'n': per_h, 'seed': derive_seed(seed, 'C15', 'hist', i)})
        if i < ns:      # interleaved so that the long exhaustive shards start early
            out.append({'check': 'samekey', 'shard': i, 'of': ns})
    for i in range(nd):
        out.append({'check': 'deq', 'shard': i, 'n': per_d, 'seed': derive_seed(seed, 'C15', 'deq', i)})
    return out


def run_job(job, rec: Recorder):
    chk = job['check']
    if chk == 'samekey':
        for a, b in _pairs()[job['shard']::job['of']]:
            case = {'k1': a, 'k2': b}
            rec.discs_of('samekey', case, judge_samekey(case, rec))
        return
    jd = _JUDGES[chk]
    hyp_collect(_STRATS[chk], lambda case: rec.discs_of(chk, case, jd(case, rec)), job['n'], job['seed'], rec)


def shrink_job(job, bucket, budget):
    chk = job['check']
    if chk == 'samekey':
        for a, b in _pairs()[job['shard']::job['of']]:
            case = {'k1': a, 'k2': b}
            for d in judge_samekey(case):
                if d.bucket == bucket:
                    return case, d
        return None
    return hyp_shrink(_STRATS[chk], _JUDGES[chk], bucket, job['n'], job['seed'], budget)


def judge(check, case):
    return _JUDGES[check](case)
