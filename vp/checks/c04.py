"""C04 - Token trees realise the XPath grammar; source text round-trips; no hash-seed dependence."""
from __future__ import annotations

import hashlib
import json
import os
import subprocess
import sys

from hypothesis import strategies as st

from vp.core import Disc, Recorder, derive_seed, hyp_collect, hyp_shrink, escape_bucket, canon as cjson
from vp.gen import exprs as X

PROPERTY = 'C04'
LEVEL = 'exploration'
RULE = ('expression ASTs are generated over the operator table of one XPath version (transcribed from the W3C EBNF: '
        'levels, associativity, operand productions), rendered with the minimum parentheses the EBNF requires and fully '
        'parenthesised, parsed with elementpath, and the token tree mapped back to the AST vocabulary must equal the '
        'generated shape (parentheses included). negative: unparenthesised chains through non-associative levels must '
        'raise XPST0003. ws: the same terminals re-joined with no / random whitespace and (2.0+) nested comments must '
        'give the same shape. roundtrip: parse(t.source) has the same tree and the same value/error code on a fixed '
        'context. hashseed: a generated corpus is tokenised and parsed by child interpreters under different '
        'PYTHONHASHSEED values; per-string digests must coincide. non-trivial = the AST has >= 2 operator nodes '
        '(different EBNF levels or a same-level pair); distinct by version + rendered string.')
ASSUMPTIONS = [
    'grouping is observed with the tdop-level Parser.parse (no static evaluation), so that ill-typed but '
    'grammatical operand combinations still yield a tree; the full parser is used for the value round trip',
    'XPath 2.0+ terminals are separated by at least one whitespace character wherever two non-delimiting terminals '
    'meet (comment-only separation is not generated); "a instance of T" / "treat as T" directly followed by * or + '
    'is always parenthesised (occurrence-indicator constraint)',
    'binding variables of for/let/some/every never reuse a name inside their own range expression (elementpath '
    'rejects that with XPST0008; scoping belongs to C05)',
    'a valid expression that elementpath rejects is reported as rejected/<operator class>; the class is found by '
    'replacing one operand at a time with a name test',
    'evaluation outcomes of the round trip are compared as canonical values (node = kind + document position); '
    'non-ElementPathError exceptions raised by evaluation are compared by type only (escapes are C03)',
]
EXHAUSTIVE_NOTE = ('pairs is enumerated for three parser configurations (default; compatibility_mode=True; strict=False + '
                   'default_namespace + xsd_version 1.1 + base_uri + function_namespace + default_collation + variable_types), the '
                   'oracle being the EBNF of the version: 44 668 cases. sub-check kwnames is a complete enumeration too: 70 keyword '
                   'spellings (operators, expression keywords, axis, kind-test and function names) x 8 suffixes (.x -2 -a _x 1 x . -) '
                   'as element / attribute / variable name, path step, predicate, argument, unary, type, flow operand and on both '
                   'sides of binary operators (6 per name, rotating over all): 8400-10640 expressions per version, each checked '
                   'for one name token (shape), tight / newline / comment whitespace variants and source round trip. '
                   'sub-check pairs is a complete enumeration: every operator form of a version (all binary operators, '
                   'path/root, unary, predicate, call, the four type operators, comma, if/for/some/every/let, dynamic call, '
                   'inline function, arrow, lookup, map/array constructors) nested in every operand slot of every other '
                   'form: 730 / 3818 / 4692 / 5974 expressions for XPath 1.0 / 2.0 / 3.0 / 3.1, each rendered minimally and '
                   'fully parenthesised')
# floors are about the GENERATOR only (classes computed from the case, never from what elementpath did with it):
# an outcome-dependent floor would turn a gross defect into a harness error instead of a violation
FLOORS = {
    'grouping:multi-level': (0.25, 'grouping:case'),
    'grouping:same-level-pair': (0.08, 'grouping:case'),
    'grouping:parens-needed': (0.15, 'grouping:case'),
    'pairs:cfg-compat': (0.25, 'pairs:case'),
    'grouping:cfg-compat': (0.20, 'grouping:case'),
    'ws:comment': (0.30, 'ws:case-2.0+'),
}

VERS = X.VERSIONS

# --------------------------------------------------------------------------
# elementpath access
# --------------------------------------------------------------------------
_PARSERS: dict = {}
CONFIGS = ('default', 'compat', 'options')
_CFG = ['default']          # configuration of the parsers used by the current judgement


def _parser_kwargs(ver, cfg):
    """constructor options that must not change the grammar of the version"""
    if cfg == 'default':
        return {}
    if ver == '1.0':
        return {'strict': False} if cfg == 'options' else {}
    if cfg == 'compat':
        return {'compatibility_mode': True}
    return {'strict': False, 'default_namespace': 'urn:d', 'xsd_version': '1.1', 'base_uri': 'http://example.com/x/',
            'function_namespace': 'http://www.w3.org/2005/xpath-functions',
            'default_collation': 'http://www.w3.org/2005/xpath-functions/collation/codepoint',
            'variable_types': {'zz': 'xs:integer?'}}


class use_config:
    def __init__(self, cfg):
        self.cfg = cfg

    def __enter__(self):
        self.old = _CFG[0]
        _CFG[0] = self.cfg

    def __exit__(self, *a):
        _CFG[0] = self.old


def parser(ver):
    key = (ver, _CFG[0])
    p = _PARSERS.get(key)
    if p is None:
        from elementpath import XPath1Parser, XPath2Parser
        from elementpath.xpath30 import XPath30Parser
        from elementpath.xpath31 import XPath31Parser
        cls = {'1.0': XPath1Parser, '2.0': XPath2Parser, '3.0': XPath30Parser, '3.1': XPath31Parser}[ver]
        p = _PARSERS[key] = cls(**_parser_kwargs(ver, _CFG[0]))
    return p


POISONED = [0]


def _check_parser_state(ver):
    """C04 does not judge parser reusability (C03 does): an instance left with parse_arguments=False by a failed
    parse of an arrow expression is replaced, so that later cases are judged on a sound parser"""
    key = (ver, _CFG[0])
    p = _PARSERS.get(key)
    if p is not None and getattr(p, 'parse_arguments', True) is not True:
        POISONED[0] += 1
        del _PARSERS[key]


def tdop_parse(ver, s):
    from elementpath.tdop import Parser
    try:
        return Parser.parse(parser(ver), s)
    except BaseException:
        _check_parser_state(ver)
        raise


def full_parse(ver, s):
    try:
        return parser(ver).parse(s)
    except BaseException:
        _check_parser_state(ver)
        raise


class Outcome:
    __slots__ = ('kind', 'code', 'exp', 'obs', 'diff', 'string', 'exc', 'token')

    def __init__(self, kind, string, **kw):
        self.kind, self.string = kind, string
        self.code = self.exp = self.obs = self.diff = self.exc = self.token = None
        for k, v in kw.items():
            setattr(self, k, v)

    def fail_key(self):
        if self.kind == 'rejected':
            return 'rejected:' + str(self.code)
        if self.kind == 'escape':
            return 'escape:' + type(self.exc).__name__
        return self.kind


def parse_outcome(ver, s, exp):
    """parse s; compare the canonical shape with exp (None: no comparison)"""
    from elementpath.exceptions import ElementPathError
    try:
        t = tdop_parse(ver, s)
    except ElementPathError as e:
        return Outcome('rejected', s, code=(e.code or 'no-code').replace('err:', ''), exc=e)
    except RecursionError as e:
        return Outcome('escape', s, exc=e)
    except Exception as e:  # an exception of another type escaping the parser
        return Outcome('escape', s, exc=e)
    obs = X.canon(X.shape_of(t))
    if exp is not None and obs != exp:
        return Outcome('diff', s, exp=exp, obs=obs, diff=X.first_diff(exp, obs), token=t)
    return Outcome('ok', s, exp=exp, obs=obs, token=t)


def ast_outcome(ver, ast, full=False):
    toks, shape = X.render(ast, ver, full)
    return parse_outcome(ver, X.join_spaced(toks), X.canon(shape))


def minimise(ver, ast, full, fail_key, outcome_fn=None):
    """smallest operand sub-AST that still fails the same way (deterministic, first match)"""
    fn = outcome_fn or (lambda a: ast_outcome(ver, a, full))
    cur = ast
    for _ in range(40):
        for p in X.child_paths(cur):
            ch = X.get_at(cur, p)
            if ch[0] == 'placeholder':
                continue
            try:
                o = fn(ch)
            except ValueError:
                continue
            if o.fail_key() == fail_key or o.fail_key().split(':')[0] == fail_key:
                cur = ch
                break
        else:
            return cur
    return cur


NEUTRAL = ['name', 'a']


def culprit(ver, ast, full, fail_key, outcome_fn=None):
    """'<slot>=<class>' of the single operand whose replacement by a name test removes the failure, else all classes.
    Operand classes are those of the *rendered* operands (an operand that needs parentheses is a 'paren')."""
    fn = outcome_fn or (lambda a: ast_outcome(ver, a, full))
    shape = X.render(ast, ver, full)[1]
    found = []
    paths = X.child_paths(ast)
    for i, p in enumerate(paths):
        ch = X.get_at(ast, p)
        if ch == NEUTRAL:
            continue
        try:
            o = fn(X.replace_at(ast, p, NEUTRAL))
        except ValueError:
            continue
        if o.fail_key() != fail_key:
            found.append(f'{i}={X.klass(X.get_at(shape, p), ver)}')
    if len(found) == 1:
        return X.klass(ast, ver, True) + '/' + found[0]
    if not found:
        if len(paths) >= 2:
            allrep = ast
            for p in paths:
                allrep = X.replace_at(allrep, p, NEUTRAL)
            try:
                if fn(allrep).fail_key() != fail_key:
                    return X.signature(ast, ver, shape)     # only the combination of operands fails
            except ValueError:
                pass
        # no operand matters: the failure belongs to the node itself
        detail = f'{ast[3]}{ast[4]}' if ast[0] == 'type' else ''
        return X.klass(ast, ver, True) + '[' + detail + ']'
    return X.signature(ast, ver, shape)


def _ch(h, ver):
    """coarse head of a first_diff() entry"""
    if isinstance(h, str) and h.startswith('bin:'):
        return 'bin:' + X.op_family(h[4:], ver)
    if isinstance(h, str) and h[:4] in ('neg:', 'path', 'root'):
        return h.split(':')[0]
    return h if isinstance(h, str) and len(h) < 24 else 'value'


def _b(*parts):
    return '/'.join(str(p).replace(' ', '_') for p in parts)


# --------------------------------------------------------------------------
# grouping
# --------------------------------------------------------------------------
def _grouping_core(ver, ast):
    discs = []
    oks = 0
    for full in (False, True):
        o = ast_outcome(ver, ast, full)
        if o.kind == 'ok':
            oks += 1
            continue
        # minimise on the kind of failure: an enclosing constructor may re-label the error code of the same rejection
        m = minimise(ver, ast, full, o.kind)
        mo = ast_outcome(ver, m, full)
        if mo.kind == o.kind:
            o = Outcome(mo.kind, o.string, code=mo.code, exp=o.exp, obs=o.obs, diff=o.diff, exc=mo.exc)
        fk = mo.fail_key() if mo.kind == o.kind else o.fail_key()
        cls = culprit(ver, m, full, fk)
        mode = 'full' if full else 'min'
        if o.kind == 'rejected':
            discs.append(Disc(_b('C04/grouping/rejected', cls, o.code, ver), 'a token tree', f'{o.code}: {o.exc}',
                              f'{mode} string={o.string!r} minimal={mo.string!r}'))
        elif o.kind == 'escape':
            discs.append(Disc(escape_bucket('C04', o.exc) + '/' + _b('grouping', cls, ver), 'a token tree', repr(o.exc),
                              f'{mode} string={o.string!r} minimal={mo.string!r}'))
        else:
            d = mo.diff or o.diff
            discs.append(Disc(_b('C04/grouping/shape', cls, f'{_ch(d[1], ver)}~{_ch(d[2], ver)}', ver), mo.exp if mo.diff else o.exp,
                              mo.obs if mo.diff else o.obs,
                              f'{mode} string={o.string!r} minimal={mo.string!r} at {d[0]}'))
        if full is False and o.kind != 'ok':
            break           # the fully parenthesised form fails for the same reason nearly always; one Disc per cause
    return discs, oks


def grouping_discs(ver, ast, rec=None, tag='grouping', cfg='default'):
    """the oracle is the EBNF of the VERSION whatever the configuration of the parser; a discrepancy that the default
    configuration does not show as well gets the configuration in its bucket"""
    with use_config(cfg):
        discs, oks = _grouping_core(ver, ast)
    if cfg != 'default' and discs:
        base = {d.bucket for d in _grouping_core(ver, ast)[0]}
        for d in discs:
            if d.bucket not in base:
                d.bucket += '/cfg=' + cfg
    if rec is not None:
        toks, shape = X.render(ast, ver, False)
        ops = X.operators(ast, ver)
        levels = {lv for lv, _ in ops}
        same = len(ops) - len(levels) > 0
        classes = [f'{tag}:case', f'{tag}:ver-{ver}', f'{tag}:cfg-{cfg}']
        if len(levels) >= 2:
            classes.append(f'{tag}:multi-level')
        if same:
            classes.append(f'{tag}:same-level-pair')
        if sum(n[0] == 'paren' for n in X.walk(shape)) > sum(n[0] == 'paren' for n in X.walk(ast)):
            classes.append(f'{tag}:parens-needed')
        if oks == 2:
            classes.append(f'{tag}:ok')
        for lv, op in ops[:6]:
            classes.append(f'{tag}:op-{op}')
        rec.case([ver, cfg, X.join_spaced(toks)], nontrivial=len(ops) >= 2,
                 sample={'check': tag, 'ver': ver, 'cfg': cfg, 'string': X.join_spaced(toks)}, classes=classes)
    return discs


def judge_grouping(case, rec=None, tag='grouping'):
    out = []
    for a in case['asts']:
        out += grouping_discs(case['ver'], a, rec, tag, case.get('cfg', 'default'))
    return out


def judge_kwnames(case, rec=None):
    """keyword-prefixed NCNames: one name token (grouping), tight / newline / comment whitespace variants, source round trip"""
    ver = case['ver']
    out = []
    for a in case['asts']:
        out += grouping_discs(ver, a, rec, 'kwnames')
        toks, shape = X.render(a, ver, False)
        exp = X.canon(shape)
        if parse_outcome(ver, X.join_spaced(toks), exp).kind != 'ok':
            continue
        n = len(toks)
        tight = [None] * (n + 1)
        for i in range(1, n):
            if not X.must_sep(toks[i - 1], toks[i]):
                tight[i] = ['', 'none']
        out += _ws_variant_discs(ver, toks, exp, tight, 'kw-tight')[0]
        gaps = [['\n', 'ws'] if (ver == '1.0' or i % 2) else ['(:c:)', 'comment-plain'] for i in range(n + 1)]
        out += _ws_variant_discs(ver, toks, exp, gaps, 'kw-gaps')[0]
        o = roundtrip_outcome(ver, a, values=False)
        if o.key not in ('ok', 'unparsed'):
            cls = X.klass(a, ver, True)
            out.append(Disc(_b('C04/roundtrip', o.key, 'kwname', cls, ver), getattr(o, 't1', 'source re-parses'),
                            getattr(o, 't2', getattr(o, 'src', None)), f'string={o.s!r} source={getattr(o, "src", None)!r}'))
    return out


def judge_pairs(case, rec=None):
    return judge_grouping(case, rec, 'pairs')


# --------------------------------------------------------------------------
# negative chains
# --------------------------------------------------------------------------
def judge_negative(case, rec=None):
    from elementpath.exceptions import ElementPathError
    ver, toks, cls = case['ver'], case['toks'], case['cls']
    s = X.join_spaced(toks)
    discs = []
    status = 'rejected'
    for mode, fn in (('tdop', lambda: tdop_parse(ver, s)), ('full', lambda: full_parse(ver, s))):
        try:
            t = fn()
        except ElementPathError as e:
            code = (e.code or 'no-code').replace('err:', '')
            if code != 'XPST0003':
                if mode == 'tdop':
                    discs.append(Disc(_b('C04/negative/wrong-code', cls, code, ver), 'XPST0003', f'{code}: {e}', repr(s)))
                    status = 'wrong-code'
        except Exception as e:
            discs.append(Disc(escape_bucket('C04', e) + '/' + _b('negative', cls, ver), 'XPST0003', repr(e), repr(s)))
            status = 'escape'
            break
        else:
            discs.append(Disc(_b('C04/negative/accepted', cls, ver), 'XPST0003 (chain through a non-associative level)',
                              t.tree, f'{mode} {s!r}'))
            status = 'accepted'
            break
    if rec is not None:
        rec.case([ver, s], nontrivial=True, sample={'check': 'negative', 'ver': ver, 'string': s},
                 classes=['negative:case', f'negative:{status}', f'negative:cls-{cls}'])
    return discs


# --------------------------------------------------------------------------
# whitespace / comments
# --------------------------------------------------------------------------
_FIXED_TOKS = set('( ) [ ] { } , / // | || ! = != < <= > >= << >> + - * ? # => :: := : @ $ . ..'.split()) | \
    set(X.KEYWORD_NAMES) | {'function', 'mod', 'then', 'else', 'satisfies', 'return', 'in', 'of', 'as', 'ne', 'le', 'gt', 'ge'}


def tokclass(t):
    if t in _FIXED_TOKS:
        return t
    c = t[0]
    if c in '\'"':
        return 'str'
    if c == '$':
        return 'var'
    if c.isdigit() or c == '.':
        return 'num'
    if ':' in t:
        return 'qname'
    return 'name'


def _ws_variant_discs(ver, toks, exp, gap_list, label):
    """gap_list: list of [text, cls] for the len(toks)+1 boundaries ('' where the canonical single space is kept: None)"""
    n = len(toks)

    def build(gl):
        texts = [(' ' if 0 < i < n else '') if g is None else g[0] for i, g in enumerate(gl)]
        return X.join_ws(toks, texts)
    s = build(gap_list)
    discs = []
    work = list(gap_list)
    for _round in range(4):
        o = parse_outcome(ver, build(work), exp)
        if o.kind == 'ok':
            break
        d, rest = _ws_localise(ver, toks, exp, work, build, o, label)
        discs.append(d)
        if not rest:
            break
        # neutralise the responsible gaps and judge the remaining ones too (a known cause must not mask the others)
        for i in rest:
            work[i] = None
    return discs, s


def _ws_localise(ver, toks, exp, gap_list, build, o, label):
    n = len(toks)
    fk = o.fail_key()
    # drop gaps one at a time while the same failure persists (one pass of delta debugging)
    cur = list(gap_list)
    for i, g in enumerate(cur):
        if g is None:
            continue
        trial = list(cur)
        trial[i] = None
        if parse_outcome(ver, build(trial), exp).fail_key() == fk:
            cur = trial
    rest = [i for i, g in enumerate(cur) if g is not None]
    o1 = parse_outcome(ver, build(cur), exp)
    cset = {cur[i][1] for i in rest}
    at_map_colon = any((i > 0 and toks[i - 1] == ':') or (i < n and toks[i] == ':') for i in rest)
    for special in ('comment-quote', 'comment-colon', 'comment-newline'):
        if special in cset:
            classes = special
            break
    else:
        if at_map_colon:
            classes = 'map-colon/' + ('comment' if any(c.startswith('comment') for c in cset) else
                                      'cr' if any('\r' in cur[i][0] for i in rest) else '+'.join(sorted(cset)))
        elif len(rest) >= 2 and all(c.startswith('comment') for c in cset):
            classes = 'multi-comment'
        else:
            classes = '+'.join(sorted(cset)) or 'nothing'
    i = rest[0] if rest else 0
    left = tokclass(toks[i - 1]) if i > 0 else 'START'
    right = tokclass(toks[i]) if i < n else 'END'
    where = f'{left}|{right}' if len(rest) == 1 else f'{len(rest)}-gaps'
    return Disc(_b('C04/ws', classes, where, fk, ver), 'same tree as with single spaces', _fail_text(o1),
                f'{label} string={o1.string!r}'), rest


def _fail_text(o):
    if o.kind == 'rejected':
        return f'{o.code}: {o.exc}'
    if o.kind == 'escape':
        return repr(o.exc)
    return f'shape differs at {o.diff[0]}: {o.diff[1]} ~ {o.diff[2]}'


def judge_ws(case, rec=None):
    ver, gl = case['ver'], case['gaps']
    discs = []
    for ai, a in enumerate(case['asts']):
        toks, shape = X.render(a, ver, False)
        exp = X.canon(shape)
        base = parse_outcome(ver, X.join_spaced(toks), exp)
        classes = ['ws:case'] + (['ws:case-2.0+'] if ver != '1.0' else [])
        if base.kind != 'ok':
            classes.append('ws:base-not-ok')       # reported by the grouping sub-check
        else:
            n = len(toks)
            # (1) no whitespace wherever the terminals delimit themselves
            tight = [None] * (n + 1)
            for i in range(1, n):
                if not X.must_sep(toks[i - 1], toks[i]):
                    tight[i] = ['', 'none']
            d1, _ = _ws_variant_discs(ver, toks, exp, tight, 'tight')
            # (2) generated gaps
            gen = [list(gl[(i + 7 * ai) % len(gl)]) for i in range(n + 1)]
            d2, s2 = _ws_variant_discs(ver, toks, exp, gen, 'gaps')
            discs += d1 + d2
            if not d1 and not d2:
                classes.append('ws:variant-ok')
            if any(g[1].startswith('comment') for g in gen):
                classes.append('ws:comment')
            for k in sorted({g[1] for g in gen}):
                classes.append('ws:gap-' + k)
        if rec is not None:
            rec.case([ver, X.join_spaced(toks), [g[0] for g in gl]], nontrivial=len(toks) >= 3,
                     sample={'check': 'ws', 'ver': ver, 'string': s2 if base.kind == 'ok' else X.join_spaced(toks)},
                     classes=classes)
    return discs


# --------------------------------------------------------------------------
# source round trip
# --------------------------------------------------------------------------
_CTX = {}


def _doc():
    d = _CTX.get('doc')
    if d is None:
        from xml.etree import ElementTree as ET
        r = ET.Element('r')
        a = ET.SubElement(r, 'a', {'b': '1', 'x-y': 'v'})
        a.text = '1'
        b = ET.SubElement(r, 'b')
        b.text = '2'
        c = ET.SubElement(b, 'c')
        c.text = 't'
        c.tail = 'u'
        ET.SubElement(r, 'a').text = '3'
        d = _CTX['doc'] = r
    return d


def _variables(ver):
    v = _CTX.get(('vars', ver))
    if v is None:
        v = {'v': 1, 'w': 'two'}
        if ver >= '3.0':
            from elementpath import XPathContext
            p = parser(ver)
            v['f'] = p.parse('abs#1').evaluate(XPathContext(_doc()))
        else:
            v['f'] = 3.5
        if ver >= '3.1':
            from elementpath import XPathContext
            p = parser(ver)
            v['m'] = p.parse("map{'a': 1, 1: (2, 3), 'key': 'k'}").evaluate(XPathContext(_doc()))
        else:
            v['m'] = [1, 2]
        _CTX[('vars', ver)] = v
    return v


def cval(v, depth=0):
    """canonical JSON-able image of an XDM value"""
    from decimal import Decimal
    if depth > 6:
        return 'deep'
    if isinstance(v, list):
        return [cval(x, depth + 1) for x in v]
    if isinstance(v, bool):
        return ['bool', v]
    if isinstance(v, int):
        return ['int', str(v)]
    if isinstance(v, float):
        return ['double', repr(v)]
    if isinstance(v, Decimal):
        return ['decimal', str(v.normalize() if v else Decimal(0))]
    if isinstance(v, str):
        return ['string', v]
    if v is None:
        return ['none']
    tn = type(v).__name__
    if hasattr(v, 'position') and hasattr(v, 'parent'):
        return ['node', tn, v.position, getattr(v, 'name', None) if isinstance(getattr(v, 'name', None), str) else None]
    if hasattr(v, 'nargs'):                      # function item / map / array
        lab = str(getattr(v, 'label', ''))
        if tn == 'XPathMap':
            try:
                return ['map', sorted((cjson(cval(k, depth + 1)), cval(x, depth + 1)) for k, x in v.items())]
            except Exception:
                return ['map', '?']
        if tn == 'XPathArray':
            try:
                return ['array', [cval(x, depth + 1) for x in v.items()]]
            except Exception:
                return ['array', '?']
        return ['function', getattr(v, 'symbol', '?'), lab, v.nargs if isinstance(v.nargs, int) else None]
    return [tn, str(v)]


def eval_outcome(ver, s):
    """('err', code) | ('val', canonical) | ('exc', type) | ('resource',) of full parse + evaluate of s"""
    from elementpath import XPathContext
    from elementpath.exceptions import ElementPathError
    try:
        t = full_parse(ver, s)
        ctx = XPathContext(_doc(), variables=dict(_variables(ver)))
        v = t.evaluate(ctx)
        return ['val', cval(v)]
    except ElementPathError as e:
        return ['err', (e.code or 'no-code').replace('err:', '')]
    except (RecursionError, MemoryError):
        return ['resource']
    except Exception as e:
        return ['exc', type(e).__name__]


class RT:
    """outcome of one round trip, shaped like Outcome for minimise()/culprit()"""
    def __init__(self, key, **kw):
        self.key = key
        self.__dict__.update(kw)

    def fail_key(self):
        return self.key


def roundtrip_outcome(ver, ast, values=True):
    from elementpath.exceptions import ElementPathError
    toks, shape = X.render(ast, ver, False)
    s = X.join_spaced(toks)
    try:
        t = tdop_parse(ver, s)
    except Exception:
        return RT('unparsed', s=s)
    try:
        src = t.source
    except Exception as e:
        return RT('source-raises:' + type(e).__name__, s=s, exc=e)
    if not isinstance(src, str):
        return RT('source-not-str', s=s, src=src)
    try:
        t2 = tdop_parse(ver, src)
    except ElementPathError as e:
        return RT('reparse-rejected', s=s, src=src, exc=e)
    except Exception as e:
        return RT('reparse-escape:' + type(e).__name__, s=s, src=src, exc=e)
    sh1, sh2 = X.canon(X.shape_of(t)), X.canon(X.shape_of(t2))
    if t.tree != t2.tree or X.strip_parens(sh1) != X.strip_parens(sh2):
        return RT('tree', s=s, src=src, t1=t.tree, t2=t2.tree, diff=X.first_diff(X.strip_parens(sh1), X.strip_parens(sh2)))
    if values:
        v1, v2 = eval_outcome(ver, s), eval_outcome(ver, src)
        if v1 != v2 and 'resource' not in (v1[0], v2[0]):
            return RT('value', s=s, src=src, v1=v1, v2=v2)
        return RT('ok', s=s, src=src, v=v1)
    return RT('ok', s=s, src=src, v=None)


def roundtrip_discs(ver, ast, rec=None):
    o = roundtrip_outcome(ver, ast)
    discs = []
    classes = ['roundtrip:case', f'roundtrip:{o.key.split(":")[0]}']
    if o.key not in ('ok', 'unparsed'):
        fn = lambda a: roundtrip_outcome(ver, a)   # noqa: E731
        m = minimise(ver, ast, False, o.key, fn)
        mo = fn(m)
        if mo.key != o.key:
            m, mo = ast, o
        cls = culprit(ver, m, False, o.key, fn) if X.child_paths(m) else X.klass(m, ver) + ':' + _leafclass(m)
        if o.key == 'tree':
            d = mo.diff or ('', '?', '?')
            discs.append(Disc(_b('C04/roundtrip/tree', cls, f'{_ch(d[1], ver)}~{_ch(d[2], ver)}', ver), mo.t1, mo.t2,
                              f'string={mo.s!r} source={mo.src!r} (case string {o.s!r})'))
        elif o.key == 'value':
            discs.append(Disc(_b('C04/roundtrip/value', cls, f'{mo.v1[0]}~{mo.v2[0]}', ver), mo.v1, mo.v2,
                              f'string={mo.s!r} source={mo.src!r}'))
        elif o.key.startswith('source-raises') or o.key.startswith('reparse-escape'):
            discs.append(Disc(escape_bucket('C04', mo.exc) + '/' + _b('roundtrip', cls, ver), 'a source string', repr(mo.exc),
                              f'string={mo.s!r}'))
        else:
            discs.append(Disc(_b('C04/roundtrip', o.key, cls, ver), 'source re-parses', getattr(mo, 'src', None),
                              f'string={mo.s!r} error={getattr(mo, "exc", None)}'))
    elif o.key == 'ok':
        classes.append('roundtrip:value-compared')
        classes.append('roundtrip:outcome-' + o.v[0])
    if rec is not None:
        if any(n[0] == 'str' and ("'" in n[1] or '"' in n[1]) for n in X.walk(ast)):
            classes.append('roundtrip:string-with-quote')
        if any(n[0] == 'dbl' for n in X.walk(ast)):
            classes.append('roundtrip:double-literal')
        ops = X.operators(ast, ver)
        rec.case([ver, o.s], nontrivial=len(ops) >= 2, sample={'check': 'roundtrip', 'ver': ver, 'string': o.s,
                                                                'source': getattr(o, 'src', None)}, classes=classes)
    return discs


def _leafclass(n):
    if n[0] == 'str':
        v = n[1]
        return 'both-quotes' if "'" in v and '"' in v else 'apos' if "'" in v else 'quot' if '"' in v else \
            'backslash' if '\\' in v else 'plain'
    if n[0] in ('int', 'dec', 'dbl'):
        return n[0]
    return n[0]


def _no_dbl(n):
    if isinstance(n, list):
        if n and n[0] == 'dbl':
            return ['int', '7']
        return [_no_dbl(x) for x in n]
    return n


def judge_roundtrip(case, rec=None):
    out = []
    for a in case['asts']:
        if not case.get('dbl', True):
            # the source of a double literal is a decimal literal (known finding): keep it out of most cases so
            # that it does not mask the operators around it
            a = _no_dbl(a)
        out += roundtrip_discs(case['ver'], a, rec)
    return out


# --------------------------------------------------------------------------
# hash seed independence (child interpreters)
# --------------------------------------------------------------------------
_CHILD = r'''
import sys, json, hashlib
repo = sys.argv[1]
sys.path.insert(0, repo)
import elementpath
from elementpath import XPath1Parser, XPath2Parser
from elementpath.xpath30 import XPath30Parser
from elementpath.xpath31 import XPath31Parser
from elementpath.exceptions import ElementPathError
P = {'1.0': XPath1Parser(), '2.0': XPath2Parser(), '3.0': XPath30Parser(), '3.1': XPath31Parser()}
corpus = json.load(sys.stdin)
out = []
for ver, s in corpus:
    p = P[ver]
    toks = [[i for i, g in enumerate(m.groups()) if g is not None][:1] + [m.group()] for m in p.tokenizer.finditer(s)
            if not m.group().isspace()]
    try:
        t = p.parse(s)
        res = ['tree', t.tree, t.source]
    except ElementPathError as e:
        res = ['err', type(e).__name__, e.code]
    except Exception as e:
        res = ['exc', type(e).__name__]
    out.append([toks, res])
json.dump({'hashseed': sys.flags.hash_randomization, 'file': elementpath.__file__,
           'pattern_sha': {v: hashlib.sha1(P[v].tokenizer.pattern.encode()).hexdigest() for v in P}, 'out': out}, sys.stdout)
'''

SPECIAL_CORPUS = [
    'attribute::a', 'attribute(a)', 'a/attribute::b', 'attribute (:c:) ::a', 'map{1:2}', 'map(*)', 'map {"a":1}?a',
    'array{1,2}', 'array(*)', '1 instance of map(*)', 'Q{u}a', 'Q{http://www.w3.org/2005/xpath-functions}abs(1)',
    'count (a)', 'count(:c:)(a)', 'fn:count(a)', 'my-count(a)', 'xs:integer("1")', 'element(a)', 'document-node(element(a))',
    '1 <= 2', '1 << 2', '1 < 2', 'a << b', '1 != 2', 'a!b', 'a ! = b', '1 => abs()', '1 = 2', 'a || b', 'a | b', 'a//b', 'a/b',
    '$x := 1', 'let $x := 1 return $x', 'a::b', 'child::a', '..', '.', '...', '1.5e3', '.5', '1.', 'a.b', 'a-b', 'a - b', '(: c :) 1',
    '(:(: n :):) 1', '1 (: it\'s :)', '"a""b"', "'a''b'", '{a}b', 'p:a', '*:a', 'p:*', '@*', '@a', 'a[1]', 'a[b][c]', '[1,2]',
    '?a', '$m?a', 'function($x){$x}', 'abs#1', 'if (a) then b else c', 'if(a)then b else c', 'for $x in a return $x',
    'some $x in a satisfies $x', 'a instance of xs:integer+', 'a treat as item()*', 'a cast as xs:integer?',
    'a castable as xs:string', 'processing-instruction(x)', 'text()', 'node()', 'comment()', 'namespace-node()',
    'schema-element(a)', 'item()', 'empty-sequence()', 'a and b or c', 'div div div', 'a mod b', 'a idiv b', '- - 1', '+1',
    '1 to 3', 'a union b', 'a intersect b except c', 'a is b', 'a eq b', '1 div 0', 'math:pi()', 'array:size([1])',
    'map:keys(map{})', 'string-join(("a","b"), "-")', 'a/b/c/@d', '/', '//a', '/a', '()', '(1,2)', 'a,b', '1 + ', ')', '(', ':)',
    'a b', '1 2', '$', '$$', '#', '=>', '!', '!!', '<<<', '>>=', '::', ':=', '{', '}', '[', ']', '``', '`', '~', '\\', '%', '&', '^',
]


def _corpus_strategy():
    @st.composite
    def item(draw):
        ver = draw(st.sampled_from(VERS))
        k = draw(st.integers(0, 9))
        if k < 5:
            toks, _ = X.render(draw(X.ast(ver, draw(st.integers(1, 3)))), ver, False)
            toks = [str(t) for t in toks]
        elif k < 7:
            toks = [draw(st.sampled_from(SPECIAL_CORPUS))]
        else:
            toks, _ = X.render(draw(X.ast(ver, 2)), ver, False)
            toks = [str(t) for t in toks]
            # token level mutation: delete / duplicate / swap / replace
            m = draw(st.integers(0, 3))
            i = draw(st.integers(0, max(0, len(toks) - 1)))
            if m == 0 and len(toks) > 1:
                del toks[i]
            elif m == 1:
                toks.insert(i, toks[i])
            elif m == 2 and len(toks) > 1:
                j = draw(st.integers(0, len(toks) - 1))
                toks[i], toks[j] = toks[j], toks[i]
            else:
                toks[i] = draw(st.sampled_from(['<', '<=', '<<', '=', '=>', ':', '::', ':=', 'map', 'array', 'attribute', 'Q{u}a',
                                                '(:', ':)', '?', '#', '!', '!=', '|', '||', '{', '}', 'div', '*', '-']))
        style = draw(st.integers(0, 2))
        s = X.join(toks) if style == 0 else X.join_spaced(toks) if style == 1 else '\n'.join(toks)
        return [ver, s]
    return st.lists(item(), min_size=20, max_size=20)


def run_hashseed_job(job, rec: Recorder):
    import elementpath
    repo = os.path.dirname(os.path.dirname(os.path.abspath(elementpath.__file__)))
    corpus: list = [[v, s] for s in SPECIAL_CORPUS for v in VERS] if job.get('special') else []

    def body(batch):
        corpus.extend(batch)
    if job['n'] > 0:
        hyp_collect(_corpus_strategy(), body, job['n'], job['seed'], rec)
    case = {'corpus': corpus, 'hashseeds': job['hashseeds']}
    rec.discs_of('hashseed', case, judge_hashseed(case, rec, repo))


def judge_hashseed(case, rec=None, repo=None):
    if repo is None:
        import elementpath
        repo = os.path.dirname(os.path.dirname(os.path.abspath(elementpath.__file__)))
    corpus = case['corpus']
    results = {}
    for hs in case['hashseeds']:
        env = {'PYTHONHASHSEED': str(hs), 'PYTHONDONTWRITEBYTECODE': '1', 'PATH': os.environ.get('PATH', '/usr/bin:/bin'),
               'LC_ALL': 'C'}
        p = subprocess.run([sys.executable, '-c', _CHILD, repo], input=json.dumps(corpus), capture_output=True, text=True,
                           env=env, timeout=900)
        if p.returncode != 0:
            raise RuntimeError(f'hash-seed child {hs} failed: {p.stderr[-800:]}')
        results[hs] = json.loads(p.stdout)
    seeds = list(case['hashseeds'])
    first = results[seeds[0]]
    discs = []
    patterns_differ = any(results[h]['pattern_sha'] != first['pattern_sha'] for h in seeds[1:])
    for i, (ver, s) in enumerate(corpus):
        ref = first['out'][i]
        for h in seeds[1:]:
            got = results[h]['out'][i]
            if got != ref:
                kind = 'tokens' if got[0] != ref[0] else 'parse'
                discs.append(Disc(_b('C04/hashseed', kind, ver), ref[1] if kind == 'parse' else ref[0],
                                  got[1] if kind == 'parse' else got[0], f'PYTHONHASHSEED {seeds[0]} vs {h}: {s!r}'))
                break
        if rec is not None:
            rec.case(['hs', ver, s], nontrivial=len(ref[0]) >= 3, classes=['hashseed:string', 'hashseed:' + ref[1][0]],
                     sample={'check': 'hashseed', 'ver': ver, 'string': s} if i % 97 == 0 else None)
    if rec is not None:
        rec.extra['hashseed_children'] = rec.extra.get('hashseed_children', 0) + len(seeds)
        if patterns_differ:
            rec.cls('hashseed:pattern-text-differs')
    # keep only the first few per bucket (one corpus can repeat the same cause many times)
    return discs


# --------------------------------------------------------------------------
# strategies
# --------------------------------------------------------------------------
def _ver():
    return st.sampled_from(VERS)


@st.composite
def case_asts(draw, max_depth, batch):
    ver = draw(_ver())
    n = draw(st.integers(1, batch))
    return {'ver': ver, 'cfg': draw(st.sampled_from(CONFIGS)),
            'asts': [draw(X.ast(ver, draw(st.integers(1, max_depth)))) for _ in range(n)]}


@st.composite
def case_pairs(draw, batch):
    ver = draw(_ver())
    return {'ver': ver, 'asts': [draw(X.pair_ast(ver)) for _ in range(draw(st.integers(1, batch)))]}


@st.composite
def case_ws(draw, max_depth, batch):
    ver = draw(_ver())
    n = draw(st.integers(1, batch))
    return {'ver': ver, 'asts': [draw(X.ast(ver, draw(st.integers(1, max_depth)))) for _ in range(n)],
            'gaps': draw(X.gaps(ver, 23))}


@st.composite
def case_negative(draw):
    ver = draw(st.sampled_from(VERS[1:]))
    d = draw(X.negative_chain(ver))
    return {'ver': ver, 'toks': d['toks'], 'cls': d['cls']}


def _strategy(job):
    chk = job['check']
    d, b = job.get('depth', 3), job.get('batch', 6)
    if chk == 'grouping':
        return case_asts(d, b)
    if chk == 'pairs':
        return case_pairs(b)
    if chk == 'ws':
        return case_ws(d, b)
    if chk == 'roundtrip':
        return st.builds(lambda c, k: dict(c, dbl=k), case_asts(d, b), st.integers(0, 9).map(lambda k: k == 0))
    if chk == 'negative':
        return case_negative()
    raise KeyError(chk)


_JUDGES = {'grouping': judge_grouping, 'pairs': judge_pairs, 'kwnames': judge_kwnames, 'ws': judge_ws, 'roundtrip': judge_roundtrip,
           'negative': judge_negative, 'hashseed': judge_hashseed}


# --------------------------------------------------------------------------
# self-test of the oracle (W3C examples, no elementpath involved)
# --------------------------------------------------------------------------
def selftest():
    R = lambda a, v, full=False: X.join_spaced(X.render(a, v, full)[0])   # noqa: E731
    i = lambda k: ['int', str(k)]   # noqa: E731
    n = lambda k: ['name', k]       # noqa: E731
    # XPath 2.0 3.4: "-3 div 2", "1 - 2 - 3" left-assoc; 3.3.1 union before intersect...
    assert R(['bin', '-', ['bin', '-', i(1), i(2)], i(3)], '2.0') == '1 - 2 - 3'
    assert R(['bin', '-', i(1), ['bin', '-', i(2), i(3)]], '2.0') == '1 - ( 2 - 3 )'
    assert R(['bin', '*', ['bin', '+', i(1), i(2)], i(3)], '2.0') == '( 1 + 2 ) * 3'
    assert R(['bin', '+', i(1), ['bin', '*', i(2), i(3)]], '2.0') == '1 + 2 * 3'
    # XPath 2.0 A.1: unary binds tighter than union in 2.0, looser in 1.0 (1.0 3.5 UnaryExpr ::= UnionExpr | '-' UnaryExpr)
    assert R(['neg', '-', ['bin', '|', n('a'), n('b')]], '1.0') == '- a | b'
    assert R(['neg', '-', ['bin', '|', n('a'), n('b')]], '2.0') == '- ( a | b )'
    assert R(['bin', '|', ['neg', '-', n('a')], n('b')], '2.0') == '- a | b'
    assert R(['bin', '|', ['neg', '-', n('a')], n('b')], '1.0') == '( - a ) | b'
    # XPath 1.0 3.4: "3 > 2 > 1 is equivalent to (3 > 2) > 1"; 2.0 ComparisonExpr is non-associative
    assert R(['bin', '>', ['bin', '>', i(3), i(2)], i(1)], '1.0') == '3 > 2 > 1'
    assert R(['bin', '>', ['bin', '>', i(3), i(2)], i(1)], '2.0') == '( 3 > 2 ) > 1'
    assert R(['bin', '=', i(1), ['bin', '<', i(2), i(3)]], '1.0') == '1 = 2 < 3'
    assert R(['bin', '<', ['bin', '=', i(1), i(2)], i(3)], '1.0') == '( 1 = 2 ) < 3'
    # 2.0 3.12.x: cast > castable > treat > instance of
    t = lambda op, x: ['type', op, x, 'xs:integer', '']   # noqa: E731
    assert R(t('instance', t('cast', n('a'))), '2.0') == 'a cast as xs:integer instance of xs:integer'
    assert R(t('cast', t('instance', n('a'))), '2.0') == '( a instance of xs:integer ) cast as xs:integer'
    assert R(['bin', '*', t('instance', n('a')), i(2)], '2.0') == '( a instance of xs:integer ) * 2'
    assert R(['bin', '-', t('instance', n('a')), i(2)], '2.0') == 'a instance of xs:integer - 2'
    # 3.1 A.1: ArrowExpr ::= UnaryExpr ("=>" ...)*; SimpleMapExpr ::= PathExpr ("!" PathExpr)*
    assert R(['arrow', ['neg', '-', i(1)], ['fname', 'abs'], []], '3.1') == '- 1 => abs ( )'
    assert R(['neg', '-', ['arrow', i(1), ['fname', 'abs'], []]], '3.1') == '- ( 1 => abs ( ) )'
    assert R(['neg', '-', ['bin', '!', n('a'), n('b')]], '3.0') == '- a ! b'
    assert R(['bin', '!', ['path', '/', n('a'), n('b')], n('c')], '3.0') == 'a / b ! c'
    assert R(['path', '/', n('a'), ['bin', '!', n('b'), n('c')]], '3.0') == 'a / ( b ! c )'
    assert R(['bin', '||', ['bin', 'to', i(1), i(2)], i(3)], '3.0') == '1 to 2 || 3'
    assert R(['bin', 'to', i(1), ['bin', '||', i(2), i(3)]], '3.0') == '1 to ( 2 || 3 )'
    assert R(['if', i(1), i(2), ['bin', '+', i(3), i(4)]], '2.0') == 'if ( 1 ) then 2 else 3 + 4'
    assert R(['bin', '+', ['if', i(1), i(2), i(3)], i(4)], '2.0') == '( if ( 1 ) then 2 else 3 ) + 4'
    assert R(['seq', [i(1), ['seq', [i(2), i(3)]]]], '2.0') == '1 , ( 2 , 3 )'
    assert R(['root', '/', ['path', '/', n('a'), n('b')]], '1.0') == '/ a / b'
    assert R(['lookup', n('a'), ['ncname', 'k']], '3.1') == '( a ) ? k'
    assert X.join(['a', '-', 'b']) == 'a -b' and X.join(['1', '+', '2']) == '1+2' and X.join(['1', 'to', '2']) == '1 to 2'
    assert X.canon(['path', '/', ['root', '/', ['name', 'a']], ['name', 'b']]) == ['root', '/', ['path', '/', ['name', 'a'], ['name', 'b']]]
    assert X.canon(['dec', '1.50']) == X.canon(['dec', '1.5']) and X.canon(['dbl', '1e0']) == ['dbl', '1.0']
    assert cval([1, 'a', 1.5]) == [['int', '1'], ['string', 'a'], ['double', '1.5']]


# --------------------------------------------------------------------------
# module interface
# --------------------------------------------------------------------------
def _pair_jobs():
    # finite space, enumerated completely in both tiers: every operator form nested in every operand slot of every other,
    # for every parser configuration (the grammar of a version does not depend on constructor options)
    out = []
    for cfg in CONFIGS:
        for v, k in (('1.0', 1), ('2.0', 2), ('3.0', 2), ('3.1', 2)):
            if v == '1.0' and cfg == 'compat':
                continue
            out += [{'check': 'pairs', 'ver': v, 'cfg': cfg, 'part': i, 'parts': k} for i in range(k)]
    out += [{'check': 'kwnames', 'ver': v, 'part': i, 'parts': 2} for v in VERS for i in range(2)]
    return out


def _pair_cases(job):
    space = X.pair_space if job['check'] == 'pairs' else X.kw_space
    for idx, (label, a) in enumerate(space(job['ver'])):
        if idx % job['parts'] != job['part']:
            continue
        try:
            X.render(a, job['ver'], False)
            X.render(a, job['ver'], True)
        except ValueError:
            yield label, None           # not derivable in this version (XPath 1.0 steps)
            continue
        yield label, {'ver': job['ver'], 'cfg': job.get('cfg', 'default'), 'asts': [a]}


def jobs(tier, seed):
    q = tier == 'quick'
    out = []

    def add(chk, shards, n, **kw):
        for i in range(shards):
            out.append({'check': chk, 'shard': i, 'n': n, 'seed': derive_seed(seed, 'C04', chk, i), **kw})
    if q:
        add('grouping', 5, 900, depth=3, batch=6)
        out.extend(_pair_jobs())
        add('ws', 3, 700, depth=3, batch=4)
        add('roundtrip', 3, 600, depth=3, batch=4)
        add('negative', 1, 2500)
        out.append({'check': 'hashseed', 'shard': 0, 'n': 60, 'seed': derive_seed(seed, 'C04', 'hashseed', 0),
                    'hashseeds': [0, 1, 2, 3], 'special': True})
        out.append({'check': 'hashseed', 'shard': 1, 'n': 80, 'seed': derive_seed(seed, 'C04', 'hashseed', 1),
                    'hashseeds': [0, 7, 42, 1234], 'special': False})
    else:
        add('grouping', 5, 8000, depth=4, batch=6)
        out.extend(_pair_jobs())
        add('ws', 3, 6000, depth=3, batch=4)
        add('roundtrip', 3, 5000, depth=4, batch=4)
        add('negative', 1, 12000)
        for i in range(2):
            out.append({'check': 'hashseed', 'shard': i, 'n': 250, 'seed': derive_seed(seed, 'C04', 'hashseed', i),
                        'hashseeds': [0] + [derive_seed(seed, 'hs', i, k) % 4294967295 for k in range(15)],
                        'special': i == 0})
    return out


def run_job(job, rec: Recorder):
    chk = job['check']
    if chk == 'hashseed':
        return run_hashseed_job(job, rec)
    if chk in ('pairs', 'kwnames'):
        jd = judge_pairs if chk == 'pairs' else judge_kwnames
        for label, case in _pair_cases(job):
            if case is None:
                rec.cls(f'{chk}:not-derivable')
                continue
            rec.discs_of(chk, case, jd(case, rec))
        rec.extra['parser_instances_replaced_after_state_leak'] = POISONED[0]
        return
    jd = _JUDGES[chk]
    hyp_collect(_strategy(job), lambda case: rec.discs_of(chk, case, jd(case, rec)), job['n'], job['seed'], rec)
    rec.extra['parser_instances_replaced_after_state_leak'] = POISONED[0]


def shrink_job(job, bucket, budget):
    chk = job['check']
    if chk == 'hashseed':
        import elementpath
        repo = os.path.dirname(os.path.dirname(os.path.abspath(elementpath.__file__)))
        rec = Recorder(job)
        corpus: list = [[v, s] for s in SPECIAL_CORPUS for v in VERS] if job.get('special') else []
        if job['n'] > 0:
            hyp_collect(_corpus_strategy(), corpus.extend, job['n'], job['seed'], rec)
        full = {'corpus': corpus, 'hashseeds': job['hashseeds']}
        for d in judge_hashseed(full, None, repo):
            if d.bucket == bucket:
                s = d.detail.split(': ', 1)[1]
                for item in corpus:
                    if repr(item[1]) == s:
                        small = {'corpus': [item], 'hashseeds': job['hashseeds']}
                        for d2 in judge_hashseed(small, None, repo):
                            if d2.bucket == bucket:
                                return small, d2
                return full, d
        return None
    if chk in ('pairs', 'kwnames'):
        for label, case in _pair_cases(job):
            if case is not None:
                for d in (judge_pairs if chk == 'pairs' else judge_kwnames)(case):
                    if d.bucket == bucket:
                        return case, d
        return None
    return hyp_shrink(_strategy(job), _JUDGES[chk], bucket, job['n'], job['seed'], budget)


def judge(check, case):
    return _JUDGES[check](case)
