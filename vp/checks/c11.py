"""C11 - Date, time and duration values follow the proleptic Gregorian timeline."""
from __future__ import annotations

import re
from decimal import Decimal
from fractions import Fraction

from hypothesis import strategies as st

from vp.core import Disc, Recorder, derive_seed, hyp_collect, hyp_shrink, escape_bucket
from vp.ref import calendar as cal

PROPERTY = 'C11'
LEVEL = 'exploration'
RULE = ('values are generated from components (lexical year from leap/century/400-year marks on both sides of year 0, '
        '9999/10000, up to +-2^31; first/last day of year, Feb 28/29, 24:00:00, fractional seconds to 1 us; timezone '
        'absent or any whole minute in +-14:00; second operands independent, in an adjacent year, or within hours of the '
        'first with another timezone), rendered by own code to lexical forms and XPath text, for both XSD versions. '
        'Every elementpath result is observed through its string form / months / seconds and compared with vp/ref/'
        'calendar.py (own day-number arithmetic, exact Fractions). non-trivial = a year outside [1,9999], or a timezone '
        'on an operand, or day >= 29, or a fractional second, or (durations) both months and seconds or a negative '
        'value; distinct by canonical JSON case. durgrid: complete enumeration of a finite grid (month pairs up to 24 x the '
        'boundaries of the four XSD reference spans +- 12 h x sign) for the partial order of xs:duration. A quarter of '
        'the dateTime/date pairs straddle a year boundary (1 BCE|0001, -0001|0000, 9999|10000, -10000|-9999, ordinary '
        'years) with timezones built to swap the order of the year fields or to hit the same instant. adjhist: JSON '
        'histories of 2-3 evaluations sharing two python objects ($d, $z) handed to adjust-*-to-timezone by reference.')
ASSUMPTIONS = [
    'XSD 1.0 is self-inconsistent about which BCE years are leap (no year 0, yet Appendix E computes leap years from '
    'the lexical number): for XSD 1.0 values with a BCE year only implementation-independent laws are asserted '
    '(string and timeline round trips, (d+x)-x = d, d1+(d2-d1) = d2, order self-consistency, order against the '
    'reference only when both conventions agree, year-month addition with February clamping left open); no Feb 29 '
    'is generated for XSD 1.0 BCE years',
    'a value without timezone takes the implicit timezone of the dynamic context; with no context timezone (and in '
    'the python API) UTC, the default documented by elementpath.datatypes; adjust-*-to-timezone#1 is only judged '
    'with an explicit context timezone',
    'years with |year| > 2,000,000 (python timedelta cannot hold their timeline offset) and results beyond +-2^31: '
    'OverflowError (API) / FODT0001 (XPath) is accepted instead of the value; any value returned is still judged',
    'duration * / div by a number: results compared within 1 microsecond (F&O leaves the rounding open)',
    'the python-level year property is not judged (internal numbering); year-from-* through XPath is',
    'fn:max/min/sort/distinct-values/index-of: no verdict when only the implicit timezone of the context decides '
    '(one operand without timezone and a non-UTC context timezone): elementpath applies the implicit timezone in '
    'comparison and arithmetic operators only (limitation recorded, class minmax:implicit-tz-unjudged)',
    'xs:duration values that are incomparable in the XSD partial order: only < > = != are judged (all four reference '
    'dateTimes of XSD 3.3.6.2), not <= >=',
]
FLOORS = {
    'y:bce': (0.20, 'dt:case'), 'y:big': (0.08, 'dt:case'), 'xsd:1.0': (0.30, 'dt:case'), 'tz:some': (0.50, 'dt:case'),
    'h24': (0.02, 'dt:case'), 'frac': (0.15, 'dt:case'), 'day>=29': (0.20, 'dt:case'),
    'order:years-differ+tz': (0.10, 'order:case'), 'arith:crosses-year': (0.20, 'arith:case'),
    'ym:clamped': (0.10, 'arith:ym'), 'ref:judged': (0.70, 'dt:case'), 'ym:in-range': (0.25, 'arith:ym'),
    'dur:order-incomparable': (0.05, 'dur:duration'), 'xorder:implicit-tz': (0.03, 'xpath:case'),
    'adjyears:swapped-or-equal': (0.04, 'order:case'), 'adjyears:era:swapped-or-equal': (0.012, 'order:case'),
    'xadjyears:swapped-or-equal': (0.03, 'xpath:case'), 'xadjyears:era:swapped-or-equal': (0.01, 'xpath:case'),
    'diff-adjyears:era': (0.02, 'arith:case'), 'adjhist:no-arith': (0.5, 'adjhist:case'), 'minmax:judged': (0.3, 'xpath:case'),
}

BIG = 2 ** 31
TD_LIMIT = 2_000_000          # beyond: timedelta cannot represent the offset -> overflow accepted
FULL = ('dateTime', 'date', 'time')
GTYPES = ('gYear', 'gYearMonth', 'gMonth', 'gMonthDay', 'gDay')
HAS_YEAR = ('dateTime', 'date', 'gYear', 'gYearMonth')

# --------------------------------------------------------------------------
# strategies (JSON-able cases); a value holds the *lexical* year
# --------------------------------------------------------------------------
_MARKS = [1, 2, 3, 4, 5, 8, 96, 99, 100, 101, 104, 200, 300, 396, 399, 400, 401, 404, 800, 801, 1200, 1600, 1900,
          1970, 1999, 2000, 2001, 2023, 2024, 2100, 2400, 4000, 8000, 9996, 9999, 10000, 10001, 10004, 11999, 12000,
          99999, 100000, 1000000]
_HUGE = [TD_LIMIT + 1, 2_737_000, 2_738_000, BIG - 2, BIG - 1, BIG]
_MD = [(1, 1), (12, 31), (2, 28), (2, 29), (3, 1), (1, 31), (3, 31), (5, 31), (8, 31), (10, 31), (11, 30), (6, 30),
       (12, 30), (1, 2), None, None, None]
_TIMES = [(0, 0, 0, 0), (24, 0, 0, 0), (23, 59, 59, 999999), (23, 59, 59, 0), (0, 0, 0, 1), (12, 30, 15, 0),
          (0, 0, 0, 500000), (10, 0, 5, 50000), None, None, None, None]
_US = [0, 0, 0, 500000, 1, 999999, 120000, 50000, 123456, 10]
_TZS = [None, None, None, None, 0, 0, 840, -840, 839, -839, 330, -330, 1, -1, 60, -300, 'r', 'r', 'r']


@st.composite
def _lexyear(draw, xsd):
    k = draw(st.integers(0, 99))
    if k < 36:
        n = draw(st.sampled_from(_MARKS))
    elif k < 64:
        n = draw(st.integers(1, 12000))
    elif k < 76:
        n = draw(st.integers(1, 30))
    elif k < 86:
        n = draw(st.integers(9990, 10010))
    elif k < 93:
        n = draw(st.integers(10011, 200000))
    else:
        n = draw(st.sampled_from(_HUGE))
    if xsd == '1.1' and draw(st.integers(0, 39)) == 0:
        return 0
    return -n if draw(st.integers(0, 99)) < 45 else n


def _leap_ok(y, xsd):
    ay = cal.astro_year(y, xsd)
    return cal.is_leap(ay) and not (xsd == '1.0' and ay <= 0)


@st.composite
def _tz(draw):
    t = draw(st.sampled_from(_TZS))
    return draw(st.integers(-840, 840)) if t == 'r' else t


@st.composite
def _value(draw, xsd, year=None, yearless=False):
    y = draw(_lexyear(xsd)) if year is None else year
    md = draw(st.sampled_from(_MD))
    ay = cal.astro_year(y, xsd)
    if md is None:
        mo = draw(st.integers(1, 12))
        d = draw(st.integers(1, 31))
    else:
        mo, d = md
    if yearless:
        dim = cal.days_in_month(2000, mo)
    else:
        dim = cal.days_in_month(ay, mo)
        if mo == 2 and not _leap_ok(y, xsd):
            dim = 28
    d = min(d, dim)
    tm = draw(st.sampled_from(_TIMES))
    if tm is None:
        tm = (draw(st.integers(0, 23)), draw(st.integers(0, 59)), draw(st.integers(0, 59)), draw(st.sampled_from(_US)))
    return {'y': y, 'mo': mo, 'd': d, 'h': tm[0], 'mi': tm[1], 's': tm[2], 'us': tm[3], 'tz': draw(_tz())}


def _to_lex(rv, xsd):
    """reference value (astronomical year) -> JSON value (lexical year); avoids Feb 29 in XSD 1.0 BCE"""
    v = dict(rv)
    v['y'] = cal.lex_year(rv['y'], xsd)
    if xsd == '1.0' and rv['y'] <= 0 and v['mo'] == 2 and v['d'] == 29:
        v['d'] = 28
    return v


@st.composite
def _second(draw, xsd, a, t):
    """a second operand: independent / adjacent year / within hours of `a` in another timezone"""
    mode = draw(st.integers(0, 9))
    if mode < 3 or t not in HAS_YEAR or abs(a['y']) >= BIG - 2:
        return draw(_value(xsd, yearless=t in ('gMonthDay', 'gDay', 'gMonth', 'time')))
    if mode < 6:
        y = a['y'] + draw(st.sampled_from([-1, 0, 0, 1]))
        if y == 0 and xsd == '1.0':
            y = -1 if a['y'] > 0 else 1
        return draw(_value(xsd, year=y))
    ra = cal.normalize(dict(a, y=cal.astro_year(a['y'], xsd)))
    delta = draw(st.sampled_from([0, 0, 1, -1, 3600, -3600, 86400, -86400, 43200, 50400, -50400, 100800, -100800]))
    tz = draw(_tz())
    rb = cal.from_local_seconds(cal.instant(ra) + delta + (tz or 0) * 60 +
                                Fraction(draw(st.sampled_from([0, 0, 0, 1, -1, 500000])), 10 ** 6), tz)
    return _to_lex(rb, xsd)


_xsd = st.sampled_from(['1.0', '1.1'])

_BOUNDARY_YEARS = [0, 0, 0, 0, -1, -1, 9999, 9999, -10000, -10000, 1, -2, 10000, 'r', 'r', 'r']     # astronomical, earlier year
_TZ_WEST = [-840, -839, -720, -600, -330, -300, -60, -1, 0, None, 60]
_TZ_EAST = [840, 839, 720, 600, 330, 300, 60, 1, 0, None, -60]


@st.composite
def _boundary_pair(draw, xsd, t, itz=0):
    """two values on either side of a year boundary (astronomical Y-12-31 / Y+1-01-01) whose timezones (explicit,
    or the implicit one `itz` for values without) put them in the opposite order, on the same instant, or leave
    them free; Y from the era boundary (1 BCE / 0001), 0000/-0001 (XSD 1.1 numbering), 9999/10000, -10000/-9999
    and ordinary years"""
    Y = draw(st.sampled_from(_BOUNDARY_YEARS))
    if Y == 'r':
        Y = draw(st.integers(-12000, 12000))
    mode = draw(st.sampled_from(['equal', 'equal', 'swap', 'swap', 'free']))
    us = draw(st.sampled_from([0, 0, 0, 500000, 1, 999999]))
    tza = draw(st.sampled_from(_TZ_WEST))
    ea = itz if tza is None else tza
    if t == 'date':
        ra = cal.V(Y, 12, 31, tz=tza)
        tzb = draw(st.sampled_from(_TZ_EAST))
        if mode != 'free':
            want = ea + 1440 + (draw(st.sampled_from([1, 30, 60])) if mode == 'swap' else 0)
            tzb = want if want <= 840 else tzb
        rb = cal.V(Y + 1, 1, 1, tz=tzb)
    else:
        ra = cal.V(Y, 12, 31, draw(st.integers(10, 23)), draw(st.sampled_from([0, 0, 30, 59, 1])),
                   draw(st.sampled_from([0, 0, 59, 15])), us, tza)
        tzb = draw(st.sampled_from(_TZ_EAST))
        eb = itz if tzb is None else tzb
        if mode == 'free':
            rb = cal.V(Y + 1, 1, 1, draw(st.integers(0, 13)), draw(st.sampled_from([0, 0, 30, 59])), 0,
                       draw(st.sampled_from([0, 0, 500000])), tzb)
        else:
            inst = cal.instant(ra, itz)
            if mode == 'swap':
                inst -= Fraction(draw(st.sampled_from([1, 10 ** 6, 60 * 10 ** 6, 3600 * 10 ** 6])), 10 ** 6)
            rb = cal.from_local_seconds(inst + eb * 60, tzb)
    a, b = _to_lex(ra, xsd), _to_lex(rb, xsd)
    return (a, b) if draw(st.booleans()) else (b, a)


@st.composite
def _pair(draw, xsd, t, itz=0, dense=False):
    """the two operands of a binary check"""
    if t in ('dateTime', 'date') and draw(st.integers(0, 5)) < (3 if dense else 2):
        return draw(_boundary_pair(xsd, t, itz))
    a = draw(_value(xsd, yearless=t in ('gMonthDay', 'gDay', 'gMonth', 'time')))
    return a, draw(_second(xsd, a, t))


@st.composite
def _dur_us(draw):
    """a day-time duration in microseconds"""
    k = draw(st.integers(0, 9))
    if k == 0:
        mag = draw(st.sampled_from([0, 1, 999999, 1000000, 500000]))
    elif k < 3:
        mag = draw(st.integers(0, 100000)) * 10 ** 6 + draw(st.sampled_from(_US))
    elif k < 5:
        mag = draw(st.sampled_from([1, 2, 28, 29, 30, 31, 59, 60, 365, 366, 367, 730, 1461, 36524, 36525, 146097])) * 86400 * 10 ** 6
    elif k < 8:
        mag = draw(st.integers(0, 800)) * 86400 * 10 ** 6 + draw(st.integers(0, 86399)) * 10 ** 6 + draw(st.sampled_from(_US))
    else:
        mag = draw(st.integers(0, 10 ** 6)) * 86400 * 10 ** 6 + draw(st.integers(0, 86399)) * 10 ** 6
    return -mag if draw(st.booleans()) else mag


@st.composite
def _months(draw):
    k = draw(st.integers(0, 9))
    if k < 5:
        m = draw(st.integers(0, 36))
    elif k < 8:
        m = draw(st.sampled_from([12, 24, 48, 1200, 4800, 11, 13, 1, 6, 120000, 119999]))
    else:
        m = draw(st.integers(0, 10 ** 4 * 12))
    return -m if draw(st.booleans()) else m


@st.composite
def _case_value(draw):
    xsd = draw(_xsd)
    t = draw(st.sampled_from(FULL + FULL + GTYPES))
    return {'xsd': xsd, 't': t, 'a': draw(_value(xsd, yearless=t in ('gMonthDay', 'gDay', 'gMonth', 'time'))),
            'lv': draw(st.sampled_from([0, 0, 1, 2]))}


@st.composite
def _case_arith(draw):
    xsd = draw(_xsd)
    t = draw(st.sampled_from(['dateTime', 'dateTime', 'date', 'date', 'time']))
    a, b = draw(_pair(xsd, t))
    return {'xsd': xsd, 't': t, 'a': a, 'b': b, 'x': draw(_dur_us()), 'm': draw(_months())}


@st.composite
def _case_order(draw):
    xsd = draw(_xsd)
    t = draw(st.sampled_from(('dateTime', 'date') * 3 + FULL + FULL + GTYPES))
    a, b = draw(_pair(xsd, t, dense=True))
    c = draw(_second(xsd, draw(st.sampled_from([a, b])), t))
    return {'xsd': xsd, 't': t, 'a': a, 'b': b, 'c': c}


@st.composite
def _case_xpath(draw):
    xsd = draw(_xsd)
    t = draw(st.sampled_from(FULL + FULL + FULL + GTYPES))
    ctz = draw(st.sampled_from([None, None, 0, 300, -300, 840, -840, 330, 'r']))
    adj = draw(st.sampled_from([0, 600, -600, 840, -840, 330, -1, 'r']))
    ctz = draw(st.integers(-840, 840)) if ctz == 'r' else ctz
    adj = draw(st.integers(-840, 840)) if adj == 'r' else adj
    a, b = draw(_pair(xsd, t, ctz or 0))
    return {'xsd': xsd, 't': t, 'a': a, 'b': b, 'x': draw(_dur_us()), 'm': draw(_months()),
            'ctz': ctz, 'adj': adj, 'parser': draw(st.sampled_from(['2', '2', '31']))}


case_xpath = _case_xpath()

_ADJ_KINDS = ['adj2', 'adj2', 'adjE', 'adjE', 'adj1', 'for2', 'forE', 'for1', 'tuple2', 'tupleE', 'let2']


@st.composite
def _case_adjhist(draw):
    """a history of 2-3 evaluations that share the caller's python objects $d and $z"""
    xsd = draw(_xsd)
    t = draw(st.sampled_from(FULL))
    d = draw(_value(xsd, yearless=t == 'time'))
    if draw(st.booleans()):
        d = dict(d, tz=None)                       # 'value without timezone + timezone argument'
    z = draw(_second(xsd, d, t))
    steps = []
    for _ in range(draw(st.integers(2, 3))):
        ctz = draw(st.sampled_from([None, 0, 300, -300, 840, -840, 330, -1]))
        steps.append({'k': draw(st.sampled_from(_ADJ_KINDS)), 'adj': draw(st.sampled_from([0, 600, -600, 840, -840, 330, -1, 59])),
                      'ctz': ctz})
    return {'xsd': xsd, 't': t, 'd': d, 'z': z, 'steps': steps, 'parser': draw(st.sampled_from(['2', '31']))}

def _ymd(v):
    return v['y'], v['mo'], v['d']


_DUR_LEX_KINDS = ['canon', 'canon', 'hours', 'minutes', 'months', 'seconds', 'padded']


@st.composite
def _case_duration(draw):
    kind = draw(st.sampled_from(['dayTimeDuration', 'dayTimeDuration', 'yearMonthDuration', 'duration']))
    def one():
        m = draw(_months()) if kind != 'dayTimeDuration' else 0
        us = draw(_dur_us()) if kind != 'yearMonthDuration' else 0
        if m and us and (m < 0) != (us < 0):
            us = -us
        return m, us
    m1, us1 = one()
    m2, us2 = one()
    if draw(st.integers(0, 5)) == 0:
        m2, us2 = m1, us1
    elif kind == 'duration' and draw(st.booleans()):
        # more months against fewer months plus about as many days: the XSD order is partial here (P1M <> P30D,
        # P8M <> P6M60D) and is decided by single reference dateTimes; aim at the boundaries of the reference spans
        ma, mb = sorted([draw(st.integers(0, 40)), draw(st.integers(0, 40))])
        spans = [cal.days_from_civil(*_ymd(cal.add_months(r, mb))) - cal.days_from_civil(*_ymd(cal.add_months(r, ma)))
                 for r in cal._DUR_REFS]
        span = draw(st.sampled_from([min(spans) - 1, min(spans), max(spans), max(spans) + 1, (min(spans) + max(spans)) // 2]))
        extra = max(span * 86400 * 10 ** 6 + draw(st.sampled_from([-43200 * 10 ** 6, -1, 0, 0, 1, 43200 * 10 ** 6])), 0)
        base = draw(st.sampled_from([0, 0, 0, 1, 5 * 86400 * 10 ** 6]))
        sg = draw(st.sampled_from([1, 1, -1]))
        m1, us1, m2, us2 = mb * sg, base * sg, ma * sg, (base + extra) * sg
        if draw(st.booleans()):
            m1, us1, m2, us2 = m2, us2, m1, us1
    n = draw(st.sampled_from([[1, 1], [2, 1], [3, 1], [7, 1], [-1, 1], [-3, 1], [3, 2], [1, 4], [5, 2], [10, 1],
                              [1000, 1], [-7, 2], [1, 8]]))
    return {'kind': kind, 'm1': m1, 'us1': us1, 'm2': m2, 'us2': us2, 'n': n,
            'lex': draw(st.sampled_from(_DUR_LEX_KINDS)), 'xsd': draw(_xsd), 'parser': draw(st.sampled_from(['2', '31']))}


# --------------------------------------------------------------------------
# own lexical rendering / parsing
# --------------------------------------------------------------------------

def fmt(t, rv, xsd, lv=0):
    """lexical form of reference value rv (astronomical year) for type t; lv>0: non-canonical variants"""
    tz = cal.fmt_tz(rv['tz'])
    if lv and rv['tz'] == 0:
        tz = '+00:00' if lv == 1 else '-00:00'
    ys = cal.fmt_year(cal.lex_year(rv['y'], xsd))
    sec = cal.fmt_seconds(rv['s'], rv['us'])
    if lv == 1 and rv['us']:
        sec += '00'
    elif lv == 2 and not rv['us']:
        sec += '.000'
    tm = '%02d:%02d:%s' % (rv['h'], rv['mi'], sec)
    if t == 'dateTime':
        return '%s-%02d-%02dT%s%s' % (ys, rv['mo'], rv['d'], tm, tz)
    if t == 'date':
        return '%s-%02d-%02d%s' % (ys, rv['mo'], rv['d'], tz)
    if t == 'time':
        return tm + tz
    if t == 'gYear':
        return ys + tz
    if t == 'gYearMonth':
        return '%s-%02d%s' % (ys, rv['mo'], tz)
    if t == 'gMonth':
        return '--%02d%s' % (rv['mo'], tz)
    if t == 'gMonthDay':
        return '--%02d-%02d%s' % (rv['mo'], rv['d'], tz)
    if t == 'gDay':
        return '---%02d%s' % (rv['d'], tz)
    raise AssertionError(t)


_TZ_RE = r'(Z|[+-]\d\d:\d\d)?$'
_PARSE = {
    'dateTime': re.compile(r'^(?P<y>-?\d{4,})-(?P<mo>\d\d)-(?P<d>\d\d)T(?P<h>\d\d):(?P<mi>\d\d):(?P<s>\d\d)(?:\.(?P<f>\d+))?' + _TZ_RE),
    'date': re.compile(r'^(?P<y>-?\d{4,})-(?P<mo>\d\d)-(?P<d>\d\d)' + _TZ_RE),
    'time': re.compile(r'^(?P<h>\d\d):(?P<mi>\d\d):(?P<s>\d\d)(?:\.(?P<f>\d+))?' + _TZ_RE),
    'gYear': re.compile(r'^(?P<y>-?\d{4,})' + _TZ_RE),
    'gYearMonth': re.compile(r'^(?P<y>-?\d{4,})-(?P<mo>\d\d)' + _TZ_RE),
}


def parse_lex(t, s):
    """own parser of a canonical dateTime/date/time string -> dict with lexical year, or None"""
    m = _PARSE[t].match(s)
    if not m:
        return None
    g = m.groupdict()
    tzs = m.groups()[-1]
    if tzs is None:
        tz = None
    elif tzs == 'Z':
        tz = 0
    else:
        tz = (int(tzs[1:3]) * 60 + int(tzs[4:6])) * (-1 if tzs[0] == '-' else 1)
    out = {'tz': tz}
    for k in ('y', 'mo', 'd', 'h', 'mi', 's'):
        if g.get(k) is not None:
            out[k] = int(g[k])
    if 'f' in g:
        out['us'] = int((g['f'] or '0').ljust(6, '0')[:6])
    return out


def diff_fields(t, exp_s, obs_s):
    """which fields differ between two lexical strings (for the bucket)"""
    if not isinstance(obs_s, str):
        return 'type'
    e, o = parse_lex(t, exp_s), parse_lex(t, obs_s)
    if e is None or o is None:
        return 'lexical'
    ds = [k for k in ('y', 'mo', 'd', 'h', 'mi', 's', 'us', 'tz') if e.get(k) != o.get(k)]
    if ds == ['y']:
        dy = o['y'] - e['y']
        return 'year%+d' % dy if abs(dy) <= 2 else 'year'
    return '+'.join(ds) or 'lexical'


def yclass(vals, xsd):
    """year class of reference values (astronomical years)"""
    ys = [v['y'] for v in vals]
    if any(abs(y) > TD_LIMIT for y in ys):
        return 'huge'
    if any(y <= 0 for y in ys):
        return 'bce'
    if any(y > 9999 for y in ys):
        return 'big'
    return 'ce'


def _amb(xsd, *rvs):
    """XSD 1.0 with a BCE (astronomical year <= 0) value involved: leap years are not well defined"""
    return xsd == '1.0' and any(rv['y'] <= 0 for rv in rvs)


def _huge(*rvs):
    return any(abs(rv['y']) > TD_LIMIT for rv in rvs)


def _us_dec(us):
    return Decimal(us).scaleb(-6)


_Z = dict(h=0, mi=0, s=0, us=0)


def _ref(v, xsd, t='dateTime'):
    """JSON value (lexical year) -> reference value (astronomical year) holding only the fields of type t; the
    other fields take the F&O 9.4 reference values (1972-12-31 / 00:00:00), so every value is a dateTime"""
    rv = dict(v, y=cal.astro_year(v['y'], xsd))
    if t == 'dateTime':
        return rv
    if t == 'date':
        return dict(rv, **_Z)
    if t == 'time':
        return dict(rv, y=1972, mo=12, d=31)
    if t == 'gYear':
        return dict(rv, mo=1, d=1, **_Z)
    if t == 'gYearMonth':
        return dict(rv, d=1, **_Z)
    if t == 'gMonth':
        return dict(rv, y=1972, d=1, **_Z)
    if t == 'gMonthDay':
        return dict(rv, y=1972, **_Z)
    if t == 'gDay':
        return dict(rv, y=1972, mo=12, **_Z)
    raise AssertionError(t)


def _canon(t, rv):
    """the value as held/printed: 24:00:00 is 00:00:00 of the next day (xs:time: of the same day)"""
    if t == 'time':
        return dict(rv, h=0) if rv['h'] == 24 else dict(rv)
    return cal.normalize(rv)


def _inst(t, rv, itz=0):
    """instant of the F&O reference dateTime of the value (implicit timezone itz minutes)"""
    return cal.instant(_canon(t, rv), itz or 0)


def _gate(t, rv, xsd):
    """input classes that are never judged ('open'). (The classes whose construction or printing was wrong on the
    pinned tree - 24:00:00 on Dec 31 outside 1..9999, Feb 29 of years > 9999 and years <= -9999 under XSD 1.1 -
    were gated here until their repairs were committed; they are ordinary inputs now.)"""
    if xsd == '1.0' and t == 'dateTime' and rv['y'] <= 0 and rv['h'] == 24 and (rv['mo'], rv['d']) == (2, 28):
        return 'open'           # XSD 1.0 BCE: which day follows Feb 28 is not defined -> never judged
    return None


def _res_fam(xsd, r):
    """input class of an expected (intermediate) dateTime result r"""
    fams = []
    if xsd == '1.1' and r['y'] > 9999 and (r['mo'], r['d']) == (2, 29):
        fams.append('res-feb29-big-1.1')
    if r['y'] < 0 and (r['mo'], r['d']) == (1, 1) and (r['h'], r['mi'], r['s'], r['us']) != (0, 0, 0, 0):
        fams.append('res-bce-jan1Tx')
    if xsd == '1.1' and cal.lex_year(r['y'], xsd) <= -9999:
        fams.append('res-print-1.1-le--9999')
    return fams


_FAM_PRIORITY = ['radd-dayTime-dateTime', 'neg-frac', 'time-dur>=730000d', 'bce@1.0', 'res-feb29-big-1.1', 'res-bce-jan1Tx',
                 'res-print-1.1-le--9999', 'ym-year-out-of-range', 'adjust-date-moves-day', 'implicit-tz', 'years-differ+tz',
                 'cmp-leap-proxy-big-1.1']


def _fam(*parts):
    """the primary input class of an assertion: the first applicable known-defect class in _FAM_PRIORITY (the one
    that corrupts the observation earliest), else 'plain'"""
    out = []
    for p in parts:
        for f in ([p] if isinstance(p, str) else (p or [])):
            if f and f != 'plain' and f not in out:
                out.append(f)
    for f in _FAM_PRIORITY:
        if f in out:
            return f
    assert not out, out
    return 'plain'


def _bk(fam, kind, where):
    return f'C11/{fam}/{kind}/{where}'


def _esc(e, fam, where):
    """exception escaping elementpath: the failure kind is type + innermost elementpath frame"""
    return f'C11/{fam}/' + escape_bucket('C11', e).replace('C11/escape/', 'escape:') + f'/{where}'


def _classes_of(vals, t):
    """vals: reference values"""
    cl = ['dt:case', 't:' + t]
    yl = t in HAS_YEAR
    if yl and any(v['y'] <= 0 for v in vals):
        cl.append('y:bce')
    if yl and any(abs(v['y']) > 9999 for v in vals):
        cl.append('y:big')
    if yl and any(abs(v['y']) > TD_LIMIT for v in vals):
        cl.append('y:huge')
    if any(v['tz'] is not None for v in vals):
        cl.append('tz:some')
    if len({v['tz'] for v in vals}) > 1:
        cl.append('tz:differ')
    if t in ('dateTime', 'time') and any(v['h'] == 24 for v in vals):
        cl.append('h24')
    if t in ('dateTime', 'time') and any(v['us'] for v in vals):
        cl.append('frac')
    if t in ('dateTime', 'date', 'gMonthDay', 'gDay') and any(v['d'] >= 29 for v in vals):
        cl.append('day>=29')
    return cl


def _nontrivial(cl):
    return any(c in cl for c in ('y:bce', 'y:big', 'tz:some', 'day>=29', 'frac'))


def _api_classes(xsd):
    import elementpath.datatypes as D
    if xsd == '1.0':
        return {'dateTime': D.DateTime10, 'date': D.Date10, 'time': D.Time, 'gYear': D.GregorianYear10,
                'gYearMonth': D.GregorianYearMonth10, 'gMonth': D.GregorianMonth, 'gMonthDay': D.GregorianMonthDay,
                'gDay': D.GregorianDay}
    return {'dateTime': D.DateTime, 'date': D.Date, 'time': D.Time, 'gYear': D.GregorianYear,
            'gYearMonth': D.GregorianYearMonth, 'gMonth': D.GregorianMonth, 'gMonthDay': D.GregorianMonthDay,
            'gDay': D.GregorianDay}


def _is_overflow(e):
    from elementpath import ElementPathError
    if isinstance(e, ElementPathError):
        return str(getattr(e, 'code', '')).endswith(('FODT0001', 'FODT0002'))
    return isinstance(e, OverflowError)


def _ref_add_us(t, rv, us):
    """F&O op:add-dayTimeDuration-to-{dateTime,date,time}; returns (result, intermediate dateTime)"""
    sec = Fraction(us, 10 ** 6)
    c = _canon(t, rv)
    if t == 'time':
        tod = (c['h'] * 3600 + c['mi'] * 60 + c['s']) * 10 ** 6 + c['us']
        tod = (tod + us) % (86400 * 10 ** 6)
        s_, us_ = divmod(tod, 10 ** 6)
        r = dict(c, h=s_ // 3600, mi=s_ // 60 % 60, s=s_ % 60, us=us_)
        return r, r
    mid = cal.add_seconds(c, sec)
    return (dict(mid, **_Z) if t == 'date' else mid), mid


# --------------------------------------------------------------------------
# check 'value': lexical round trip, timeline offset round trip (python API)
# --------------------------------------------------------------------------

def _build(C, t, rv, xsd, lv, discs, where, gate):
    """construct through fromstring; returns the object or None (after recording an escape)"""
    s = fmt(t, rv, xsd, lv)
    try:
        return C[t].fromstring(s)
    except Exception as e:
        if t in HAS_YEAR and abs(cal.lex_year(rv['y'], xsd)) >= BIG - 1 and isinstance(e, OverflowError):
            return None
        discs.append(Disc(_esc(e, gate or 'plain', f'{where}/fromstring/{t}'), 'value', repr(e), s))
        return None


def _operand(C, t, rv, xsd, discs, where, cl):
    """operand of a non-'value' check: None if its class is gated or it does not print as expected"""
    g = _gate(t, rv, xsd)
    if g:
        cl.append('gated:' + g)
        return None
    obj = _build(C, t, rv, xsd, 0, discs, where, None)
    if obj is not None and str(obj) != fmt(t, _canon(t, rv), xsd):
        cl.append('gated:str-mismatch')          # reported by the 'value' check
        return None
    return obj


def judge_value(case, rec: Recorder | None = None):
    import datetime
    xsd, t, v, lv = case['xsd'], case['t'], case['a'], case['lv']
    C = _api_classes(xsd)
    discs: list[Disc] = []
    rv = _ref(v, xsd, t)
    cl = _classes_of([rv], t) + ['xsd:' + xsd]
    gate = _gate(t, rv, xsd)
    judged = False
    obj = None if gate == 'open' else _build(C, t, rv, xsd, lv, discs, 'value', gate)
    if obj is not None:
        fam = gate or 'plain'
        cv = _canon(t, rv)
        want = fmt(t, cv, xsd)
        got = str(obj)
        ok = got == want
        if not ok:
            k = diff_fields(t, want, got) if t in _PARSE else 'lexical'
            discs.append(Disc(_bk(fam, k, f'value/str/{t}'), want, got, fmt(t, rv, xsd, lv)))
        else:
            try:
                back = C[t].fromstring(got)
                if str(back) != got or not (back == obj) or (back != obj):
                    discs.append(Disc(_bk(fam, 'value', f'value/fromstring-str-roundtrip/{t}'), got, str(back)))
            except Exception as e:
                discs.append(Disc(_esc(e, fam, f'value/reparse/{t}'), got, repr(e)))
            # plain field properties
            fields = {'dateTime': ('month', 'day', 'hour', 'minute', 'second', 'microsecond'), 'date': ('month', 'day'),
                      'time': ('hour', 'minute', 'second', 'microsecond'), 'gYear': (), 'gYearMonth': ('month',),
                      'gMonth': ('month',), 'gMonthDay': ('month', 'day'), 'gDay': ('day',)}[t]
            key = {'month': 'mo', 'day': 'd', 'hour': 'h', 'minute': 'mi', 'second': 's', 'microsecond': 'us'}
            for f in fields:
                if getattr(obj, f) != cv[key[f]]:
                    discs.append(Disc(_bk(fam, f, f'value/property/{t}'), cv[key[f]], getattr(obj, f), want))
            off = obj.tzinfo.utcoffset(None) if obj.tzinfo is not None else None
            if (None if off is None else off // datetime.timedelta(minutes=1)) != v['tz']:
                discs.append(Disc(_bk(fam, 'tzinfo', f'value/property/{t}'), v['tz'], off, want))
            judged = t not in ('dateTime', 'date')
            if t in ('dateTime', 'date') and not gate:
                judged = _value_delta(C, t, obj, rv, xsd, discs, want)
    if rec is not None:
        if judged:
            cl.append('ref:judged')
        rec.case(case, nontrivial=_nontrivial(cl), sample={'check': 'value', 'case': case}, classes=cl)
    return discs


def _td_fraction(td):
    return Fraction(td.days * 86400 + td.seconds) + Fraction(td.microseconds, 10 ** 6)


def _value_delta(C, t, obj, rv, xsd, discs, want):
    """todelta() against the reference instant; fromdelta(todelta()) is the identity (values without timezone:
    same string; dateTimes with timezone: the UTC-normalised dateTime). returns True if the reference offset was
    compared"""
    huge = _huge(rv)
    amb = _amb(xsd, rv)
    cv = _canon(t, rv)
    fam0 = 'bce@1.0' if amb else 'plain'
    try:
        td = obj.todelta()
    except Exception as e:
        if not (huge and _is_overflow(e)):
            discs.append(Disc(_esc(e, fam0, f'value/todelta/{t}'), 'timedelta', repr(e), want))
        return False
    judged = False
    if not amb:
        judged = True
        exp = cal.instant(cv, 0)
        if _td_fraction(td) != exp:
            dd = _td_fraction(td) - exp
            kind = 'days%+d' % (dd / 86400) if dd % 86400 == 0 and abs(dd) <= 2 * 86400 else 'value'
            discs.append(Disc(_bk(yclass([rv], xsd), kind, f'value/todelta/{t}'), str(exp), str(_td_fraction(td)), want))
            return judged
    if t == 'date' and rv['tz'] is not None:
        return judged               # fromdelta drops the time part by design: no identity for dates with timezone
    if rv['tz'] is None:
        exp_back, mid = want, cv
    elif not amb:
        mid = cal.from_local_seconds(cal.instant(cv, 0), None)       # the UTC-normalised value
        exp_back = fmt(t, mid, xsd)
    else:
        exp_back = mid = None
    try:
        back = C[t].fromdelta(td)
    except Exception as e:
        if not (huge and _is_overflow(e)):
            discs.append(Disc(_esc(e, _fam(fam0, _res_fam(xsd, mid) if mid else None), f'value/fromdelta/{t}'), want, repr(e), str(td)))
        return judged
    same = str(back) == exp_back
    if exp_back is not None and not same and rv['tz'] is not None:
        # with a timezone only the instant must survive (the form of the result is elementpath's choice)
        got = parse_lex(t, str(back))
        if got is not None and 'us' in got:
            g = dict(got, y=cal.astro_year(got['y'], xsd)) if got['y'] or xsd == '1.1' else None
            same = g is not None and cal.days_in_month(g['y'], g['mo']) >= g['d'] and cal.instant(g, 0) == cal.instant(cv, 0)
    if exp_back is not None and not same:
        fam = _fam('bce@1.0' if amb else None, _res_fam(xsd, mid))
        discs.append(Disc(_bk(fam, diff_fields(t, exp_back, str(back)), f'value/fromdelta-todelta/{t}'),
                          exp_back, str(back), f'{want} todelta={td!r}'))
    elif exp_back is None:
        # XSD 1.0 BCE dateTime with timezone: a second trip must reproduce the offset
        try:
            if back.todelta() != td:
                discs.append(Disc(_bk('bce@1.0', 'value', f'value/todelta-fromdelta-todelta/{t}'), str(td), str(back.todelta()), want))
        except Exception as e:
            discs.append(Disc(_esc(e, 'bce@1.0', f'value/todelta2/{t}'), 'timedelta', repr(e), want))
    return judged


# --------------------------------------------------------------------------
# check 'arith': + - with dayTime / yearMonth durations, differences (python API)
# --------------------------------------------------------------------------
_TIME_DUR_LIMIT = 730000 * 86400 * 10 ** 6      # xs:time +- x: beyond this python's datetime proxy overflows


def _time_fam(t, x):
    return 'time-dur>=730000d' if t == 'time' and abs(x) >= _TIME_DUR_LIMIT else None


def judge_arith(case, rec: Recorder | None = None):
    import elementpath.datatypes as D
    xsd, t, x, m = case['xsd'], case['t'], case['x'], case['m']
    C = _api_classes(xsd)
    discs: list[Disc] = []
    ra, rb = _ref(case['a'], xsd, t), _ref(case['b'], xsd, t)
    cl = _classes_of([ra, rb], t) + ['arith:case', 'xsd:' + xsd] + ['diff-' + c for c in _pair_classes(t, ra, rb)]
    A = _operand(C, t, ra, xsd, discs, 'arith', cl)
    B = _operand(C, t, rb, xsd, discs, 'arith', cl)
    judged = False
    ca = _canon(t, ra)
    sa = fmt(t, ca, xsd)
    if A is not None:
        X = D.DayTimeDuration(seconds=_us_dec(x))
        xs_ = cal.fmt_duration(0, Fraction(x, 10 ** 6))
        for opn, sign in (('add', 1), ('sub', -1)):
            exp, mid = _ref_add_us(t, ra, sign * x)
            back, mid2 = _ref_add_us(t, exp, -sign * x)
            yl = t != 'time'
            amb = yl and _amb(xsd, ra, exp)
            huge = yl and (_huge(ra, exp) or abs(exp['y']) >= BIG - 1)
            if yl and ca['y'] != exp['y']:
                cl.append('arith:crosses-year')
            fam = _fam('bce@1.0' if amb else None, _time_fam(t, x), _res_fam(xsd, mid) if yl else None)
            where = f'arith/{opn}-dayTime/{t}'
            desc = f'{sa} {"+" if sign > 0 else "-"} {xs_}'
            try:
                R = A + X if sign > 0 else A - X
            except Exception as e:
                if not (huge and _is_overflow(e)):
                    discs.append(Disc(_esc(e, fam, where), 'value', repr(e), desc))
                continue
            want = fmt(t, exp, xsd)
            if not amb:
                judged = True
                if str(R) != want:
                    discs.append(Disc(_bk(fam, diff_fields(t, want, str(R)), where), want, str(R), desc))
                    continue
            # inverse law: (a + x) - x = a (dates: up to the truncation to whole days F&O defines)
            fam2 = _fam(fam, _res_fam(xsd, mid2) if yl else None)
            try:
                R2 = R - X if sign > 0 else R + X
            except Exception as e:
                if not (huge and _is_overflow(e)):
                    discs.append(Disc(_esc(e, fam2, f'arith/inverse-dayTime/{t}'), sa, repr(e), f'({desc}) inverse'))
                continue
            want2 = fmt(t, back, xsd)
            if amb and t == 'date':
                continue            # truncation depends on the open leap rule
            if str(R2) != want2:
                discs.append(Disc(_bk(fam2, diff_fields(t, want2, str(R2)), f'arith/inverse-dayTime/{t}'), want2, str(R2),
                                  f'({desc}) inverse'))
        if t in ('dateTime', 'date'):
            cl.append('arith:ym')
            judged = _judge_ym(D, A, t, ra, m, xsd, sa, discs, cl) or judged
    if A is not None and B is not None:
        judged = _judge_diff(D, A, B, t, ra, rb, xsd, discs) or judged
    if rec is not None:
        if judged:
            cl.append('ref:judged')
        rec.case(case, nontrivial=_nontrivial(cl), sample={'check': 'arith', 'case': case}, classes=cl)
    return discs


def _ym_expect(t, ra, months, xsd):
    """(expected value, family, acceptable alternative string or None)"""
    src = _canon(t, ra)
    exp = cal.add_months(src, months)
    fams = []
    if not (1 <= src['y'] <= 9999 and 1 <= exp['y'] <= 9999):
        fams.append('ym-year-out-of-range')
    feb_open = xsd == '1.0' and exp['y'] <= 0 and exp['mo'] == 2 and src['d'] >= 29
    alt = fmt(t, dict(exp, d=29 if exp['d'] == 28 else 28), xsd) if feb_open else None
    return src, exp, _fam(fams), alt


def _judge_ym(D, A, t, ra, m, xsd, sa, discs, cl):
    judged = False
    for opn, months in (('add', m), ('sub', -m)):
        src, exp, fam, alt = _ym_expect(t, ra, months, xsd)
        if exp['d'] != src['d']:
            cl.append('ym:clamped')
        if fam == 'plain':
            cl.append('ym:in-range')
        over = abs(exp['y']) >= BIG - 1
        where = f'arith/{opn}-yearMonth/{t}'
        desc = f'{sa} {"+" if opn == "add" else "-"} {m} months'
        try:
            R = A + D.YearMonthDuration(m) if opn == 'add' else A - D.YearMonthDuration(m)
        except Exception as e:
            if not (over and _is_overflow(e)):
                discs.append(Disc(_esc(e, fam, where), fmt(t, exp, xsd), repr(e), desc))
            continue
        judged = True
        want = fmt(t, exp, xsd)
        if str(R) != want and str(R) != alt:
            discs.append(Disc(_bk(fam, diff_fields(t, want, str(R)), where), want, str(R), desc))
    return judged


def _diff_fam(exp):
    return 'neg-frac' if exp < 0 and exp.denominator != 1 else None


def _judge_diff(D, A, B, t, ra, rb, xsd, discs):
    """b - a = true elapsed time; a + (b - a) = b"""
    judged = False
    yl = t != 'time'
    # python's timedelta holds at most 999999999 days (~2.7 million years): a span beyond that overflows as well
    huge = yl and (_huge(ra, rb) or abs(ra['y'] - rb['y']) > TD_LIMIT)
    amb = yl and _amb_between(xsd, t, ra, rb)
    sa, sb = fmt(t, _canon(t, ra), xsd), fmt(t, _canon(t, rb), xsd)
    exp = _inst(t, rb) - _inst(t, ra)
    fam = _fam('bce@1.0' if amb else None, _diff_fam(exp))
    try:
        Dd = B - A
    except Exception as e:
        if not (huge and _is_overflow(e)):
            discs.append(Disc(_esc(e, fam, f'arith/difference/{t}'), 'duration', repr(e), f'{sb} - {sa}'))
        return False
    if not isinstance(Dd, D.DayTimeDuration):
        discs.append(Disc(_bk(fam, 'type', f'arith/difference/{t}'), 'DayTimeDuration', type(Dd).__name__))
        return False
    got = Fraction(Dd.seconds)
    if not amb:
        judged = True
        if got != exp or Dd.months:
            dd = got - exp
            kind = 'days%+d' % (dd / 86400) if dd % 86400 == 0 and abs(dd) <= 2 * 86400 else \
                'floor-minus-fraction' if got == 2 * (exp.numerator // exp.denominator) - exp else 'value'
            discs.append(Disc(_bk(fam, kind, f'arith/difference/{t}'), cal.fmt_duration(0, exp), str(Dd), f'{sb} - {sa}'))
            return judged
    # a + (b - a) = b : same instant as b, in a's timezone (dates: the day containing it)
    if amb:
        if ra['tz'] != rb['tz'] or t == 'date' or _diff_fam(exp):
            return judged           # (a negative fractional difference is already wrong: known class neg-frac)
        want, mid = sb, _canon(t, rb)
    else:
        exp_r, mid = _ref_add_us(t, ra, int(exp * 10 ** 6))
        want = fmt(t, exp_r, xsd)
    fam = _fam(fam, _res_fam(xsd, mid) if yl else None, _time_fam(t, int(exp * 10 ** 6)))
    try:
        R = A + Dd
    except Exception as e:
        if not (huge and _is_overflow(e)):
            discs.append(Disc(_esc(e, fam, f'arith/add-difference/{t}'), sb, repr(e), f'{sa} + ({sb} - {sa})'))
        return judged
    if str(R) != want:
        discs.append(Disc(_bk(fam, diff_fields(t, want, str(R)), f'arith/add-difference/{t}'), want, str(R), f'{sa} + ({sb} - {sa})'))
    return judged


# --------------------------------------------------------------------------
# check 'order': comparison operators against the instants (python API)
# --------------------------------------------------------------------------
import operator as _op
_OPS = [('lt', _op.lt), ('le', _op.le), ('eq', _op.eq), ('ne', _op.ne), ('ge', _op.ge), ('gt', _op.gt)]


_FEB_END = ((2, 26), (2, 27), (2, 28), (2, 29), (3, 1), (3, 2), (3, 3))


def _amb_between(xsd, t, r1, r2):
    """XSD 1.0: the elapsed time between two values is only open when the end of February of a BCE year
    (astronomical year <= 0) lies between them (2 days margin for timezones)"""
    if xsd != '1.0' or t not in HAS_YEAR:
        return False
    lo, hi = sorted([cal.instant(_canon(t, r1), 0), cal.instant(_canon(t, r2), 0)])
    lo, hi = lo - 2 * 86400, hi + 2 * 86400
    ylo = min(r1['y'], r2['y']) - 1
    if ylo > 0:
        return False
    if hi - lo > 367 * 86400:
        return True
    return any(y <= 0 and lo <= cal.instant(cal.V(y, 3, 1), 0) <= hi for y in range(ylo, max(r1['y'], r2['y']) + 2))


def _rel(x, y):
    return '<' if x < y else '>' if x > y else '='


_TRUTH = {'<': {'lt': True, 'le': True, 'eq': False, 'ne': True, 'ge': False, 'gt': False},
          '=': {'lt': False, 'le': True, 'eq': True, 'ne': False, 'ge': True, 'gt': False},
          '>': {'lt': False, 'le': False, 'eq': False, 'ne': True, 'ge': True, 'gt': True}}


def _order_verdict(t, xsd, r1, r2, itz=0):
    """reference relation of two values, or None where XSD 1.0 BCE leaves it open (the two leap conventions
    differ by at most one day between any two dates)"""
    i1, i2 = _inst(t, r1, itz), _inst(t, r2, itz)
    if t in HAS_YEAR and _amb(xsd, r1, r2):
        e1 = r1['tz'] if r1['tz'] is not None else itz
        e2 = r2['tz'] if r2['tz'] is not None else itz
        # within a day of each other the conventions can only disagree when the end of February lies between
        if e1 != e2 and abs(i1 - i2) <= 86400 and \
                any((c['mo'], c['d']) in _FEB_END for c in (_canon(t, r1), _canon(t, r2))):
            return None
    return _rel(i1, i2)


_BOUNDARY_NAMES = {0: 'era', -1: '-0001|0000', 9999: '9999|10000', -10000: '-10000|-9999'}


def _pair_classes(t, r1, r2, itz=0):
    """histogram classes of a pair: local years adjacent, at which boundary, and whether the instants order the
    two against their year fields (swapped) or make them equal"""
    if t not in ('dateTime', 'date'):
        return []
    c1, c2 = _canon(t, r1), _canon(t, r2)
    if abs(c1['y'] - c2['y']) != 1:
        return []
    lo = min(c1['y'], c2['y'])
    name = _BOUNDARY_NAMES.get(lo, 'ordinary')
    i1, i2 = _inst(t, r1, itz), _inst(t, r2, itz)
    rel = 'equal' if i1 == i2 else 'swapped' if (i1 < i2) != (c1['y'] < c2['y']) else 'year-order'
    out = ['adjyears', 'adjyears:' + name, 'adjyears:' + rel]
    if rel != 'year-order':
        out += ['adjyears:swapped-or-equal', f'adjyears:{name}:swapped-or-equal']
    return out


def _pair_fam(t, r1, r2, xsd):
    """'years-differ+tz': the local years differ and a timezone is present (the order is decided by instants);
    'cmp-leap-proxy-big-1.1': XSD 1.1, same year > 9999 whose successor has another leap status, timezones differ and
    a value lies within a day of the end of February (the proxy year has the wrong February)"""
    if t not in HAS_YEAR:
        return 'plain'
    c1, c2 = _canon(t, r1), _canon(t, r2)
    if c1['y'] != c2['y'] and (r1['tz'] is not None or r2['tz'] is not None):
        return 'years-differ+tz'
    y = c1['y']
    if xsd == '1.1' and y > 9999 and r1['tz'] != r2['tz'] and cal.is_leap(y) != cal.is_leap(y + 1) and \
            any((c['mo'], c['d']) in ((2, 27), (2, 28), (2, 29), (3, 1), (3, 2)) for c in (c1, c2)):
        return 'cmp-leap-proxy-big-1.1'
    return 'plain'


def judge_order(case, rec: Recorder | None = None):
    xsd, t = case['xsd'], case['t']
    C = _api_classes(xsd)
    discs: list[Disc] = []
    refs = [_ref(case[k], xsd, t) for k in 'abc']
    cl = _classes_of(refs, t) + ['order:case', 'xsd:' + xsd]
    objs = [_operand(C, t, r, xsd, discs, 'order', cl) for r in refs]
    judged = False
    ops = _OPS if t in FULL else [o for o in _OPS if o[0] in ('eq', 'ne')]
    rels = {}
    for i in range(3):
        for j in range(3):
            if i == j or objs[i] is None or objs[j] is None:
                continue
            pf = _pair_fam(t, refs[i], refs[j], xsd)
            if i < j:
                cl.append('order:' + pf)
                cl.extend(_pair_classes(t, refs[i], refs[j]))
            verdict = _order_verdict(t, xsd, refs[i], refs[j])
            desc = f'{fmt(t, refs[i], xsd)} vs {fmt(t, refs[j], xsd)}'
            obs = {}
            for name, f in ops:
                try:
                    obs[name] = f(objs[i], objs[j])
                except Exception as e:
                    discs.append(Disc(_esc(e, pf, f'order/{name}/{t}'), 'bool', repr(e), desc))
            rels[(i, j)] = obs
            if verdict is not None:
                judged = True
                bad = sorted(n for n in obs if obs[n] != _TRUTH[verdict][n])
                if bad:
                    kind = 'eq' if set(bad) <= {'eq', 'ne'} else 'order'
                    discs.append(Disc(_bk(pf, kind, f'order/compare/{t}'), f'{verdict} ({ {n: _TRUTH[verdict][n] for n in bad} })',
                                      {n: obs[n] for n in bad}, desc))
            elif len(obs) == 6:
                n_true = [obs['lt'], obs['eq'], obs['gt']].count(True)
                if n_true != 1 or obs['le'] != (obs['lt'] or obs['eq']) or obs['ge'] != (obs['gt'] or obs['eq']) \
                        or obs['ne'] == obs['eq']:
                    discs.append(Disc(_bk(_fam('bce@1.0', pf), 'trichotomy', f'order/compare/{t}'), 'exactly one of < = >', obs, desc))
    if t in FULL and all(o is not None for o in objs) and len(rels) == 6 and all(len(r) == 6 for r in rels.values()):
        for i, j in ((0, 1), (0, 2), (1, 2)):
            if rels[(i, j)]['lt'] != rels[(j, i)]['gt'] or rels[(i, j)]['eq'] != rels[(j, i)]['eq']:
                discs.append(Disc(_bk(_pair_fam(t, refs[i], refs[j], xsd), 'converse', f'order/compare/{t}'), 'a<b iff b>a',
                                  [rels[(i, j)], rels[(j, i)]], f'{fmt(t, refs[i], xsd)} vs {fmt(t, refs[j], xsd)}'))
        for i, j, k in ((0, 1, 2), (0, 2, 1), (1, 0, 2), (1, 2, 0), (2, 0, 1), (2, 1, 0)):
            if rels[(i, j)]['le'] and rels[(j, k)]['le'] and not rels[(i, k)]['le']:
                pfs = {_pair_fam(t, refs[p], refs[q], xsd) for p, q in ((i, j), (j, k), (i, k))}
                discs.append(Disc(_bk('years-differ+tz' if 'years-differ+tz' in pfs else 'plain', 'transitivity', f'order/compare/{t}'),
                                  'a<=b and b<=c implies a<=c', 'violated', ' , '.join(fmt(t, refs[p], xsd) for p in (i, j, k))))
                break
    if rec is not None:
        if judged:
            cl.append('ref:judged')
        rec.case(case, nontrivial=_nontrivial(cl), sample={'check': 'order', 'case': case}, classes=sorted(set(cl)))
    return discs


# --------------------------------------------------------------------------
# check 'xpath': the same laws through XPath expressions, implicit timezone, adjust-*, components
# --------------------------------------------------------------------------
_PARSERS = {}


def _parser(kind, xsd):
    key = (kind, xsd)
    if key not in _PARSERS:
        if kind == '2':
            from elementpath import XPath2Parser as P
        else:
            from elementpath.xpath31 import XPath31Parser as P
        _PARSERS[key] = P(xsd_version=xsd)
    return _PARSERS[key]


class _Raised:
    def __init__(self, exc):
        self.exc = exc


def _xeval(case, expr, variables=None):
    from elementpath import XPathContext
    ctz = case.get('ctz')
    ctx = XPathContext(root=None, item=1, timezone=None if ctz is None else (cal.fmt_tz(ctz) if ctz else '+00:00'),
                       variables=variables)
    try:
        return _parser(case['parser'], case['xsd']).parse(expr).evaluate(ctx)
    except Exception as e:
        return _Raised(e)


def _xs(v):
    """observable form of an XPath result"""
    if isinstance(v, list):
        return [_xs(i) for i in v]
    if isinstance(v, (bool, int, str)) or v is None:
        return v
    if isinstance(v, Decimal):
        fr = Fraction(v)
        return int(fr) if fr.denominator == 1 else str(fr)
    return str(v)


def _xcheck(discs, case, expr, want, bucket, allow_overflow=False, alt=None):
    """evaluate expr and compare the observable with want (or alt). `bucket` is 'C11/<fam>/{kind}/<where>' with
    a literal '{kind}' placeholder, or a plain bucket string to which '/<kind>' is appended."""
    def bk(kind):
        return bucket.replace('{kind}', kind) if '{kind}' in bucket else bucket + '/' + kind
    r = _xeval(case, expr)
    if isinstance(r, _Raised):
        from elementpath import ElementPathError
        if allow_overflow and _is_overflow(r.exc):
            return None
        if isinstance(r.exc, ElementPathError):
            discs.append(Disc(bk('error:' + str(getattr(r.exc, 'code', '?')).replace('err:', '')), want, repr(r.exc), expr))
        else:
            discs.append(Disc(bk(escape_bucket('C11', r.exc).replace('C11/escape/', 'escape:')), want, repr(r.exc), expr))
        return None
    got = _xs(r)
    if got != want and (alt is None or got != alt):
        t = case['t']
        k = diff_fields(t, want, got) if t in _PARSE and isinstance(want, str) and parse_lex(t, want) else 'value'
        discs.append(Disc(bk(k), want, got, expr))
    return got


def _xdiff(discs, case, expr, exp, fam, where, allow_overflow):
    """a difference of two date/time values must be the xs:dayTimeDuration of exactly `exp` seconds"""
    from elementpath import ElementPathError
    from elementpath.datatypes import DayTimeDuration
    r = _xeval(case, expr)
    if isinstance(r, _Raised):
        if not (allow_overflow and _is_overflow(r.exc)):
            kind = 'error:' + str(getattr(r.exc, 'code', '?')).replace('err:', '') if isinstance(r.exc, ElementPathError) \
                else escape_bucket('C11', r.exc).replace('C11/escape/', 'escape:')
            discs.append(Disc(_bk(fam, kind, where), cal.fmt_duration(0, exp), repr(r.exc), expr))
        return False
    if not isinstance(r, DayTimeDuration):
        discs.append(Disc(_bk(fam, 'type', where), 'xs:dayTimeDuration', type(r).__name__, expr))
        return False
    got = Fraction(r.seconds)
    if got != exp or r.months or str(r) != cal.fmt_duration(0, exp):
        dd = got - exp
        kind = 'string' if not dd else 'days%+d' % (dd / 86400) if dd % 86400 == 0 and abs(dd) <= 2 * 86400 else \
            'floor-minus-fraction' if got == 2 * (exp.numerator // exp.denominator) - exp else 'value'
        discs.append(Disc(_bk(fam, kind, where), cal.fmt_duration(0, exp), str(r), expr))
        return False
    return True


def _lit(t, rv, xsd, lv=0):
    return "xs:%s('%s')" % (t, fmt(t, rv, xsd, lv))


def _dlit(us):
    return "xs:dayTimeDuration('%s')" % cal.fmt_duration(0, Fraction(us, 10 ** 6))


def _mlit(m):
    return "xs:yearMonthDuration('%s')" % cal.fmt_duration(m, Fraction(0), 'yearMonthDuration')


_CMP = ['lt', 'le', 'eq', 'ne', 'ge', 'gt']
_GEN = {'lt': '<', 'le': '<=', 'eq': '=', 'ne': '!=', 'ge': '>=', 'gt': '>'}


def judge_xpath(case, rec: Recorder | None = None):
    xsd, t, x, m, ctz, adj = (case[k] for k in ('xsd', 't', 'x', 'm', 'ctz', 'adj'))
    discs: list[Disc] = []
    ra, rb = _ref(case['a'], xsd, t), _ref(case['b'], xsd, t)
    cl = _classes_of([ra, rb], t) + ['xpath:case', 'xsd:' + xsd, 'ctz:' + ('none' if ctz is None else 'set')]
    yl = t in HAS_YEAR
    itz = ctz or 0
    la, lb = _lit(t, ra, xsd), _lit(t, rb, xsd)
    ca, cb = _canon(t, ra), _canon(t, rb)
    sa, sb = fmt(t, ca, xsd), fmt(t, cb, xsd)
    ga, gb = _gate(t, ra, xsd), _gate(t, rb, xsd)
    judged = False
    a_ok = b_ok = False
    if ga == 'open':
        cl.append('gated:open')
    else:
        edge = yl and abs(cal.lex_year(ra['y'], xsd)) >= BIG - 1
        got = _xcheck(discs, case, f'string({la})', sa, _bk(ga or 'plain', '{kind}', f'xpath/string/{t}'), allow_overflow=edge)
        a_ok = got == sa and not ga
        if ga:
            cl.append('gated:' + ga)
    if gb:
        cl.append('gated:' + gb)
    else:
        b_ok = _xs(_xeval(case, f'string({lb})')) == sb
    if a_ok and t in FULL:
        X, M = _dlit(x), _mlit(m)
        for opn, sign, expr in (('add', 1, f'string({la} + {X})'), ('sub', -1, f'string({la} - {X})'),
                                ('radd', 1, f'string({X} + {la})')):
            exp, mid = _ref_add_us(t, ra, sign * x)
            amb = yl and _amb(xsd, ra, exp)
            fam = _fam('bce@1.0' if amb else None, _time_fam(t, x), _res_fam(xsd, mid) if yl else None,
                       'radd-dayTime-dateTime' if opn == 'radd' and t == 'dateTime' else None)
            over = yl and (_huge(ra, exp) or abs(exp['y']) >= BIG - 1)
            if amb:
                if t == 'dateTime' and opn != 'radd':        # law only
                    _, mid2 = _ref_add_us(t, exp, -sign * x)
                    _xcheck(discs, case, f'string(({la} {"+" if sign > 0 else "-"} {X}) {"-" if sign > 0 else "+"} {X})', sa,
                            _bk(_fam(fam, _res_fam(xsd, mid2)), '{kind}', f'xpath/inverse-dayTime/{t}'), allow_overflow=over)
                continue
            judged = True
            _xcheck(discs, case, expr, fmt(t, exp, xsd), _bk(fam, '{kind}', f'xpath/{opn}-dayTime/{t}'), allow_overflow=over)
        if t in ('dateTime', 'date'):
            for opn, months, expr in (('add', m, f'string({la} + {M})'), ('sub', -m, f'string({la} - {M})'),
                                      ('radd', m, f'string({M} + {la})')):
                src, exp, fam, alt = _ym_expect(t, ra, months, xsd)
                judged = True
                _xcheck(discs, case, expr, fmt(t, exp, xsd), _bk(fam, '{kind}', f'xpath/{opn}-yearMonth/{t}'),
                        allow_overflow=abs(exp['y']) >= BIG - 1, alt=alt)
    if a_ok and b_ok:
        mixed = (ra['tz'] is None) != (rb['tz'] is None)
        ifam = 'implicit-tz' if mixed and ctz else None       # the context timezone decides
        if t in FULL:
            huge = yl and _huge(ra, rb)
            amb = yl and _amb_between(xsd, t, ra, rb)
            exp = _inst(t, rb, itz) - _inst(t, ra, itz)
            if not amb:
                judged = True
                fam = _fam(ifam, _diff_fam(exp))
                if _xdiff(discs, case, f'{lb} - {la}', exp, fam, f'xpath/difference/{t}', huge):
                    exp_r, mid = _ref_add_us(t, ra, int(exp * 10 ** 6))
                    fam = _fam(fam, _res_fam(xsd, mid) if yl else None, _time_fam(t, int(exp * 10 ** 6)))
                    _xcheck(discs, case, f'string({la} + ({lb} - {la}))', fmt(t, exp_r, xsd),
                            _bk(fam, '{kind}', f'xpath/add-difference/{t}'), allow_overflow=huge)
            elif ra['tz'] == rb['tz'] and t == 'dateTime' and not _diff_fam(exp) and not (ifam and mixed):
                fam = _fam('bce@1.0', _diff_fam(exp), _res_fam(xsd, cb))
                _xcheck(discs, case, f'string({la} + ({lb} - {la}))', sb, _bk(fam, '{kind}', f'xpath/add-difference/{t}'),
                        allow_overflow=huge)
        names = _CMP if t in FULL else ['eq', 'ne']
        verdict = _order_verdict(t, xsd, ra, rb, itz)
        if verdict is not None:
            judged = True
            pf = _fam(ifam, _pair_fam(t, ra, rb, xsd))
            cl.append('xorder:' + pf)
            cl.extend('x' + c for c in _pair_classes(t, ra, rb, itz))
            for style, sym in (('value', lambda n: n), ('general', lambda n: _GEN[n])):
                expr = '(' + ', '.join(f'{la} {sym(n)} {lb}' for n in names) + ')'
                want = [_TRUTH[verdict][n] for n in names]
                r = _xeval(case, expr)
                if isinstance(r, _Raised):
                    discs.append(Disc(_esc(r.exc, pf, f'xpath/compare-{style}/{t}'), want, repr(r.exc), expr))
                elif r != want:
                    bad = [n for n, w, g in zip(names, want, r) if w != g] if isinstance(r, list) and len(r) == len(want) else names
                    discs.append(Disc(_bk(pf, 'eq' if set(bad) <= {'eq', 'ne'} else 'order', f'xpath/compare-{style}/{t}'),
                                      f'{verdict} {want}', r, expr))
            if t in FULL:
                _xpath_minmax(case, discs, cl, t, verdict, la, lb, sa, sb, pf, mixed and bool(ctz))
    if a_ok:
        judged = _xpath_adjust(case, discs, t, ra, la, xsd, ctz, adj) or judged
        judged = _xpath_components(case, discs, t, ra, la, xsd) or judged
    if ctz is not None:
        _xcheck(discs, dict(case, t='-'), 'string(implicit-timezone())', cal.fmt_duration(0, Fraction(ctz * 60)),
                'C11/plain/{kind}/xpath/implicit-timezone')
    if rec is not None:
        if judged:
            cl.append('ref:judged')
        rec.case(case, nontrivial=_nontrivial(cl), sample={'check': 'xpath', 'case': case}, classes=sorted(set(cl)))
    return discs


def _xpath_minmax(case, discs, cl, t, verdict, la, lb, sa, sb, pf, implicit_decides):
    """fn:max / fn:min / fn:sort / fn:distinct-values / fn:index-of order and identify the two values by their
    instants. No verdict where only the implicit timezone decides: these functions take UTC for values without
    timezone (recorded limitation, class minmax:implicit-tz-unjudged)."""
    if implicit_decides:
        cl.append('minmax:implicit-tz-unjudged')
        return
    cl.append('minmax:judged')
    where = f'xpath/%s/{t}'
    n_distinct = 1 if verdict == '=' else 2
    _xcheck(discs, dict(case, t='-'), f'(count(distinct-values(({la}, {lb}))), count(index-of(({la}, {lb}), {lb})))',
            [n_distinct, 3 - n_distinct], _bk(pf, '{kind}', where % 'distinct-values+index-of'))
    if verdict == '=':
        return                  # which of two equal values is returned is not defined
    lo, hi = (sa, sb) if verdict == '<' else (sb, sa)
    _xcheck(discs, case, f'(string(max(({la}, {lb}))), string(min(({la}, {lb}))), string(max(({lb}, {la}))), string(min(({lb}, {la}))))',
            [hi, lo, hi, lo], _bk(pf, '{kind}', where % 'max-min'))
    if case['parser'] == '31':
        _xcheck(discs, case, f'(sort(({la}, {lb})) ! string(.), sort(({lb}, {la})) ! string(.))', [lo, hi, lo, hi],
                _bk(pf, '{kind}', where % 'sort'))


def _xpath_adjust(case, discs, t, ra, la, xsd, ctz, adj):
    if t not in FULL:
        return False
    fn = f'adjust-{t}-to-timezone'
    src = _canon(t, ra)
    yl = t in HAS_YEAR
    judged = False
    for label, expr, tz in (('explicit', f"string({fn}({la}, {_dlit(adj * 60 * 10 ** 6)}))", adj),
                            ('empty', f'string({fn}({la}, ()))', None),
                            ('implicit', f'string({fn}({la}))', ctz)):
        if label == 'implicit' and ctz is None:
            continue
        exp = cal.adjust_to_timezone(src, tz, t)
        moved = (exp['y'], exp['mo'], exp['d']) != (src['y'], src['mo'], src['d'])
        if yl and _amb(xsd, ra, exp) and moved:
            continue            # XSD 1.0 BCE: the neighbouring day may be an undefined Feb 29
        judged = True
        fam = _fam(_res_fam(xsd, exp) if yl else None,
                   'adjust-date-moves-day' if t == 'date' and moved and ra['tz'] is not None and tz is not None else None)
        tzc = ('tz' if ra['tz'] is not None else 'no-tz') + ('+moves-date' if moved and t != 'time' else '')
        _xcheck(discs, case, expr, fmt(t, exp, xsd), _bk(fam, '{kind}', f'xpath/adjust-{label}/{t}/{tzc}'),
                allow_overflow=yl and (_huge(ra) or abs(exp['y']) >= BIG - 1))
    return judged


def _xpath_components(case, discs, t, ra, la, xsd):
    if t not in FULL:
        return False
    c = _canon(t, ra)
    sec_fr = Fraction(c['s']) + Fraction(c['us'], 10 ** 6)
    sec = int(sec_fr) if sec_fr.denominator == 1 else str(sec_fr)
    parts = []
    if t in ('dateTime', 'date'):
        fam = 'year-component-bce@1.1' if xsd == '1.1' and c['y'] <= 0 else 'plain'
        parts += [(f'year-from-{t}', cal.lex_year(c['y'], xsd), fam), (f'month-from-{t}', c['mo'], 'plain'),
                  (f'day-from-{t}', c['d'], 'plain')]
    if t in ('dateTime', 'time'):
        fam = 'seconds-us<100000' if t == 'dateTime' and 0 < c['us'] < 100000 else 'plain'
        parts += [(f'hours-from-{t}', c['h'], 'plain'), (f'minutes-from-{t}', c['mi'], 'plain'), (f'seconds-from-{t}', sec, fam)]
    xc = dict(case, t='-')
    for fn, want, fam in parts:
        _xcheck(discs, xc, f'{fn}({la})', want, _bk(fam, '{kind}', f'xpath/component/{fn}'))
    tzwant = '' if ra['tz'] is None else cal.fmt_duration(0, Fraction(ra['tz'] * 60))
    fam = 'tz-from-date-year-out-of-range' if t == 'date' and ra['tz'] is not None and not 1 <= c['y'] <= 9999 else 'plain'
    _xcheck(discs, xc, f'string(timezone-from-{t}({la}))', tzwant, _bk(fam, '{kind}', f'xpath/component/timezone-from-{t}'))
    return True


# --------------------------------------------------------------------------
# check 'duration': lexical forms, arithmetic laws, order, components (API and XPath)
# --------------------------------------------------------------------------

def _dur_lex(kind, m, us, style):
    """a (possibly non-canonical) lexical form with the same value"""
    sec = Fraction(us, 10 ** 6)
    canon = cal.fmt_duration(m, sec, kind)
    if style == 'canon' or (not m and not us):
        return canon
    sign = '-' if (m < 0 or us < 0) else ''
    am, aus = abs(m), abs(us)
    ym = ''
    if am:
        ym = '%dM' % am if style == 'months' else ('%dY' % (am // 12) if am // 12 else '') + ('%dM' % (am % 12) if am % 12 else '')
    if style == 'padded' and am:
        ym = '%04dY%02dM' % (am // 12, am % 12)
    tm = ''
    if aus:
        whole, frac = divmod(aus, 10 ** 6)
        fs = ('.' + ('%06d' % frac).rstrip('0')) if frac else ''
        if style == 'hours':
            h, r = divmod(whole, 3600)
            tm = 'T' + ('%dH' % h if h else '') + ('%dM' % (r // 60) if r // 60 else '') + ('%d%sS' % (r % 60, fs) if r % 60 or fs else '')
        elif style == 'minutes':
            mi, r = divmod(whole, 60)
            tm = 'T' + ('%dM' % mi if mi else '') + ('%d%sS' % (r, fs) if r or fs else '')
        elif style == 'seconds':
            tm = 'T%d%sS' % (whole, fs)
        elif style == 'padded':
            d, r = divmod(whole, 86400)
            tm = '%03dDT%02dH%02dM%02d%sS' % (d, r // 3600, r // 60 % 60, r % 60, (fs + '0') if fs else '')
        else:
            return canon
        if tm == 'T':
            return canon
    return sign + 'P' + ym + tm


def _dur_obj(D, kind, m, us):
    if kind == 'dayTimeDuration':
        return D.DayTimeDuration(seconds=_us_dec(us))
    if kind == 'yearMonthDuration':
        return D.YearMonthDuration(months=m)
    return D.Duration(months=m, seconds=_us_dec(us))


def judge_duration(case, rec: Recorder | None = None):
    import elementpath.datatypes as D
    kind, m1, us1, m2, us2, (nn, nd) = case['kind'], case['m1'], case['us1'], case['m2'], case['us2'], case['n']
    discs: list[Disc] = []
    K = {'dayTimeDuration': D.DayTimeDuration, 'yearMonthDuration': D.YearMonthDuration, 'duration': D.Duration}[kind]
    s1, s2 = Fraction(us1, 10 ** 6), Fraction(us2, 10 ** 6)
    c1 = cal.fmt_duration(m1, s1, kind)
    lex1 = _dur_lex(kind, m1, us1, case['lex'])
    cl = ['dur:case', 'dur:' + kind, 'dur:lex-' + ('canon' if lex1 == c1 else 'noncanon')]
    xcase = {'parser': case['parser'], 'xsd': case['xsd'], 'ctz': None, 't': '-'}
    # lexical round trip
    try:
        A = K.fromstring(lex1)
        if (A.months, Fraction(A.seconds)) != (m1, s1):
            discs.append(Disc(f'C11/duration/fromstring/{kind}/{case["lex"]}', (m1, str(s1)), (A.months, str(A.seconds)), lex1))
            A = _dur_obj(D, kind, m1, us1)
        if str(A) != c1:
            discs.append(Disc(f'C11/duration/str/{kind}', c1, str(A), lex1))
        elif not (K.fromstring(str(A)) == A):
            discs.append(Disc(f'C11/duration/roundtrip/{kind}', c1, str(K.fromstring(str(A)))))
    except Exception as e:
        discs.append(Disc(escape_bucket('C11', e) + f'/duration/fromstring/{kind}/{case["lex"]}', c1, repr(e), lex1))
        A = _dur_obj(D, kind, m1, us1)
    B = _dur_obj(D, kind, m2, us2)
    c2 = cal.fmt_duration(m2, s2, kind)
    _xcheck(discs, xcase, f"string(xs:{kind}('{lex1}'))", c1, f'C11/duration/xpath-string/{kind}/{case["lex"]}')
    # order
    rel = cal.duration_order(m1, s1, m2, s2)
    if kind == 'duration':
        cl.append('dur:order-' + ('incomparable' if rel is None else 'comparable'))
    ops = _OPS
    obs = {}
    for name, f in ops:
        try:
            obs[name] = f(A, B)
        except Exception as e:
            discs.append(Disc(escape_bucket('C11', e) + f'/duration/{name}/{kind}', 'bool', repr(e), f'{c1} {name} {c2}'))
    same = (m1, us1) == (m2, us2)
    want = dict(_TRUTH[rel]) if rel is not None else {'lt': False, 'le': False, 'ge': False, 'gt': False}
    want['eq'], want['ne'] = same, not same
    if same:
        want.update(le=True, ge=True)
    if rel is None and not same:
        del want['le'], want['ge']      # XSD defines only < and = on the partial order: <= >= of incomparable values not judged
    bad = sorted(n for n in obs if n in want and obs[n] != want[n])
    if bad:
        discs.append(Disc(f'C11/duration/order/{kind}/' + ('incomparable' if rel is None else 'comparable') + '/' +
                          ('eq' if set(bad) <= {'eq', 'ne'} else 'order'), {n: want[n] for n in bad}, {n: obs[n] for n in bad},
                          f'{c1} vs {c2}'))
    if kind != 'duration':
        names = _CMP
        for style, sym in (('value', lambda n: n), ('general', lambda n: _GEN[n])):
            expr = '(' + ', '.join(f"xs:{kind}('{c1}') {sym(n)} xs:{kind}('{c2}')" for n in names) + ')'
            _xcheck(discs, xcase, expr, [want[n] for n in names], f'C11/duration/xpath-compare-{style}/{kind}')
    else:
        _xcheck(discs, xcase, f"(xs:duration('{c1}') eq xs:duration('{c2}'), xs:duration('{c1}') ne xs:duration('{c2}'))",
                [same, not same], 'C11/duration/xpath-compare-value/duration')
    # arithmetic laws (defined for the two totally ordered subtypes)
    if kind != 'duration':
        tot = cal.fmt_duration(m1 + m2, s1 + s2, kind)
        try:
            S = A + B
            if (S.months, Fraction(S.seconds)) != (m1 + m2, s1 + s2) or type(S) is not K:
                discs.append(Disc(f'C11/duration/add/{kind}', tot, str(S), f'{c1} + {c2}'))
            R = S - B
            if (R.months, Fraction(R.seconds)) != (m1, s1) or str(R) != c1:
                discs.append(Disc(f'C11/duration/add-sub-inverse/{kind}', c1, str(R), f'({c1} + {c2}) - {c2}'))
            One = A * 1
            if str(One) != c1:
                discs.append(Disc(f'C11/duration/mul-one/{kind}', c1, str(One)))
        except Exception as e:
            discs.append(Disc(escape_bucket('C11', e) + f'/duration/arith/{kind}', tot, repr(e), f'{c1} , {c2}'))
        _xcheck(discs, xcase, f"string(xs:{kind}('{c1}') + xs:{kind}('{c2}') - xs:{kind}('{c2}'))", c1,
                f'C11/duration/xpath-add-sub/{kind}')
        _judge_dur_scale(D, discs, xcase, kind, A, m1, s1, c1, nn, nd)
        # ratio of two durations
        if (m2 or us2):
            want_ratio = Fraction(m1, m2) if kind == 'yearMonthDuration' else s1 / s2
            r = _xeval(xcase, f"xs:{kind}('{c1}') div xs:{kind}('{c2}')")
            if isinstance(r, _Raised):
                discs.append(Disc(escape_bucket('C11', r.exc) + f'/duration/xpath-ratio/{kind}', str(want_ratio), repr(r.exc)))
            else:
                try:
                    got = Fraction(r)
                except (TypeError, ValueError):
                    got = None
                tol = abs(want_ratio) * Fraction(1, 10 ** 15) + Fraction(1, 10 ** 18)
                if got is None or abs(got - want_ratio) > tol:
                    discs.append(Disc(f'C11/duration/xpath-ratio/{kind}', str(want_ratio), repr(r), f'{c1} div {c2}'))
    _judge_dur_components(discs, xcase, kind, m1, s1, c1)
    if rec is not None:
        nt = (m1 != 0 and us1 != 0) or m1 < 0 or us1 < 0 or lex1 != c1
        rec.case(case, nontrivial=nt, sample={'check': 'duration', 'case': case}, classes=cl)
    return discs


def _round_half(fr):
    """F&O yearMonthDuration * n: round half towards positive infinity (fn:round)"""
    import math
    return math.floor(fr + Fraction(1, 2))


def _judge_dur_scale(D, discs, xcase, kind, A, m1, s1, c1, nn, nd):
    f = Fraction(nn, nd)
    num = str(nn) if nd == 1 else repr(nn / nd)            # dyadic: exact as xs:decimal literal and as double
    if kind == 'yearMonthDuration':
        for opn, val in (('*', Fraction(m1) * f), ('div', Fraction(m1) / f)):
            want = cal.fmt_duration(_round_half(val), Fraction(0), kind)
            half = 'half' if (val * 2) % 2 == 1 else 'exact-or-plain'
            _xcheck(discs, xcase, f"string(xs:{kind}('{c1}') {opn} {num})", want, f'C11/duration/xpath-scale/{kind}/{opn}/{half}')
            _xcheck(discs, xcase, f"string(xs:{kind}('{c1}') {opn} xs:double({num}))", want,
                    f'C11/duration/xpath-scale-double/{kind}/{opn}/{half}')
        return
    for opn, val in (('*', s1 * f), ('div', s1 / f)):
        for lit, tag in ((num, 'decimal'), (f'xs:double({num})', 'double')):
            r = _xeval(xcase, f"xs:{kind}('{c1}') {opn} {lit}")
            b = f'C11/duration/xpath-scale-{tag}/{kind}/{opn}'
            if isinstance(r, _Raised):
                discs.append(Disc(escape_bucket('C11', r.exc) + '/' + b.split('/', 1)[1], str(val), repr(r.exc), f'{c1} {opn} {lit}'))
            elif not isinstance(r, D.DayTimeDuration) or abs(Fraction(r.seconds) - val) > Fraction(1, 10 ** 6):
                discs.append(Disc(b, str(val), str(r), f'{c1} {opn} {lit}'))
    # (x div n) * n ~ x within rounding (n microseconds)
    try:
        R = (A / Decimal(nn) * Decimal(nd)) * Decimal(nn) / Decimal(nd)
        if abs(Fraction(R.seconds) - s1) > Fraction(abs(nn) + abs(nd), 10 ** 6):
            discs.append(Disc(f'C11/duration/div-mul-inverse/{kind}', c1, str(R), f'n={nn}/{nd}'))
    except Exception as e:
        discs.append(Disc(escape_bucket('C11', e) + f'/duration/div-mul/{kind}', c1, repr(e), f'n={nn}/{nd}'))


def _judge_dur_components(discs, xcase, kind, m, s, c):
    sg_m = -1 if m < 0 else 1
    sg_s = -1 if s < 0 else 1
    am, as_ = abs(m), abs(s)
    want = [sg_m * (am // 12), sg_m * (am % 12), sg_s * int(as_ // 86400), sg_s * int(as_ // 3600 % 24),
            sg_s * int(as_ // 60 % 60), _xs(Decimal(0) + sg_s * Decimal((as_ % 60).numerator) / Decimal((as_ % 60).denominator))]
    expr = '(' + ', '.join(f"{fn}-from-duration(xs:{kind}('{c}'))" for fn in ('years', 'months', 'days', 'hours', 'minutes', 'seconds')) + ')'
    _xcheck(discs, xcase, expr, want, f'C11/duration/xpath-components/{kind}')


# --------------------------------------------------------------------------
# check 'adjhist': caller-owned values survive adjust-*-to-timezone (histories of evaluations sharing objects)
# --------------------------------------------------------------------------

def _tzdur(tz):
    return '' if tz is None else cal.fmt_duration(0, Fraction(tz * 60))


def judge_adjhist(case, rec: Recorder | None = None):
    """$d and $z are python objects built once; every step evaluates an expression that hands $d to
    adjust-*-to-timezone by reference (variable, for/let binding); after every step the objects must print as
    before and every result must be the reference result for the ORIGINAL values"""
    xsd, t = case['xsd'], case['t']
    C = _api_classes(xsd)
    discs: list[Disc] = []
    rd, rz = _ref(case['d'], xsd, t), _ref(case['z'], xsd, t)
    cl = ['adjhist:case', 'adjhist:d-' + ('tz' if rd['tz'] is not None else 'no-tz')]
    objs = {}
    for name, rv in (('d', rd), ('z', rz)):
        if _gate(t, rv, xsd) == 'open':
            objs = None
            break
        o = _build(C, t, rv, xsd, 0, discs, 'adjhist', None)
        if o is None or str(o) != fmt(t, _canon(t, rv), xsd):
            objs = None             # reported by the 'value' check
            break
        objs[name] = o
    if objs is None:
        if rec is not None:
            rec.case(case, nontrivial=False, classes=cl + ['adjhist:skipped'])
        return discs
    sd, sz = fmt(t, _canon(t, rd), xsd), fmt(t, _canon(t, rz), xsd)
    src = _canon(t, rd)
    yl = t in HAS_YEAR
    fn = f'adjust-{t}-to-timezone'
    over = yl and _huge(rd, rz)

    def adj_expect(tz):
        """(expected string or None when XSD 1.0 BCE leaves the neighbouring day open)"""
        exp = cal.adjust_to_timezone(src, tz, t)
        moved = (exp['y'], exp['mo'], exp['d']) != (src['y'], src['mo'], src['d'])
        if yl and _amb(xsd, rd, exp) and moved:
            return None
        return fmt(t, exp, xsd)

    def unchanged(where, expr):
        ok = True
        for name, want in (('d', sd), ('z', sz)):
            got = str(objs[name])
            if got != want:
                ok = False
                discs.append(Disc(_bk('plain', 'caller-object-mutated:' + diff_fields(t, want, got), f'adjhist/{where}/{t}'),
                                  want, got, f'${name} after {expr}'))
                objs[name] = C[t].fromstring(want)          # re-synchronise: the history continues
        return ok

    for i, st_ in enumerate(case['steps']):
        k, ctz = st_['k'], st_['ctz']
        if k.endswith('1') and ctz is None:
            k = k[:-1] + '2'                                # the one-argument form needs a context timezone
        if k == 'let2' and case['parser'] != '31':
            k = 'for2'
        xc = {'parser': case['parser'], 'xsd': xsd, 'ctz': ctz, 't': t}
        arg = {'2': f", {_dlit(st_['adj'] * 60 * 10 ** 6)}", 'E': ', ()', '1': ''}[k[-1]]
        tz = {'2': st_['adj'], 'E': None, '1': ctz}[k[-1]]
        want_adj = adj_expect(tz)
        cl.append('adjhist:' + ('no-arith' if rd['tz'] is None or tz is None else 'arith'))
        if k.startswith('adj'):
            expr, want = f'string({fn}($d{arg}))', [want_adj]
        elif k.startswith('for'):
            expr, want = f'for $x in $d return (string({fn}($x{arg})), string($x))', [want_adj, sd]
        elif k.startswith('let'):
            expr, want = f'let $x := $d return (string({fn}($x{arg})), string($x), string($d))', [want_adj, sd, sd]
        else:   # tuple: the adjusted value and the caller's value used again in the same expression
            itz = ctz or 0
            eqv = _order_verdict(t, xsd, rd, rz, itz)
            diff = None if yl and _amb_between(xsd, t, rd, rz) else cal.fmt_duration(0, _inst(t, rd, itz) - _inst(t, rz, itz))
            expr = f'(string({fn}($d{arg})), string($d), string(timezone-from-{t}($d)), $d eq $z, string($d - $z), string($d))'
            want = [want_adj, sd, _tzdur(rd['tz']), None if eqv is None else eqv == '=', diff, sd]
        r = _xeval(xc, expr, variables=objs)
        if isinstance(r, _Raised):
            from elementpath import ElementPathError
            if not (over and _is_overflow(r.exc)) and not (yl and abs(src['y']) >= BIG - 2 and _is_overflow(r.exc)):
                kind = 'error:' + str(getattr(r.exc, 'code', '?')).replace('err:', '') if isinstance(r.exc, ElementPathError) \
                    else escape_bucket('C11', r.exc).replace('C11/escape/', 'escape:')
                discs.append(Disc(_bk('plain', kind, f'adjhist/{k}/{t}'), want, repr(r.exc), expr))
        else:
            got = _xs(r) if isinstance(r, list) else [_xs(r)]
            if len(got) != len(want):
                discs.append(Disc(_bk('plain', 'arity', f'adjhist/{k}/{t}'), want, got, expr))
            else:
                bad = [j for j, (w, g) in enumerate(zip(want, got)) if w is not None and w != g]
                if bad:
                    kind = diff_fields(t, want[bad[0]], got[bad[0]]) if isinstance(want[bad[0]], str) and parse_lex(t, want[bad[0]]) else 'value'
                    discs.append(Disc(_bk('plain', f'item{bad[0]}:{kind}', f'adjhist/{k}/{t}'), want, got, f'step {i}: {expr}'))
        unchanged(k, expr)
    # afterwards the caller's values are what they were: probe them in a fresh evaluation
    xc = {'parser': case['parser'], 'xsd': xsd, 'ctz': None, 't': t}
    eqv = _order_verdict(t, xsd, rd, rz, 0)
    want = [sd, _tzdur(rd['tz']), sz, None if eqv is None else eqv == '=']
    r = _xeval(xc, f'(string($d), string(timezone-from-{t}($d)), string($z), $d eq $z)', variables=objs)
    got = None if isinstance(r, _Raised) else _xs(r)
    if got is None or len(got) != 4 or any(w is not None and w != g for w, g in zip(want, got)):
        discs.append(Disc(_bk('plain', 'value', f'adjhist/probe/{t}'), want, repr(r.exc) if got is None else got, 'after the history'))
    if rec is not None:
        rec.case(case, nontrivial=True, sample={'check': 'adjhist', 'case': case}, classes=sorted(set(cl)))
    return discs


# --------------------------------------------------------------------------
# check 'durgrid': finite grid on the XSD partial order of xs:duration (python API), enumerated
# --------------------------------------------------------------------------
_GRID_MONTHS = 24


def _durgrid_cases():
    """more months (mb) against fewer months (ma) plus whole days at the boundaries of the four reference spans,
    shifted by half a day to either side, both signs: 300 month pairs x 4 boundaries x 2 x 2"""
    for ma in range(0, _GRID_MONTHS + 1):
        for mb in range(ma + 1, _GRID_MONTHS + 1):
            spans = [cal.days_from_civil(*_ymd(cal.add_months(r, mb))) - cal.days_from_civil(*_ymd(cal.add_months(r, ma)))
                     for r in cal._DUR_REFS]
            for span in sorted({min(spans) - 1, min(spans), max(spans), max(spans) + 1}):
                for half in (-1, 1):
                    for sg in (1, -1):
                        yield {'ma': ma, 'mb': mb, 'days': span, 'half': half, 'sg': sg}


def judge_durgrid(case, rec: Recorder | None = None):
    import elementpath.datatypes as D
    discs: list[Disc] = []
    sg = case['sg']
    us = (case['days'] * 86400 * 10 ** 6 + case['half'] * 43200 * 10 ** 6) * sg
    m1, s1, m2, s2 = case['mb'] * sg, Fraction(0), case['ma'] * sg, Fraction(us, 10 ** 6)
    A, B = D.Duration(months=m1), D.Duration(months=m2, seconds=_us_dec(us))
    rel = cal.duration_order(m1, s1, m2, s2)
    want = dict(_TRUTH[rel]) if rel is not None else {'lt': False, 'gt': False}
    want['eq'], want['ne'] = False, True
    if rel is None:
        want.pop('le', None), want.pop('ge', None)
    obs = {}
    for name, f in _OPS:
        if name in want:
            try:
                obs[name] = f(A, B)
            except Exception as e:
                discs.append(Disc('C11/durgrid/' + escape_bucket('C11', e).replace('C11/escape/', 'escape:') + f'/{name}', want[name], repr(e), f'{A} {name} {B}'))
    bad = sorted(n for n in obs if obs[n] != want[n])
    if bad:
        discs.append(Disc('C11/durgrid/order/' + ('incomparable' if rel is None else 'comparable'), {n: want[n] for n in bad},
                          {n: obs[n] for n in bad}, f'{A} vs {B} (reference: {rel or "incomparable"})'))
    if rec is not None:
        rec.case(case, nontrivial=True, sample={'check': 'durgrid', 'case': case},
                 classes=['durgrid:case', 'durgrid:' + ('incomparable' if rel is None else 'comparable')])
    return discs


# --------------------------------------------------------------------------
# module interface
# --------------------------------------------------------------------------
_STRATS = {'value': _case_value(), 'arith': _case_arith(), 'order': _case_order(), 'xpath': case_xpath, 'adjhist': _case_adjhist(),
           'duration': _case_duration()}
_JUDGES = {'value': judge_value, 'arith': judge_arith, 'order': judge_order, 'xpath': judge_xpath,
           'duration': judge_duration, 'durgrid': judge_durgrid, 'adjhist': judge_adjhist}


def selftest():
    cal.self_test()
    v = cal.V(2000, 2, 29, 24, 0, 0, 0, -330)
    assert fmt('dateTime', v, '1.1') == '2000-02-29T24:00:00-05:30'
    assert fmt('dateTime', _canon('dateTime', v), '1.1') == '2000-03-01T00:00:00-05:30'
    assert fmt('date', cal.V(0, 1, 1), '1.0') == '-0001-01-01' and fmt('date', cal.V(0, 1, 1), '1.1') == '0000-01-01'
    assert fmt('time', cal.V(1, 1, 1, 10, 0, 5, 50000, 0), '1.1', 1) == '10:00:05.0500+00:00'
    assert parse_lex('dateTime', '-12345-01-02T03:04:05.5+14:00') == {'tz': 840, 'y': -12345, 'mo': 1, 'd': 2, 'h': 3, 'mi': 4, 's': 5, 'us': 500000}
    assert parse_lex('date', '2000-01-02') == {'tz': None, 'y': 2000, 'mo': 1, 'd': 2}
    assert diff_fields('date', '2000-01-02', '1999-01-02') == 'year-1' and diff_fields('date', '2000-01-02Z', '2000-01-03') == 'd+tz'
    # F&O: op:add-dayTimeDuration-to-time(11:12:00, P3DT1H15M) = 12:27:00 ; (23:12:00+03:00, P1DT3H15M) = 02:27:00+03:00
    r = _ref_add_us('time', cal.V(1, 1, 1, 23, 12, 0, 0, 180), (86400 + 3 * 3600 + 900) * 10 ** 6)[0]
    assert fmt('time', r, '1.1') == '02:27:00+03:00'
    # op:add-dayTimeDuration-to-date(2004-10-30Z, P2DT2H30M0S) = 2004-11-01Z ; subtract: (2000-10-30, P3DT1H15M) = 2000-10-26
    assert fmt('date', _ref_add_us('date', cal.V(2004, 10, 30, tz=0), (2 * 86400 + 9000) * 10 ** 6)[0], '1.1') == '2004-11-01Z'
    assert fmt('date', _ref_add_us('date', cal.V(2000, 10, 30), -(3 * 86400 + 4500) * 10 ** 6)[0], '1.1') == '2000-10-26'
    # op:subtract-times(11:12:00Z, 04:00:00-05:00) = PT2H12M ; (24:00:00, 23:59:59) = -PT23H59M59S
    assert _inst('time', cal.V(1, 1, 1, 11, 12, tz=0)) - _inst('time', cal.V(1, 1, 1, 4, 0, tz=-300)) == 2 * 3600 + 12 * 60
    assert _inst('time', cal.V(1, 1, 1, 24)) - _inst('time', cal.V(1, 1, 1, 23, 59, 59)) == -(23 * 3600 + 59 * 60 + 59)
    # op:subtract-dates(2000-10-30, 1999-11-28Z) with implicit timezone -05:00 = P337DT5H
    assert _inst('date', cal.V(2000, 10, 30), -300) - _inst('date', cal.V(1999, 11, 28, tz=0), -300) == 337 * 86400 + 5 * 3600
    # op:gMonthDay-equal(--12-25-14:00, --12-26+10:00) true ; op:gYear-equal(2005-12:00, 2005+12:00) false
    assert _inst('gMonthDay', cal.V(1, 12, 25, tz=-840)) == _inst('gMonthDay', cal.V(1, 12, 26, tz=600))
    assert _inst('gYear', cal.V(2005, tz=-720)) != _inst('gYear', cal.V(2005, tz=720))
    assert _inst('gYear', cal.V(1976, tz=-300), -300) == _inst('gYear', cal.V(1976), -300)
    assert _dur_lex('dayTimeDuration', 0, 90061500000, 'hours') == 'PT25H1M1.5S'
    assert _dur_lex('duration', 14, 86400 * 10 ** 6, 'padded') == 'P0001Y02M001DT00H00M00S'
    assert _dur_lex('yearMonthDuration', -14, 0, 'months') == '-P14M'
    assert _round_half(Fraction(5, 2)) == 3 and _round_half(Fraction(-5, 2)) == -2


_PLAN = {  # check: (quick shards, quick n, thorough shards, thorough n)
    'value': (3, 7000, 3, 100000), 'arith': (4, 5500, 4, 75000), 'order': (3, 6000, 3, 80000),
    'xpath': (5, 2500, 5, 35000), 'duration': (1, 4000, 1, 50000), 'adjhist': (2, 2500, 2, 30000),
}


def jobs(tier, seed):
    out = []
    for chk, (qs, qn, ts, tn) in _PLAN.items():
        s, n = (qs, qn) if tier == 'quick' else (ts, tn)
        for i in range(s):
            out.append({'check': chk, 'shard': i, 'n': n, 'seed': derive_seed(seed, 'C11', chk, i)})
    out.append({'check': 'durgrid'})
    return out


def run_job(job, rec: Recorder):
    chk = job['check']
    if chk == 'durgrid':
        for case in _durgrid_cases():
            rec.discs_of(chk, case, judge_durgrid(case, rec))
        return
    jd = _JUDGES[chk]
    hyp_collect(_STRATS[chk], lambda case: rec.discs_of(chk, case, jd(case, rec)), job['n'], job['seed'], rec)


def shrink_job(job, bucket, budget):
    chk = job['check']
    if chk == 'durgrid':
        for case in _durgrid_cases():           # enumeration order is smallest first
            for d in judge_durgrid(case):
                if d.bucket == bucket:
                    return case, d
        return None
    return hyp_shrink(_STRATS[chk], _JUDGES[chk], bucket, job['n'], job['seed'], budget)


def judge(check, case):
    return _JUDGES[check](case)
