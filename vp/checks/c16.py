"""C16 - Function items are first-class values: closures, partial application, HOFs."""
from __future__ import annotations

from copy import copy as _copy

from vp.core import Disc, Recorder, derive_seed, hyp_collect, hyp_shrink, escape_bucket, canon
from vp.ref import interp
from vp.ref.interp import XPError, Budget
from vp.gen import c16_gen
from vp.checks import c08 as base      # observation / comparison helpers (own code, see C08)

PROPERTY = 'C16'
LEVEL = 'exploration'
RULE = ('programs are generated as JSON ASTs (vp/gen/c16_gen.py), rendered to XPath text for XPath30Parser / '
        'XPath31Parser and interpreted by the reference interpreter with real closures (vp/ref/interp.py). program: '
        'let-bound integers, sequences and function items (inline with captured variables, typed or untyped '
        'parameters, named references, partial applications of inline / named / partial functions, currying, '
        'composition) called several times, nested in their own arguments, and passed to for-each filter fold-left '
        'fold-right for-each-pair apply sort. closure: one function expression evaluated several times (in for '
        'clauses, by currying, partial application in a loop) and the items called later in generated order. expand: '
        'the definitional expansions of the HOFs, partial application and named references, both sides evaluated by '
        'elementpath and by the reference. sort: stable ordered permutation on items carrying their input position. '
        'sort-hetero: fn:sort / array:sort with type-discriminating key functions over items that are equal as python '
        'objects but distinct XPath values (true()/1/1.0e0/xs:float(1), "b"/untypedAtomic/anyURI), judged strictly by type. '
        'sort-collation: fn:sort / array:sort on mixed-case strings with the parser default collation codepoint or '
        'html-ascii-case-insensitive, $collation absent / () / explicit, direct / #arity / static partial / dynamic partial. '
        'closure also holds empty-closure items whose parameter is a variable at the call site (read after the call) and '
        'partial applications whose fixed argument is ., position(), name() or a child step, called under another focus. '
        'history: function items and parser.get_function objects called repeatedly from python. non-trivial = >= 2 '
        'items from one function expression, or an item called after its creating scope advanced, or one item called '
        '>= 2 times, or a call nested in its own argument, or a HOF with a closure; distinct by rendered program.')
ASSUMPTIONS = [
    'value comparison as in C08 (observed xs:integer accepted for an equal xs:decimal; errors demanded only when the '
    'root operation raises on error-free operands)',
    'function items in results are compared by arity only',
    'declared parameter / result types are only ones the passed values already have (no function conversion is modelled)',
    'sort / sort-hetero use the codepoint collation; sort-collation runs XPath31Parser with default_collation codepoint or '
    'html-ascii-case-insensitive (never a UCA/locale collation) and passes $collation absent, (), or one of these two URIs',
    'a callback of the wrong arity is demanded to raise XPTY0004 only when the HOF has items to call it on (>= 2 for sort)',
    'python-level histories call items through XPathFunction.__call__(*args, context=ctx) with a fresh copy of one context',
]
FLOORS = {
    'program:closure-captures-variable': (0.25, 'program:case'),
    'program:item-called-twice': (0.15, 'program:case'),
    'program:partial': (0.10, 'program:case'),
    'program:hof': (0.30, 'program:case'),
    'program:value-verdict': (0.80, 'program:case'),
    'closure:multi-created': (0.50, 'closure:case'),
    'closure:stale-call': (0.35, 'closure:case'),
    'closure:nested-call': (0.10, 'closure:case'),
    'sort:ties': (0.40, 'sort:case'),
    'history:repeat-call': (0.30, 'history:case'),
    'misuse:error-demanded': (0.60, 'misuse:case'),
    'closure:pattern:empty-closure': (0.05, 'closure:case'),
    'closure:pattern:focus-partial': (0.05, 'closure:case'),
    'closure:pattern:callable': (0.05, 'closure:case'),
    'closure:pattern:factory-via-ref': (0.05, 'closure:case'),
    'closure:pattern:typed-hof-param': (0.06, 'closure:case'),
    'program:fold-multi-item-zero': (0.03, 'program:case'),
    'sort-hetero:python-equal-twins': (0.70, 'sort-hetero:case'),
    'sort-collation:orders-differ': (0.70, 'sort-collation:case'),
    'sort-collation:empty-arg-nondefault': (0.20, 'sort-collation:case'),
    'program:param-shadows-variable': (0.08, 'program:case'),
}

_HOFS = {'for-each', 'filter', 'fold-left', 'fold-right', 'for-each-pair', 'apply', 'sort'}


# --------------------------------------------------------------------------
# classification
# --------------------------------------------------------------------------
def nodes(n):
    """all AST nodes (lists whose first element is a tag)"""
    if isinstance(n, list) and n and isinstance(n[0], str):
        t = n[0]
        if t in ('str', 'dec', 'dbl', 'flt', 'unt', 'nodes', 'var', 'int', 'bool', 'ref', 'empty', 'ctx', 'pos', 'last', '?'):
            yield n
            return
        yield n
        if t == 'inline':
            yield from nodes(n[2])
        elif t in ('call', 'array'):
            for a in n[2] if t == 'call' else n[1]:
                yield from nodes(a)
        elif t == 'mapc':
            for kv in n[1]:
                for e in kv:
                    yield from nodes(e)
        elif t == 'dyn':
            yield from nodes(n[1])
            for a in n[2]:
                yield from nodes(a)
        elif t in ('for', 'let', 'some', 'every'):
            for _, e in n[1]:
                yield from nodes(e)
            yield from nodes(n[2])
        else:
            for c in n[1:]:
                yield from nodes(c)


def free_vars(n, bound=frozenset()):
    out = set()
    if not (isinstance(n, list) and n and isinstance(n[0], str)):
        return out
    t = n[0]
    if t == 'var':
        return set() if n[1] in bound else {n[1]}
    if t in ('str', 'dec', 'dbl', 'flt', 'unt', 'nodes', 'int', 'bool', 'ref', 'empty', 'ctx', 'pos', 'last', '?'):
        return out
    if t == 'inline':
        return free_vars(n[2], bound | {p if isinstance(p, str) else p[0] for p in n[1]})
    if t in ('for', 'let', 'some', 'every'):
        b = set(bound)
        for nm, e in n[1]:
            out |= free_vars(e, frozenset(b))
            b.add(nm)
        return out | free_vars(n[2], frozenset(b))
    if t == 'call':
        kids = n[2]
    elif t == 'dyn':
        kids = [n[1]] + n[2]
    elif t == 'array':
        kids = n[1]
    elif t == 'mapc':
        kids = [e for kv in n[1] for e in kv]
    else:
        kids = n[1:]
    for c in kids:
        out |= free_vars(c, bound)
    return out


def program_classes(ast, ip):
    cls = []
    ns = list(nodes(ast))
    inl = [n for n in ns if n[0] == 'inline']
    if any(free_vars(n) for n in inl):
        cls.append('closure-captures-variable')
    if any(n[0] in ('dyn', 'call') and any(a[0] == '?' for a in n[2]) for n in ns):
        cls.append('partial')
    if any(n[0] == 'call' and n[1] in _HOFS for n in ns):
        cls.append('hof')
    if any(n[0] == 'ref' for n in ns):
        cls.append('named-ref')
    if any(n[0] == 'inline' and any(not isinstance(p, str) for p in n[1]) or n[0] == 'inline' and len(n) > 3 for n in ns):
        cls.append('typed-signature')
    if any(n[0] == 'call' and n[1] in ('fold-left', 'fold-right') and n[2][1][0] == 'seq' for n in ns):
        cls.append('fold-multi-item-zero')
    if any(n[0] in ('mapc',) for n in ns):
        cls.append('map-as-function')
    params = {p if isinstance(p, str) else p[0] for n in inl for p in n[1]}
    bound = {nm for n in ns if n[0] in ('for', 'let', 'some', 'every') for nm, _ in n[1]}
    if params & bound:
        cls.append('param-shadows-variable')
    if ip is not None:
        if ip.multi_created:
            cls.append('multi-created')
        if ip.stale_calls:
            cls.append('stale-call')
        if getattr(ip, 'max_item_calls', 0) >= 2:
            cls.append('item-called-twice')
        if ip.max_depth >= 2:
            cls.append('nested-call')
    return cls


class CountingInterp(interp.Interp):
    """reference interpreter that also counts how often each function item is called"""
    def __init__(self, *a, **k):
        super().__init__(*a, **k)
        self.item_calls = {}
        self.max_item_calls = 0

    def call(self, f, args):
        ident = f.ident if interp.is_fn(f) else canon(interp.canon_item(f))
        c = self.item_calls[ident] = self.item_calls.get(ident, 0) + 1
        if c > self.max_item_calls:
            self.max_item_calls = c
        return super().call(f, args)


# --------------------------------------------------------------------------
# judge one program against the reference
# --------------------------------------------------------------------------
_LAZY_ROOTS = base._LAZY_ROOTS


def ref_eval(ast, v):
    """-> (('val', canon) | ('err', code, mandatory) | ('skip', why), interp)"""
    ip = CountingInterp(v, budget=40000)
    try:
        val = ip.run(ast)
    except Budget as e:
        return ('skip', 'budget:' + str(e)[:24]), ip
    except XPError as e:
        at_root = getattr(e, 'node', None) is ast
        return ('err', e.code, at_root and ast[0] not in _LAZY_ROOTS), ip
    if ip.order_dependent or ip.inexact_sum is not None:
        return ('skip', 'order-or-inexact'), ip
    return ('val', interp.canon_seq(val)), ip


def compare(exp, obs):
    """-> failure kind or None.  exp from ref_eval, obs from base.run_ep"""
    if obs[0] == 'escape':
        return 'escape'
    if exp[0] == 'err':
        if obs[0] == 'err':
            if exp[2] and obs[1] != exp[1] and base._ERR_FAMILY.get(exp[1], exp[1]) != base._ERR_FAMILY.get(obs[1], obs[1]):
                return f'error-code:{exp[1]}->{obs[1]}'
            return None
        return f'no-error:{exp[1]}' if exp[2] else None
    if obs[0] == 'err':
        return f'unexpected-error:{obs[1]}'
    return base.seq_mismatch(_flat(exp[1]), obs[1])      # select() flattens arrays in the result


def construct_name(n):
    if n[0] == 'call':
        return 'fn:' + n[1] + ('-partial' if any(a[0] == '?' for a in n[2]) else '')
    if n[0] == 'dyn':
        if any(a[0] == '?' for a in n[2]):
            return 'dyn-partial'
        f = n[1]
        return 'call-' + {'inline': 'inline', 'ref': 'named-ref', 'var': 'variable', 'dyn': 'call-result',
                          'call': 'static-partial', 'filter': 'sequence-member', 'ctx': 'context-item'}.get(f[0], f[0])
    return n[0]


def judge_program(case, rec: Recorder | None = None, check='program', localize=True) -> list[Disc]:
    ast, v = case['ast'], case['v']
    exp, ip = ref_eval(ast, v)
    expr = interp.render(ast)
    discs: list[Disc] = []
    status = exp[0]
    if exp[0] != 'skip':
        obs = base.run_ep(expr, v, base._needs_doc(ast))
        kind = compare(exp, obs)
        if exp[0] == 'err' and not exp[2]:
            status = 'error-nested'
        if kind is not None:
            d = None
            if ip.stale_calls:
                # the known family: an item is called after the same function expression was evaluated again
                fam = _family(ip)
                kk = 'escape:' + type(obs[1]).__name__ if kind == 'escape' else kind.split(':')[0]
                d = Disc(f'C16/shared-token/{fam}/{kk}', exp[1], _show(obs), f'{v}: {expr}')
            elif localize:
                for sub in sorted(base._closed_subexprs(ast), key=lambda s: len(canon(s))):
                    if sub[0] in ('ref', 'inline', 'array', 'mapc', 'step') or _implicit_focus(sub):
                        continue
                    ds = judge_program({'ast': sub, 'v': v}, None, check, localize=False)
                    if ds:
                        d = ds[0]
                        d.detail = f'{v}: inside {expr}: ' + d.detail
                        break
            if d is None:
                if kind == 'escape':
                    d = Disc(escape_bucket('C16', obs[1]) + '/' + construct_name(ast), _show(exp), repr(obs[1]), f'{v}: {expr}')
                else:
                    d = Disc(f'C16/{construct_name(ast)}/{kind}', _show(exp), _show(obs), f'{v}: {expr}')
            discs.append(d)
    if rec is not None:
        pcs = program_classes(ast, ip)
        cls = [f'{check}:case', f'{check}:v{v}', f'{check}:{status}'] + [f'{check}:{c}' for c in pcs]
        if status == 'val':
            cls.append(f'{check}:value-verdict')
        if 'pattern' in case:
            cls.append(f'{check}:pattern:{case["pattern"]}')
        nontrivial = status != 'skip' and bool({'multi-created', 'stale-call', 'item-called-twice', 'nested-call'} & set(pcs)
                                               or ('hof' in pcs and 'closure-captures-variable' in pcs))
        rec.case([v, expr], nontrivial=nontrivial, sample={'check': check, 'v': v, 'expr': expr}, classes=cls)
    return discs


def _implicit_focus(n):
    """the expression reads the focus through a child step or name()/string() without argument (the closed-
    subexpression test of C08 does not know these forms, so they are not used to localise a failure)"""
    return any(m[0] == 'step' or (m[0] == 'call' and m[1] in ('name', 'string') and not m[2]) for m in nodes(n))


def _family(ip):
    """which kind of function-item creating expression had a stale call (the recorded one dominates)"""
    return 'partial-static' if 'partial-static' in ip.stale_calls else '+'.join(sorted(ip.stale_calls))


def _show(x):
    if x[0] == 'err':
        return 'error ' + x[1]
    if x[0] == 'escape':
        return repr(x[1])
    return x[1]


def judge_closure(case, rec=None):
    return judge_program(case, rec, 'closure')


# --------------------------------------------------------------------------
# expand: definitional expansions, both sides evaluated by elementpath (and by the reference)
# --------------------------------------------------------------------------
def _items_of(S, v):
    val, _ = interp.evaluate(S, v, budget=5000)
    return [['int', it[1]] for it in val]


def build_expansion(case):
    rel, S, T, v = case['rel'], case['S'], case['T'], case['v']
    c = lambda name, *args: ['call', name, list(args)]     # noqa: E731
    F = ['var', 'f']

    def wrap(e):
        binds = list(case['binds']) + ([['f', case['f']]] if 'f' in case else [])
        return ['let', binds, e] if binds else e
    if rel == 'for-each':
        return wrap(c('for-each', S, F)), wrap(['for', [['x', S]], ['dyn', F, [['var', 'x']]]])
    if rel == 'filter':
        return wrap(c('filter', S, F)), wrap(['filter', S, ['dyn', F, [['ctx']]]])
    if rel in ('fold-left', 'fold-right', 'fold-left-seq', 'fold-right-seq'):
        items = _items_of(S, v)
        acc = case['z']
        rel = rel[:-4] if rel.endswith('-seq') else rel
        if rel == 'fold-left':
            for it in items:
                acc = ['dyn', F, [acc, it]]
        else:
            for it in reversed(items):
                acc = ['dyn', F, [it, acc]]
        return wrap(c(rel, S, case['z'], F)), wrap(acc)
    if rel == 'fold-left-rec':
        return (wrap(c('fold-left', S, case['z'], F)),
                wrap(['if', c('empty', S), case['z'],
                      c('fold-left', c('tail', S), ['dyn', F, [case['z'], c('head', S)]], F)]))
    if rel == 'for-each-pair':
        n = ['if', ['vcmp', 'lt', c('count', S), c('count', T)], c('count', S), c('count', T)]
        return (wrap(c('for-each-pair', S, T, F)),
                wrap(['for', [['i', ['to', ['int', 1], n]]],
                      ['dyn', F, [['filter', S, ['var', 'i']], ['filter', T, ['var', 'i']]]]]))
    if rel == 'apply':
        return wrap(c('apply', F, ['array', [case['a'], case['b']]])), wrap(['dyn', F, [case['a'], case['b']]])
    if rel == 'partial':
        args = [case['a'], case['b']]
        pargs = list(args)
        pargs[case['hole']] = ['?']
        return wrap(['dyn', ['dyn', F, pargs], [args[case['hole']]]]), wrap(['dyn', F, args])
    if rel == 'arrow':
        return wrap(['arrow', S, F]), wrap(['dyn', F, [S]])
    if rel == 'named-ref':
        a, b, s = case['a'], case['b'], case['s']
        table = {
            'abs': ('abs', [a]), 'count': ('count', [S]), 'sum': ('sum', [S]), 'string-length': ('string-length', [s]),
            'upper-case': ('upper-case', [s]), 'concat2': ('concat', [s, a]), 'concat3': ('concat', [s, a, s]),
            'concat4': ('concat', [a, s, b, s]), 'reverse': ('reverse', [S]), 'subsequence2': ('subsequence', [S, a]),
            'subsequence3': ('subsequence', [S, a, b]), 'string-join2': ('string-join', [c('for-each', S, ['ref', 'string', 1]), s]),
            'not': ('not', [S if False else ['vcmp', 'lt', a, b]]), 'empty': ('empty', [S]), 'max': ('max', [S]),
            'head': ('head', [S]), 'insert-before': ('insert-before', [S, a, T]),
        }
        name, args = table[case['name']]
        return wrap(['dyn', ['ref', name, len(args)], args]), wrap(c(name, *args))
    raise ValueError(rel)


def judge_expand(case, rec: Recorder | None = None) -> list[Disc]:
    v, rel = case['v'], case['rel']
    discs: list[Disc] = []
    status = 'both-values'
    try:
        L, R = build_expansion(case)
    except (XPError, Budget):
        L = R = None
        status = 'not-applicable'
    sample = None
    if L is not None:
        le, re_ = interp.render(L), interp.render(R)
        sample = {'check': 'expand', 'v': v, 'rel': rel, 'left': le, 'right': re_}
        exp, ip = ref_eval(L, v)
        if exp[0] == 'skip':
            status = 'skipped'
        else:
            ol, orr = base.run_ep(le, v, False), base.run_ep(re_, v, False)
            kl = compare(exp, ol)
            kind = None
            fam = f'shared-token/{_family(ip)}/' if ip.stale_calls else ''
            if kl is not None:
                kk = 'escape:' + type(ol[1]).__name__ if kl == 'escape' else kl
                discs.append(Disc(f'C16/expand/{fam}{rel}/hof-side/{kk}', _show(exp), _show(ol), f'{v}: {le}'))
            kr = compare(exp, orr)
            if kr is not None:
                kk = 'escape:' + type(orr[1]).__name__ if kr == 'escape' else kr
                discs.append(Disc(f'C16/expand/{fam}{rel}/expansion-side/{kk}', _show(exp), _show(orr), f'{v}: {re_}'))
            if ol[0] == 'val' and orr[0] == 'val':
                if ol[1] != orr[1] and kl is None and kr is None:
                    pass        # differences invisible to the value comparison (integer for decimal)
                elif ol[1] != orr[1] and not discs:
                    kind = 'sides-differ'
            elif ol[0] != orr[0]:
                status = 'asymmetric'
                if not discs and exp[0] == 'val':
                    kind = 'sides-differ'
            else:
                status = 'both-errors'
            if kind:
                discs.append(Disc(f'C16/expand/{fam}{rel}/{kind}', _show(ol), _show(orr), f'{v}: {le}  ==  {re_}'))
    if rec is not None:
        cls = ['expand:case', f'expand:{rel}', f'expand:{status}']
        rec.case([v, rel, case], nontrivial=status in ('both-values', 'both-errors'), sample=sample, classes=cls)
    return discs


# --------------------------------------------------------------------------
# sort: stable ordered permutation
# --------------------------------------------------------------------------
def _sort_program(case):
    keys, kf, via = case['keys'], case['keyfn'], case['via']
    X = ['var', 'x']
    hi = ['arith', 'idiv', X, ['int', 16]]
    items = [['int', k * 16 + i] for i, k in enumerate(keys)]
    if kf == 'abs':
        items = [['int', (k if i % 2 else -k)] for i, k in enumerate(keys)]
    S = ['seq', *items] if len(items) != 1 else items[0]
    if not items:
        S = ['empty']
    body = {
        'high': hi, 'low': ['arith', 'mod', X, ['int', 16]], 'neg-high': ['neg', hi],
        'mod3': ['arith', 'mod', hi, ['int', 3]], 'const': ['int', 0],
        'pair': ['seq', ['arith', 'mod', hi, ['int', 2]], hi],
        'empty-or-high': ['if', ['vcmp', 'eq', ['arith', 'mod', hi, ['int', 2]], ['int', 0]], ['empty'], hi],
        'string': ['call', 'string', [hi]],
        'double-nan': ['if', ['vcmp', 'eq', ['arith', 'mod', hi, ['int', 3]], ['int', 0]], ['dbl', 'NaN'], hi],
    }.get(kf)
    if kf == 'identity':
        return ['call', 'sort', [S]], None
    if kf == 'abs':
        keyfn = ['ref', 'abs', 1]
        if via == 'inline':
            keyfn = ['inline', ['x'], ['call', 'abs', [X]]]
    elif via == 'partial' and kf == 'high':
        keyfn = ['dyn', ['inline', ['x', 'd'], ['arith', 'idiv', X, ['var', 'd']]], [['?'], ['int', 16]]]
    elif via == 'named' and kf == 'string':
        keyfn = ['inline', ['x'], ['dyn', ['ref', 'string', 1], [hi]]]
    else:
        keyfn = ['inline', ['x'], body]
    if via == 'let':
        return ['let', [['k', keyfn]], ['call', 'sort', [S, ['empty'], ['var', 'k']]]], keyfn
    return ['call', 'sort', [S, ['empty'], keyfn]], keyfn


def judge_sort(case, rec: Recorder | None = None) -> list[Disc]:
    v = case['v']
    prog, keyfn = _sort_program(case)
    expr = interp.render(prog)
    exp, ip = ref_eval(prog, v)
    discs: list[Disc] = []
    kf = case['keyfn']
    ties = len(set(case['keys'])) < len(case['keys']) or kf in ('const', 'mod3', 'pair', 'empty-or-high', 'double-nan')
    if exp[0] == 'val':
        obs = base.run_ep(expr, v, False)
        kind = compare(exp, obs)
        if kind is not None:
            if obs[0] == 'val' and kind in ('value', 'length') or (obs[0] == 'val' and kind.startswith('type')):
                # classify: permutation / ordered / stable
                ev, ov = exp[1], obs[1]
                if sorted(map(canon, ev)) != sorted(map(canon, ov)):
                    kind = 'not-a-permutation'
                else:
                    ordered = True
                    if keyfn is not None:
                        ip2 = interp.Interp(v)
                        f = ip2.run(keyfn)[0]
                        ks = [interp.atomize(ip2.call(f, [[('i', o[1])]])) for o in ov]
                    else:
                        ks = [[('i', o[1])] for o in ov]
                    for a, b in zip(ks, ks[1:]):
                        if interp.sort_key_lt(b, a):
                            ordered = False
                    kind = 'not-stable' if ordered else 'not-ordered'
            elif kind == 'escape':
                kind = 'escape:' + type(obs[1]).__name__
            discs.append(Disc(f'C16/sort/{kf}/{kind}', _show(exp), _show(obs), f'{v}: {expr}'))
    if rec is not None:
        cls = ['sort:case', f'sort:key:{kf}', f'sort:via:{case["via"]}', f'sort:{exp[0]}'] + (['sort:ties'] if ties else [])
        rec.case([v, expr], nontrivial=len(case['keys']) >= 2 and exp[0] == 'val',
                 sample={'check': 'sort', 'expr': expr}, classes=cls)
    return discs


# --------------------------------------------------------------------------
# sort-hetero: items that are == and hash alike in python but are distinct XPath values
# --------------------------------------------------------------------------
def _het_keyfn(name):
    X = ['var', 'x']
    inst = lambda t: ['instance', X, t]                     # noqa: E731
    as_int = ['call', 'xs:integer', [X]]

    def rank(table, default):
        e = default
        for t, r in reversed(table):
            e = ['if', inst(t), r, e]
        return e
    ranks = [('xs:boolean', ['int', 4]), ('xs:integer', ['int', 3]), ('xs:decimal', ['int', 5]), ('xs:float', ['int', 2]),
             ('xs:double', ['int', 1]), ('xs:untypedAtomic', ['int', 7]), ('xs:anyURI', ['int', 6])]
    if name == 'bool-offset':       # the coordinator's example
        body = ['if', inst('xs:boolean'), ['arith', '+', ['int', 10], as_int], X]
    elif name == 'bool-last':
        body = ['if', inst('xs:boolean'), ['int', 99], X]
    elif name == 'type-rank':
        body = rank(ranks, ['int', 8])
    elif name == 'rank-plus-value':
        body = ['arith', '+', ['arith', '*', as_int, ['int', 10]], rank(ranks, ['int', 8])]
    elif name == 'neg-rank-plus-value':
        body = ['neg', ['arith', '+', ['arith', '*', rank(ranks, ['int', 8]), ['int', 10]], as_int]]
    elif name == 'rank-and-string':
        body = ['call', 'concat', [['call', 'string', [X]], rank([('xs:untypedAtomic', ['str', '1']), ('xs:anyURI', ['str', '2'])], ['str', '3'])]]
    elif name == 'string-only':
        body = ['call', 'string', [X]]
    else:
        raise ValueError(name)
    return ['inline', ['x'], body]


def _uncanon(c):
    t, v = c
    if t == 'd':
        return ('d', base._frac(v))
    if t in 'fD':
        return (t, float('nan') if v == 'NaN' else float(v))
    return (t, v)


def _flat(canon_seq_):
    out = []
    for it in canon_seq_:
        if it[0] == 'A':
            for m in it[1]:
                out.extend(m)
        else:
            out.append(it)
    return out


def judge_sort_hetero(case, rec: Recorder | None = None) -> list[Disc]:
    v, kf = case['v'], case['keyfn']
    keyfn = _het_keyfn(kf)
    items = case['items']
    if case['fn'] == 'sort':
        src = ['seq', *items]
    else:
        src = ['array', items]
    K = ['var', 'k'] if case['via'] == 'let' else keyfn
    call = ['call', case['fn'], [src, ['empty'], K]]
    prog = ['let', [['k', keyfn]], call] if case['via'] == 'let' else call
    expr = interp.render(prog)
    exp, ip = ref_eval(prog, v)
    discs: list[Disc] = []
    if exp[0] == 'val':
        want = _flat(exp[1])
        obs = base.run_ep(expr, v, False)
        kind = None
        if obs[0] == 'err':
            kind = f'unexpected-error:{obs[1]}'
        elif obs[0] == 'escape':
            kind = 'escape:' + type(obs[1]).__name__
        elif obs[1] != want:                       # strict: the type of every item matters here
            got = obs[1]
            if sorted(map(canon, got)) != sorted(map(canon, want)):
                kind = 'not-a-permutation'
            else:
                ip2 = interp.Interp(v)
                f = ip2.run(keyfn)[0]
                try:
                    ks = [interp.atomize(ip2.call(f, [[_uncanon(o)]])) for o in got]
                    ordered = not any(interp.sort_key_lt(b, a) for a, b in zip(ks, ks[1:]))
                except XPError:
                    ordered = False
                kind = 'not-stable' if ordered else 'not-ordered-by-key'
        if kind:
            discs.append(Disc(f'C16/sort-hetero/{kf}/{kind}', want, _show(obs), f'{v}: {expr}'))
    if rec is not None:
        tags = {it[0] for it in items}
        twins = any(canon(a) != canon(b) and a[0] != b[0] and _py_equal(a, b) for a in items for b in items)
        rec.case([v, expr], nontrivial=exp[0] == 'val' and len(items) >= 2,
                 sample={'check': 'sort-hetero', 'expr': expr},
                 classes=['sort-hetero:case', f'sort-hetero:key:{kf}', f'sort-hetero:{case["fn"]}', f'sort-hetero:{exp[0]}'] +
                         (['sort-hetero:python-equal-twins'] if twins else []) + (['sort-hetero:mixed-pool'] if len(tags) > 4 else []))
    return discs


def _py_equal(a, b):
    """the two literal items are equal (and hash alike) as python objects in elementpath's representation"""
    num = {'bool': lambda v: float(bool(v)), 'int': float, 'dec': float, 'dbl': float, 'flt': float}
    if a[0] in num and b[0] in num:
        return num[a[0]](a[1]) == num[b[0]](b[1])
    strs = ('str', 'unt', 'uri')
    return a[0] in strs and b[0] in strs and a[1] == b[1]


# --------------------------------------------------------------------------
# sort-collation: parser configuration axis (default collation), explicit / empty / absent $collation
# --------------------------------------------------------------------------
_COLL_URI = {'codepoint': interp.COLLATION_CODEPOINT, 'html-ascii': interp.COLLATION_HTML_ASCII}


def _collation_program(case):
    X = ['var', 'x']
    items = [['str', t] for t in case['items']]
    src = ['seq', *items] if case['fn'] == 'sort' else ['array', items]
    coll = case['coll']
    keyfn = {
        'none': None, 'identity': ['inline', ['x'], X], 'typed-identity': ['inline', [['x', 'xs:string']], X, 'xs:string'],
        'dup': ['inline', ['x'], ['call', 'concat', [X, X]]],
        'len-then-string': ['inline', ['x'], ['seq', ['call', 'string-length', [X]], X]],
        'string-then-len': ['inline', ['x'], ['seq', ['call', 'upper-case', [['call', 'substring', [X, ['int', 1], ['int', 1]]]]], X]],
    }[case['key']]
    if coll == 'absent':
        args = [src]
    else:
        C = ['empty'] if coll == 'empty' else ['str', _COLL_URI[coll]]
        args = [src, C] + ([keyfn] if keyfn is not None else [])
    form, name = case['form'], case['fn']
    if form == 'ref':
        return ['dyn', ['ref', name, len(args)], args]
    if form in ('static-partial', 'dyn-partial') and len(args) >= 2:
        holes = [['?']] + args[1:]
        f = ['call', name, holes] if form == 'static-partial' else ['dyn', ['ref', name, len(args)], holes]
        return ['dyn', f, [src]]
    if form == 'let-key' and len(args) == 3:
        return ['let', [['k', keyfn]], ['call', name, [src, args[1], ['var', 'k']]]]
    return ['call', name, args]


def judge_sort_collation(case, rec: Recorder | None = None) -> list[Disc]:
    v = case['v']
    prog = _collation_program(case)
    expr = interp.render(prog)
    default = _COLL_URI[case['default']]
    ip = CountingInterp(v, budget=40000, default_collation=default)
    discs: list[Disc] = []
    want = _flat(interp.canon_seq(ip.run(prog)))
    obs = base.run_ep(expr, v, False, default_collation=default)
    cls_ = f'{case["default"]}-default/{case["coll"]}'
    kind = None
    if obs[0] == 'err':
        kind = f'unexpected-error:{obs[1]}'
    elif obs[0] == 'escape':
        kind = 'escape:' + type(obs[1]).__name__
    elif obs[1] != want:
        kind = 'not-a-permutation' if sorted(map(canon, obs[1])) != sorted(map(canon, want)) else 'order'
    if kind:
        discs.append(Disc(f'C16/sort-collation/{cls_}/{kind}', want, _show(obs), f'default={case["default"]} {expr}'))
    # F&O: sort($s) is sort($s, default-collation(), data#1): the three spellings agree under one parser
    if case['fn'] == 'sort' and not kind:
        S = ['seq', *[['str', t] for t in case['items']]]
        rel = ['call', 'deep-equal', [['call', 'sort', [S]], ['call', 'sort', [S, ['empty'], ['inline', ['x'], ['var', 'x']]]]]]
        r = base.run_ep(interp.render(rel), v, False, default_collation=default)
        if r != ('val', [['b', True]]):
            discs.append(Disc(f'C16/sort-collation/{case["default"]}-default/deep-equal-of-spellings', True, _show(r),
                              interp.render(rel)))
    if rec is not None:
        lowered = [t.lower() for t in case['items']]
        differs = sorted(case['items']) != sorted(case['items'], key=lambda t: t.translate(interp._ASCII_LOWER)) or \
            len(set(lowered)) < len(set(case['items']))
        rec.case([case['default'], expr], nontrivial=len(case['items']) >= 2,
                 sample={'check': 'sort-collation', 'default_collation': case['default'], 'expr': expr},
                 classes=['sort-collation:case', f'sort-collation:default:{case["default"]}', f'sort-collation:arg:{case["coll"]}',
                          f'sort-collation:form:{case["form"]}', f'sort-collation:{case["fn"]}'] +
                         (['sort-collation:orders-differ'] if differs else []) +
                         (['sort-collation:empty-arg-nondefault'] if case['coll'] == 'empty' and case['default'] == 'html-ascii' else []))
    return discs


# --------------------------------------------------------------------------
# history: function items called repeatedly from python
# --------------------------------------------------------------------------
def _norm(r):
    if not isinstance(r, list):
        r = [r]
    return [base.obs_item(x) for x in r]


def judge_history(case, rec: Recorder | None = None) -> list[Disc]:
    from elementpath import XPathContext, ElementPathError
    v = case['v']
    parser = base._parser(v)()
    ctx = XPathContext(root=None, item=1)
    ip = CountingInterp(v, budget=40000)
    discs: list[Disc] = []
    ep_items, ref_items = [], []
    kind_ = case['kind']

    def load(j):
        prog = case['progs'][j]
        try:
            ref_fns = ip.run(prog)
        except (XPError, Budget):
            return
        try:
            if prog[0] == 'ref' and kind_ == 'named':
                got = [parser.get_function(prog[1], prog[2])]
            else:
                got = parser.parse(interp.render(prog)).evaluate(_copy(ctx))
                if not isinstance(got, list):
                    got = [got]
        except ElementPathError as e:
            discs.append(Disc(f'C16/history/{kind_}/evaluate/unexpected-error', 'function items', repr(e), interp.render(prog)))
            return
        except Exception as e:
            discs.append(Disc(escape_bucket('C16', e) + f'/history/{kind_}', 'function items', repr(e), interp.render(prog)))
            return
        if len(got) != len(ref_fns):
            discs.append(Disc(f'C16/history/{kind_}/evaluate/length', len(ref_fns), len(got), interp.render(prog)))
            return
        ep_items.extend(got)
        ref_items.extend(ref_fns)

    for j in range(len(case['progs'])):
        load(j)
    seen = {}
    repeat = False
    reported = set()
    for step, op in enumerate(case['ops']):
        if op[0] == 'reeval':
            load(op[1] % len(case['progs']))
            continue
        if not ep_items:
            break
        i = op[1] % len(ep_items)
        arg = op[2]
        try:
            want = ('val', interp.canon_seq(ip.call(ref_items[i], [[('i', arg)]])))
        except XPError as e:
            want = ('err', e.code, True)
        except Budget:
            continue
        try:
            got = ('val', _norm(ep_items[i](arg, context=_copy(ctx))))
        except ElementPathError as e:
            got = ('err', (getattr(e, 'code', None) or '?').split(':')[-1])
        except Exception as e:
            got = ('escape', e)
        kind = compare(want, got)
        fam = f'shared-token/{_family(ip)}/' if ip.stale_calls else ''
        if kind is not None:
            kk = 'escape:' + type(got[1]).__name__ if kind == 'escape' else kind.split(':')[0]
            b = f'C16/history/{fam}{kind_}/{kk}'
            if b not in reported:
                reported.add(b)
                discs.append(Disc(b, _show(want), _show(got), f'{v}: step {step} item {i} arg {arg}'))
        key = (i, arg)
        if key in seen:
            repeat = True
            if got[0] == 'val' and seen[key][0] == 'val' and got[1] != seen[key][1]:
                b = f'C16/history/{fam}{kind_}/same-call-different-result'
                if b not in reported:
                    reported.add(b)
                    discs.append(Disc(b, seen[key][1], got[1], f'{v}: step {step} item {i} arg {arg}'))
        else:
            seen[key] = got
    if rec is not None:
        cls = ['history:case', f'history:{kind_}'] + (['history:repeat-call'] if repeat else []) + \
              (['history:stale-call'] if ip.stale_calls else [])
        rec.case([v, case['progs'], case['ops']], nontrivial=len(ep_items) >= 2 and len(case['ops']) >= 3,
                 sample={'check': 'history', 'v': v, 'progs': [interp.render(p) for p in case['progs']], 'ops': case['ops']},
                 classes=cls)
    return discs


# --------------------------------------------------------------------------
# module interface
# --------------------------------------------------------------------------
from hypothesis import strategies as st   # noqa: E402


@st.composite
def _program_batch(draw):
    v = draw(st.sampled_from(['31', '31', '30']))
    return {'v': v, 'asts': [draw(c16_gen.program(v)) for _ in range(5)]}


@st.composite
def _closure_case(draw):
    v = draw(st.sampled_from(['31', '30']))
    c = draw(c16_gen.closure_program(v))
    return {'v': v, 'ast': c['ast'], 'pattern': c['pattern']}


def judge_misuse(case, rec: Recorder | None = None) -> list[Disc]:
    ast, v, kind_ = case['ast'], case['v'], case['kind']
    exp, ip = ref_eval(ast, v)
    expr = interp.render(ast)
    discs: list[Disc] = []
    if exp[0] != 'skip':
        obs = base.run_ep(expr, v, False)
        kind = compare(exp, obs)
        if kind is not None:
            kk = 'escape:' + type(obs[1]).__name__ if kind == 'escape' else kind
            discs.append(Disc(f'C16/misuse/{kind_}/{kk}', _show(exp), _show(obs), f'{v}: {expr}'))
    if rec is not None:
        rec.case([v, expr], nontrivial=exp[0] == 'err', sample={'check': 'misuse', 'v': v, 'expr': expr},
                 classes=['misuse:case', f'misuse:{kind_}', f'misuse:{exp[0]}'] +
                         (['misuse:error-demanded'] if exp[0] == 'err' and exp[2] else []))
    return discs


_STRATS = {'sort-collation': c16_gen.collation_sort_case(), 'sort-hetero': c16_gen.hetero_sort_case(), 'misuse': c16_gen.misuse_case(), 'closure': _closure_case(), 'expand': c16_gen.expansion_case(), 'sort': c16_gen.sort_case(),
           'history': c16_gen.history_case()}
_JUDGES = {'sort-collation': judge_sort_collation, 'sort-hetero': judge_sort_hetero, 'misuse': judge_misuse, 'closure': judge_closure, 'expand': judge_expand, 'sort': judge_sort, 'history': judge_history}


def selftest():
    interp.self_test()
    # the reference distinguishes the closures of one function expression
    clo = ['map', ['for', [['i', ['seq', ['int', 1], ['int', 2]]]], ['inline', [], ['var', 'i']]], ['dyn', ['ctx'], []]]
    exp, ip = ref_eval(clo, '31')
    assert exp == ('val', [['i', 1], ['i', 2]]) and ip.stale_calls == {'inline': 1}
    prog, keyfn = _sort_program({'keys': [2, 1, 2, 1], 'keyfn': 'high', 'via': 'inline'})
    exp, _ = ref_eval(prog, '31')
    assert [x[1] for x in exp[1]] == [17, 19, 32, 34], exp
    prog, _ = _sort_program({'keys': [1, 0, 3], 'keyfn': 'double-nan', 'via': 'inline'})
    assert [x[1] for x in ref_eval(prog, '31')[0][1]] == [1, 50, 16]          # NaN keys (0, 3) first, input order kept
    assert free_vars(['inline', ['x'], ['arith', '+', ['var', 'x'], ['var', 'i']]]) == {'i'}


def jobs(tier, seed):
    q = tier == 'quick'
    # measured cpu per shard (idle core): program 22 ms/example (5 programs), others 2-3 ms/case
    # quick: longest shard about 30 s cpu (60 s target with margin); thorough: about 10 min
    plan = [('program', 7, 1300 if q else 28000), ('closure', 3, 4000 if q else 60000), ('expand', 2, 5000 if q else 80000),
            ('sort', 1, 4000 if q else 70000), ('sort-hetero', 1, 2500 if q else 40000), ('sort-collation', 1, 2500 if q else 40000),
            ('history', 1, 5500 if q else 80000),
            ('misuse', 1, 3500 if q else 40000)]
    out = []
    for name, shards, n in plan:
        for i in range(shards):
            out.append({'check': name, 'shard': i, 'n': n, 'seed': derive_seed(seed, 'C16', name, i)})
    return out


def run_job(job, rec: Recorder):
    chk = job['check']
    if chk == 'program':
        def body(case):
            for ast in case['asts']:
                one = {'v': case['v'], 'ast': ast}
                rec.discs_of(chk, one, judge_program(one, rec))
        hyp_collect(_program_batch(), body, job['n'], job['seed'], rec)
        return
    jd = _JUDGES[chk]
    hyp_collect(_STRATS[chk], lambda case: rec.discs_of(chk, case, jd(case, rec)), job['n'], job['seed'], rec)


def judge(check, case):
    if check == 'program':
        if 'asts' in case:
            out = []
            for ast in case['asts']:
                out.extend(judge_program({'v': case['v'], 'ast': ast}))
            return out
        return judge_program(case)
    return _JUDGES[check](case)


def shrink_job(job, bucket, budget):
    chk = job['check']
    if chk == 'program':
        got = hyp_shrink(_program_batch(), lambda case: judge('program', case), bucket, job['n'], job['seed'], budget)
        if got is None:
            return None
        case, d = got
        for ast in case['asts']:
            one = {'v': case['v'], 'ast': ast}
            for dd in judge_program(one):
                if dd.bucket == bucket:
                    return one, dd
        return case, d
    return hyp_shrink(_STRATS[chk], _JUDGES[chk], bucket, job['n'], job['seed'], budget)
