"""C12 - XSD/XPath regular expressions translate to Python regexes with the same language;
fn:matches / replace / tokenize / analyze-string are mutually consistent."""
from __future__ import annotations

import os
import re
import warnings

from hypothesis import strategies as st

from vp.core import Disc, Recorder, HarnessError, derive_seed, hyp_collect, hyp_shrink, escape_bucket, canon
from vp.ref import regex as R
from vp.gen import c12_patterns as G

PROPERTY = 'C12'
LEVEL = 'exploration'
RULE = ('pattern ASTs over the XSD/XPath regex grammar (branches, quantifiers ? * + {n} {n,} {n,m} and reluctant '
        'forms, groups, back-references, anchors, single/multi-character escapes, \\p{..}, classes with ranges, '
        'negation, nested subtraction) are rendered to text; subjects (length 0-10) are sampled from the pattern, '
        'mutated, or drawn from an alphabet derived from it (literals, both neighbours of range ends, pool of '
        'boundary characters). Oracle: own parser + set-based and backtracking matchers (vp/ref/regex.py). '
        'non-trivial = pattern with a class using negation/subtraction/multi-char escape, a bounded quantifier, '
        'a back-reference or a flag, or an invalid pattern; distinct by (pattern, flags, mode, version, subject).')
ASSUMPTIONS = [
    "'.' without flag s excludes #xA and #xD (XSD and F&O 3.x text; F&O 2.0 excluded only #xA)",
    'Unicode categories are those of the running interpreter (unicodedata, same version as the package default)',
    '\\i and \\c are judged only on code points where XML 1.0 2nd and 5th edition agree (else no verdict)',
    "flag m: no verdict when the answer depends on whether '$' matches at the very end of a string ending in a newline",
    'match spans are compared only when the pattern has no repeated body that can match the empty string and no '
    'back-reference to a group inside a repetition/alternative (engines legitimately differ there); '
    'otherwise only the leftmost start and membership of the end in the set of possible ends',
    'a back-reference to a group that did not participate in the match, or to a group inside a quantified body '
    'that can match the empty string (a last empty iteration may or may not overwrite the capture): no verdict',
    'invalid patterns: only constructions that are invalid under XSD 1.0, XSD 1.1 and F&O grammars alike',
    "case-insensitive mode: case-variants by fn:lower-case/fn:upper-case = python str.lower()/str.upper()",
    'fn check: subjects consist of XML characters only; with flag q the replacement string is literal (F&O 3.1); '
    'function results are compared with the reference only on subjects where translate_pattern + re already '
    'agrees with it (translation defects belong to the xsd/xpath/cls checks); captured groups ($N, fn:group) '
    'are not judged',
    'flag x: ignorable white space is generated between pieces and inside classes, not inside {n,m} or \\p{..}',
    'patterns whose class algebra takes seconds to translate ([huge set-[negated class]]) are generated rarely '
    'and skipped by the fn check (performance is not part of the property)',
]
FLOORS = {
    'pat:checked': (0.90, 'pat:any'),
    'xpath:ref-match': (0.25, 'xpath:subject'), 'xpath:ref-nomatch': (0.15, 'xpath:subject'),
    'xsd:ref-match': (0.20, 'xsd:subject'), 'xsd:ref-nomatch': (0.15, 'xsd:subject'),
    'cls:ref-match': (0.15, 'cls:subject'), 'cls:ref-nomatch': (0.15, 'cls:subject'),
    'xpath:span-compared': (0.15, 'xpath:subject'),
    'feat:cls-neg': (0.10, 'pat:checked'), 'feat:cls-sub': (0.07, 'pat:checked'), 'feat:ref': (0.01, 'pat:checked'),
    'feat:lazy': (0.03, 'pat:checked'), 'feat:q{n,m}': (0.03, 'pat:checked'), 'feat:alt': (0.05, 'pat:checked'),
    'feat:grp': (0.05, 'pat:checked'), 'flag:i': (0.08, 'pat:checked'), 'flag:m': (0.05, 'pat:checked'),
    'flag:x': (0.05, 'pat:checked'), 'flag:s': (0.05, 'pat:checked'),
    'invalid:checked': (0.90, 'invalid:any'),
    'fn:partitioned': (0.35, 'fn:subject'), 'fn:pattern-matches-empty': (0.08, 'fn:subject'),
}

warnings.simplefilter('ignore', FutureWarning)
_PYFLAGS = {'s': re.S, 'm': re.M, 'i': re.I, 'x': re.X}


# --------------------------------------------------------------------------
# implementation side
# --------------------------------------------------------------------------
class _Impl:
    """translate_pattern + re.compile of one pattern; status: ok / rejected / pyerror / escape"""

    def __init__(self, text, flags, xpath, ver):
        from elementpath.regex import translate_pattern, RegexError
        pyflags = 0
        for c in flags:
            pyflags |= _PYFLAGS[c]
        self.compiled = None
        self.detail = ''
        try:
            if xpath:
                self.py = translate_pattern(text, pyflags, ver)
            else:
                self.py = translate_pattern(text, pyflags, ver, back_references=False, lazy_quantifiers=False,
                                            anchors=False)
        except RegexError as e:
            self.status, self.detail = 'valid-rejected', str(e)
            return
        except Exception as e:
            self.status, self.detail = escape_bucket(PROPERTY, e).split('/', 1)[1], repr(e)
            return
        try:
            self.compiled = re.compile(self.py, pyflags)
            self.status = 'ok'
        except (re.error, OverflowError, RecursionError) as e:
            self.status, self.detail = 'py-compile-error', f'{e} <- {self.py[:80]!r}'


# --------------------------------------------------------------------------
# one (pattern, subject) verdict
# --------------------------------------------------------------------------
def _ref_result(parsed, flags, s, xpath, **model):
    """xsd: ('full', bool);  xpath: ('search', None | (start, end, ends|None))   raises Undecided"""
    variants = [True, False] if ('m' in flags and R._has(parsed.node, 'eol')) else [True]
    results = []
    for strict in variants:
        mt = R.Matcher(parsed, flags, strict, **model)
        if not xpath:
            a = mt.lang_fullmatch(s)
            if not model:
                b = mt.bt_fullmatch(s)
                if a != b:
                    raise HarnessError(f'reference matchers disagree on {parsed.text!r} / {s!r}')
            results.append(('full', a))
            continue
        bt = mt.bt_search(s)
        if mt.has_ref:
            results.append(('search', None if bt is None else (bt[0], bt[1], None)))
        else:
            lr = mt.lang_search(s)
            if (lr is None) != (bt is None) or (lr is not None and (lr[0] != bt[0] or bt[1] not in lr[1])):
                raise HarnessError(f'reference matchers disagree on {parsed.text!r} / {s!r}: {lr} {bt}')
            results.append(('search', None if bt is None else (bt[0], bt[1], lr[1])))
    if len(results) == 2 and results[0] != results[1]:
        raise R.Undecided("multi-line '$' at the end of a string that ends with a newline")
    return results[0]


def _compare(ref, m, xpath, ambiguous):
    """reference result vs python match object -> None | (kind, expected, observed)"""
    if not xpath:
        if ref[1] != (m is not None):
            return ('impl-nomatch' if ref[1] else 'impl-match'), ref[1], m is not None
        return None
    want = ref[1]
    if (want is None) != (m is None):
        return ('impl-match' if want is None else 'impl-nomatch'), want and want[:2], m and m.span()
    if want is None:
        return None
    if not ambiguous:
        if m.span() != want[:2]:
            return 'span', want[:2], m.span()
    elif want[2] is not None:
        if m.start() != want[0] or m.end() not in want[2]:
            return 'span-impossible', (want[0], sorted(want[2])), m.span()
    return None


# defect models: alternative semantics that reproduce a recorded root cause exactly (ref/regex.py);
# a discrepancy that one of them explains goes to that model's bucket, nothing else does
_MODELS = [('py-sw-outside-class', {'py_sw': True}), ('py-casefold', {'py_fold': True}),
           ('py-sw-outside-class+py-casefold', {'py_sw': True, 'py_fold': True})]


def _has_sw_outside(node):
    t = node[0]
    if t == 'set':
        return node[1][0] == 'esc' and node[1][1] in 'sSwW'
    if t in ('seq', 'alt'):
        return any(_has_sw_outside(x) for x in node[1])
    if t in ('rep', 'ncg'):
        return _has_sw_outside(node[1])
    if t == 'grp':
        return _has_sw_outside(node[2])
    return False


def _eval_one(parsed, impl, flags, s, xpath, ambiguous):
    """None | (kind, expected, observed, model|None); raises Undecided"""
    if impl.status != 'ok':
        return impl.status, 'translates and compiles', impl.detail, None
    ref = _ref_result(parsed, flags, s, xpath)
    try:
        m = impl.compiled.search(s)
    except Exception as e:       # e.g. RecursionError inside re
        return 'py-match-raises:' + type(e).__name__, 'a verdict', repr(e), None
    r = _compare(ref, m, xpath, ambiguous)
    if r is None:
        return None
    sw = _has_sw_outside(parsed.node)
    for name, opts in _MODELS:
        if ('py_sw' in opts and not sw) or ('py_fold' in opts and 'i' not in flags):
            continue
        # (an Undecided raised by a model propagates: the discrepancy cannot be attributed, no verdict)
        if _compare(_ref_result(parsed, flags, s, xpath, **opts), m, xpath, ambiguous) is None:
            return r + (name,)
    return r + (None,)


class _Ctx:
    """parse + translate cache for one judge call (the minimiser re-evaluates many variants)"""

    def __init__(self):
        self.cache = {}

    def prepare(self, ast, flags, xpath, ver, generated):
        """-> (parsed, impl, ambiguous) or None when the AST is not a clean valid pattern"""
        xflag = 'x' in flags
        try:
            text = G.render(ast, xpath, xflag)
        except (ValueError, IndexError, TypeError):
            return None
        key = (text, flags, xpath, ver)
        if key in self.cache:
            return self.cache[key]
        res = None
        try:
            parsed = R.parse(text, xpath=xpath, xsd_version=ver, flags=flags)
            node, ngroups = G.to_ref(ast, xpath, xflag)
        except (R.RefRegexError, ValueError):
            parsed = None
        if parsed is not None and not parsed.doubts and not R.backref_engine_dependent(parsed.node):
            if parsed.node != node or parsed.ngroups != ngroups:
                if generated:
                    raise HarnessError(f'reference parser and generator disagree on {text!r}: {parsed.node} vs {node}')
            else:
                res = (parsed, _Impl(text, flags, xpath, ver), R.preference_ambiguous(parsed.node), text)
        self.cache[key] = res
        return res

    def kind(self, ast, flags, xpath, ver, s):
        p = self.prepare(ast, flags, xpath, ver, False)
        if p is None:
            return None
        try:
            r = _eval_one(p[0], p[1], flags, s, xpath, p[2])
        except R.Undecided:
            return None
        return r[0] if r and r[3] is None else None     # failures explained by a defect model do not count


_VERDICT_KINDS = ('impl-match', 'impl-nomatch', 'span', 'span-impossible')


def _kind_class(kind):
    return 'verdict' if kind in _VERDICT_KINDS else kind.split(':')[0]


def _minimise(ctx, ast, flags, xpath, ver, s, kind, budget=250):
    """greedy structural minimisation keeping the same class of discrepancy (deterministic).
    The kind may drift inside the class 'verdict' (match / no match / span): one root cause, one minimum."""
    kc = _kind_class(kind)
    subject_free = kc != 'verdict'

    def fails(a, f, v, subj):
        k = ctx.kind(a, f, xpath, v, subj)
        return k if k is not None and _kind_class(k) == kc else None

    def near_subjects(subj):
        yield subj
        if subject_free:
            return
        seen = {subj}
        for k in range(len(subj)):
            for c in (subj[k], subj[:k] + subj[k + 1:]):
                if c not in seen:
                    seen.add(c)
                    yield c

    if subject_free:
        s = ''
    compiles = 0
    changed = True
    while changed and compiles < budget:
        changed = False
        for f in flags:
            f2 = flags.replace(f, '')
            compiles += 1
            k = fails(ast, f2, ver, s)
            if k:
                flags, kind, changed = f2, k, True
                break
        if changed:
            continue
        if ver != '1.0':
            compiles += 1
            k = fails(ast, flags, '1.0', s)
            if k:
                ver, kind, changed = '1.0', k, True
                continue
        for cand in G.shrinks(ast):
            compiles += 1
            if compiles > budget:
                break
            if ctx.prepare(cand, flags, xpath, ver, False) is None:
                continue
            for s2 in near_subjects(s):
                k = fails(cand, flags, ver, s2)
                if k:
                    ast, s, kind, changed = cand, s2, k, True
                    break
            if changed:
                break
    if not subject_free:
        done = False
        for ln in range(len(s)):
            for i in range(len(s) - ln + 1):
                k = fails(ast, flags, ver, s[i:i + ln])
                if k:
                    s, kind, done = s[i:i + ln], k, True
                    break
            if done:
                break
    return ast, flags, ver, s, kind


def _bucket(check, ast, flags, xpath, ver, s, kind):
    feats = G.features(ast)
    sig = '+'.join(feats) or 'empty'
    mode = ('xpath' if xpath else 'xsd') + ('' if ver == '1.0' else '-1.1')
    cls = [f for f in feats if f.startswith('cls(')]
    inner = set(','.join(cls).replace('(', ',').replace(')', ',').split(','))
    # input classes of recorded root causes (decided on the minimised pattern, so the feature is necessary)
    if inner & {'r:esc-start', 'r:esc-end-nrt'}:
        return f'C12/{check}/class-range-endpoint-written-as-escape/{_kind_class(kind)}'
    if 'r:bs-end+esc' in inner:
        return f'C12/{check}/class-range-ending-in-backslash-followed-by-escape/{_kind_class(kind)}'
    if 'x' in flags and 'lit:#' in feats:
        return f'C12/{check}/xflag-hash-character/{_kind_class(kind)}'
    if 'i' in flags and _kind_class(kind) == 'verdict':
        if inner & {'sw', 'SW', 'd', 'D', 'ic', 'IC', 'cat', 'CAT', 'blk', 'BLK', 'blk-hy', 'BLK-hy'}:
            return f'C12/{check}/icase-class-with-escape/{kind}'
        if any('sub(' in f for f in cls):
            return f'C12/{check}/icase-class-subtraction/{kind}'
    return f'C12/{check}/{sig}/{mode}/f={flags}/{kind}'


# --------------------------------------------------------------------------
# language checks: xsd, xpath, cls
# --------------------------------------------------------------------------
def _judge_lang(check, case, rec: Recorder | None = None) -> list[Disc]:
    ast, flags, xpath, ver = case['ast'], case['flags'], case['xpath'], case['ver']
    ctx = _Ctx()
    discs: list[Disc] = []
    if rec is not None:
        rec.cls('pat:any')
    prep = ctx.prepare(ast, flags, xpath, ver, True)
    if prep is None:
        if rec is not None:
            rec.cls('pat:skipped-doubt-or-malformed')
        return discs
    parsed, impl, ambiguous, text = prep
    feats = G.features(ast)
    nontriv = G.nontrivial(ast, flags)
    if rec is not None:
        rec.cls('pat:checked')
        for f in feats:
            rec.cls('feat:' + (f if not f.startswith('cls(') else 'cls'))
            if f.startswith('cls('):
                for k in ('neg', 'sub'):
                    if k in f:
                        rec.cls('feat:cls-' + k)
        for f in flags:
            rec.cls('flag:' + f)
        if ambiguous:
            rec.cls('pat:span-ambiguous')
    seen_buckets = set()
    nfail = 0
    for s in case['subjects']:
        classes = [check + ':subject']
        try:
            r = _eval_one(parsed, impl, flags, s, xpath, ambiguous)
        except R.Undecided as e:
            classes.append(check + ':undecided')
            r = None
        else:
            if impl.status == 'ok':
                ref = _ref_result(parsed, flags, s, xpath)[1]
                classes.append(check + (':ref-match' if ref else ':ref-nomatch'))
                if xpath and ref and not ambiguous:
                    classes.append(check + ':span-compared')
        if rec is not None:
            rec.case([text, flags, xpath, ver, s], nontrivial=nontriv, classes=classes,
                     sample={'check': check, 'pattern': text, 'flags': flags, 'xsd_version': ver, 'subject': s})
        if r is not None and r[3] is not None:
            b = f'C12/{check}/model:{r[3]}/{r[0]}'
            if b not in seen_buckets:
                seen_buckets.add(b)
                discs.append(Disc(b, r[1], r[2], f'pattern={text!r} flags={flags!r} subject={s!r} python={impl.py[:60]!r}'))
        elif r is not None:
            kind, exp, obs, _ = r
            if nfail >= 2:
                continue
            nfail += 1
            mast, mflags, mver, ms, mkind = _minimise(ctx, ast, flags, xpath, ver, s, kind,
                                                      budget=30 if G.slow_algebra(ast) else 250)
            b = _bucket(check, mast, mflags, xpath, mver, ms, mkind)
            if b not in seen_buckets:
                seen_buckets.add(b)
                discs.append(Disc(b, exp, obs, f'pattern={text!r} flags={flags!r} subject={s!r} minimal: '
                                  f'{G.render(mast, xpath, "x" in mflags)!r} flags={mflags!r} on {ms!r} python={impl.py[:60] if impl.status != "valid-rejected" and hasattr(impl, "py") else impl.detail[:80]!r}'))
            if impl.status != 'ok':
                break       # independent of the subject
    return discs


def judge_xsd(case, rec=None):
    return _judge_lang('xsd', case, rec)


def judge_xpath(case, rec=None):
    return _judge_lang('xpath', case, rec)


def judge_cls(case, rec=None):
    ast, ver = case['ast'], case['ver']
    flags = 'i' if case.get('icase') else ''
    probe = []
    for ch in G.alphabet(ast, flags) + G.POOL:
        if ch not in probe:
            probe.append(ch)
    full = {'ast': ast, 'flags': flags, 'xpath': bool(flags), 'ver': ver, 'subjects': probe}
    if flags:
        # anchored on both sides so that 'search' decides membership of the single character
        full['ast'] = ['seq', [['bol'], ast, ['eol']]]
        full['subjects'] = [c for c in probe if c != '\n']
    return _judge_lang('cls', full, rec)


# --------------------------------------------------------------------------
# invalid patterns and flags
# --------------------------------------------------------------------------
_FN_EXPR = {'matches': 'matches($s, $p, $f)', 'tokenize': 'tokenize($s, $p, $f)',
            'replace': 'replace($s, $p, $r, $f)', 'analyze-string': 'analyze-string($s, $p, $f)'}
_FN_EXPR2 = {'matches': 'matches($s, $p)', 'tokenize': 'tokenize($s, $p)',
             'replace': 'replace($s, $p, $r)', 'analyze-string': 'analyze-string($s, $p)'}
_tokens: dict = {}


def _token(xp, ver, name, short=False):
    key = (xp, ver, name, short)
    t = _tokens.get(key)
    if t is None:
        if xp == '2.0':
            from elementpath import XPath2Parser as P
        else:
            from elementpath.xpath31 import XPath31Parser as P
        t = _tokens[key] = P(xsd_version=ver).parse((_FN_EXPR2 if short else _FN_EXPR)[name])
    return t


def _call(xp, ver, name, s, p, f, r='$0', short=False):
    """('ok', value) | ('err', code) | ('escape', bucket-suffix, repr)"""
    from elementpath import XPathContext, ElementPathError
    try:
        tok = _token(xp, ver, name, short)
        val = tok.evaluate(XPathContext(item='', variables={'s': s, 'p': p, 'f': f, 'r': r}))
    except ElementPathError as e:
        code = (e.code or '').split(':')[-1]
        return ('err', code)
    except Exception as e:
        return ('escape', escape_bucket(PROPERTY, e).split('/', 1)[1], repr(e))
    if name == 'analyze-string':
        ns = '{http://www.w3.org/2005/xpath-functions}'
        parts = []
        for ch in val.elem:
            parts.append([ch.tag == ns + 'match', ''.join(ch.itertext())])
            if ch.tag not in (ns + 'match', ns + 'non-match') or (ch.tail or ''):
                return ('ok', [['bad-structure', ch.tag]])
        if (val.elem.text or '') != '':
            return ('ok', [['bad-structure', 'text']])
        return ('ok', parts)
    if name == 'tokenize':
        return ('ok', list(val) if isinstance(val, list) else [val])
    return ('ok', val)


def judge_invalid(case, rec: Recorder | None = None) -> list[Disc]:
    from elementpath.regex import translate_pattern, RegexError
    discs: list[Disc] = []
    rc, text = case['recipe'], case['text']
    if rc in ('bad-flag', 'flag-q-xpath20'):
        if rc == 'bad-flag':
            discs += _fn_error_discs('C12/invalid/bad-flag', 'FORX0001', _FN_EXPR, '3.1', '1.0', case['subject'], text,
                                     case['flags'], canon(case))
        else:
            discs += _fn_error_discs('C12/invalid/flag-q-xpath20', 'FORX0001', ('matches', 'tokenize', 'replace'), '2.0',
                                     '1.0', case['subject'], text, case['flags'], canon(case))
        if rec is not None:
            rec.case([rc, text, case['flags'], case['subject']], nontrivial=True, classes=['invalid:flag'],
                     sample={'check': 'invalid', **case})
        return discs
    xpath, ver = case['xpath'], case['ver']
    mode = 'xpath' if xpath else 'xsd'
    try:
        parsed = R.parse(text, xpath=xpath, xsd_version=ver)
    except R.RefRegexError:
        parsed = None
    if rec is not None:
        rec.cls('invalid:any')
    if parsed is not None:
        # the recipe did not produce an invalid pattern (e.g. the suffix completed a quantity): no verdict
        if rec is not None:
            rec.cls('invalid:reference-accepts')
        return discs
    if rec is not None:
        rec.case([text, xpath, ver], nontrivial=True, classes=['invalid:checked', 'invalid:' + rc],
                 sample={'check': 'invalid', **case})
    kw = {} if xpath else {'back_references': False, 'lazy_quantifiers': False, 'anchors': False}
    try:
        py = translate_pattern(text, 0, ver, **kw)
    except RegexError:
        py = None
    except Exception as e:
        discs.append(Disc(f'C12/invalid/{rc}/{mode}/{escape_bucket(PROPERTY, e).split("/", 1)[1]}', 'RegexError', repr(e), text))
        py = None
    if py is not None:
        try:
            re.compile(py)
            out = 'py-accepts'
        except (re.error, OverflowError, RecursionError):
            out = 'py-rejects'
        discs.append(Disc(f'C12/invalid/{rc}/{mode}/translate-accepts:{out}', 'RegexError', py[:120], f'pattern={text!r} xsd_version={ver}'))
    if xpath:
        discs += _fn_error_discs(f'C12/invalid/{rc}', 'FORX0002', _FN_EXPR, '3.1', ver, 'a', text, '',
                                 f'pattern={text!r} xsd_version={ver}')
    return discs


def _fn_error_discs(prefix, code, names, xp, ver, s, p, f, detail):
    """every function in `names` must raise `code`; one Disc per distinct wrong outcome (functions listed)"""
    outcomes: dict = {}
    for name in names:
        r = _call(xp, ver, name, s, p, f)
        if r == ('err', code):
            continue
        o = r[1] if r[0] == 'escape' else 'no-error' if r[0] == 'ok' else 'wrong-code:' + r[1]
        outcomes.setdefault(o, []).append(name)
    return [Disc(f'{prefix}/fn:{"all" if len(fs) == len(names) else ",".join(fs)}/{o}', code, o, detail)
            for o, fs in sorted(outcomes.items())]


@st.composite
def _invalid_strategy(draw):
    k = draw(st.integers(0, 19))
    if k == 0:
        return draw(G.badflag_case())
    if k == 1:
        return {'recipe': 'flag-q-xpath20', 'flags': draw(st.sampled_from(['q', 'qi', 'iq'])),
                'text': draw(st.sampled_from(['a', 'a.b', '('])), 'subject': draw(st.sampled_from(['a', 'a.b', '']))}
    return draw(G.invalid_case())


# --------------------------------------------------------------------------
# fn: matches / tokenize / replace / analyze-string
# --------------------------------------------------------------------------
def _tokens_of(parts, s):
    """fn:tokenize result implied by a match/non-match partition (F&O 5.6.4)"""
    if s == '':
        return []
    out, cur = [], ''
    for is_match, txt in parts:
        if is_match:
            out.append(cur)
            cur = ''
        else:
            cur += txt
    out.append(cur)
    return out


def _ref_partition(parsed, flags, s, **model):
    variants = [True, False] if ('m' in flags and R._has(parsed.node, 'eol')) else [True]
    res = [[[m, s[a:b]] for m, a, b in R.Matcher(parsed, flags, st_, **model).partition(s)] for st_ in variants]
    if len(res) == 2 and res[0] != res[1]:
        raise R.Undecided("multi-line '$'")
    return res[0]


def _ref_nullable(parsed, flags):
    variants = [True, False] if ('m' in flags and R._has(parsed.node, 'eol')) else [True]
    res = [R.Matcher(parsed, flags, st_).bt_search('') is not None for st_ in variants]
    if len(set(res)) > 1:
        raise R.Undecided("multi-line '$'")
    return res[0]


def _fn_eval(parsed, impl, ambiguous, text, flags, ver, s, short):
    """list of (kind, expected, observed) for one subject; raises Undecided"""
    out = []
    nullable = _ref_nullable(parsed, flags)
    res = {}
    for name in _FN_EXPR:
        res[name] = _call('3.1', ver, name, s, text, flags, '$0', short)
    res['replace[]'] = _call('3.1', ver, 'replace', s, text, flags, '[$0]', short)
    for name, r in res.items():
        if r[0] == 'escape':
            out.append((f'{name}/{r[1]}', 'a value or an XPath error', r[2]))
    lang_level = False
    if nullable:
        for name in ('tokenize', 'replace', 'analyze-string'):
            r = res[name]
            if r[0] == 'ok':
                out.append((f'{name}/missing-FORX0003', 'FORX0003', r[1]))
            elif r[0] == 'err' and r[1] != 'FORX0003':
                out.append((f'{name}/wrong-code:{r[1]}', 'FORX0003', r[1]))
        r = res['matches']
        if r[0] == 'err':
            out.append((f'matches/unexpected-error:{r[1]}', 'a boolean', r[1]))
        return out, lang_level
    for name, r in res.items():
        if r[0] == 'err':
            out.append((f'{name}/unexpected-error:{r[1]}', 'a value', r[1]))
    if any(r[0] != 'ok' for r in res.values()):
        return out, lang_level
    M, T, RP, RB, A = res['matches'][1], res['tokenize'][1], res['replace'][1], res['replace[]'][1], res['analyze-string'][1]
    # mutual consistency
    if A and A[0][0] == 'bad-structure':
        out.append(('analyze-string/structure', 'match / non-match children only', A[0][1]))
        return out, lang_level
    if ''.join(t for _, t in A) != s:
        out.append(('analyze-string/concat', s, ''.join(t for _, t in A)))
    if any(t == '' for _, t in A):
        out.append(('analyze-string/empty-part', 'non-empty parts', A))
    if M != any(m for m, _ in A):
        out.append(('matches-vs-analyze-string', any(m for m, _ in A), M))
    if T != _tokens_of(A, s):
        out.append(('tokenize-vs-analyze-string', _tokens_of(A, s), T))
    qf = 'q' in flags        # F&O 3.1 fn:replace: with flag q the replacement string is used as is
    if not qf and RP != s:
        out.append(('replace-$0-identity', s, RP))
    want_rb = ''.join(('[$0]' if qf else '[' + t + ']') if m else t for m, t in A)
    if RB != want_rb:
        out.append(('replace-vs-analyze-string', want_rb, RB))
    # against the reference - unless the translated pattern itself (translate_pattern + re, the business of the
    # xpath check) already partitions this subject differently from the reference
    if not ambiguous:
        wp = _ref_partition(parsed, flags, s)
        if impl is not None and _py_partition(impl.compiled, s) != wp:
            lang_level = True
        else:
            if M != any(m for m, _ in wp):
                out.append(('matches-vs-reference', any(m for m, _ in wp), M))
            if A != wp:
                out.append(('analyze-string-vs-reference', wp, A))
    else:
        want = _ref_result(parsed, flags, s, True)[1] is not None
        if impl is not None and (impl.compiled.search(s) is not None) != want:
            lang_level = True
        elif M != want:
            out.append(('matches-vs-reference', want, M))
    return out, lang_level


def _py_partition(compiled, s):
    out, k, n = [], 0, len(s)
    while k < n:
        m = compiled.search(s, k)
        if m is None:
            break
        if m.end() == m.start():
            raise R.Undecided('zero-length match inside a non-empty string')
        if m.start() > k:
            out.append([False, s[k:m.start()]])
        out.append([True, s[m.start():m.end()]])
        k = m.end()
    if k < n:
        out.append([False, s[k:]])
    return out


def judge_fn(case, rec: Recorder | None = None) -> list[Disc]:
    ast, flags, ver, short = case['ast'], case['flags'], case['ver'], bool(case.get('short')) and case['flags'] == ''
    discs: list[Disc] = []
    q = 'q' in flags
    xflag = 'x' in flags and not q
    if rec is not None:
        rec.cls('pat:any')

    def prepare(a, f, v):
        try:
            text = G.render(a, True, 'x' in f and 'q' not in f)
            parsed = R.parse(text, xpath=True, xsd_version=v, flags=f)
            if 'q' not in f:
                node, ng = G.to_ref(a, True, 'x' in f)
                if parsed.doubts or node != parsed.node or ng != parsed.ngroups or R.backref_engine_dependent(node):
                    return None
        except (R.RefRegexError, ValueError, IndexError, TypeError):
            return None
        impl = None
        if 'q' not in f:
            impl = _Impl(text, f, True, v)
            if impl.status != 'ok':
                return None        # valid-rejected etc. belong to the xpath/xsd checks
        return parsed, impl, R.preference_ambiguous(parsed.node), text

    cache = {}

    def evaluate(a, f, v, s):
        key = canon([a, f, v])
        if key not in cache:
            cache[key] = prepare(a, f, v)
        p = cache[key]
        if p is None:
            return None
        try:
            return _fn_eval(p[0], p[1], p[2], p[3], f, v, s, short and f == '')
        except R.Undecided:
            return None

    if G.slow_algebra(ast):
        # one translation of such a class takes seconds and every function call translates again
        if rec is not None:
            rec.cls('pat:fn-skipped-slow-class-algebra')
        return discs
    p0 = prepare(ast, flags, ver)
    cache[canon([ast, flags, ver])] = p0
    if p0 is None:
        if rec is not None:
            rec.cls('pat:skipped-doubt-or-malformed-or-rejected')
        return discs
    if rec is not None:
        rec.cls('pat:checked')
        for f in flags:
            rec.cls('flag:' + f)
    text = p0[3]
    nontriv = G.nontrivial(ast, flags)
    seen = set()
    nmin = 0
    kinds_done = set()
    for s in case['subjects']:
        r = evaluate(ast, flags, ver, s)
        classes = ['fn:subject']
        if r is None:
            classes.append('fn:undecided')
        else:
            try:
                classes.append('fn:pattern-matches-empty' if _ref_nullable(p0[0], flags) else 'fn:partitioned')
            except R.Undecided:
                pass
            if r[1]:
                classes.append('fn:reference-comparison-left-to-xpath-check')
        if rec is not None:
            rec.case(['fn', text, flags, ver, s], nontrivial=nontriv, classes=classes,
                     sample={'check': 'fn', 'pattern': text, 'flags': flags, 'xsd_version': ver, 'subject': s})
        if not r or not r[0]:
            continue
        for kind, exp, obs in r[0]:
            if nmin >= 3 or kind in kinds_done:
                continue
            raw = (kind, _subj_sig(s), 'grp' in G.features(ast), 'q' in flags)
            if rec is not None:         # only while collecting: judge() stays pure for replay and shrinking
                _FN_RAW_SEEN[raw] = _FN_RAW_SEEN.get(raw, 0) + 1
            if rec is not None and _FN_RAW_SEEN[raw] > 8:
                # cost bound: the same kind on the same raw subject/pattern class was already attributed 8 times
                # by this shard; further ones are counted, not minimised again
                if rec is not None:
                    rec.cls('fn:discrepancy-of-an-already-attributed-raw-class')
                continue
            nmin += 1
            kinds_done.add(kind)

            def fails(a, f, v, subj, kc=kind):
                rr = evaluate(a, f, v, subj)
                return bool(rr and any(k == kc for k, _, _ in rr[0]))
            mast, mflags, ms = _minimise_fn(fails, ast, flags, ver, s)
            feats = G.features(mast)
            pcls = ('flag-q' if 'q' in mflags else 'nested-group-in-repeated-group' if _nested_in_repeated(mast)
                    else 'capturing-group' if 'grp' in feats else 'any-pattern')
            b = f'C12/fn/{kind}/{_subj_sig(ms)}/{pcls}'
            # input classes of two recorded root causes (flags are minimised, so both are necessary)
            if 'q' in mflags and 'x' in mflags:
                b = f'C12/fn/flags-q-and-x/{kind.split(":")[0]}'
            elif 'x' in mflags and 'lit:#' in feats:
                b = f'C12/fn/xflag-hash-character/{kind.split(":")[0]}'
            elif pcls == 'nested-group-in-repeated-group':
                b = f'C12/fn/nested-group-in-repeated-group/{kind.split(":")[0]}'
            if b not in seen:
                seen.add(b)
                discs.append(Disc(b, exp, obs, f'pattern={text!r} flags={flags!r} subject={s!r} minimal subject {ms!r} '
                                  f'flags={mflags!r}'))
    return discs


def _nested_in_repeated(n, in_rep_grp=False, under_rep=False):
    """a capturing group inside a capturing group that is itself quantified (input class of a recorded defect)"""
    t = n[0]
    if t == 'grp':
        if in_rep_grp:
            return True
        return _nested_in_repeated(n[1], under_rep, False)
    if t == 'rep':
        return _nested_in_repeated(n[1], in_rep_grp, True)
    if t == 'ncg':
        return _nested_in_repeated(n[1], in_rep_grp, under_rep)
    if t in ('seq', 'alt'):
        return any(_nested_in_repeated(x, in_rep_grp, under_rep) for x in n[1])
    return False


_FN_RAW_SEEN: dict = {}


def _minimise_fn(fails, ast, flags, ver, s):
    """function-level discrepancies are classified by the subject, the flags and whether a capturing group is
    needed: shortest failing substring, fewest flags, groups turned into (?:..) where the failure persists"""
    done = False
    for ln in (0, 1, 2, 3):
        if ln >= len(s):
            break
        for i in range(len(s) - ln + 1):
            if fails(ast, flags, ver, s[i:i + ln]):
                s, done = s[i:i + ln], True
                break
        if done:
            break
    for f in flags:
        f2 = flags.replace(f, '')
        if fails(ast, f2, ver, s):
            flags = f2

    def ungroup(n):
        """yield variants with one capturing group made non-capturing"""
        t = n[0]
        if t == 'grp':
            yield ['ncg', n[1]]
            for y in ungroup(n[1]):
                yield ['grp', y]
        elif t in ('seq', 'alt'):
            for k, x in enumerate(n[1]):
                for y in ungroup(x):
                    yield [t, n[1][:k] + [y] + n[1][k + 1:]]
        elif t == 'ncg':
            for y in ungroup(n[1]):
                yield ['ncg', y]
        elif t == 'rep':
            for y in ungroup(n[1]):
                yield ['rep', y] + n[2:]
    changed = True
    while changed:
        changed = False
        for cand in ungroup(ast):
            if fails(cand, flags, ver, s):
                ast, changed = cand, True
                break
    return ast, flags, s


def _subj_sig(s):
    """coarse class of the minimal subject for function-level buckets (one class, by priority)"""
    if any(c in '<&' for c in s) or ']]>' in s:
        return 's:xml-special'
    if '\r' in s:
        return 's:cr'
    if '\\' in s or '$' in s:
        return 's:backslash-or-dollar'
    return 's:plain' if s else 's:empty'


_FN_FLAGS = ['', '', '', 's', 'm', 'i', 'x', 'sm', 'ix', 'q', 'qi', 'qx', 'smix', 'mi']


@st.composite
def _fn_strategy(draw):
    case = draw(G.pattern_case(True, nsubj=5, xml_only=True, flag_sets=_FN_FLAGS, max_atoms=7,
                               extra_chars=['<', '&', '\\', '$', 'a', ' '], light=True))
    case['short'] = draw(st.booleans())
    return case


_XPATH_FLAGS = [f for f in G.FLAG_SETS if 'q' not in f]
_STRATS = {
    'xsd': G.pattern_case(False),
    'xpath': G.pattern_case(True, flag_sets=_XPATH_FLAGS),
    'cls': G.class_case(),
    'invalid': _invalid_strategy(),
    'fn': _fn_strategy(),
}
_JUDGES = {'xsd': judge_xsd, 'xpath': judge_xpath, 'cls': judge_cls, 'invalid': judge_invalid, 'fn': judge_fn}


# --------------------------------------------------------------------------
# module interface
# --------------------------------------------------------------------------
def selftest():
    R.self_test()
    # renderer / converter round trip on a fixed AST
    ast = ['seq', [['grp', ['alt', [['seq', [['lit', 'a']]], ['seq', [['cls', True, [['r', 'a', 'c'], ['mce', 'D']],
                                                                    ['cls', False, [['c', 'b']], None]]]]]]],
                   ['rep', ['ref', 1], 1, 2, True, '{n,m}'], ['lit', '.'], ['eol']]]
    text = G.render(ast, True)
    assert text == '(a|[^a-c\\D-[b]])\\1{1,2}?\\.$', text
    assert R.parse(text).node == G.to_ref(ast, True)[0]
    assert 'cls(D,neg,r,sub(c))' in G.features(ast), G.features(ast)


def jobs(tier, seed):
    q = tier == 'quick'
    plan = {'xsd': (3, 2000 if q else 20000), 'xpath': (4, 2000 if q else 20000), 'cls': (3, 1800 if q else 20000),
            'invalid': (2, 4000 if q else 50000), 'fn': (4, 1500 if q else 16000)}
    out = []
    only = os.environ.get('VERIF_C12_CHECKS')       # development aid (sensitivity runs): restrict the sub-checks
    if only:
        plan = {k: v for k, v in plan.items() if k in only.split(',')}
        FLOORS.clear()      # the floors are stated for the complete plan
    for chk, (shards, n) in plan.items():
        for i in range(shards):
            out.append({'check': chk, 'shard': i, 'n': n, 'seed': derive_seed(seed, PROPERTY, chk, i)})
    return out


def run_job(job, rec: Recorder):
    chk = job['check']
    jd = _JUDGES[chk]
    hyp_collect(_STRATS[chk], lambda case: rec.discs_of(chk, case, jd(case, rec)), job['n'], job['seed'], rec)


def shrink_job(job, bucket, budget):
    chk = job['check']
    # every judge call already minimises the failing (pattern, subject) pair to name the bucket, so the
    # hypothesis shrink pass only needs to tidy the case up: small budgets (judge calls past the first failure)
    budget = min(budget, 20 if chk == 'fn' else 100)
    return hyp_shrink(_STRATS[chk], _JUDGES[chk], bucket, job['n'], job['seed'], budget)


def judge(check, case):
    return _JUDGES[check](case)
